(* C16 case language (usize arguments range over the whole of [0, 2^64)):
   (16 1 shape datalen)                       Tensor::try_from over data [0..datalen)
   (16 2 strict shape ranges probes)          TensorRange::from / from_strict over a tensor, ranges = ((name start len)…)
   (16 3 strict shape masks probes)           TensorMask::from / from_strict
   (16 4 shape names probes)                  TensorReverse::from + checked getters
   (16 5 rows cols (rs rl cs cl) probes)      MatrixRange::from + try_get_reference
   (16 6 rows cols (rs rl cs cl) rrev crev probes)   MatrixReverse over that MatrixRange
   (16 7 rows cols (rs rl cs cl) n0 n1)       TensorRefMatrix::with_names over that MatrixRange
   (16 8 rows cols)                           Matrix::try_into_scalar
   (16 9 rows cols probes)                    checked element access directly on a Matrix (all forms)
   (16 10 rows cols n)                        RecordMatrix::from_iter / from_iters over n constant records
   (16 11 shape n)                            RecordTensor::from_iter over n constant records
   (16 14 term probes)                        views over ZERO-SIZED-element leaves (lengths up to
                                              usize::MAX): subset of the term language (leaf, range /
                                              mask from_all(_strict), reverse, stack, chain; harness
                                              harness/src/c16/zst.rs); result as op 12 with (1) for
                                              every present probe; never a value, never an iteration
   (16 12 term probes)                        EVERY view adaptor / composition as the receiver of the
                                              checked getters: `term` is the view-term language of C02
                                              (Run/RunC02.v: (0 id shape) leaf, (1|2 t params) range /
                                              mask, (3 t sel) index, (4 t extra) expansion, (5..8 t names)
                                              rename / reverse / access / transpose, (9 ts pos n k) stack,
                                              (10 ts n k) chain, (11 t k) Box / &mut / dyn / record /
                                              &S wrappers, (12 id r c n0 n1) matrix-backed), run by the
                                              C02 model Model/Views.v (v_ctor, c_shape, c_get).
                                              result: (0 (shape (probe ...))), probe = (0 ()) | (0 (v)),
                                              or the failing constructor's (1 e) | (2)
   (16 13 kind shape streams)                 from_iter / from_iters::<N> over N = 1..3 streams of records
                                              given by their history tags (0 constant, 1 / 2 a variable
                                              of WengertList 1 / 2), all streams of one length; kind 0
                                              RecordTensor, 1 RecordMatrix (shape = ((0 rows) (1 cols))).
                                              result per stream: (0 (shape tag)) | (1 (0)) Empty |
                                              (1 (1 shape n)) Shape | (1 (2 first later)) InconsistentHistory
   The model is evaluated with dev-build (overflow-checking) arithmetic; Proofs/C16P.v shows it
   cannot panic and coincides with wrapping arithmetic, so one result serves both profiles. *)
From Coq Require Import List ZArith NArith Bool.
From EasyML Require Import Base.Sx Model.Shape Model.U64 Model.Fallible Model.FallibleApi Model.Views
     Model.RecordCollect.
Import ListNotations.

(* ---- the core view-term language of C02 (decoder as in Run/RunC02.v, core forms only) ---- *)
Definition dvrange (s : sx) : option irange :=
  match s with
  | SL [a; b] => match dN a, dN b with Some x, Some y => Some (mkR x y) | _, _ => None end
  | _ => None
  end.
Definition dvnamed (s : sx) : option (name * irange) :=
  match s with
  | SL [n; a; b] =>
      match dnat n, dN a, dN b with Some n, Some x, Some y => Some (n, mkR x y) | _, _, _ => None end
  | _ => None
  end.
Definition dvparams (s : sx) : option rparams :=
  match s with
  | SL [SZ 0%Z; strict; l] =>
      match dbool strict, dlist dvnamed l with Some b, Some l => Some (PNamed b l) | _, _ => None end
  | SL [SZ 1%Z; strict; l] =>
      match dbool strict, dlist (dopt dvrange) l with Some b, Some l => Some (PAll b l) | _, _ => None end
  | _ => None
  end.
Fixpoint dvterm (fuel : nat) (s : sx) : option view :=
  match fuel with
  | O => None
  | S f =>
      match s with
      | SL [SZ 0%Z; id; sh] =>
          match dN id, dshape sh with Some id, Some sh => Some (VTensor id sh) | _, _ => None end
      | SL [SZ 12%Z; id; r; c; n0; n1] =>
          match dN id, dN r, dN c, dnat n0, dnat n1 with
          | Some id, Some r, Some c, Some n0, Some n1 => Some (VMatrix id r c n0 n1)
          | _, _, _, _, _ => None
          end
      | SL [SZ 1%Z; t; p] =>
          match dvterm f t, dvparams p with Some v, Some p => Some (VRange v p) | _, _ => None end
      | SL [SZ 2%Z; t; p] =>
          match dvterm f t, dvparams p with Some v, Some p => Some (VMask v p) | _, _ => None end
      | SL [SZ 3%Z; t; ps] =>
          match dvterm f t, dlist (dpair dnat dN) ps with
          | Some v, Some ps => Some (VIndex v ps) | _, _ => None end
      | SL [SZ 4%Z; t; es] =>
          match dvterm f t, dlist (dpair dnat dnat) es with
          | Some v, Some es => Some (VExpand v es) | _, _ => None end
      | SL [SZ 5%Z; t; ns] =>
          match dvterm f t, dnames ns with Some v, Some ns => Some (VRename v ns) | _, _ => None end
      | SL [SZ 6%Z; t; ns] =>
          match dvterm f t, dnames ns with Some v, Some ns => Some (VReverse v ns) | _, _ => None end
      | SL [SZ 7%Z; t; ns] =>
          match dvterm f t, dnames ns with Some v, Some ns => Some (VAccess v ns) | _, _ => None end
      | SL [SZ 8%Z; t; ns] =>
          match dvterm f t, dnames ns with Some v, Some ns => Some (VTranspose v ns) | _, _ => None end
      | SL [SZ 9%Z; SL ts; pos; n; SZ _] =>
          match sequence (map (dvterm f) ts), dnat pos, dnat n with
          | Some vs, Some pos, Some n => Some (VStack vs pos n) | _, _, _ => None end
      | SL [SZ 10%Z; SL ts; n; SZ _] =>
          match sequence (map (dvterm f) ts), dnat n with
          | Some vs, Some n => Some (VChain vs n) | _, _ => None end
      | SL [SZ 11%Z; t; SZ _] =>
          match dvterm f t with Some v => Some (VWrap v) | None => None end
      | _ => None
      end
  end.
Fixpoint vterm_leaf_ids (v : view) : list N :=
  match v with
  | VTensor id _ => [id]
  | VMatrix id _ _ _ _ => [id]
  | VRange v _ | VMask v _ | VIndex v _ | VExpand v _ | VRename v _ | VReverse v _
  | VAccess v _ | VTranspose v _ | VWrap v => vterm_leaf_ids v
  | VStack vs _ _ | VChain vs _ => flat_map vterm_leaf_ids vs
  end.
Fixpoint nodup_N (l : list N) : bool :=
  match l with [] => true | x :: r => negb (existsb (N.eqb x) r) && nodup_N r end.

(* checked element access with ANY constructible view as the receiver *)
Definition adaptor_case (v : view) (probes : list (list N)) : sx :=
  match v_ctor v with
  | Ok c =>
      if forallb (fun p => Nat.eqb (length p) (length (c_shape c))) probes
      then SL [SZ 0; SL [sshape (c_shape c);
                         slist (fun p => SL [SZ 0; sopt (fun e => SZ (leaf_value e)) (c_get c p)]) probes]]
      else bad_case
  | Err e => SL [SZ 1; e]
  | Panic => SL [SZ 2]
  end.

(* op 14: views over leaves with a ZERO-SIZED element type (dimension lengths up to usize::MAX are
   constructible in O(1) memory): constructor outcome, shape and PRESENCE only.  A leaf whose
   element count does not fit usize cannot be built (the Vec's length is a usize): bad case. *)
Fixpoint vterm_leaf_shapes (v : view) : list shape :=
  match v with
  | VTensor _ sh => [sh]
  | VMatrix _ _ _ _ _ => []
  | VRange v _ | VMask v _ | VIndex v _ | VExpand v _ | VRename v _ | VReverse v _
  | VAccess v _ | VTranspose v _ | VWrap v => vterm_leaf_shapes v
  | VStack vs _ _ | VChain vs _ => flat_map vterm_leaf_shapes vs
  end.
Definition zst_case (v : view) (probes : list (list N)) : sx :=
  if negb (forallb (fun sh => match checked_elements sh with Some _ => true | None => false end)
                   (vterm_leaf_shapes v)) then bad_case else
  match v_ctor v with
  | Ok c =>
      if forallb (fun p => Nat.eqb (length p) (length (c_shape c))) probes
      then SL [SZ 0; SL [sshape (c_shape c);
                         slist (fun p => SL [SZ 0; sopt (fun _ => SZ 1) (c_get c p)]) probes]]
      else bad_case
  | Err e => SL [SZ 1; e]
  | Panic => SL [SZ 2]
  end.

Definition m0 := Debug.

Definition dnamed_ranges (s : sx) : option (list (nat * index_range)) :=
  dlist (fun x => match x with
                  | SL [n; a; b] => match dnat n, dN a, dN b with
                                    | Some n, Some a, Some b => Some (n, mkRange a b)
                                    | _, _, _ => None end
                  | _ => None end) s.
Definition d4 (s : sx) : option (index_range * index_range) :=
  match s with
  | SL [a; b; c; d] => match dN a, dN b, dN c, dN d with
                       | Some a, Some b, Some c, Some d => Some (mkRange a b, mkRange c d)
                       | _, _, _, _ => None end
  | _ => None
  end.
Definition dpair_idx (s : sx) : option (N * N) := dpair dN dN s.

Definition view_result (ctor : outcome (shape * list index_range))
           (getter : shape -> list index_range -> list N -> outcome (option N))
           (sh : shape) (probes : list (list N)) : sx :=
  soutcome (fun p => SL [sshape (fst p);
                         slist (fun i => soutcome (sopt sN) (getter sh (snd p) i)) probes]) ctor.

Definition run_c16 (args : list sx) : sx :=
  match args with
  | [SZ 1%Z; sh; len] =>
      match dshape sh, dN len with
      | Some sh, Some len =>
          if validate_dimensions sh len then SL [SZ 0; sshape sh] else SL [SZ 1; sshape sh]
      | _, _ => bad_case
      end
  | [SZ 2%Z; strict; sh; rs; probes] =>
      match dbool strict, dshape sh, dnamed_ranges rs, dlist didx probes with
      | Some strict, Some sh, Some rs, Some probes =>
          if forallb (fun p => Nat.eqb (length p) (length sh)) probes
          then view_result (tensor_range strict sh rs) (tensor_range_get m0) sh probes
          else bad_case
      | _, _, _, _ => bad_case
      end
  | [SZ 3%Z; strict; sh; rs; probes] =>
      match dbool strict, dshape sh, dnamed_ranges rs, dlist didx probes with
      | Some strict, Some sh, Some rs, Some probes =>
          if forallb (fun p => Nat.eqb (length p) (length sh)) probes
          then view_result (tensor_mask m0 strict sh rs) (tensor_mask_get m0) sh probes
          else bad_case
      | _, _, _, _ => bad_case
      end
  | [SZ 4%Z; sh; names; probes] =>
      match dshape sh, dnames names, dlist didx probes with
      | Some sh, Some names, Some probes =>
          if forallb (fun p => Nat.eqb (length p) (length sh)) probes
          then soutcome (fun rv => slist (fun i => soutcome (sopt sN) (tensor_reverse_get m0 sh rv i)) probes)
                        (tensor_reverse sh names)
          else bad_case
      | _, _, _ => bad_case
      end
  | [SZ 5%Z; rows; cols; r4; probes] =>
      match dN rows, dN cols, d4 r4, dlist dpair_idx probes with
      | Some rows, Some cols, Some (rr, cr), Some probes =>
          slist (fun p => soutcome (fun t => SL [sN (fst (fst t)); sN (snd (fst t)); sopt sN (snd t)])
                                   (matrix_range_get m0 rows cols rr cr (fst p) (snd p))) probes
      | _, _, _, _ => bad_case
      end
  | [SZ 6%Z; rows; cols; r4; rrev; crev; probes] =>
      match dN rows, dN cols, d4 r4, dbool rrev, dbool crev, dlist dpair_idx probes with
      | Some rows, Some cols, Some (rr, cr), Some rrev, Some crev, Some probes =>
          slist (fun p => soutcome (sopt sN) (matrix_reverse_get m0 rows cols rr cr rrev crev (fst p) (snd p))) probes
      | _, _, _, _, _, _ => bad_case
      end
  | [SZ 7%Z; rows; cols; r4; n0; n1] =>
      match dN rows, dN cols, d4 r4, dnat n0, dnat n1 with
      | Some rows, Some cols, Some (rr, cr), Some n0, Some n1 =>
          soutcome sshape (with_names rows cols rr cr n0 n1)
      | _, _, _, _, _ => bad_case
      end
  | [SZ 8%Z; rows; cols] =>
      match dN rows, dN cols with
      | Some rows, Some cols => soutcome sN (try_into_scalar rows cols)
      | _, _ => bad_case
      end
  | [SZ 10%Z; rows; cols; n] =>
      (* collect_into_components: Empty for no records; then Some(n) == rows.checked_mul(cols) *)
      match dN rows, dN cols, dN n with
      | Some rows, Some cols, Some n =>
          if (n =? 0)%N then SL [SZ 1; SL [SZ 0]]
          else match checked_mul rows cols with
               | Some p => if (p =? n)%N then SL [SZ 0; SL [sN rows; sN cols]]
                           else SL [SZ 1; SL [SZ 1; sN rows; sN cols; sN n]]
               | None => SL [SZ 1; SL [SZ 1; sN rows; sN cols; sN n]]
               end
      | _, _, _ => bad_case
      end
  | [SZ 11%Z; sh; n] =>
      match dshape sh, dN n with
      | Some sh, Some n =>
          if (n =? 0)%N then SL [SZ 1; SL [SZ 0]]
          else if validate_dimensions sh n then SL [SZ 0; sshape sh]
          else SL [SZ 1; SL [SZ 1; sshape sh; sN n]]
      | _, _ => bad_case
      end
  | [SZ 12%Z; t; probes] =>
      match dvterm 40 t, dlist didx probes with
      | Some v, Some probes => if nodup_N (vterm_leaf_ids v) then adaptor_case v probes else bad_case
      | _, _ => bad_case
      end
  | [SZ 14%Z; t; probes] =>
      match dvterm 40 t, dlist didx probes with
      | Some v, Some probes => zst_case v probes
      | _, _ => bad_case
      end
  | [SZ 13%Z; kind; sh; streams] =>
      match dbool kind, dshape sh, dlist (dlist dN) streams with
      | Some kind, Some sh, Some (s0 :: rest) =>
          if forallb (fun t => Nat.eqb (length t) (length s0)) rest
             && Nat.leb (length rest) 2
             && forallb (forallb (fun t => t <=? 2)%N) (s0 :: rest)
          then
            let enc := slist (soutcome (fun r : shape * N => SL [sshape (fst r); sN (snd r)])) in
            if kind then
              match sh with
              | [(O, rows); (S O, cols)] => enc (record_matrix_from_iters rows cols (s0 :: rest))
              | _ => bad_case
              end
            else enc (record_tensor_from_iters sh (s0 :: rest))
          else bad_case
      | _, _, _ => bad_case
      end
  | [SZ 9%Z; rows; cols; probes] =>
      match dN rows, dN cols, dlist dpair_idx probes with
      | Some rows, Some cols, Some probes =>
          slist (fun p => soutcome (sopt sN) (matrix_try_index m0 rows cols (fst p) (snd p))) probes
      | _, _, _ => bad_case
      end
  | _ => bad_case
  end.
