(* C16 case language (usize arguments range over the whole of [0, 2^64)):
   (16 1 shape datalen)                       Tensor::try_from over data [0..datalen)
   (16 2 strict shape ranges probes)          TensorRange::from / from_strict over a tensor, ranges = ((name start len)…)
   (16 3 strict shape masks probes)           TensorMask::from / from_strict
   (16 4 shape names probes)                  TensorReverse::from + checked getters
   (16 5 rows cols (rs rl cs cl) probes)      MatrixRange::from + try_get_reference
   (16 6 rows cols (rs rl cs cl) rrev crev probes)   MatrixReverse over that MatrixRange
   (16 7 rows cols (rs rl cs cl) n0 n1)       TensorRefMatrix::with_names over that MatrixRange
   (16 8 rows cols)                           Matrix::try_into_scalar
   (16 9 rows cols probes)                    checked element access directly on a Matrix (all forms)
   (16 10 rows cols n)                        RecordMatrix::from_iter / from_iters over n constant records
   (16 11 shape n)                            RecordTensor::from_iter over n constant records
   The model is evaluated with dev-build (overflow-checking) arithmetic; Proofs/C16P.v shows it
   cannot panic and coincides with wrapping arithmetic, so one result serves both profiles. *)
From Coq Require Import List ZArith NArith Bool.
From EasyML Require Import Base.Sx Model.Shape Model.U64 Model.Fallible Model.FallibleApi.
Import ListNotations.

Definition m0 := Debug.

Definition dnamed_ranges (s : sx) : option (list (nat * index_range)) :=
  dlist (fun x => match x with
                  | SL [n; a; b] => match dnat n, dN a, dN b with
                                    | Some n, Some a, Some b => Some (n, mkRange a b)
                                    | _, _, _ => None end
                  | _ => None end) s.
Definition d4 (s : sx) : option (index_range * index_range) :=
  match s with
  | SL [a; b; c; d] => match dN a, dN b, dN c, dN d with
                       | Some a, Some b, Some c, Some d => Some (mkRange a b, mkRange c d)
                       | _, _, _, _ => None end
  | _ => None
  end.
Definition dpair_idx (s : sx) : option (N * N) := dpair dN dN s.

Definition view_result (ctor : outcome (shape * list index_range))
           (getter : shape -> list index_range -> list N -> outcome (option N))
           (sh : shape) (probes : list (list N)) : sx :=
  soutcome (fun p => SL [sshape (fst p);
                         slist (fun i => soutcome (sopt sN) (getter sh (snd p) i)) probes]) ctor.

Definition run_c16 (args : list sx) : sx :=
  match args with
  | [SZ 1%Z; sh; len] =>
      match dshape sh, dN len with
      | Some sh, Some len =>
          if validate_dimensions sh len then SL [SZ 0; sshape sh] else SL [SZ 1; sshape sh]
      | _, _ => bad_case
      end
  | [SZ 2%Z; strict; sh; rs; probes] =>
      match dbool strict, dshape sh, dnamed_ranges rs, dlist didx probes with
      | Some strict, Some sh, Some rs, Some probes =>
          if forallb (fun p => Nat.eqb (length p) (length sh)) probes
          then view_result (tensor_range strict sh rs) (tensor_range_get m0) sh probes
          else bad_case
      | _, _, _, _ => bad_case
      end
  | [SZ 3%Z; strict; sh; rs; probes] =>
      match dbool strict, dshape sh, dnamed_ranges rs, dlist didx probes with
      | Some strict, Some sh, Some rs, Some probes =>
          if forallb (fun p => Nat.eqb (length p) (length sh)) probes
          then view_result (tensor_mask m0 strict sh rs) (tensor_mask_get m0) sh probes
          else bad_case
      | _, _, _, _ => bad_case
      end
  | [SZ 4%Z; sh; names; probes] =>
      match dshape sh, dnames names, dlist didx probes with
      | Some sh, Some names, Some probes =>
          if forallb (fun p => Nat.eqb (length p) (length sh)) probes
          then soutcome (fun rv => slist (fun i => soutcome (sopt sN) (tensor_reverse_get m0 sh rv i)) probes)
                        (tensor_reverse sh names)
          else bad_case
      | _, _, _ => bad_case
      end
  | [SZ 5%Z; rows; cols; r4; probes] =>
      match dN rows, dN cols, d4 r4, dlist dpair_idx probes with
      | Some rows, Some cols, Some (rr, cr), Some probes =>
          slist (fun p => soutcome (fun t => SL [sN (fst (fst t)); sN (snd (fst t)); sopt sN (snd t)])
                                   (matrix_range_get m0 rows cols rr cr (fst p) (snd p))) probes
      | _, _, _, _ => bad_case
      end
  | [SZ 6%Z; rows; cols; r4; rrev; crev; probes] =>
      match dN rows, dN cols, d4 r4, dbool rrev, dbool crev, dlist dpair_idx probes with
      | Some rows, Some cols, Some (rr, cr), Some rrev, Some crev, Some probes =>
          slist (fun p => soutcome (sopt sN) (matrix_reverse_get m0 rows cols rr cr rrev crev (fst p) (snd p))) probes
      | _, _, _, _, _, _ => bad_case
      end
  | [SZ 7%Z; rows; cols; r4; n0; n1] =>
      match dN rows, dN cols, d4 r4, dnat n0, dnat n1 with
      | Some rows, Some cols, Some (rr, cr), Some n0, Some n1 =>
          soutcome sshape (with_names rows cols rr cr n0 n1)
      | _, _, _, _, _ => bad_case
      end
  | [SZ 8%Z; rows; cols] =>
      match dN rows, dN cols with
      | Some rows, Some cols => soutcome sN (try_into_scalar rows cols)
      | _, _ => bad_case
      end
  | [SZ 10%Z; rows; cols; n] =>
      (* collect_into_components: Empty for no records; then Some(n) == rows.checked_mul(cols) *)
      match dN rows, dN cols, dN n with
      | Some rows, Some cols, Some n =>
          if (n =? 0)%N then SL [SZ 1; SL [SZ 0]]
          else match checked_mul rows cols with
               | Some p => if (p =? n)%N then SL [SZ 0; SL [sN rows; sN cols]]
                           else SL [SZ 1; SL [SZ 1; sN rows; sN cols; sN n]]
               | None => SL [SZ 1; SL [SZ 1; sN rows; sN cols; sN n]]
               end
      | _, _, _ => bad_case
      end
  | [SZ 11%Z; sh; n] =>
      match dshape sh, dN n with
      | Some sh, Some n =>
          if (n =? 0)%N then SL [SZ 1; SL [SZ 0]]
          else if validate_dimensions sh n then SL [SZ 0; sshape sh]
          else SL [SZ 1; SL [SZ 1; sshape sh; sN n]]
      | _, _ => bad_case
      end
  | [SZ 9%Z; rows; cols; probes] =>
      match dN rows, dN cols, dlist dpair_idx probes with
      | Some rows, Some cols, Some probes =>
          slist (fun p => soutcome (sopt sN) (matrix_try_index m0 rows cols (fst p) (snd p))) probes
      | _, _, _ => bad_case
      end
  | _ => bad_case
  end.
