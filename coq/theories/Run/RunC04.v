(* Case decoder / result encoder for property C04 (same language: harness/src/c04.rs and
   harness/src/c04/prog.rs, generator tools/props/c04.py).

     (4 1 ty body outputs)
   ty      element type tag: 0 = Rat (numbers are (num den)), 1 = Fp (numbers are residues)
   body    list of SSA instructions; instruction k may only refer to instructions < k:
             (0 x)        Record::variable(x, &list)
             (1 c)        Record::constant(c)
             (2 o a b)    record_a (op) record_b     o: 0 +, 1 -, 2 *, 3 /, 4 pow
             (3 o a c)    record_a (op) number c
             (4 o c b)    number c (op) record_b     o: 1 sub_swapped, 3 div_swapped, 4 c.pow(b)
             (5 u a)      u: 0 neg, 1 sin, 2 cos, 3 exp, 4 ln, 5 sqrt
             (6 (a ...))  [a ...].into_iter().sum()
             (7 f a)      a.unary(F, dF)      f indexes user1_table (Model/AD.v)
             (8 f a b)    a.binary(&b, F, dFx, dFy)   f indexes user2_table
   outputs list of instruction positions to observe
   result  ( ( (number is_constant index derivs) per output ) (index of every variable) )
           derivs = ()                      for a constant (try_derivatives = None)
                  | ( (d/dx_i per variable) (the complete derivative vector) )            *)
From Coq Require Import List ZArith NArith Bool Arith.
From EasyML Require Import Base.Sx Model.Num Model.Tape Model.AD.
Import ListNotations.

Section Dec.
Context {R : Type} (ops : numops R).

Definition dbop (s : sx) : option bop :=
  match s with
  | SZ 0%Z => Some BAdd | SZ 1%Z => Some BSub | SZ 2%Z => Some BMul | SZ 3%Z => Some BDiv
  | SZ 4%Z => Some BPow | _ => None
  end.
Definition dcop (s : sx) : option cop :=
  match s with
  | SZ 1%Z => Some CSub | SZ 3%Z => Some CDiv | SZ 4%Z => Some CPow | _ => None
  end.
Definition duop (s : sx) : option uop :=
  match s with
  | SZ 0%Z => Some UNeg | SZ 1%Z => Some USin | SZ 2%Z => Some UCos | SZ 3%Z => Some UExp
  | SZ 4%Z => Some ULn | SZ 5%Z => Some USqrt | _ => None
  end.

Definition dinstr (s : sx) : option (instr R) :=
  match s with
  | SL [SZ 0%Z; x] => option_map (@IVar R) (ndec ops x)
  | SL [SZ 1%Z; c] => option_map (@IConst R) (ndec ops c)
  | SL [SZ 2%Z; o; a; b] =>
      match dbop o, dnat a, dnat b with
      | Some o, Some a, Some b => Some (IBin o a b) | _, _, _ => None end
  | SL [SZ 3%Z; o; a; c] =>
      match dbop o, dnat a, ndec ops c with
      | Some o, Some a, Some c => Some (IBinC o a c) | _, _, _ => None end
  | SL [SZ 4%Z; o; c; b] =>
      match dcop o, ndec ops c, dnat b with
      | Some o, Some c, Some b => Some (ICBin o c b) | _, _, _ => None end
  | SL [SZ 5%Z; u; a] =>
      match duop u, dnat a with Some u, Some a => Some (IUn u a) | _, _ => None end
  | SL [SZ 6%Z; l] => option_map (@ISum R) (dlist dnat l)
  | SL [SZ 7%Z; SZ f; a] =>
      match user1_table ops f, dnat a with
      | Some F, Some a => Some (IUser1 (f1 F) (f1dx F) a) | _, _ => None end
  | SL [SZ 8%Z; SZ f; a; b] =>
      match user2_table ops f, dnat a, dnat b with
      | Some F, Some a, Some b => Some (IUser2 (f2 F) (f2dx F) (f2dy F) a b)
      | _, _, _ => None end
  | _ => None
  end.

Definition dprog (s : sx) : option (list (instr R)) :=
  match dlist dinstr s with
  | Some p => if prog_ok p then Some p else None
  | None => None
  end.

Definition c04_run (prog : list (instr R)) (outs : list nat) : sx :=
  let st := run_prog ops prog in
  let nodes := fst st in
  let vars := map (getr ops nodes) (var_nodes prog) in
  SL [ slist (fun o =>
         let r := getr ops nodes o in
         SL [ nenc ops (number r); sbool (negb (history r)); snat (index r);
              sopt (fun d => SL [slist (fun x => nenc ops (at_ ops d x)) vars; slist (nenc ops) d])
                   (try_derivatives ops st o) ]) outs;
       slist (fun x => snat (index x)) vars ].

Definition c04_case (body outs : sx) : sx :=
  match dprog body, dlist dnat outs with
  | Some prog, Some outs =>
      if forallb (fun o => Nat.ltb o (length prog)) outs then c04_run prog outs else bad_case
  | _, _ => bad_case
  end.
End Dec.

(* (4 2 body outputs): FLOAT ORACLE.  The same program language with numbers (m e) = m * 2^e taken
   as f64; the harness runs it through Record and Trace in every ownership form and reports three
   flags checked on the Rust side only (all forms agree bit for bit; forward derivative = reverse
   derivative for every variable wherever every local partial derivative is finite; numbers = the
   plain f64 computation, +0.0 and -0.0 being the same number, compared on the pole-free domain:
   every node that is not at or downstream of a division by (+/-)0 or a negative power of (+/-)0
   in the plain run -- the only places where the sign of a zero is observable, and outside "the
   functions' domains" of the property; harness/src/c04/prog.rs in_pole_free_domain).  No float is ever compared with the model: the model validates the case
   (any pair of integers decodes as a number) and answers the expected flags (1 1 1). *)
Definition float_flags : sx := SL [SZ 1%Z; SZ 1%Z; SZ 1%Z].
Definition c04_float_case (body outs : sx) : sx :=
  match dprog Qops body, dlist dnat outs with
  | Some prog, Some outs =>
      if forallb (fun o => Nat.ltb o (length prog)) outs then float_flags else bad_case
  | _, _ => bad_case
  end.

Definition run_c04 (args : list sx) : sx :=
  match args with
  | [SZ 1%Z; SZ ty; body; outs] => with_ty ty (fun R ops => c04_case ops body outs)
  | [SZ 2%Z; body; outs] => c04_float_case body outs
  | _ => bad_case
  end.
