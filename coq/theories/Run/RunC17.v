(* Case decoder / result encoder for property C17 (same language: harness/src/c17.rs,
   tools/props/c17.py).  ty = 0 (Rat) | 1 (Fp), both with the polynomial stand-ins for
   sqrt / ln / sin / cos / exp / pow / pi, so every result is compared exactly.
     (17 1 ty mean var x)                 Gaussian::new(mean, var).probability(x)  -> value
     (17 2 ty mean var k source)          Gaussian::new(mean, var).draw(source, k)
                                          -> (option-list consumed)   consumed = how many numbers
                                             of `source` the call took
     (17 3 ty k mean cov source (ns nf))  multivariate draws of k samples; mean, cov are matrices
                                          (lists of rows, rectangular, at least 1 x 1):
                                          -> ( M T )
                                          M = outcome of MultivariateGaussian::new(mean, cov)
                                              [panic (2)] of outcome of draw(source, k) of
                                              (option-rows consumed)
                                          T = outcome of MultivariateGaussianTensor::new(flattened
                                              mean, cov) [Err 0 = not square, Err 1 = wrong mean
                                              length] of outcome of draw(source, k, d<ns>, d<nf>)
                                              of (option (shape rows) consumed)
                                          k >= 1 (k = 0 is NOT in the language of this op: see 5)
     (17 5 ty mean cov source (ns nf))    the same with k = 0 samples, a separate op so that the
                                          shrinker can never turn a disagreement of op 3 into a
                                          case of known finding K1 (the library panics inside
                                          draw for 0 samples; the model returns None, i.e. the
                                          model never produces the inner panic)
     (17 4 ty data)                       Gaussian::approximating(data) -> outcome (mean variance)
   FLOAT TIER (an oracle for the VALUES, not a model of IEEE arithmetic): fty = 0 (f64) | 1 (f32);
   a number is (m e) = the decimal m * 10^e, rounded to the float type by the harness.  The
   harness compares every value with the real-number closed form (the right-hand sides of
   C17_pdf_real / C17_draw_values_real / C17_mv_draw_real) inside a rounding budget and reports
   0/1 flags; what the MODEL contributes is presence and consumption, computed by the
   transcribed `draw` / `mvt_draw` themselves on a source of the same length.
     (17 6 fty mean var (x ..))           density at every x; var > 0
                                          -> (closed-form symmetric maximal-at-mean forms) = (1 1 1 1)
     (17 7 fty mean var k source)         draw k samples; source numbers >= 0
                                          -> (present consumed values-ok)
     (17 8 fty k mean cov source)         multivariate draw of k >= 1 samples, mean a list of n
                                          numbers, cov n rows of n numbers (symmetric; the
                                          generator keeps every pivot away from 0)
                                          -> (present consumed values-ok)
                                          presence of a factor = every pivot of Model/Decomp.v's
                                          LDL^T over the rationals (exact, no square root) is
                                          positive, i.e. the covariance is positive definite
                                          (C17_mv_draw_present_iff_posdef); consumption = what
                                          `mvt_draw` consumes on a covariance it accepts / rejects *)
From Coq Require Import List ZArith NArith Bool QArith.
From EasyML Require Import Base.Sx Model.Num Model.Stats Model.Gaussian.
From EasyML Require Model.Decomp.
Import ListNotations.

Section Run.
Context {R : Type} (ops : numops R).

Definition dnums17 (s : sx) : option (list R) := dlist (ndec ops) s.
Definition snums17 (l : list R) : sx := slist (nenc ops) l.
Definition smat17 (m : list (list R)) : sx := slist snums17 m.
Definition dmat17 (s : sx) : option (list (list R)) :=
  match dlist dnums17 s with
  | Some (r0 :: rest) =>
      if negb (Nat.eqb (length r0) 0) && forallb (fun r => Nat.eqb (length r) (length r0)) rest
      then Some (r0 :: rest) else None
  | _ => None
  end.

Definition consumed (source rest : list R) : sx := snat (length source - length rest).

Definition c17_mv (k : N) (mean cov : list (list R)) (src : list R) (ns nf : nat) : sx :=
  SL [ soutcome (fun g =>
         let r := mv_draw ops g src k in
         soutcome (fun r => SL [sopt smat17 (fst r); consumed src (snd r)]) (Ok r))
         (mv_new mean cov);
       soutcome (fun g =>
         let r := mvt_draw ops g src k ns nf in
         soutcome (fun r =>
           SL [sopt (fun t => match t with
                              | (d0, d1, rows) =>
                                  SL [SL [spair snat sN d0; spair snat sN d1]; smat17 rows]
                              end) (fst r);
               consumed src (snd r)]) (Ok r))
         (mvt_new (concat mean) cov) ].

Definition c17_run (op : Z) (args : list sx) : sx :=
  match op, args with
  | 1%Z, [m; v; x] =>
      match ndec ops m, ndec ops v, ndec ops x with
      | Some m, Some v, Some x => nenc ops (probability ops (mkGaussian m v) x)
      | _, _, _ => bad_case
      end
  | 2%Z, [m; v; k; src] =>
      match ndec ops m, ndec ops v, dN k, dnums17 src with
      | Some m, Some v, Some k, Some src =>
          let r := draw ops (mkGaussian m v) src k in
          SL [sopt snums17 (fst r); consumed src (snd r)]
      | _, _, _, _ => bad_case
      end
  | 3%Z, [k; mean; cov; src; SL [ns; nf]] =>
      match dN k, dmat17 mean, dmat17 cov, dnums17 src, dnat ns, dnat nf with
      | Some k, Some mean, Some cov, Some src, Some ns, Some nf =>
          if (k =? 0)%N then bad_case else c17_mv k mean cov src ns nf
      | _, _, _, _, _, _ => bad_case
      end
  | 5%Z, [mean; cov; src; SL [ns; nf]] =>
      match dmat17 mean, dmat17 cov, dnums17 src, dnat ns, dnat nf with
      | Some mean, Some cov, Some src, Some ns, Some nf => c17_mv 0%N mean cov src ns nf
      | _, _, _, _, _ => bad_case
      end
  | 4%Z, [data] =>
      match dnums17 data with
      | Some data =>
          soutcome (fun g => SL [nenc ops (g_mean g); nenc ops (g_variance g)])
                   (approximating ops data)
      | None => bad_case
      end
  | _, _ => bad_case
  end.
End Run.

(* ---- float tier ---- *)
Definition dme (s : sx) : option (Z * Z) := dpair dZ dZ s.
Definition me_q (p : Z * Z) : Q :=
  if (0 <=? snd p)%Z then inject_Z (fst p * 10 ^ snd p)
  else Qred (Qmake (fst p) (Z.to_pos (10 ^ (- snd p)))).
Definition fty_ok (t : Z) : bool := ((t =? 0) || (t =? 1))%Z.
Definition zeros {A} (l : list A) : list Q := map (fun _ => inject_Z 0) l.

(* every LDL^T pivot positive, over the rationals *)
Definition posdef_q (cov : list (list Q)) : bool :=
  match Decomp.ldlt Qops cov with
  | Some (_, d) =>
      forallb (fun i => q_ltb (inject_Z 0) (nth i (nth i d []) (inject_Z 0))) (seq 0 (length cov))
  | None => false
  end.

Definition c17_float (op : Z) (args : list sx) : sx :=
  match op, args with
  | 6%Z, [mean; var; xs] =>
      match dme mean, dme var, dlist dme xs with
      | Some _, Some v, Some _ =>
          if (0 <? fst v)%Z then SL [SZ 1; SZ 1; SZ 1; SZ 1] else bad_case
      | _, _, _ => bad_case
      end
  | 7%Z, [mean; var; k; src] =>
      match dme mean, dme var, dN k, dlist dme src with
      | Some _, Some v, Some k, Some src =>
          if negb (0 <? fst v)%Z || (1048576 <? k)%N || existsb (fun p => (fst p <? 0)%Z) src
          then bad_case
          else
            let source := zeros src in
            let r := draw Qops (mkGaussian (inject_Z 0) (inject_Z 1)) source k in
            SL [sbool (match fst r with Some _ => true | None => false end);
                consumed source (snd r); SZ 1]
      | _, _, _, _ => bad_case
      end
  | 8%Z, [k; mean; cov; src] =>
      match dN k, dlist dme mean, dlist (dlist dme) cov, dlist dme src with
      | Some k, Some mean, Some cov, Some src =>
          let n := length mean in
          if (k =? 0)%N || (65536 <? k)%N || Nat.eqb n 0 || negb (Nat.eqb (length cov) n)
             || negb (forallb (fun r => Nat.eqb (length r) n) cov)
             || existsb (fun p => (fst p <? 0)%Z) src
          then bad_case
          else
            let pd := posdef_q (map (map me_q) cov) in
            (* a covariance the transcribed Cholesky accepts (identity) / rejects (zero) *)
            let standin := map (fun i => map (fun j =>
                             inject_Z (if pd && Nat.eqb i j then 1 else 0)) (seq 0 n)) (seq 0 n) in
            let source := zeros src in
            let r := mvt_draw Qops (zeros mean, standin) source k 0 1 in
            SL [sbool (match fst r with Some _ => true | None => false end);
                consumed source (snd r); SZ 1]
      | _, _, _, _ => bad_case
      end
  | _, _ => bad_case
  end.

Definition run_c17 (args : list sx) : sx :=
  match args with
  | SZ 6%Z :: SZ fty :: rest => if fty_ok fty then c17_float 6 rest else bad_case
  | SZ 7%Z :: SZ fty :: rest => if fty_ok fty then c17_float 7 rest else bad_case
  | SZ 8%Z :: SZ fty :: rest => if fty_ok fty then c17_float 8 rest else bad_case
  | SZ op :: SZ ty :: rest => with_ty ty (fun R ops => c17_run ops op rest)
  | _ => bad_case
  end.
