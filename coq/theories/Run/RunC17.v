(* Case decoder / result encoder for property C17 (same language: harness/src/c17.rs,
   tools/props/c17.py).  ty = 0 (Rat) | 1 (Fp), both with the polynomial stand-ins for
   sqrt / ln / sin / cos / exp / pow / pi, so every result is compared exactly.
     (17 1 ty mean var x)                 Gaussian::new(mean, var).probability(x)  -> value
     (17 2 ty mean var k source)          Gaussian::new(mean, var).draw(source, k)
                                          -> (option-list consumed)   consumed = how many numbers
                                             of `source` the call took
     (17 3 ty k mean cov source (ns nf))  multivariate draws of k samples; mean, cov are matrices
                                          (lists of rows, rectangular, at least 1 x 1):
                                          -> ( M T )
                                          M = outcome of MultivariateGaussian::new(mean, cov)
                                              [panic (2)] of outcome of draw(source, k) of
                                              (option-rows consumed)
                                          T = outcome of MultivariateGaussianTensor::new(flattened
                                              mean, cov) [Err 0 = not square, Err 1 = wrong mean
                                              length] of outcome of draw(source, k, d<ns>, d<nf>)
                                              of (option (shape rows) consumed)
                                          k >= 1 (k = 0 is NOT in the language of this op: see 5)
     (17 5 ty mean cov source (ns nf))    the same with k = 0 samples, a separate op so that the
                                          shrinker can never turn a disagreement of op 3 into a
                                          case of known finding K1 (the library panics inside
                                          draw for 0 samples; the model returns None, i.e. the
                                          model never produces the inner panic)
     (17 4 ty data)                       Gaussian::approximating(data) -> outcome (mean variance) *)
From Coq Require Import List ZArith NArith Bool.
From EasyML Require Import Base.Sx Model.Num Model.Stats Model.Gaussian.
Import ListNotations.

Section Run.
Context {R : Type} (ops : numops R).

Definition dnums17 (s : sx) : option (list R) := dlist (ndec ops) s.
Definition snums17 (l : list R) : sx := slist (nenc ops) l.
Definition smat17 (m : list (list R)) : sx := slist snums17 m.
Definition dmat17 (s : sx) : option (list (list R)) :=
  match dlist dnums17 s with
  | Some (r0 :: rest) =>
      if negb (Nat.eqb (length r0) 0) && forallb (fun r => Nat.eqb (length r) (length r0)) rest
      then Some (r0 :: rest) else None
  | _ => None
  end.

Definition consumed (source rest : list R) : sx := snat (length source - length rest).

Definition c17_mv (k : N) (mean cov : list (list R)) (src : list R) (ns nf : nat) : sx :=
  SL [ soutcome (fun g =>
         let r := mv_draw ops g src k in
         soutcome (fun r => SL [sopt smat17 (fst r); consumed src (snd r)]) (Ok r))
         (mv_new mean cov);
       soutcome (fun g =>
         let r := mvt_draw ops g src k ns nf in
         soutcome (fun r =>
           SL [sopt (fun t => match t with
                              | (d0, d1, rows) =>
                                  SL [SL [spair snat sN d0; spair snat sN d1]; smat17 rows]
                              end) (fst r);
               consumed src (snd r)]) (Ok r))
         (mvt_new (concat mean) cov) ].

Definition c17_run (op : Z) (args : list sx) : sx :=
  match op, args with
  | 1%Z, [m; v; x] =>
      match ndec ops m, ndec ops v, ndec ops x with
      | Some m, Some v, Some x => nenc ops (probability ops (mkGaussian m v) x)
      | _, _, _ => bad_case
      end
  | 2%Z, [m; v; k; src] =>
      match ndec ops m, ndec ops v, dN k, dnums17 src with
      | Some m, Some v, Some k, Some src =>
          let r := draw ops (mkGaussian m v) src k in
          SL [sopt snums17 (fst r); consumed src (snd r)]
      | _, _, _, _ => bad_case
      end
  | 3%Z, [k; mean; cov; src; SL [ns; nf]] =>
      match dN k, dmat17 mean, dmat17 cov, dnums17 src, dnat ns, dnat nf with
      | Some k, Some mean, Some cov, Some src, Some ns, Some nf =>
          if (k =? 0)%N then bad_case else c17_mv k mean cov src ns nf
      | _, _, _, _, _, _ => bad_case
      end
  | 5%Z, [mean; cov; src; SL [ns; nf]] =>
      match dmat17 mean, dmat17 cov, dnums17 src, dnat ns, dnat nf with
      | Some mean, Some cov, Some src, Some ns, Some nf => c17_mv 0%N mean cov src ns nf
      | _, _, _, _, _ => bad_case
      end
  | 4%Z, [data] =>
      match dnums17 data with
      | Some data =>
          soutcome (fun g => SL [nenc ops (g_mean g); nenc ops (g_variance g)])
                   (approximating ops data)
      | None => bad_case
      end
  | _, _ => bad_case
  end.
End Run.

Definition run_c17 (args : list sx) : sx :=
  match args with
  | SZ op :: SZ ty :: rest => with_ty ty (fun R ops => c17_run ops op rest)
  | _ => bad_case
  end.
