(* Case decoder / result encoder for property C02 (same language in harness/src/c02.rs and
   tools/props/c02.py).

     (2 1 term probes writes)     built by the harness through type-erased sources
     (2 2 term probes writes)     the same, built with concrete adaptor types (the term skeletons
                                  of harness/src/c02/fixed.rs); identical for the model
     (2 3 term shape' probes writes)   term = renames / reversals over ONE tensor leaf: build it,
                                  reach the leaf through source_ref_mut() (directly and through
                                  TensorView::source_ref_mut), `reshape_mut(shape')` it, then
                                  observe the SAME view object.
                                  result: (1 e) | (2) constructor failure | (0 (2)) reshape_mut
                                  panics | (0 (0 observation)) with the observation of op 1
     (2 4 shape layout names req)      a source OUTSIDE the algebra: a user-implemented TensorRef over a
                                  tensor of `shape` (valid) claiming `layout` ((0 names) | (1) | (2),
                                  any D names, possibly not the shape's).  result: three outcomes
                                  (TensorRename::from(src, names).data_layout()
                                   TensorTranspose::try_from(src, req).map(data_layout)
                                   TensorAccess::from_memory_order(src).map(shape) as () | (shape)
                                   D = 2: (MatrixRefTensor::from(src).data_layout()), else ())
     (2 5 term n0 n1 probes)      term 2-dimensional: MatrixRefTensor::from(view), then
                                  TensorRefMatrix::with_names(that, [n0, n1]).  result: (1 e) | (2)
                                  term constructor failure | (0 (mlayout (1 e))) with_names refuses
                                  | (0 (mlayout (0 (shape layout (probe ...))))), mlayout = 0 RowMajor
                                  / 1 ColumnMajor / 2 Other as MatrixRefTensor reports it
   term :=
     (0 id shape)                         leaf Tensor, element at flat offset k is id*1000 + k
     (1 term params) | (2 term params)    TensorRange | TensorMask
        params := (0 strict ((name start len) ...))     from / from_strict
                | (1 strict (() | ((start len)) ...))   from_all / from_all_strict
     (3 term ((name index) ...))          TensorIndex::from
     (4 term ((position name) ...))       TensorExpansion::from
     (5 term names)                       TensorRename::from
     (6 term names)                       TensorReverse::from
     (7 term names)                       TensorAccess::try_from
     (8 term names)                       TensorTranspose::try_from
     (9 (term ...) position name kind)    TensorStack::from   kind 0 = array [S; N], 1 = tuple
                                          (an empty array panics: "No sources provided")
     (10 (term ...) name kind)            TensorChain::from   (kind ignored by the model)
     (11 term kind)                       kind 0 = Box<S>, 1 = &mut S, 2 = the erased box again,
                                          3 = RecordTensor::from_existing(None, view) (elements are
                                          (value, 0) pairs on the Rust side), 4 = &S (everything
                                          above it is read-only: such cases carry no writes);
                                          all index-transparent = VWrap in the model
     (12 id rows cols name0 name1)        TensorRefMatrix::with_names over a Matrix (row major)
     (tag term args via), tag in 1..8     the CONVENIENCE constructor for that adaptor
                                          (Model/ViewsConv.v): via 1 = TensorView::xxx_owned,
                                          2 = TensorView::xxx_mut, 3 = TensorView::xxx(&self) (the
                                          source becomes `&S`: read-only above, no writes),
                                          4 = Tensor::xxx(&self), 5 = Tensor::xxx_mut (term must be
                                          a leaf).  range / mask: args = (0 0 named) only;
                                          select / expand: exactly one pair; rename_view /
                                          transpose_view: via 3 / 4 only.  index_by* and
                                          transpose_view panic where try_from reports the error:
                                          the harness checks that and prints the error.
   probes := ((i ...) ...)   index tuples of the view's dimensionality
   writes := (((i ...) value) ...)   applied in order through get_reference_mut
   leaf ids must be pairwise distinct.

   result := (1 error) | (2)                                 first failing constructor
           | (0 (shape layout (probe ...) (iter ...) memorder (flags dump)))
     layout   := (0 (0 names)) | (0 (1)) | (0 (2)) | (2)      Linear / NonLinear / Other / panic
     probe    := () | (value)                                 value = leaf*1000 + offset
     iter     := the values in view-shape order (TensorView::iter)
     memorder := (0 ()) when not Linear | (0 ((values))) TensorAccess::from_memory_order(..).iter()
     flags    := 1/0 per write (landed / index absent); dump := every leaf's data after the writes
   errors: see the e_* encoders of Model/Views.v. *)
From Coq Require Import List ZArith NArith Bool Arith.
From EasyML Require Import Base.Sx Model.Shape Model.Views Model.ViewsMut Model.ViewsConv.
Import ListNotations.
Open Scope N_scope.

Definition drange (s : sx) : option irange :=
  match s with
  | SL [a; b] => match dN a, dN b with Some x, Some y => Some (mkR x y) | _, _ => None end
  | _ => None
  end.
Definition dnamed (s : sx) : option (name * irange) :=
  match s with
  | SL [n; a; b] =>
      match dnat n, dN a, dN b with Some n, Some x, Some y => Some (n, mkR x y) | _, _, _ => None end
  | _ => None
  end.
Definition dparams (s : sx) : option rparams :=
  match s with
  | SL [SZ 0%Z; strict; l] =>
      match dbool strict, dlist dnamed l with Some b, Some l => Some (PNamed b l) | _, _ => None end
  | SL [SZ 1%Z; strict; l] =>
      match dbool strict, dlist (dopt drange) l with Some b, Some l => Some (PAll b l) | _, _ => None end
  | _ => None
  end.

(* via: 1 = TensorView::xxx_owned, 2 = TensorView::xxx_mut, 3 = TensorView::xxx (by reference),
        4 = Tensor::xxx (by reference), 5 = Tensor::xxx_mut; 4 and 5 only directly over a leaf *)
Definition dform (via : Z) : option conv_form :=
  match via with
  | 1%Z => Some ByOwned
  | 2%Z | 5%Z => Some ByMut
  | 3%Z | 4%Z => Some ByRef
  | _ => None
  end.
Definition via_ok (via : Z) (v : view) : bool :=
  match via, v with
  | 4%Z, VTensor _ _ | 5%Z, VTensor _ _ => true
  | 4%Z, _ | 5%Z, _ => false
  | _, _ => true
  end.

Fixpoint dview (fuel : nat) (s : sx) : option view :=
  match fuel with
  | O => None
  | S f =>
      match s with
      | SL [SZ 0%Z; id; sh] =>
          match dN id, dshape sh with Some id, Some sh => Some (VTensor id sh) | _, _ => None end
      | SL [SZ 12%Z; id; r; c; n0; n1] =>
          match dN id, dN r, dN c, dnat n0, dnat n1 with
          | Some id, Some r, Some c, Some n0, Some n1 => Some (VMatrix id r c n0 n1)
          | _, _, _, _, _ => None
          end
      | SL [SZ 1%Z; t; p] =>
          match dview f t, dparams p with Some v, Some p => Some (VRange v p) | _, _ => None end
      | SL [SZ 2%Z; t; p] =>
          match dview f t, dparams p with Some v, Some p => Some (VMask v p) | _, _ => None end
      | SL [SZ 3%Z; t; ps] =>
          match dview f t, dlist (dpair dnat dN) ps with
          | Some v, Some ps => Some (VIndex v ps) | _, _ => None end
      | SL [SZ 4%Z; t; es] =>
          match dview f t, dlist (dpair dnat dnat) es with
          | Some v, Some es => Some (VExpand v es) | _, _ => None end
      | SL [SZ 5%Z; t; ns] =>
          match dview f t, dnames ns with Some v, Some ns => Some (VRename v ns) | _, _ => None end
      | SL [SZ 6%Z; t; ns] =>
          match dview f t, dnames ns with Some v, Some ns => Some (VReverse v ns) | _, _ => None end
      | SL [SZ 7%Z; t; ns] =>
          match dview f t, dnames ns with Some v, Some ns => Some (VAccess v ns) | _, _ => None end
      | SL [SZ 8%Z; t; ns] =>
          match dview f t, dnames ns with Some v, Some ns => Some (VTranspose v ns) | _, _ => None end
      | SL [SZ 9%Z; SL ts; pos; n; SZ _] =>
          match sequence (map (dview f) ts), dnat pos, dnat n with
          | Some vs, Some pos, Some n => Some (VStack vs pos n) | _, _, _ => None end
      | SL [SZ 10%Z; SL ts; n; SZ _] =>
          match sequence (map (dview f) ts), dnat n with
          | Some vs, Some n => Some (VChain vs n) | _, _ => None end
      | SL [SZ 11%Z; t; SZ _] =>
          match dview f t with Some v => Some (VWrap v) | None => None end
      (* the convenience constructors (Model/ViewsConv.v): (tag t args via) *)
      | SL [SZ tag; t; args; SZ via] =>
          match dview f t, dform via with
          | Some v, Some fm =>
              if via_ok via v then
                match tag with
                | 1%Z => match dparams args with
                         | Some (PNamed false named) => Some (conv_range fm v named) | _ => None end
                | 2%Z => match dparams args with
                         | Some (PNamed false named) => Some (conv_mask fm v named) | _ => None end
                | 3%Z => match dlist (dpair dnat dN) args with
                         | Some [p] => Some (conv_select fm v p) | _ => None end
                | 4%Z => match dlist (dpair dnat dnat) args with
                         | Some [e] => Some (conv_expand fm v e) | _ => None end
                | 5%Z => match dnames args, fm with
                         | Some ns, ByRef => Some (conv_rename_view v ns) | _, _ => None end
                | 6%Z => match dnames args with Some ns => Some (conv_reverse fm v ns) | None => None end
                | 7%Z => match dnames args with Some ns => Some (conv_index_by fm v ns) | None => None end
                | 8%Z => match dnames args, fm with
                         | Some ns, ByRef => Some (conv_transpose_view v ns) | _, _ => None end
                | _ => None
                end
              else None
          | _, _ => None
          end
      | _ => None
      end
  end.

Fixpoint v_leaf_ids (v : view) : list N :=
  match v with
  | VTensor id _ => [id]
  | VMatrix id _ _ _ _ => [id]
  | VRange v _ | VMask v _ | VIndex v _ | VExpand v _ | VRename v _ | VReverse v _
  | VAccess v _ | VTranspose v _ | VWrap v => v_leaf_ids v
  | VStack vs _ _ | VChain vs _ => flat_map v_leaf_ids vs
  end.

Fixpoint nodup_b (l : list N) : bool :=
  match l with [] => true | x :: r => negb (existsb (N.eqb x) r) && nodup_b r end.

Definition slayout (l : layout) : sx :=
  match l with
  | Linear order => SL [SZ 0; snames order]
  | NonLinear => SL [SZ 1]
  | Other => SL [SZ 2]
  end.

Definition svalue (e : N * N) : sx := SZ (leaf_value e).

Definition view_values (c : cview) : list (option (N * N)) :=
  map (c_get c) (all_indexes (lens_of (c_shape c))).

(* TensorAccess::from_memory_order(view).iter() *)
Definition memory_order (c : cview) : outcome (option (list (option (N * N)))) :=
  match c_layout c with
  | Ok (Linear order) =>
      match access_tbl c order with
      | Ok tbl => Ok (Some (view_values (CAccess c tbl)))
      | _ => Panic
      end
  | Ok _ => Ok None
  | _ => Panic
  end.

(* leaf storage: (id, data) in term order *)
Definition initial_store (c : cview) : list (N * list Z) :=
  map (fun l => (fst l, map (fun k => leaf_value (fst l, N.of_nat k)) (seq 0 (N.to_nat (snd l)))))
      (c_leaves c).
Fixpoint set_nth (l : list Z) (k : nat) (v : Z) : list Z :=
  match l, k with
  | [], _ => []
  | _ :: r, O => v :: r
  | x :: r, S k' => x :: set_nth r k' v
  end.
Definition store_write (st : list (N * list Z)) (e : N * N) (v : Z) : list (N * list Z) :=
  map (fun p => if fst p =? fst e then (fst p, set_nth (snd p) (N.to_nat (snd e)) v) else p) st.

Fixpoint do_writes (c : cview) (st : list (N * list Z)) (ws : list (list N * Z))
  : list bool * list (N * list Z) :=
  match ws with
  | [] => ([], st)
  | (idx, v) :: r =>
      match c_get c idx with
      | Some e => let '(fl, st') := do_writes c (store_write st e v) r in (true :: fl, st')
      | None => let '(fl, st') := do_writes c st r in (false :: fl, st')
      end
  end.

Definition c02_observe (c : cview) (probes : list (list N)) (writes : list (list N * Z)) : sx :=
  let D := length (c_shape c) in
  if forallb (fun p => Nat.eqb (length p) D) probes
     && forallb (fun w => Nat.eqb (length (fst w)) D) writes
  then
    let '(flags, st) := do_writes c (initial_store c) writes in
    SL [ sshape (c_shape c);
         soutcome slayout (c_layout c);
         slist (sopt svalue) (map (c_get c) probes);
         slist (sopt svalue) (view_values c);
         soutcome (sopt (slist (sopt svalue))) (memory_order c);
         SL [slist sbool flags; slist (fun p => slist SZ (snd p)) st] ]
  else SL [SZ (-1)].

Definition c02_view (v : view) (probes : list (list N)) (writes : list (list N * Z)) : sx :=
  soutcome (fun c => c02_observe c probes writes) (v_ctor v).

(* op 3: construct, reshape the leaf through source_ref_mut, then observe the SAME view object *)
Definition c02_mutated (v : view) (sh' : shape) (probes : list (list N)) (writes : list (list N * Z)) : sx :=
  soutcome (fun c =>
    match reshape_mut c sh' with
    | Some o => soutcome (fun c' => c02_observe c' probes writes) o
    | None => SL [SZ (-1)]
    end) (v_ctor v).

(* op 4: a user-implemented source (view_shape sh, data_layout lay) under the adaptors that derive
   their layout from it *)
Definition dlayout (s : sx) : option layout :=
  match s with
  | SL [SZ 0%Z; ns] => option_map Linear (dnames ns)
  | SL [SZ 1%Z] => Some NonLinear
  | SL [SZ 2%Z] => Some Other
  | _ => None
  end.
Definition layout_arity_ok (D : nat) (l : layout) : bool :=
  match l with Linear order => Nat.eqb (length order) D | _ => true end.
Definition smlayout (m : mlayout) : sx :=
  SZ match m with RowMajor => 0 | ColumnMajor => 1 | MOther => 2 end%Z.
Definition c02_foreign (sh : shape) (lay : layout) (ns req : list name) : sx :=
  SL [ soutcome slayout (foreign_rename sh lay ns);
       soutcome slayout (foreign_transpose sh lay req);
       soutcome (sopt sshape) (foreign_memory_order sh lay);
       if Nat.eqb (length sh) 2 then SL [smlayout (matrix_ref_tensor_layout sh lay)] else SL [] ].

(* op 5: a 2-dimensional view through MatrixRefTensor and back through TensorRefMatrix *)
Definition c02_trip (v : view) (n0 n1 : name) (probes : list (list N)) : sx :=
  soutcome (fun c =>
    match c_layout c with
    | Ok lay =>
        if Nat.eqb (length (c_shape c)) 2 && forallb (fun p => Nat.eqb (length p) 2) probes then
          SL [ smlayout (matrix_ref_tensor_layout (c_shape c) lay);
               soutcome (fun r => match r with
                                  | (sh, lay', get) =>
                                      SL [sshape sh; slayout lay'; slist (sopt svalue) (map get probes)]
                                  end) (matrix_trip c n0 n1) ]
        else SL [SZ (-1)]
    | _ => SL [SZ (-1)]
    end) (v_ctor v).

Fixpoint has_bad (fuel : nat) (s : sx) : bool :=
  match fuel with
  | O => false
  | S f => match s with
           | SL [SZ (-1)%Z] => true
           | SL [SZ 0%Z; r] => has_bad f r
           | _ => false
           end
  end.

(* op 6: views over leaves with a ZERO-SIZED element type (dimension lengths up to usize::MAX in
   O(1) memory; harness/src/c16/zst.rs): constructor outcome, shape and PRESENCE only - never an
   element value, never an iteration.  (2 6 term probes), term = leaf / range / mask (from_all
   forms) / reverse / stack / chain.  A leaf whose element count exceeds usize::MAX cannot exist. *)
Fixpoint v_leaf_shapes (v : view) : list shape :=
  match v with
  | VTensor _ sh => [sh]
  | VMatrix _ _ _ _ _ => []
  | VRange v _ | VMask v _ | VIndex v _ | VExpand v _ | VRename v _ | VReverse v _
  | VAccess v _ | VTranspose v _ | VWrap v => v_leaf_shapes v
  | VStack vs _ _ | VChain vs _ => flat_map v_leaf_shapes vs
  end.
Definition c02_zst (v : view) (probes : list (list N)) : sx :=
  if negb (forallb (fun sh => match checked_elements sh with Some _ => true | None => false end)
                   (v_leaf_shapes v)) then bad_case else
  match v_ctor v with
  | Ok c =>
      if forallb (fun p => Nat.eqb (length p) (length (c_shape c))) probes
      then SL [SZ 0; SL [sshape (c_shape c);
                         slist (fun p => SL [SZ 0; sopt (fun _ => SZ 1) (c_get c p)]) probes]]
      else bad_case
  | Err e => SL [SZ 1; e]
  | Panic => SL [SZ 2]
  end.

Definition run_c02 (args : list sx) : sx :=
  match args with
  | [SZ 6%Z; t; probes] =>
      match dview 40 t, dlist didx probes with
      | Some v, Some probes => c02_zst v probes
      | _, _ => bad_case
      end
  | [SZ 1%Z; t; probes; writes] | [SZ 2%Z; t; probes; writes] =>
      match dview 40 t, dlist didx probes, dlist (dpair didx dZ) writes with
      | Some v, Some probes, Some writes =>
          if nodup_b (v_leaf_ids v) then
            let r := c02_view v probes writes in
            if has_bad 3 r then bad_case else r
          else bad_case
      | _, _, _ => bad_case
      end
  | [SZ 3%Z; t; sh'; probes; writes] =>
      match dview 40 t, dshape sh', dlist didx probes, dlist (dpair didx dZ) writes with
      | Some v, Some sh', Some probes, Some writes =>
          if nodup_b (v_leaf_ids v) then
            let r := c02_mutated v sh' probes writes in
            if has_bad 3 r then bad_case else r
          else bad_case
      | _, _, _, _ => bad_case
      end
  | [SZ 4%Z; sh; lay; ns; req] =>
      match dshape sh, dlayout lay, dnames ns, dnames req with
      | Some sh, Some lay, Some ns, Some req =>
          if valid_shape_b sh && layout_arity_ok (length sh) lay
             && Nat.eqb (length ns) (length sh) && Nat.eqb (length req) (length sh)
          then c02_foreign sh lay ns req else bad_case
      | _, _, _, _ => bad_case
      end
  | [SZ 5%Z; t; n0; n1; probes] =>
      match dview 40 t, dnat n0, dnat n1, dlist didx probes with
      | Some v, Some n0, Some n1, Some probes =>
          if nodup_b (v_leaf_ids v) then
            let r := c02_trip v n0 n1 probes in
            if has_bad 3 r then bad_case else r
          else bad_case
      | _, _, _, _ => bad_case
      end
  | _ => bad_case
  end.
