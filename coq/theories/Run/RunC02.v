(* Case decoder / result encoder for property C02 (same language in harness/src/c02.rs and
   tools/props/c02.py).

     (2 1 term probes writes)     built by the harness through type-erased sources
     (2 2 term probes writes)     the same, built with concrete adaptor types (the term skeletons
                                  of harness/src/c02/fixed.rs); identical for the model
     (2 3 term shape' probes writes)   term = renames / reversals over ONE tensor leaf: build it,
                                  reach the leaf through source_ref_mut() (directly and through
                                  TensorView::source_ref_mut), `reshape_mut(shape')` it, then
                                  observe the SAME view object.
                                  result: (1 e) | (2) constructor failure | (0 (2)) reshape_mut
                                  panics | (0 (0 observation)) with the observation of op 1
   term :=
     (0 id shape)                         leaf Tensor, element at flat offset k is id*1000 + k
     (1 term params) | (2 term params)    TensorRange | TensorMask
        params := (0 strict ((name start len) ...))     from / from_strict
                | (1 strict (() | ((start len)) ...))   from_all / from_all_strict
     (3 term ((name index) ...))          TensorIndex::from
     (4 term ((position name) ...))       TensorExpansion::from
     (5 term names)                       TensorRename::from
     (6 term names)                       TensorReverse::from
     (7 term names)                       TensorAccess::try_from
     (8 term names)                       TensorTranspose::try_from
     (9 (term ...) position name kind)    TensorStack::from   kind 0 = array [S; N], 1 = tuple
                                          (an empty array panics: "No sources provided")
     (10 (term ...) name kind)            TensorChain::from   (kind ignored by the model)
     (11 term kind)                       kind 0 = Box<S>, 1 = &mut S, 2 = the erased box again,
                                          3 = RecordTensor::from_existing(None, view) (elements are
                                          (value, 0) pairs on the Rust side), 4 = &S (everything
                                          above it is read-only: such cases carry no writes);
                                          all index-transparent = VWrap in the model
     (12 id rows cols name0 name1)        TensorRefMatrix::with_names over a Matrix (row major)
   probes := ((i ...) ...)   index tuples of the view's dimensionality
   writes := (((i ...) value) ...)   applied in order through get_reference_mut
   leaf ids must be pairwise distinct.

   result := (1 error) | (2)                                 first failing constructor
           | (0 (shape layout (probe ...) (iter ...) memorder (flags dump)))
     layout   := (0 (0 names)) | (0 (1)) | (0 (2)) | (2)      Linear / NonLinear / Other / panic
     probe    := () | (value)                                 value = leaf*1000 + offset
     iter     := the values in view-shape order (TensorView::iter)
     memorder := (0 ()) when not Linear | (0 ((values))) TensorAccess::from_memory_order(..).iter()
     flags    := 1/0 per write (landed / index absent); dump := every leaf's data after the writes
   errors: see the e_* encoders of Model/Views.v. *)
From Coq Require Import List ZArith NArith Bool Arith.
From EasyML Require Import Base.Sx Model.Shape Model.Views Model.ViewsMut.
Import ListNotations.
Open Scope N_scope.

Definition drange (s : sx) : option irange :=
  match s with
  | SL [a; b] => match dN a, dN b with Some x, Some y => Some (mkR x y) | _, _ => None end
  | _ => None
  end.
Definition dnamed (s : sx) : option (name * irange) :=
  match s with
  | SL [n; a; b] =>
      match dnat n, dN a, dN b with Some n, Some x, Some y => Some (n, mkR x y) | _, _, _ => None end
  | _ => None
  end.
Definition dparams (s : sx) : option rparams :=
  match s with
  | SL [SZ 0%Z; strict; l] =>
      match dbool strict, dlist dnamed l with Some b, Some l => Some (PNamed b l) | _, _ => None end
  | SL [SZ 1%Z; strict; l] =>
      match dbool strict, dlist (dopt drange) l with Some b, Some l => Some (PAll b l) | _, _ => None end
  | _ => None
  end.

Fixpoint dview (fuel : nat) (s : sx) : option view :=
  match fuel with
  | O => None
  | S f =>
      match s with
      | SL [SZ 0%Z; id; sh] =>
          match dN id, dshape sh with Some id, Some sh => Some (VTensor id sh) | _, _ => None end
      | SL [SZ 12%Z; id; r; c; n0; n1] =>
          match dN id, dN r, dN c, dnat n0, dnat n1 with
          | Some id, Some r, Some c, Some n0, Some n1 => Some (VMatrix id r c n0 n1)
          | _, _, _, _, _ => None
          end
      | SL [SZ 1%Z; t; p] =>
          match dview f t, dparams p with Some v, Some p => Some (VRange v p) | _, _ => None end
      | SL [SZ 2%Z; t; p] =>
          match dview f t, dparams p with Some v, Some p => Some (VMask v p) | _, _ => None end
      | SL [SZ 3%Z; t; ps] =>
          match dview f t, dlist (dpair dnat dN) ps with
          | Some v, Some ps => Some (VIndex v ps) | _, _ => None end
      | SL [SZ 4%Z; t; es] =>
          match dview f t, dlist (dpair dnat dnat) es with
          | Some v, Some es => Some (VExpand v es) | _, _ => None end
      | SL [SZ 5%Z; t; ns] =>
          match dview f t, dnames ns with Some v, Some ns => Some (VRename v ns) | _, _ => None end
      | SL [SZ 6%Z; t; ns] =>
          match dview f t, dnames ns with Some v, Some ns => Some (VReverse v ns) | _, _ => None end
      | SL [SZ 7%Z; t; ns] =>
          match dview f t, dnames ns with Some v, Some ns => Some (VAccess v ns) | _, _ => None end
      | SL [SZ 8%Z; t; ns] =>
          match dview f t, dnames ns with Some v, Some ns => Some (VTranspose v ns) | _, _ => None end
      | SL [SZ 9%Z; SL ts; pos; n; SZ _] =>
          match sequence (map (dview f) ts), dnat pos, dnat n with
          | Some vs, Some pos, Some n => Some (VStack vs pos n) | _, _, _ => None end
      | SL [SZ 10%Z; SL ts; n; SZ _] =>
          match sequence (map (dview f) ts), dnat n with
          | Some vs, Some n => Some (VChain vs n) | _, _ => None end
      | SL [SZ 11%Z; t; SZ _] =>
          match dview f t with Some v => Some (VWrap v) | None => None end
      | _ => None
      end
  end.

Fixpoint v_leaf_ids (v : view) : list N :=
  match v with
  | VTensor id _ => [id]
  | VMatrix id _ _ _ _ => [id]
  | VRange v _ | VMask v _ | VIndex v _ | VExpand v _ | VRename v _ | VReverse v _
  | VAccess v _ | VTranspose v _ | VWrap v => v_leaf_ids v
  | VStack vs _ _ | VChain vs _ => flat_map v_leaf_ids vs
  end.

Fixpoint nodup_b (l : list N) : bool :=
  match l with [] => true | x :: r => negb (existsb (N.eqb x) r) && nodup_b r end.

Definition slayout (l : layout) : sx :=
  match l with
  | Linear order => SL [SZ 0; snames order]
  | NonLinear => SL [SZ 1]
  | Other => SL [SZ 2]
  end.

Definition svalue (e : N * N) : sx := SZ (leaf_value e).

Definition view_values (c : cview) : list (option (N * N)) :=
  map (c_get c) (all_indexes (lens_of (c_shape c))).

(* TensorAccess::from_memory_order(view).iter() *)
Definition memory_order (c : cview) : outcome (option (list (option (N * N)))) :=
  match c_layout c with
  | Ok (Linear order) =>
      match access_tbl c order with
      | Ok tbl => Ok (Some (view_values (CAccess c tbl)))
      | _ => Panic
      end
  | Ok _ => Ok None
  | _ => Panic
  end.

(* leaf storage: (id, data) in term order *)
Definition initial_store (c : cview) : list (N * list Z) :=
  map (fun l => (fst l, map (fun k => leaf_value (fst l, N.of_nat k)) (seq 0 (N.to_nat (snd l)))))
      (c_leaves c).
Fixpoint set_nth (l : list Z) (k : nat) (v : Z) : list Z :=
  match l, k with
  | [], _ => []
  | _ :: r, O => v :: r
  | x :: r, S k' => x :: set_nth r k' v
  end.
Definition store_write (st : list (N * list Z)) (e : N * N) (v : Z) : list (N * list Z) :=
  map (fun p => if fst p =? fst e then (fst p, set_nth (snd p) (N.to_nat (snd e)) v) else p) st.

Fixpoint do_writes (c : cview) (st : list (N * list Z)) (ws : list (list N * Z))
  : list bool * list (N * list Z) :=
  match ws with
  | [] => ([], st)
  | (idx, v) :: r =>
      match c_get c idx with
      | Some e => let '(fl, st') := do_writes c (store_write st e v) r in (true :: fl, st')
      | None => let '(fl, st') := do_writes c st r in (false :: fl, st')
      end
  end.

Definition c02_observe (c : cview) (probes : list (list N)) (writes : list (list N * Z)) : sx :=
  let D := length (c_shape c) in
  if forallb (fun p => Nat.eqb (length p) D) probes
     && forallb (fun w => Nat.eqb (length (fst w)) D) writes
  then
    let '(flags, st) := do_writes c (initial_store c) writes in
    SL [ sshape (c_shape c);
         soutcome slayout (c_layout c);
         slist (sopt svalue) (map (c_get c) probes);
         slist (sopt svalue) (view_values c);
         soutcome (sopt (slist (sopt svalue))) (memory_order c);
         SL [slist sbool flags; slist (fun p => slist SZ (snd p)) st] ]
  else SL [SZ (-1)].

Definition c02_view (v : view) (probes : list (list N)) (writes : list (list N * Z)) : sx :=
  soutcome (fun c => c02_observe c probes writes) (v_ctor v).

(* op 3: construct, reshape the leaf through source_ref_mut, then observe the SAME view object *)
Definition c02_mutated (v : view) (sh' : shape) (probes : list (list N)) (writes : list (list N * Z)) : sx :=
  soutcome (fun c =>
    match reshape_mut c sh' with
    | Some o => soutcome (fun c' => c02_observe c' probes writes) o
    | None => SL [SZ (-1)]
    end) (v_ctor v).

Fixpoint has_bad (fuel : nat) (s : sx) : bool :=
  match fuel with
  | O => false
  | S f => match s with
           | SL [SZ (-1)%Z] => true
           | SL [SZ 0%Z; r] => has_bad f r
           | _ => false
           end
  end.

Definition run_c02 (args : list sx) : sx :=
  match args with
  | [SZ 1%Z; t; probes; writes] | [SZ 2%Z; t; probes; writes] =>
      match dview 40 t, dlist didx probes, dlist (dpair didx dZ) writes with
      | Some v, Some probes, Some writes =>
          if nodup_b (v_leaf_ids v) then
            let r := c02_view v probes writes in
            if has_bad 3 r then bad_case else r
          else bad_case
      | _, _, _ => bad_case
      end
  | [SZ 3%Z; t; sh'; probes; writes] =>
      match dview 40 t, dshape sh', dlist didx probes, dlist (dpair didx dZ) writes with
      | Some v, Some sh', Some probes, Some writes =>
          if nodup_b (v_leaf_ids v) then
            let r := c02_mutated v sh' probes writes in
            if has_bad 3 r then bad_case else r
          else bad_case
      | _, _, _, _ => bad_case
      end
  | _ => bad_case
  end.
