(* C10 own cases: a user closure / iterator panics in the middle of a mutating call, the panic is
   caught and the object is used again.
   (10 1 rows cols k)               Matrix::map_mut, closure panics on call k+1
   (10 2 rows cols k)               Matrix::map_mut_with_index
   (10 3 rows cols row vals k)      Matrix::insert_row_with, iterator panics on next() k+1
   (10 4 rows cols column vals k)   Matrix::insert_column_with
   (10 3|4 rows cols pos vals k claim)   the same with an iterator whose size_hint() claims exactly
                                    `claim` items (possibly a lie): the result must not depend on it
   (10 5 lens k)                    Tensor::map_mut       (shape lens, data iota)
   (10 6 lens k)                    Tensor::map_mut_with_index
   result: (panicked? rows cols (elements…)) resp. (panicked? (elements…)).
   (10 7 shape data ops)            a HISTORY of safe Tensor mutators over Tensor::from(shape, data),
                                    every step with valid or invalid arguments, the tensor used again
                                    after every step (Model/TensorOps.v):
        op = (0 shape) reshape_mut | (1 names) rename | (2 names) transpose_mut | (3 names) reorder_mut
           | (4 k) map_mut, closure panics on call k+1 | (5 k) map_mut_with_index likewise
           | (6 idx v) get_reference_mut(idx) then write
           | (7 (vstep…) idx v) the adaptors built over &mut tensor, then get_reference_mut(idx), write
        vstep = (1 names) TensorReverse | (2 ranges) TensorRange | (3 names) TensorAccess
              | (4 names) TensorTranspose | (5 masks) TensorMask | (6 names) TensorRename
      result: (2) if Tensor::from panics, else (0 ((code shape data)…)): after EVERY step the result
      code (0 done 1 constructor Err 2 panicked 3 index absent 4 not expressible) and the tensor's
      shape and elements.
   (10 8 . c11-case)                a Matrix mutation history in the case language of Run/RunC11.v
                                    (constructors, insert / remove / retain_mut / retain / transpose /
                                    set / map / partition writes with valid and invalid arguments and
                                    every slice kind); after EVERY step, panicking ones included, the
                                    same matrix is read through size / get / both major iterators
                                    (unchecked accesses, hooks on) and its stored data; the model is
                                    run_c11 (Model/Matrix.v), the harness drives harness/src/c11.rs
   (10 9 term)                      TensorStack / TensorChain constructors (term language of
                                    Run/RunC02.v, tags 0 leaf, 9 stack, 10 chain) over matching and
                                    MISMATCHING sources in every array / tuple arity and position; when
                                    the constructor returns, the whole view is walked: every index of
                                    view_shape through get_reference, get_reference_unchecked and iter()
                                    wave 2: `term` may also be ONE TensorIndex (3 inner ((name index)))
                                    or TensorExpansion (4 inner ((position name))) over a stack / chain
                                    term (tags 3 / 4 of Run/RunC02.v; the decoder accepts any view term)
      result: (2) constructor panicked | (0 (shape ((v) | () …)))
   All other C10 workloads are the other properties' cases replayed with the hooks on. *)
From Coq Require Import List ZArith NArith Bool Arith.
From EasyML Require Import Base.Sx Model.PanicSafety Model.Shape Model.Tensor Model.TSource
  Model.TensorOps.
From EasyML Require Model.Views Run.RunC02 Run.RunC11.
Import ListNotations.

Definition iotaZ (n : nat) : list Z := map Z.of_nat (seq 0 n).
Definition smstate (p : mstate * bool) : sx :=
  SL [sbool (snd p); snat (m_rows (fst p)); snat (m_cols (fst p)); slist SZ (m_data (fst p))].

(* ---- (10 7 ..): tensor mutation histories ---- *)
Definition f_idx (idx : list N) (x : Z) : Z :=
  (x + 1000 + 7 * Z.of_N (fold_right N.add 0%N idx))%Z.

Definition dvstep (s : sx) : option vstep :=
  match s with
  | SL [SZ 1%Z; a] => option_map VRev (dnames a)
  | SL [SZ 2%Z; a] => option_map VRange (dlist (dpair dN dN) a)
  | SL [SZ 3%Z; a] => option_map VAccess (dnames a)
  | SL [SZ 4%Z; a] => option_map VTranspose (dnames a)
  | SL [SZ 5%Z; a] => option_map VMask (dlist (dpair dN dN) a)
  | SL [SZ 6%Z; a] => option_map VRename (dnames a)
  | _ => None
  end.

Definition dtop (s : sx) : option (top Z) :=
  match s with
  | SL [SZ 0%Z; a] => option_map TReshapeMut (dshape a)
  | SL [SZ 1%Z; a] => option_map TRenameMut (dnames a)
  | SL [SZ 2%Z; a] => option_map TTransposeMut (dnames a)
  | SL [SZ 3%Z; a] => option_map TReorderMut (dnames a)
  | SL [SZ 4%Z; k] => option_map (TMapMut f_map) (dnat k)
  | SL [SZ 5%Z; k] => option_map (TMapMutWithIndex f_idx) (dnat k)
  | SL [SZ 6%Z; idx; v] =>
      match dlist dN idx, dZ v with
      | Some idx, Some v => Some (TSet idx v)
      | _, _ => None
      end
  | SL [SZ 7%Z; vs; idx; v] =>
      match dlist dvstep vs, dlist dN idx, dZ v with
      | Some vs, Some idx, Some v => Some (TWriteVia vs idx v)
      | _, _, _ => None
      end
  | _ => None
  end.

Definition ststate (st : tensor Z * nat) : sx :=
  SL [snat (snd st); sshape (t_shape (fst st)); slist SZ (t_data (fst st))].

Definition c10_history (sh : shape) (data : list Z) (ops : list (top Z)) : sx :=
  soutcome (fun t => slist ststate (ttrace t ops)) (tensor_from sh data).

(* ---- (10 9 term): walk of a stack / chain view ---- *)
Definition c10_walk (v : Views.view) : sx :=
  soutcome (fun c => SL [sshape (Views.c_shape c); slist (sopt RunC02.svalue) (RunC02.view_values c)])
           (Views.v_ctor v).

Definition run_c10 (args : list sx) : sx :=
  match args with
  | SZ 8%Z :: rest => RunC11.run_c11 rest
  | [SZ 9%Z; t] =>
      match RunC02.dview 40 t with
      | Some v => if RunC02.nodup_b (RunC02.v_leaf_ids v) then c10_walk v else bad_case
      | None => bad_case
      end
  | [SZ 7%Z; sh; data; ops] =>
      match dshape sh, dlist dZ data, dlist dtop ops with
      | Some sh, Some data, Some ops => c10_history sh data ops
      | _, _, _ => bad_case
      end
  | [SZ op; rows; cols; k] =>
      match dnat rows, dnat cols, dnat k with
      | Some rows, Some cols, Some k =>
          if ((op =? 1) || (op =? 2))%Z then
            let r := map_mut_panic (iotaZ (rows * cols)) k in
            smstate (mkM rows cols (fst r), snd r)
          else bad_case
      | _, _, _ => bad_case
      end
  | [SZ op; rows; cols; pos; vals; k] =>
      match dnat rows, dnat cols, dnat pos, dlist dZ vals, dnat k with
      | Some rows, Some cols, Some pos, Some vals, Some k =>
          let s := mkM rows cols (iotaZ (rows * cols)) in
          if (op =? 3)%Z then smstate (insert_row_with_panic s pos vals k)
          else if (op =? 4)%Z then smstate (insert_column_with_panic s pos vals k)
          else bad_case
      | _, _, _, _, _ => bad_case
      end
  | [SZ op; rows; cols; pos; vals; k; claim] =>
      match dnat rows, dnat cols, dnat pos, dlist dZ vals, dnat k, dN claim with
      | Some rows, Some cols, Some pos, Some vals, Some k, Some _ =>
          let s := mkM rows cols (iotaZ (rows * cols)) in
          if (op =? 3)%Z then smstate (insert_row_with_panic s pos vals k)
          else if (op =? 4)%Z then smstate (insert_column_with_panic s pos vals k)
          else bad_case
      | _, _, _, _, _, _ => bad_case
      end
  | [SZ op; lens; k] =>
      match dlist dnat lens, dnat k with
      | Some lens, Some k =>
          if ((op =? 5) || (op =? 6))%Z then
            let r := map_mut_panic (iotaZ (fold_right Nat.mul 1%nat lens)) k in
            SL [sbool (snd r); slist SZ (fst r)]
          else bad_case
      | _, _ => bad_case
      end
  | _ => bad_case
  end.
