(* C10 has no case language of its own: its run-time half replays the workloads of every other
   property with the verification hooks enabled (tools/props/c10.py). *)
From Coq Require Import List.
From EasyML Require Import Base.Sx.
Definition run_c10 (args : list sx) : sx := bad_case.
