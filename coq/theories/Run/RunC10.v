(* C10 own cases: a user closure / iterator panics in the middle of a mutating call, the panic is
   caught and the object is used again.
   (10 1 rows cols k)               Matrix::map_mut, closure panics on call k+1
   (10 2 rows cols k)               Matrix::map_mut_with_index
   (10 3 rows cols row vals k)      Matrix::insert_row_with, iterator panics on next() k+1
   (10 4 rows cols column vals k)   Matrix::insert_column_with
   (10 3|4 rows cols pos vals k claim)   the same with an iterator whose size_hint() claims exactly
                                    `claim` items (possibly a lie): the result must not depend on it
   (10 5 lens k)                    Tensor::map_mut       (shape lens, data iota)
   (10 6 lens k)                    Tensor::map_mut_with_index
   result: (panicked? rows cols (elements…)) resp. (panicked? (elements…)).
   (10 7 shape data ops)            a HISTORY of safe Tensor mutators over Tensor::from(shape, data),
                                    every step with valid or invalid arguments, the tensor used again
                                    after every step (Model/TensorOps.v):
        op = (0 shape) reshape_mut | (1 names) rename | (2 names) transpose_mut | (3 names) reorder_mut
           | (4 k) map_mut, closure panics on call k+1 | (5 k) map_mut_with_index likewise
           | (6 idx v) get_reference_mut(idx) then write
           | (7 (vstep…) idx v) the adaptors built over &mut tensor, then get_reference_mut(idx), write
        vstep = (1 names) TensorReverse | (2 ranges) TensorRange | (3 names) TensorAccess
              | (4 names) TensorTranspose | (5 masks) TensorMask | (6 names) TensorRename
      result: (2) if Tensor::from panics, else (0 ((code shape data)…)): after EVERY step the result
      code (0 done 1 constructor Err 2 panicked 3 index absent 4 not expressible) and the tensor's
      shape and elements.
   (10 8 . c11-case)                a Matrix mutation history in the case language of Run/RunC11.v
                                    (constructors, insert / remove / retain_mut / retain / transpose /
                                    set / map / partition writes with valid and invalid arguments and
                                    every slice kind); after EVERY step, panicking ones included, the
                                    same matrix is read through size / get / both major iterators
                                    (unchecked accesses, hooks on) and its stored data; the model is
                                    run_c11 (Model/Matrix.v), the harness drives harness/src/c11.rs
   (10 9 term)                      TensorStack / TensorChain constructors (term language of
                                    Run/RunC02.v, tags 0 leaf, 9 stack, 10 chain) over matching and
                                    MISMATCHING sources in every array / tuple arity and position; when
                                    the constructor returns, the whole view is walked: every index of
                                    view_shape through get_reference, get_reference_unchecked and iter()
                                    wave 2: `term` may also be ONE TensorIndex (3 inner ((name index)))
                                    or TensorExpansion (4 inner ((position name))) over a stack / chain
                                    term (tags 3 / 4 of Run/RunC02.v; the decoder accepts any view term)
      result: (2) constructor panicked | (0 (shape ((v) | () …)))
   (10 10 . c09-case)               wave 4: EVERY public iterator constructor of the crate in the case
                                    language of Run/RunC09.v (ops 1, 2, 3, 5, 6, 7: every iterator type,
                                    `from`, `from_numeric`, the Matrix / MatrixView / Tensor / TensorView
                                    convenience methods, with_index(); the model is run_c09, i.e.
                                    Model/IterG.v / MatrixIter.v / ShapeIter.v), generated over EMPTY and
                                    degenerate sources (0xN / Nx0 / 0x0 MatrixRange, 0x0 partition parts
                                    and quadrants, 1x1, single row / column, one-element tensors, ranges
                                    / masks whose constructor fails) and walked to exhaustion + 3 calls
   (10 11 variables rows cols data leaf (wrapper…) (r0 rl c0 cl))
                                    the record-container constructors built on the owning iterators:
                                    RecordMatrix::constants (variables = 0) / ::variables (1, fresh
                                    WengertList) over a C12 view stack (leaf / wrappers of Run/RunC12.v)
                                    over Matrix::from_flat_row_major((rows, cols), data); then
                                    RecordMatrix::from_existing over MatrixRange::from(record, (r0, rl),
                                    (c0, cl)), both walked by every iterator of the record API
      result: (2) partition panicked | (1 shape) tensor wrapper refused | (0 (2)) the constructor
              panicked (an EMPTY view: Matrix::from_flat_row_major rejects it before anything is read)
              | (0 (0 (rows cols ((v i)…)) (rows' cols' ((v i)…))))  the record's elements row-major
              with their WengertList indexes (0 for constants, 0.. for variables), then the
              from_existing view's (empty: no element)
   (10 12 variables src (range…))   RecordTensor::constants / ::variables over a tensor source term
                                    (Model/TSource.v, as (9 2 ..)), then RecordTensor::from_existing over
                                    TensorRange::from(record, ranges) (range = (start length) per
                                    dimension; a range that leaves nothing is refused by the constructor)
      result: outcome of the source term, then (shape ((v i)…) R) with R = (1) range refused |
              (0 (shape' ((v i)…)))
   All other C10 workloads are the other properties' cases replayed with the hooks on. *)
From Coq Require Import List ZArith NArith Bool Arith.
From EasyML Require Import Base.Sx Model.PanicSafety Model.Shape Model.Tensor Model.TSource
  Model.TensorOps.
From EasyML Require Model.Views Run.RunC02 Run.RunC11.
From EasyML Require Model.ShapeIter Model.MatrixViews Model.MatrixAccess Model.IterG Run.RunC12 Run.RunC09.
Import ListNotations.

Definition iotaZ (n : nat) : list Z := map Z.of_nat (seq 0 n).
Definition smstate (p : mstate * bool) : sx :=
  SL [sbool (snd p); snat (m_rows (fst p)); snat (m_cols (fst p)); slist SZ (m_data (fst p))].

(* ---- (10 7 ..): tensor mutation histories ---- *)
Definition f_idx (idx : list N) (x : Z) : Z :=
  (x + 1000 + 7 * Z.of_N (fold_right N.add 0%N idx))%Z.

Definition dvstep (s : sx) : option vstep :=
  match s with
  | SL [SZ 1%Z; a] => option_map VRev (dnames a)
  | SL [SZ 2%Z; a] => option_map VRange (dlist (dpair dN dN) a)
  | SL [SZ 3%Z; a] => option_map VAccess (dnames a)
  | SL [SZ 4%Z; a] => option_map VTranspose (dnames a)
  | SL [SZ 5%Z; a] => option_map VMask (dlist (dpair dN dN) a)
  | SL [SZ 6%Z; a] => option_map VRename (dnames a)
  | _ => None
  end.

Definition dtop (s : sx) : option (top Z) :=
  match s with
  | SL [SZ 0%Z; a] => option_map TReshapeMut (dshape a)
  | SL [SZ 1%Z; a] => option_map TRenameMut (dnames a)
  | SL [SZ 2%Z; a] => option_map TTransposeMut (dnames a)
  | SL [SZ 3%Z; a] => option_map TReorderMut (dnames a)
  | SL [SZ 4%Z; k] => option_map (TMapMut f_map) (dnat k)
  | SL [SZ 5%Z; k] => option_map (TMapMutWithIndex f_idx) (dnat k)
  | SL [SZ 6%Z; idx; v] =>
      match dlist dN idx, dZ v with
      | Some idx, Some v => Some (TSet idx v)
      | _, _ => None
      end
  | SL [SZ 7%Z; vs; idx; v] =>
      match dlist dvstep vs, dlist dN idx, dZ v with
      | Some vs, Some idx, Some v => Some (TWriteVia vs idx v)
      | _, _, _ => None
      end
  | _ => None
  end.

Definition ststate (st : tensor Z * nat) : sx :=
  SL [snat (snd st); sshape (t_shape (fst st)); slist SZ (t_data (fst st))].

Definition c10_history (sh : shape) (data : list Z) (ops : list (top Z)) : sx :=
  soutcome (fun t => slist ststate (ttrace t ops)) (tensor_from sh data).

(* ---- (10 9 term): walk of a stack / chain view ---- *)
Definition c10_walk (v : Views.view) : sx :=
  soutcome (fun c => SL [sshape (Views.c_shape c); slist (sopt RunC02.svalue) (RunC02.view_values c)])
           (Views.v_ctor v).

(* ---- (10 11 ..) / (10 12 ..): record containers built on the owning iterators ---- *)
(* the elements a row-major walk to exhaustion hands out (Model/IterG.v: the generic iterator over a
   C12 view stack through its unchecked getters) *)
Definition walk_values {St} (o : IterG.msource St Z) (s : St) : list Z :=
  let it := IterG.gmi_from o true s in
  let n := N.to_nat (IterG.mo_rows o s * IterG.mo_cols o s) in
  flat_map (fun st : option ((N * N) * option Z) * N =>
              match fst st with Some (_, Some v) => [v] | _ => [] end)
           (fst (ShapeIter.drive (IterG.gmi_next o) IterG.gmi_len n it)).

Definition with_indexes (variables : bool) (vs : list Z) : list (Z * N) :=
  combine vs (map (fun i => if variables then N.of_nat i else 0%N) (seq 0 (length vs))).
Definition srecs (l : list (Z * N)) : sx := slist (fun p => SL [SZ (fst p); sN (snd p)]) l.

Definition c10_record_matrix (variables : bool) (v : MatrixViews.mview) (data : list Z)
           (r0 rl c0 cl : N) : sx :=
  let o := IterG.mview_source (T := Z) v in
  let rows := IterG.mo_rows o data in
  let cols := IterG.mo_cols o data in
  if (rows * cols =? 0)%N then SL [SZ 2%Z]
  else
    let recs := with_indexes variables (walk_values o data) in
    let keys := seq 0 (length recs) in
    (* the record owns a fresh rows x cols matrix; from_existing views it through a MatrixRange *)
    let v' := MatrixViews.range_from (MatrixViews.VMatrix rows cols) (MatrixViews.mkIR r0 rl) (MatrixViews.mkIR c0 cl) in
    let o' := IterG.mview_source (T := Z) v' in
    let picked := walk_values o' (map Z.of_nat keys) in
    let recs' := flat_map (fun k => match nth_error recs (Z.to_nat k) with Some r => [r] | None => [] end) picked in
    SL [SZ 0%Z; SL [sN rows; sN cols; srecs recs];
        SL [sN (IterG.mo_rows o' data); sN (IterG.mo_cols o' data); srecs recs']].

Definition tensor_walk_values (s : tsrc Z) : list Z :=
  let it := ShapeIter.tensor_iter_from s in
  flat_map (fun st : option (list N * option Z) * N =>
              match fst st with Some (_, Some v) => [v] | _ => [] end)
           (fst (ShapeIter.drive ShapeIter.ti_next ShapeIter.ti_len (N.to_nat (ShapeIter.ti_len it)) it)).

Definition c10_record_tensor (variables : bool) (s : tsrc Z) (ranges : list (N * N)) : sx :=
  let recs := with_indexes variables (tensor_walk_values s) in
  let sh := src_shape s in
  let keys := map Z.of_nat (seq 0 (length recs)) in
  let inner :=
    match tensor_from sh keys with
    | Ok t =>
        match trange_from_all (TBase t) ranges with
        | Ok s' =>
            let picked := tensor_walk_values s' in
            SL [SZ 0%Z; SL [sshape (src_shape s');
                            srecs (flat_map (fun k => match nth_error recs (Z.to_nat k) with
                                                      | Some r => [r] | None => [] end) picked)]]
        | _ => SL [SZ 1%Z]
        end
    | _ => SL [SZ 1%Z]
    end in
  SL [sshape sh; srecs recs; inner].

Definition run_c10 (args : list sx) : sx :=
  match args with
  | SZ 8%Z :: rest => RunC11.run_c11 rest
  | SZ 10%Z :: rest => RunC09.run_c09 rest
  | [SZ 11%Z; variables; rows; cols; data; leaf; ws; SL [r0; rl; c0; cl]] =>
      match dbool variables, dN rows, dN cols, dlist dZ data, dlist RunC12.dwrapper ws with
      | Some variables, Some rows, Some cols, Some data, Some ws =>
          match dN r0, dN rl, dN c0, dN cl with
          | Some r0, Some rl, Some c0, Some cl =>
              if RunC12.root_ok rows cols data then
                match RunC12.dleaf rows cols leaf with
                | Some lf =>
                    match obind lf (fun v => RunC12.apply_wrappers v ws) with
                    | Ok v => SL [SZ 0%Z; c10_record_matrix variables v data r0 rl c0 cl]
                    | Err e => SL [SZ 1%Z; e]
                    | Panic => SL [SZ 2%Z]
                    end
                | None => bad_case
                end
              else bad_case
          | _, _, _, _ => bad_case
          end
      | _, _, _, _, _ => bad_case
      end
  | [SZ 12%Z; variables; src; ranges] =>
      match dbool variables, dsrc 8 src, dlist (dpair dN dN) ranges with
      | Some variables, Some src, Some ranges =>
          soutcome (fun s => if Nat.eqb (length ranges) (length (src_shape s))
                             then c10_record_tensor variables s ranges else bad_case) src
      | _, _, _ => bad_case
      end
  | [SZ 9%Z; t] =>
      match RunC02.dview 40 t with
      | Some v => if RunC02.nodup_b (RunC02.v_leaf_ids v) then c10_walk v else bad_case
      | None => bad_case
      end
  | [SZ 7%Z; sh; data; ops] =>
      match dshape sh, dlist dZ data, dlist dtop ops with
      | Some sh, Some data, Some ops => c10_history sh data ops
      | _, _, _ => bad_case
      end
  | [SZ op; rows; cols; k] =>
      match dnat rows, dnat cols, dnat k with
      | Some rows, Some cols, Some k =>
          if ((op =? 1) || (op =? 2))%Z then
            let r := map_mut_panic (iotaZ (rows * cols)) k in
            smstate (mkM rows cols (fst r), snd r)
          else bad_case
      | _, _, _ => bad_case
      end
  | [SZ op; rows; cols; pos; vals; k] =>
      match dnat rows, dnat cols, dnat pos, dlist dZ vals, dnat k with
      | Some rows, Some cols, Some pos, Some vals, Some k =>
          let s := mkM rows cols (iotaZ (rows * cols)) in
          if (op =? 3)%Z then smstate (insert_row_with_panic s pos vals k)
          else if (op =? 4)%Z then smstate (insert_column_with_panic s pos vals k)
          else bad_case
      | _, _, _, _, _ => bad_case
      end
  | [SZ op; rows; cols; pos; vals; k; claim] =>
      match dnat rows, dnat cols, dnat pos, dlist dZ vals, dnat k, dN claim with
      | Some rows, Some cols, Some pos, Some vals, Some k, Some _ =>
          let s := mkM rows cols (iotaZ (rows * cols)) in
          if (op =? 3)%Z then smstate (insert_row_with_panic s pos vals k)
          else if (op =? 4)%Z then smstate (insert_column_with_panic s pos vals k)
          else bad_case
      | _, _, _, _, _, _ => bad_case
      end
  | [SZ op; lens; k] =>
      match dlist dnat lens, dnat k with
      | Some lens, Some k =>
          if ((op =? 5) || (op =? 6))%Z then
            let r := map_mut_panic (iotaZ (fold_right Nat.mul 1%nat lens)) k in
            SL [sbool (snd r); slist SZ (fst r)]
          else bad_case
      | _, _ => bad_case
      end
  | _ => bad_case
  end.
