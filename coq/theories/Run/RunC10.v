(* C10 own cases: a user closure / iterator panics in the middle of a mutating call, the panic is
   caught and the object is used again.
   (10 1 rows cols k)               Matrix::map_mut, closure panics on call k+1
   (10 2 rows cols k)               Matrix::map_mut_with_index
   (10 3 rows cols row vals k)      Matrix::insert_row_with, iterator panics on next() k+1
   (10 4 rows cols column vals k)   Matrix::insert_column_with
   (10 3|4 rows cols pos vals k claim)   the same with an iterator whose size_hint() claims exactly
                                    `claim` items (possibly a lie): the result must not depend on it
   (10 5 lens k)                    Tensor::map_mut       (shape lens, data iota)
   (10 6 lens k)                    Tensor::map_mut_with_index
   result: (panicked? rows cols (elements…)) resp. (panicked? (elements…)).
   All other C10 workloads are the other properties' cases replayed with the hooks on. *)
From Coq Require Import List ZArith NArith Bool Arith.
From EasyML Require Import Base.Sx Model.PanicSafety.
Import ListNotations.

Definition iotaZ (n : nat) : list Z := map Z.of_nat (seq 0 n).
Definition smstate (p : mstate * bool) : sx :=
  SL [sbool (snd p); snat (m_rows (fst p)); snat (m_cols (fst p)); slist SZ (m_data (fst p))].

Definition run_c10 (args : list sx) : sx :=
  match args with
  | [SZ op; rows; cols; k] =>
      match dnat rows, dnat cols, dnat k with
      | Some rows, Some cols, Some k =>
          if ((op =? 1) || (op =? 2))%Z then
            let r := map_mut_panic (iotaZ (rows * cols)) k in
            smstate (mkM rows cols (fst r), snd r)
          else bad_case
      | _, _, _ => bad_case
      end
  | [SZ op; rows; cols; pos; vals; k] =>
      match dnat rows, dnat cols, dnat pos, dlist dZ vals, dnat k with
      | Some rows, Some cols, Some pos, Some vals, Some k =>
          let s := mkM rows cols (iotaZ (rows * cols)) in
          if (op =? 3)%Z then smstate (insert_row_with_panic s pos vals k)
          else if (op =? 4)%Z then smstate (insert_column_with_panic s pos vals k)
          else bad_case
      | _, _, _, _, _ => bad_case
      end
  | [SZ op; rows; cols; pos; vals; k; claim] =>
      match dnat rows, dnat cols, dnat pos, dlist dZ vals, dnat k, dN claim with
      | Some rows, Some cols, Some pos, Some vals, Some k, Some _ =>
          let s := mkM rows cols (iotaZ (rows * cols)) in
          if (op =? 3)%Z then smstate (insert_row_with_panic s pos vals k)
          else if (op =? 4)%Z then smstate (insert_column_with_panic s pos vals k)
          else bad_case
      | _, _, _, _, _, _ => bad_case
      end
  | [SZ op; lens; k] =>
      match dlist dnat lens, dnat k with
      | Some lens, Some k =>
          if ((op =? 5) || (op =? 6))%Z then
            let r := map_mut_panic (iotaZ (fold_right Nat.mul 1%nat lens)) k in
            SL [sbool (snd r); slist SZ (fst r)]
          else bad_case
      | _, _ => bad_case
      end
  | _ => bad_case
  end.
