(* Case decoder / result encoder for property C08 (same language: harness/src/c08.rs,
   tools/props/c08.py).
     (8 op ty (n0 n1) rows cols (x ...))
        op 1 = Cholesky, 2 = LDL^T, 3 = QR ; ty 0 = Rat, 1 = Fp, 2 = StrictRat ; n0 n1 = dimension
        names of the tensor forms ; rows, cols >= 1 ; x ... = rows*cols entries, row-major.
        ty 2 (StrictRat, harness/src/c08/strict.rs): entries encoded as for Rat, same values as Rat,
        but on the implementation side `/` PANICS on a zero divisor (as ordinary exact rational /
        integer types do).  The model runs the SAME total dictionary Qops for tag 2: by
        C08_ldlt_rejects / C08_ldlt_absent_iff_zero_pivot a zero pivot is answered None and by
        C08_cholesky_rejects* a non-positive pivot is, and the property says "never a panic" for
        these inputs — so the code must reach its absence decision before any division by the
        pivot, and the results for tag 2 are those for tag 0.  An implementation panic is answered
        `(2)` by the harness, which no model result equals.
   Result (absent `()` or present):
        Cholesky:  ((shape (l ...)))                      shape = ((n0 rows) (n1 cols))
        LDL^T:     ((shape (l ...) (d ...)))
        QR:        ((qshape (q ...) rshape (r ...)))      qshape = ((n0 rows) (n1 rows))
     (8 4 which (n0 n1) rows cols (x ...) scale)   FLOAT oracle: which 1 = Cholesky, 2 = LDL^T,
        3 = QR on the f64 matrix with entries (num/den) * 2^scale (x ... are Rat encodings of a
        SYMMETRIC matrix for which = 1, 2).  The harness checks the defining identities on f64
        (L L^T = A, L D L^T = A, Q^T Q = I, Q R = A within 1e-9 relative; exact zeros / unit
        diagonal where the algorithm writes them; R's sub-diagonal entries at most 1e-12 * |A|;
        all entry points bit for bit) and answers (1) when present and all identities hold, ()
        when absent, (0 code) when an identity fails.  The model answers with the PRESENCE it
        predicts exactly over the rationals: Cholesky present <-> square and every LDL^T pivot
        positive; LDL^T present <-> the exact LDL^T is; QR present <-> rows >= cols.
   Outside the language (bad case, both sides): square Rat / StrictRat Cholesky of more than 4 rows and
   Rat / StrictRat QR needing more than one reflection — the polynomial sqrt stand-in makes the exact rationals explode (a
   3x2 QR takes the extracted model more than a minute); Fp has no such limit.
   `sqrt` is the fixed polynomial of Model/Num.v on both sides: the factors are compared exactly
   as computation skeletons (same field operations, same sqrt calls, same comparisons). *)
From Coq Require Import List ZArith NArith QArith Bool.
From EasyML Require Import Base.Sx Model.Num Model.LinAlg Model.Decomp Run.RunC07.
Import ListNotations.

Definition c08_run {R} (ops : numops R) (op : Z) (names : nat * nat) (m : mat (R := R)) : sx :=
  let shape := fun x : mat =>
    SL [SL [snat (fst names); snat (mrows x)]; SL [snat (snd names); snat (mcols x)]] in
  let data := fun x : mat => slist (nenc ops) (concat x) in
  match op with
  | 1%Z => sopt (fun l => SL [shape l; data l]) (cholesky ops m)
  | 2%Z => sopt (fun ld => SL [shape (fst ld); data (fst ld); data (snd ld)]) (ldlt ops m)
  | 3%Z => sopt (fun qr => SL [shape (fst qr); data (fst qr); shape (snd qr); data (snd qr)])
                (qr ops m)
  | _ => bad_case
  end.

(* op 4: predicted presence of the f64 result, decided exactly over the rationals *)
Definition c08_float_presence (which : Z) (m : mat (R := Q)) : sx :=
  let yes := SL [SZ 1%Z] in
  let no := SL [] in
  match which with
  | 1%Z => match ldlt Qops m with
           | Some (_, d) =>
               if forallb (fun i => nltb Qops (nzero Qops) (mget Qops d i i)) (seq 0 (mrows m))
               then yes else no
           | None => no
           end
  | 2%Z => match ldlt Qops m with Some _ => yes | None => no end
  | 3%Z => if Nat.ltb (mrows m) (mcols m) then no else yes
  | _ => bad_case
  end.

Definition run_c08 (args : list sx) : sx :=
  match args with
  | [SZ 4%Z; SZ which; names; rows; cols; data; SZ scale] =>
      match dpair dnat dnat names, dnat rows, dnat cols, dlist (ndec Qops) data with
      | Some names, Some rows, Some cols, Some d =>
          if Nat.eqb rows 0 || Nat.eqb cols 0 || Nat.eqb (fst names) (snd names)
             || negb (Nat.eqb (length d) (rows * cols)) || Nat.ltb 8 rows || Nat.ltb 8 cols
          then bad_case else c08_float_presence which (chunk rows cols d)
      | _, _, _, _ => bad_case
      end
  | [SZ op; SZ ty; names; rows; cols; data] =>
      match dpair dnat dnat names, dnat rows, dnat cols with
      | Some names, Some rows, Some cols =>
          if Nat.eqb rows 0 || Nat.eqb cols 0 || Nat.eqb (fst names) (snd names) then bad_case else
          (* tag 2 = StrictRat: the rationals again (the model's division is total) *)
          let ty := if Z.eqb ty 2 then 0%Z else ty in
          if Z.eqb ty 0 && ((Z.eqb op 1 && Nat.ltb 4 rows && Nat.eqb rows cols) ||
                            (Z.eqb op 3 && Nat.leb cols rows && Nat.ltb 1 (Nat.min (rows - 1) cols)))
          then bad_case else
          with_ty ty (fun R ops =>
            match dlist (ndec ops) data with
            | Some d => if Nat.eqb (length d) (rows * cols)
                        then c08_run ops op names (chunk rows cols d) else bad_case
            | None => bad_case
            end)
      | _, _, _ => bad_case
      end
  | _ => bad_case
  end.
