(* Case decoder / result encoder for property C08 (same language: harness/src/c08.rs,
   tools/props/c08.py).
     (8 op ty (n0 n1) rows cols (x ...))
        op 1 = Cholesky, 2 = LDL^T, 3 = QR ; ty 0 = Rat, 1 = Fp, 2 = StrictRat, 3 = StrictRat0 ; n0 n1 = dimension
        names of the tensor forms ; rows, cols >= 1 ; x ... = rows*cols entries, row-major.
        ty 2 (StrictRat, harness/src/c08/strict.rs): entries encoded as for Rat, same values as Rat,
        but on the implementation side `/` PANICS on a zero divisor (as ordinary exact rational /
        integer types do).  ty 3 (StrictRat0): the same, and the sqrt stand-in is x^3 + 7x (zero at
        zero, positive on positive arguments, like the true square root; dictionary Qops0).
        For tags 2 and 3 the model runs the DIVISION-INSTRUMENTED transcriptions
        (Model/DecompDiv.v: cholesky_i / ldlt_i / qr_i with strict_div): it PREDICTS value /
        absence / panic; a panic is the result `(2)` on both sides (the harness answers `(2)` when
        an entry point panics).  Theorems (Properties/C08.v): Cholesky and LDL^T never predict a
        panic (C08_cholesky_never_divides_by_zero, C08_ldlt_never_divides_by_zero); QR predicts
        a panic exactly when a reflection meets u with length `== zero` (C08_qr_panics_exactly)
        — with tag 2 never (sqrt >= 23), with tag 3 e.g. on a zero first column.
   Result (absent `()` or present):
        Cholesky:  ((shape (l ...)))                      shape = ((n0 rows) (n1 cols))
        LDL^T:     ((shape (l ...) (d ...)))
        QR:        ((qshape (q ...) rshape (r ...)))      qshape = ((n0 rows) (n1 rows))
     (8 4 which (n0 n1) rows cols (x ...) scale)   FLOAT oracle: which 1 = Cholesky, 2 = LDL^T,
        3 = QR on the f64 matrix with entries (num/den) * 2^scale (x ... are Rat encodings of a
        SYMMETRIC matrix for which = 1, 2).  The harness checks the defining identities on f64
        (L L^T = A, L D L^T = A, Q^T Q = I, Q R = A within 1e-9 relative; exact zeros / unit
        diagonal where the algorithm writes them; R's sub-diagonal entries at most 1e-12 * |A|;
        all entry points bit for bit) and answers (1) when present and all identities hold, ()
        when absent, (0 code) when an identity fails.  The model answers with the PRESENCE it
        predicts exactly over the rationals: Cholesky present <-> square and every LDL^T pivot
        positive; LDL^T present <-> the exact LDL^T is; QR present <-> rows >= cols.
   Outside the language (bad case, both sides): square Rat / StrictRat Cholesky of more than 4 rows and
   Rat / StrictRat QR needing more than one reflection (exception, tag 3 only: two reflections when rows <= 4, every entry
   is written `(n 1)` with |n| <= 2 and column 0 is zero below the diagonal: cheap) — the polynomial sqrt stand-in makes the exact rationals explode (a
   3x2 QR takes the extracted model more than a minute); Fp has no such limit.
   `sqrt` is the fixed polynomial of Model/Num.v on both sides: the factors are compared exactly
   as computation skeletons (same field operations, same sqrt calls, same comparisons). *)
From Coq Require Import List ZArith NArith QArith Bool.
From EasyML Require Import Base.Sx Model.Num Model.LinAlg Model.Decomp Model.DivOutcome
  Model.DecompDiv Run.RunC07.
Import ListNotations.

Definition c08_run {R} (ops : numops R) (op : Z) (names : nat * nat) (m : mat (R := R)) : sx :=
  let shape := fun x : mat =>
    SL [SL [snat (fst names); snat (mrows x)]; SL [snat (snd names); snat (mcols x)]] in
  let data := fun x : mat => slist (nenc ops) (concat x) in
  match op with
  | 1%Z => sopt (fun l => SL [shape l; data l]) (cholesky ops m)
  | 2%Z => sopt (fun ld => SL [shape (fst ld); data (fst ld); data (snd ld)]) (ldlt ops m)
  | 3%Z => sopt (fun qr => SL [shape (fst qr); data (fst qr); shape (snd qr); data (snd qr)])
                (qr ops m)
  | _ => bad_case
  end.

(* ty 3, QR with TWO reflections is inside the language only for cheap inputs: at most 4 rows,
   every entry written `(n 1)` with |n| <= 2, column 0 zero below the diagonal *)
Definition c08_sparse_small (rows cols : nat) (data : sx) : bool :=
  match data with
  | SL l =>
      forallb (fun s => match s with
                        | SL [SZ n; SZ 1%Z] => (Z.abs n <=? 2)%Z
                        | _ => false
                        end) l
      && forallb (fun i => match nth (i * cols) l (SL []) with
                           | SL [SZ 0%Z; SZ 1%Z] => true
                           | _ => false
                           end) (seq 1 (rows - 1))
  | _ => false
  end.

(* ty 2 / ty 3: the division-instrumented transcriptions (Model/DecompDiv.v) with the STRICT
   division: a division by a divisor `== zero` is the outcome Panic, encoded `(2)`; a value is
   encoded exactly as by c08_run (by C08_*_erase the value IS the one of the models above) *)
Definition c08_run_strict {R} (ops : numops R) (op : Z) (names : nat * nat) (m : mat (R := R)) : sx :=
  let shape := fun x : mat =>
    SL [SL [snat (fst names); snat (mrows x)]; SL [snat (snd names); snat (mcols x)]] in
  let data := fun x : mat => slist (nenc ops) (concat x) in
  let pd := strict_div ops in
  match op with
  | 1%Z => sx_or_panic (sopt (fun l => SL [shape l; data l])) (cholesky_i ops pd m)
  | 2%Z => sx_or_panic (sopt (fun ld => SL [shape (fst ld); data (fst ld); data (snd ld)]))
                       (ldlt_i ops pd m)
  | 3%Z => sx_or_panic (sopt (fun qr => SL [shape (fst qr); data (fst qr); shape (snd qr); data (snd qr)]))
                       (qr_i ops pd m)
  | _ => bad_case
  end.

(* op 4: predicted presence of the f64 result, decided exactly over the rationals *)
Definition c08_float_presence (which : Z) (m : mat (R := Q)) : sx :=
  let yes := SL [SZ 1%Z] in
  let no := SL [] in
  match which with
  | 1%Z => match ldlt Qops m with
           | Some (_, d) =>
               if forallb (fun i => nltb Qops (nzero Qops) (mget Qops d i i)) (seq 0 (mrows m))
               then yes else no
           | None => no
           end
  | 2%Z => match ldlt Qops m with Some _ => yes | None => no end
  | 3%Z => if Nat.ltb (mrows m) (mcols m) then no else yes
  | _ => bad_case
  end.

Definition run_c08 (args : list sx) : sx :=
  match args with
  | [SZ 4%Z; SZ which; names; rows; cols; data; SZ scale] =>
      match dpair dnat dnat names, dnat rows, dnat cols, dlist (ndec Qops) data with
      | Some names, Some rows, Some cols, Some d =>
          if Nat.eqb rows 0 || Nat.eqb cols 0 || Nat.eqb (fst names) (snd names)
             || negb (Nat.eqb (length d) (rows * cols)) || Nat.ltb 8 rows || Nat.ltb 8 cols
          then bad_case else c08_float_presence which (chunk rows cols d)
      | _, _, _, _ => bad_case
      end
  | [SZ op; SZ ty; names; rows; cols; data] =>
      match dpair dnat dnat names, dnat rows, dnat cols with
      | Some names, Some rows, Some cols =>
          if Nat.eqb rows 0 || Nat.eqb cols 0 || Nat.eqb (fst names) (snd names) then bad_case else
          (* tags 0, 2, 3 are rationals: the same size limits *)
          if (Z.eqb ty 0 || Z.eqb ty 2 || Z.eqb ty 3)
             && ((Z.eqb op 1 && Nat.ltb 4 rows && Nat.eqb rows cols) ||
                 (Z.eqb op 3 && Nat.leb cols rows && Nat.ltb 1 (Nat.min (rows - 1) cols)
                  && negb (Z.eqb ty 3 && Nat.eqb (Nat.min (rows - 1) cols) 2 && Nat.leb rows 4
                           && c08_sparse_small rows cols data)))
          then bad_case else
          (* tag 2 = StrictRat, tag 3 = StrictRat0: instrumented model, strict division *)
          if Z.eqb ty 2 || Z.eqb ty 3 then
            let ops := if Z.eqb ty 2 then Qops else Qops0 in
            match dlist (ndec ops) data with
            | Some d => if Nat.eqb (length d) (rows * cols)
                        then c08_run_strict ops op names (chunk rows cols d) else bad_case
            | None => bad_case
            end
          else
          with_ty ty (fun R ops =>
            match dlist (ndec ops) data with
            | Some d => if Nat.eqb (length d) (rows * cols)
                        then c08_run ops op names (chunk rows cols d) else bad_case
            | None => bad_case
            end)
      | _, _, _ => bad_case
      end
  | _ => bad_case
  end.
