(* Case decoder / result encoder for property C13 (tensor transformations, equality, similarity).
   Same language in harness/src/c13.rs and tools/props/c13.py.  Source terms `src` are those of
   Model/TSource.v ((0 shape data) tensor | (1 src names) reverse | (2 src ranges) range |
   (3 src names) access | (4 src names) transpose | (5 src masks) mask | (6 src names) rename).  `form` 0 = the method of Tensor (src must be
   a (0 ..) term), 1 = the method of TensorView over the source.

     (13 1 form src dims)      reorder            (13 2 form src dims)    transpose
     (13 3 src dims)           reorder_mut        (13 4 src dims)         transpose_mut
     (13 5 src shape)          reshape_mut        (13 6 src shape)        reshape_owned
     (13 7 src dims)           rename / rename_owned
     (13 8 form src a b)       map  x -> a*x+b    (13 9 form src)         map_with_index
     (13 10 form src a b)      map_mut            (13 11 form src)        map_mut_with_index
     (13 12 form src rhs)      elementwise (x,y) -> 1000x+y
     (13 13 form src rhs)      elementwise_with_index (i,x,y) -> (1000x+y)*1000 + code(i)
     (13 14 form src)          first              (13 15 form src)        (scalar into_scalar), D = 0
     (13 16 src)               into_matrix -> (rows cols data)
     (13 17 rows cols data rn cn)  Matrix::into_tensor
     (13 20 l r)               (l == r, l.similar(r), r == l, r.similar(l))
     (13 21 shape data nans)   element type f64 with NaN at the listed data positions (an element
                               that is not equal to itself; modelled as `None` under an equality
                               that is false on None — no float reaches the model):
                               (t == t, t == t.clone(), t.clone() == t, t.view() == t.view(),
                                t == t.view(), t.view() == t) then the same six for `similar`,
                               same-object operands included
     (13 30 sub term ..)       the TensorView methods over ANY view of the C02 algebra as the source
                               (Model/TransformG.v; `term` / `rhs` in the term language of
                               Run/RunC02.v, elements are leaf*1000 + offset):
                               sub 1 dims reorder | 2 dims transpose | 8 a b map | 9 map_with_index
                               | 12 rhs elementwise | 13 rhs elementwise_with_index | 14 first
                               | 20 rhs (l == r, l.similar(r), r == l, r.similar(l), l == l)
                               | 10 a b map_mut | 11 map_mut_with_index THROUGH the view (entered through
                               `&mut` and owned; terms with a shared-reference entry are bad cases):
                               result (0 (leaf dumps)) - every element of every leaf, in term order,
                               after the in-place map (Model/TransformMutG.v over leaf storage)
                               a failing constructor of a term is reported as in C02: (1 e) | (2)
     (13 22 src dims)          the four forms of reorder and of transpose on one tensor: result
                               ((reorder reorder_mut index_by-dump view.reorder)
                                (transpose transpose_mut transpose_view-dump view.transpose)),
                               each an outcome of a tensor dump, each from its OWN transcription
                               (Tensor::reorder, Tensor::reorder_mut, TensorAccess, TensorView::reorder, ...)
   with code(i) = fold (acc -> acc*7 + i_d + 1) 0 i, and the with-index maps x -> 1000x + code(i).
   A tensor result is (shape ((v)…)) : its shape and the element found by get_reference at every
   index in row-major order.  Results are outcomes: (0 r) | (1 shape) | (2). *)
From Coq Require Import List ZArith NArith Bool Arith.
From EasyML Require Import Base.Sx Model.Shape Model.Tensor Model.TSource Model.ShapeIter
  Model.Transform Model.TransformG Model.IterG Model.TransformMutG.
From EasyML Require Model.Views Run.RunC02.
Import ListNotations.
Open Scope N_scope.

Definition stensor (t : tensor Z) : sx :=
  SL [sshape (t_shape t); slist (fun i => sopt SZ (t_get t i)) (all_indexes (lens_of (t_shape t)))].

Definition code (i : list N) : Z := fold_left (fun acc x => acc * 7 + Z.of_N x + 1)%Z i 0%Z.
Definition f_map (a b x : Z) : Z := (a * x + b)%Z.
Definition f_map_wi (i : list N) (x : Z) : Z := (1000 * x + code i)%Z.
Definition f_ew (x y : Z) : Z := (1000 * x + y)%Z.
Definition f_ew_wi (i : list N) (x y : Z) : Z := ((1000 * x + y) * 1000 + code i)%Z.

Definition as_tensor (s : tsrc Z) : option (tensor Z) :=
  match s with TBase t => Some t | _ => None end.

(* run `k` on a tensor (form 0) or on the source as a view (form 1) *)
Definition by_form (form : nat) (src : outcome (tsrc Z))
           (kt : tensor Z -> sx) (kv : tsrc Z -> sx) : sx :=
  match src with
  | Ok s => match form with
            | 0%nat => match as_tensor s with Some t => kt t | None => bad_case end
            | _ => kv s
            end
  | Err e => SL [SZ 1%Z; e]
  | Panic => SL [SZ 2%Z]
  end.

Definition on_tensor (src : outcome (tsrc Z)) (k : tensor Z -> sx) : sx :=
  by_form 0 src k (fun _ => bad_case).

Definition sot (o : outcome (tensor Z)) : sx := soutcome stensor o.
Definition okt (t : tensor Z) : sx := sot (Ok t).

(* f64 with NaN: None is NaN; PartialEq is false whenever a NaN is involved *)
Definition nan_eqb (x y : option Z) : bool :=
  match x, y with Some a, Some b => Z.eqb a b | _, _ => false end.

Fixpoint with_nans (data : list Z) (nans : list nat) (pos : nat) : list (option Z) :=
  match data with
  | [] => []
  | x :: r => (if existsb (Nat.eqb pos) nans then None else Some x) :: with_nans r nans (S pos)
  end.

Definition c13_nan (sh : shape) (data : list Z) (nans : list nat) : sx :=
  soutcome (fun t : tensor (option Z) =>
    let e := sbool (tensor_equality nan_eqb (TBase t) (TBase t)) in
    let s := sbool (tensor_similarity nan_eqb (TBase t) (TBase t)) in
    SL [e; e; e; e; e; e; s; s; s; s; s; s])
    (tensor_from sh (with_nans data nans 0)).

(* op 30: C02 view terms as sources *)
Definition c02_source (c : Views.cview) : gsrc Z :=
  of_cview c (fun e => Some (Views.leaf_value e)).
Definition dcview (t : sx) : option (outcome Views.cview) :=
  match RunC02.dview 40 t with
  | Some v => if RunC02.nodup_b (RunC02.v_leaf_ids v) then Some (Views.v_ctor v) else None
  | None => None
  end.
Definition with_view (t : sx) (k : gsrc Z -> sx) : sx :=
  match dcview t with
  | Some o => match o with Ok c => k (c02_source c) | Err e => SL [SZ 1%Z; e] | Panic => SL [SZ 2%Z] end
  | None => bad_case
  end.
(* a term whose view is entered through a shared reference somewhere ((11 t 4), or a convenience
   constructor taking `&self`: via 3 / 4) has no mutable face (same test as Run/RunC09.v) *)
Fixpoint term_read_only (fuel : nat) (t : sx) : bool :=
  match fuel with
  | O => false
  | S f =>
    match t with
    | SL [SZ 11%Z; t'; SZ kind] => (kind =? 4)%Z || term_read_only f t'
    | SL [SZ 9%Z; SL ts; _; _; _] => existsb (term_read_only f) ts
    | SL [SZ 10%Z; SL ts; _; _] => existsb (term_read_only f) ts
    | SL [SZ _; t'; _; SZ via] => (via =? 3)%Z || (via =? 4)%Z || term_read_only f t'
    | SL (SZ _ :: t' :: _) => term_read_only f t'
    | _ => false
    end
  end.
Definition initial_store : N * N -> option Z := fun e => Some (Views.leaf_value e).
Definition dump_store (c : Views.cview) (st : N * N -> option Z) : sx :=
  slist (fun e => slist (fun j => match st (fst e, N.of_nat j) with Some x => SZ x | None => SL [] end)
                        (seq 0 (N.to_nat (snd e))))
        (Views.c_leaves c).
Definition with_mut_view (t : sx) (k : Views.cview -> (N * N -> option Z)) : sx :=
  if term_read_only 40 t then bad_case else
  match dcview t with
  | Some o => match o with
              | Ok c => SL [SZ 0%Z; dump_store c (k c)]
              | Err e => SL [SZ 1%Z; e]
              | Panic => SL [SZ 2%Z]
              end
  | None => bad_case
  end.

Definition c13_over_views (sub : Z) (t : sx) (rest : list sx) : sx :=
  match sub, rest with
  | 10%Z, [a; b] =>
      match dZ a, dZ b with
      | Some a, Some b => with_mut_view t (fun c => gm_map_mut (cview_source c) (f_map a b) initial_store)
      | _, _ => bad_case end
  | 11%Z, [] => with_mut_view t (fun c => gm_map_mut_with_index (cview_source c) f_map_wi initial_store)
  | 1%Z, [dims] =>
      match dnames dims with
      | Some dims => with_view t (fun g => if Nat.eqb (length dims) (length (gs_shape g))
                                           then sot (g_reorder g dims) else bad_case)
      | None => bad_case end
  | 2%Z, [dims] =>
      match dnames dims with
      | Some dims => with_view t (fun g => if Nat.eqb (length dims) (length (gs_shape g))
                                           then sot (g_transpose g dims) else bad_case)
      | None => bad_case end
  | 8%Z, [a; b] =>
      match dZ a, dZ b with
      | Some a, Some b => with_view t (fun g => sot (g_map (f_map a b) g))
      | _, _ => bad_case end
  | 9%Z, [] => with_view t (fun g => sot (g_map_with_index f_map_wi g))
  | 14%Z, [] => with_view t (fun g => soutcome SZ (g_first g))
  | 12%Z, [rhs] =>
      with_view t (fun l => with_view rhs (fun r =>
        if Nat.eqb (length (gs_shape l)) (length (gs_shape r))
        then sot (g_elementwise f_ew l r) else bad_case))
  | 13%Z, [rhs] =>
      with_view t (fun l => with_view rhs (fun r =>
        if Nat.eqb (length (gs_shape l)) (length (gs_shape r))
        then sot (g_elementwise_with_index f_ew_wi l r) else bad_case))
  | 20%Z, [rhs] =>
      with_view t (fun l => with_view rhs (fun r =>
        if Nat.eqb (length (gs_shape l)) (length (gs_shape r))
        then SL [sbool (g_equality Z.eqb l r); sbool (g_similarity Z.eqb l r);
                 sbool (g_equality Z.eqb r l); sbool (g_similarity Z.eqb r l);
                 sbool (g_equality Z.eqb l l)]
        else bad_case))
  | _, _ => bad_case
  end.

Definition run_c13 (args : list sx) : sx :=
  match args with
  | SZ 30%Z :: SZ sub :: t :: rest => c13_over_views sub t rest
  | [SZ 21%Z; sh; data; nans] =>
      match dshape sh, dlist dZ data, dlist dnat nans with
      | Some sh, Some data, Some nans => c13_nan sh data nans
      | _, _, _ => bad_case
      end
  | [SZ 22%Z; src; dims] =>
      match dsrc 8 src, dnames dims with
      | Some src, Some dims =>
          on_tensor src (fun t =>
            if negb (Nat.eqb (length dims) (length (t_shape t))) then bad_case else
            let lazy (mk : tsrc Z -> list (nat * nat) -> tsrc Z) : sx :=
              match dm_new (names_of (t_shape t)) dims with
              | None => SL [SZ 2%Z]
              | Some tbl => let s := mk (TBase t) tbl in
                  SL [SZ 0%Z; SL [sshape (src_shape s);
                                  slist (fun i => sopt SZ (src_get s i)) (all_indexes (lens_of (src_shape s)))]]
              end in
            SL [SL [sot (reorder (TBase t) dims); sot (reorder_mut t dims); lazy TAccess;
                    sot (g_reorder (of_tsrc (TBase t)) dims)];
                SL [sot (transpose (TBase t) dims); sot (transpose_mut t dims); lazy TTranspose;
                    sot (g_transpose (of_tsrc (TBase t)) dims)]])
      | _, _ => bad_case
      end
  | [SZ 1%Z; form; src; dims] =>
      match dnat form, dsrc 8 src, dnames dims with
      | Some form, Some src, Some dims =>
          by_form form src (fun t => sot (reorder (TBase t) dims)) (fun s => sot (reorder s dims))
      | _, _, _ => bad_case
      end
  | [SZ 2%Z; form; src; dims] =>
      match dnat form, dsrc 8 src, dnames dims with
      | Some form, Some src, Some dims =>
          by_form form src (fun t => sot (transpose (TBase t) dims)) (fun s => sot (transpose s dims))
      | _, _, _ => bad_case
      end
  | [SZ 3%Z; src; dims] =>
      match dsrc 8 src, dnames dims with
      | Some src, Some dims => on_tensor src (fun t => sot (reorder_mut t dims))
      | _, _ => bad_case
      end
  | [SZ 4%Z; src; dims] =>
      match dsrc 8 src, dnames dims with
      | Some src, Some dims => on_tensor src (fun t => sot (transpose_mut t dims))
      | _, _ => bad_case
      end
  | [SZ 5%Z; src; sh] =>
      match dsrc 8 src, dshape sh with
      | Some src, Some sh => on_tensor src (fun t => sot (reshape_mut t sh))
      | _, _ => bad_case
      end
  | [SZ 6%Z; src; sh] =>
      match dsrc 8 src, dshape sh with
      | Some src, Some sh => on_tensor src (fun t => sot (reshape_owned t sh))
      | _, _ => bad_case
      end
  | [SZ 7%Z; src; dims] =>
      match dsrc 8 src, dnames dims with
      | Some src, Some dims => on_tensor src (fun t => sot (rename t dims))
      | _, _ => bad_case
      end
  | [SZ 8%Z; form; src; a; b] =>
      match dnat form, dsrc 8 src, dZ a, dZ b with
      | Some form, Some src, Some a, Some b =>
          by_form form src (fun t => okt (tensor_map (f_map a b) t))
                  (fun s => sot (view_map (f_map a b) s))
      | _, _, _, _ => bad_case
      end
  | [SZ 9%Z; form; src] =>
      match dnat form, dsrc 8 src with
      | Some form, Some src =>
          by_form form src (fun t => okt (tensor_map_with_index f_map_wi t))
                  (fun s => sot (view_map_with_index f_map_wi s))
      | _, _ => bad_case
      end
  | [SZ 10%Z; form; src; a; b] =>
      match dnat form, dsrc 8 src, dZ a, dZ b with
      | Some form, Some src, Some a, Some b =>
          by_form form src (fun t => okt (tensor_map_mut (f_map a b) t))
                  (fun s => okt (src_base (view_map_mut (f_map a b) s)))
      | _, _, _, _ => bad_case
      end
  | [SZ 11%Z; form; src] =>
      match dnat form, dsrc 8 src with
      | Some form, Some src =>
          by_form form src (fun t => okt (tensor_map_mut_with_index f_map_wi t))
                  (fun s => okt (src_base (view_map_mut_with_index f_map_wi s)))
      | _, _ => bad_case
      end
  | [SZ 12%Z; form; src; rhs] =>
      match dnat form, dsrc 8 src, dsrc 8 rhs with
      | Some form, Some src, Some (Ok rhs) =>
          by_form form src (fun t => sot (tensor_elementwise f_ew t rhs))
                  (fun s => sot (view_elementwise f_ew s rhs))
      | _, _, _ => bad_case
      end
  | [SZ 13%Z; form; src; rhs] =>
      match dnat form, dsrc 8 src, dsrc 8 rhs with
      | Some form, Some src, Some (Ok rhs) =>
          by_form form src (fun t => sot (tensor_elementwise_with_index f_ew_wi t rhs))
                  (fun s => sot (view_elementwise_with_index f_ew_wi s rhs))
      | _, _, _ => bad_case
      end
  | [SZ 14%Z; form; src] =>
      match dnat form, dsrc 8 src with
      | Some form, Some src =>
          by_form form src (fun t => soutcome SZ (tensor_first t)) (fun s => soutcome SZ (view_first s))
      | _, _ => bad_case
      end
  | [SZ 15%Z; form; src] =>
      match dnat form, dsrc 8 src with
      | Some form, Some src =>
          by_form form src
            (fun t => SL [soutcome SZ (tensor_first t); soutcome SZ (tensor_first t)])
            (fun s => SL [soutcome SZ (view_scalar s); soutcome SZ (view_into_scalar 0%Z s)])
      | _, _ => bad_case
      end
  | [SZ 16%Z; src] =>
      match dsrc 8 src with
      | Some src =>
          on_tensor src (fun t => soutcome (fun m => SL [sN (fst (fst m)); sN (snd (fst m)); slist SZ (snd m)])
                                           (tensor_into_matrix t))
      | _ => bad_case
      end
  | [SZ 17%Z; rows; cols; data; rn; cn] =>
      match dN rows, dN cols, dlist dZ data, dnat rn, dnat cn with
      | Some rows, Some cols, Some data, Some rn, Some cn =>
          if (rows * cols =? N.of_nat (length data)) && negb (Nat.eqb (length data) 0)
          then sot (matrix_into_tensor rows cols data rn cn) else bad_case
      | _, _, _, _, _ => bad_case
      end
  | [SZ 20%Z; l; r] =>
      match dsrc 8 l, dsrc 8 r with
      | Some (Ok l), Some (Ok r) =>
          if Nat.eqb (length (src_shape l)) (length (src_shape r))
          then SL [sbool (tensor_equality Z.eqb l r); sbool (tensor_similarity Z.eqb l r);
                   sbool (tensor_equality Z.eqb r l); sbool (tensor_similarity Z.eqb r l)]
          else bad_case
      | _, _ => bad_case
      end
  | _ => bad_case
  end.
