(* Case decoder / result encoder for property C14 (same language: harness/src/c14.rs,
   tools/props/c14.py).  ty = 0 (Rat) | 1 (Fp); numbers are encoded as Model/Num.v says.
     (14 1 ty (x ..))              mean      -> outcome value         (empty list: panic)
     (14 2 ty (x ..))              variance  -> outcome value
     (14 3 ty (n0 n1) rows fd)     covariance of the r x c data `rows` (list of rows):
                                   -> ( outcome covariance_row_features
                                        outcome covariance_column_features
                                        outcome (shape data) of covariance(tensor named (n0 n1), fd) )
                                   matrices are lists of rows; the result names "i" "j" are
                                   encoded by their ASCII codes 105 106
     (14 4 ty route (n0 n1) rows fd) ONE covariance route only (for tall / wide data, where the other
                                   orientation would be a huge matrix): route 0 = row features,
                                   1 = column features, 2 = tensor named (n0 n1) with feature
                                   dimension fd; result as the corresponding component of op 3
     (14 5 ty (x ..))              softmax   -> list
     (14 6 ty p r)                 f1_score  -> value
     (14 7 ((m e) ..))             FLOAT ORACLE (not a model of f64 arithmetic): softmax over the f64
                                   values m * 10^e (finite, large magnitudes included); the harness
                                   reports (len-ok finite-and-nonneg sums-to-one-within-1e-9
                                   order-preserved) as 0/1 flags; the expected answer is what the
                                   C14 softmax theorems demand: (1 1 1 1)
   FLOAT TIER (oracles; IEEE arithmetic is not modelled): fty = 0 (f64) | 1 (f32); a number is
   (m e) = the decimal m * 10^e rounded to the float type by the harness, which compares the
   crate's results with the population formulas (the right-hand sides of C14_mean, C14_variance,
   C14_cov_entry, C14_softmax_shift_is_max, C14_f1_harmonic) evaluated exactly on the rounded
   inputs, inside a rounding budget, and reports 0/1 flags; the expected answer is all ones.
     (14 8 fty (x ..))             non-empty: (mean-ok variance-ok forms-agree)
     (14 9 fty rows)               rectangular, at least 1 x 1:
                                   (values-ok symmetric diagonal-is-variance routes-agree)
     (14 10 fty p r)               (value-ok)
     (14 11 fty (x ..))            (length finite-nonneg sums-to-one order closed-form) *)
From Coq Require Import List ZArith NArith Bool.
From EasyML Require Import Base.Sx Model.Num Model.Stats.
Import ListNotations.

Section Run.
Context {R : Type} (ops : numops R).

Definition dnums (s : sx) : option (list R) := dlist (ndec ops) s.
Definition snums (l : list R) : sx := slist (nenc ops) l.
Definition smat (m : list (list R)) : sx := slist snums m.
Definition dmat (s : sx) : option (list (list R)) :=
  match dlist dnums s with
  | Some (r0 :: rest) =>
      if negb (Nat.eqb (length r0) 0) && forallb (fun r => Nat.eqb (length r) (length r0)) rest
      then Some (r0 :: rest) else None
  | _ => None
  end.

Definition c14_run (op : Z) (args : list sx) : sx :=
  match op, args with
  | 1%Z, [l] => match dnums l with Some l => soutcome (nenc ops) (mean ops l) | None => bad_case end
  | 2%Z, [l] => match dnums l with Some l => soutcome (nenc ops) (variance ops l) | None => bad_case end
  | 3%Z, [SL [n0; n1]; rows; fd] =>
      match dnat n0, dnat n1, dmat rows, dnat fd with
      | Some n0, Some n1, Some m, Some fd =>
          if Nat.eqb n0 n1 then bad_case else
          SL [ soutcome smat (covariance_row_features ops m);
               soutcome smat (covariance_column_features ops m);
               soutcome (fun r => match r with
                                  | (d0, d1, c) => SL [SL [spair snat sN d0; spair snat sN d1]; smat c]
                                  end)
                        (covariance ops (n0, n1) m fd) ]
      | _, _, _, _ => bad_case
      end
  | 4%Z, [SZ route; SL [n0; n1]; rows; fd] =>
      match dnat n0, dnat n1, dmat rows, dnat fd with
      | Some n0, Some n1, Some m, Some fd =>
          if Nat.eqb n0 n1 then bad_case else
          match route with
          | 0%Z => soutcome smat (covariance_row_features ops m)
          | 1%Z => soutcome smat (covariance_column_features ops m)
          | 2%Z => soutcome (fun r => match r with
                                     | (d0, d1, c) => SL [SL [spair snat sN d0; spair snat sN d1]; smat c]
                                     end)
                            (covariance ops (n0, n1) m fd)
          | _ => bad_case
          end
      | _, _, _, _ => bad_case
      end
  | 5%Z, [l] => match dnums l with Some l => snums (softmax ops l) | None => bad_case end
  | 6%Z, [p; r] =>
      match ndec ops p, ndec ops r with
      | Some p, Some r => nenc ops (f1_score ops p r)
      | _, _ => bad_case
      end
  | _, _ => bad_case
  end.
End Run.

Definition dme14 (s : sx) : option (Z * Z) := dpair dZ dZ s.
Definition fty_ok14 (t : Z) : bool := ((t =? 0) || (t =? 1))%Z.
Definition ones (n : nat) : sx := SL (repeat (SZ 1) n).

Definition c14_float (op : Z) (args : list sx) : sx :=
  match op, args with
  | 8%Z, [xs] =>
      match dlist dme14 xs with
      | Some (_ :: _) => ones 3
      | _ => bad_case
      end
  | 9%Z, [rows] =>
      match dlist (dlist dme14) rows with
      | Some (r0 :: rest) =>
          if negb (Nat.eqb (length r0) 0) && forallb (fun r => Nat.eqb (length r) (length r0)) rest
          then ones 4 else bad_case
      | _ => bad_case
      end
  | 10%Z, [p; r] =>
      match dme14 p, dme14 r with
      | Some _, Some _ => ones 1
      | _, _ => bad_case
      end
  | 11%Z, [xs] =>
      match dlist dme14 xs with
      | Some _ => ones 5
      | None => bad_case
      end
  | _, _ => bad_case
  end.

Definition run_c14 (args : list sx) : sx :=
  match args with
  | SZ 8%Z :: SZ fty :: rest => if fty_ok14 fty then c14_float 8 rest else bad_case
  | SZ 9%Z :: SZ fty :: rest => if fty_ok14 fty then c14_float 9 rest else bad_case
  | SZ 10%Z :: SZ fty :: rest => if fty_ok14 fty then c14_float 10 rest else bad_case
  | SZ 11%Z :: SZ fty :: rest => if fty_ok14 fty then c14_float 11 rest else bad_case
  | [SZ 7%Z; xs] =>
      match dlist (dpair dZ dZ) xs with
      | Some _ => SL [SZ 1; SZ 1; SZ 1; SZ 1]
      | None => bad_case
      end
  | SZ op :: SZ ty :: rest => with_ty ty (fun R ops => c14_run ops op rest)
  | _ => bad_case
  end.
