(* Case decoder / result encoder for property C06 (tools/props/c06.py, harness/src/c06.rs).
     (6 ty D (op ...) (out ...))     ty: 0 Rat, 1 Fp ; D: the dimensionality of every tensor of
                                     the case (1..3) ; out: environment positions to report
   Every operation appends its result container(s) to the environment (an assign form runs on a
   clone of its target, which does not touch the tape):
     (0 tensor var shape data)       declaration: RecordTensor / RecordMatrix ::variables or
                                     ::constants ; shape ((name len) ...), a matrix is
                                     ((0 rows) (1 columns))
     (1 assign code c a)             unary kinds (Container.unfn_of), allocating or *_assign
     (2 mode code a b)               binary kinds (Container.binfn_of): mode 0 operator (+ -),
                                     1 binary / elementwise_multiply / _divide, 2 left assign,
                                     3 right assign
     (3 a b)                         matrix multiplication
     (4 mutating e a)                map / map_with_index / map_mut / map_mut_with_index
     (5 tensor shape colmajor e a)   from_iter(shape, iter_as_records (row / column major).map(e))
     (6 e1 e2 a)                     from_iters::<2>  (adds two containers)
     (7 kind a)                      a container whose source is a VIEW of container a:
                                     0 matrix over the column-major interop view of the transposed
                                     2-d tensor, 1 tensor over the dimension-swapped TensorAccess,
                                     3 detached constants copy with relabelled indexes
     (8 kind params srcs)            generic source views (Container.OSelect with the position map
                                     Model/ContainerViews.view_map kind params): a container built
                                     by from_existing over a range / mask / reverse / rename /
                                     access / transpose / index+expansion / chain / stack+index
                                     view of the record container(s) srcs, or over a quadrant of a
                                     partitioned record matrix ; params: ((n ...) ...)
     (9 tensor shape colmajor take (e ...) a)
                                     from_iters::<N>(shape, iter_as_records (row / column major)
                                     .take(take).map(|x| [e1 x, .., eN x])), N = 1..4 (for N = 1 also
                                     from_iter); adds N containers; when an output fails the
                                     error payload is the list of per-output codes (0
                                     InconsistentHistory, 1 Empty, 2 Shape, 3 this output is Ok)
   scalar closures e: (0) the element | (1 c) constant | (2 e) Record::constant(e.number) |
     (3 code c e) | (4 code e1 e2) | (5 e1 e2) e1 at the first index else e2 |
     (6) a clone of a variable of ANOTHER WengertList (number 1)
   Optional fifth argument (6 ty D prog outs (w ...)): the environment positions of the containers
   the derivatives are queried WITH RESPECT TO (default: the variable declarations); each must
   hold a container that lives on the tape (any source kind: views, from_iters outputs whose
   tape positions interleave, intermediate results) - the harness reads them through every query
   form of Derivatives (at_tensor / at_tensor_index / at_matrix / at_matrix_index / at /
   Index<&Record> / Vec::from), the model through `nth position` of the derivative vector, in
   the VIEW order of the container (Container.at_container).
   Result (n outcome): n operations completed; ok payload (C E):
     C per output: (shape hist ((v i) ...) derivs)   derivs: () for constants, else
         ((per element (per input container (d ...))))
     E the element-by-element Record computation: per output (((v hist i) ...) (derivs ...))
       with derivs per element: () for a constant record, else ((per input (d ...))). *)
From Coq Require Import List ZArith NArith Bool.
From EasyML Require Import Base.Sx Model.Num Model.Tape Model.Container Model.ContainerViews.
Import ListNotations.

Section Run.
Context {R : Type} (ops : numops R).

Definition dshape06 (s : sx) : option shape := dlist (dpair dnat dnat) s.

Fixpoint dsexpr (fuel : nat) (s : sx) : option (sexpr R) :=
  match fuel with
  | O => None
  | S fuel' =>
      match s with
      | SL [SZ 0%Z] => Some SX
      | SL [SZ 1%Z; c] => match ndec ops c with Some c => Some (SK c) | None => None end
      | SL [SZ 2%Z; e] => match dsexpr fuel' e with Some e => Some (SDetach e) | None => None end
      | SL [SZ 3%Z; code; c; e] =>
          match dnat code, ndec ops c, dsexpr fuel' e with
          | Some code, Some c, Some e => Some (SUn code c e) | _, _, _ => None end
      | SL [SZ 4%Z; code; e1; e2] =>
          match dnat code, dsexpr fuel' e1, dsexpr fuel' e2 with
          | Some code, Some e1, Some e2 => Some (SBin code e1 e2) | _, _, _ => None end
      | SL [SZ 5%Z; e1; e2] =>
          match dsexpr fuel' e1, dsexpr fuel' e2 with
          | Some e1, Some e2 => Some (SFirst e1 e2) | _, _ => None end
      | SL [SZ 6%Z] => Some SOther
      | _ => None
      end
  end.

Definition dcop (D : nat) (s : sx) : option (cop R) :=
  match s with
  | SL [SZ 0%Z; tensor; var; sh; data] =>
      match dbool tensor, dbool var, dshape06 sh, dlist (ndec ops) data with
      | Some tensor, Some var, Some sh, Some data =>
          if tensor && negb (Nat.eqb (length sh) D) then None else Some (ODecl tensor var sh data)
      | _, _, _, _ => None
      end
  | SL [SZ 1%Z; assign; code; c; a] =>
      match dbool assign, dnat code, ndec ops c, dnat a with
      | Some assign, Some code, Some c, Some a => Some (OUnary assign code c a)
      | _, _, _, _ => None
      end
  | SL [SZ 2%Z; mode; code; a; b] =>
      match dnat mode, dnat code, dnat a, dnat b with
      | Some mode, Some code, Some a, Some b => Some (OBinary mode code a b)
      | _, _, _, _ => None
      end
  | SL [SZ 3%Z; a; b] =>
      match dnat a, dnat b with Some a, Some b => Some (OMatmul a b) | _, _ => None end
  | SL [SZ 4%Z; mutating; e; a] =>
      match dbool mutating, dsexpr 12 e, dnat a with
      | Some m, Some e, Some a => Some (OMap m e a) | _, _, _ => None end
  | SL [SZ 5%Z; tensor; sh; colmajor; e; a] =>
      match dbool tensor, dshape06 sh, dbool colmajor, dsexpr 12 e, dnat a with
      | Some tensor, Some sh, Some cm, Some e, Some a =>
          if tensor && negb (Nat.eqb (length sh) D) then None else Some (OFromIter tensor sh cm e a)
      | _, _, _, _, _ => None
      end
  | SL [SZ 6%Z; e1; e2; a] =>
      match dsexpr 12 e1, dsexpr 12 e2, dnat a with
      | Some e1, Some e2, Some a => Some (OFromIters2 e1 e2 a) | _, _, _ => None end
  | SL [SZ 7%Z; kind; a] =>
      match dnat kind, dnat a with Some kind, Some a => Some (OView kind a) | _, _ => None end
  | SL [SZ 8%Z; kind; params; srcs] =>
      match dnat kind, dlist (dlist dnat) params, dlist dnat srcs with
      | Some kind, Some params, Some srcs => Some (OSelect (view_map kind params) srcs)
      | _, _, _ => None
      end
  | SL [SZ 9%Z; tensor; sh; colmajor; take; es; a] =>
      match dbool tensor, dshape06 sh, dbool colmajor, dnat take, dlist (dsexpr 12) es, dnat a with
      | Some tensor, Some sh, Some cm, Some take, Some es, Some a =>
          if (tensor && negb (Nat.eqb (length sh) D)) || Nat.ltb 4 (length es) then None
          else Some (OCollect tensor sh cm take es a)
      | _, _, _, _, _, _ => None
      end
  | _ => None
  end.

Definition sshape06 (sh : shape) : sx := slist (spair snat snat) sh.

(* the derivatives of the tape position `out` with respect to every element of every input *)
Definition derivs_wrt (t : tape R) (inputs : list (list nat)) (out : nat) : sx :=
  match derivs_checked ops t out with
  | Ok d => slist (fun idxs => slist (fun i => nenc ops (at_record (nzero ops) d i)) idxs) inputs
  | _ => SL [SZ (-2)%Z]
  end.

(* the same with respect to containers, through the whole-container query at_container *)
Definition derivs_wrt_c (t : tape R) (inputs : list (cont R)) (out : nat) : sx :=
  match derivs_checked ops t out with
  | Ok d => slist (fun x => slist (nenc ops) (at_container (nzero ops) d x)) inputs
  | _ => SL [SZ (-2)%Z]
  end.

Definition c_result (t : tape R) (env : list (cont R)) (inputs : list nat) (o : nat) : sx :=
  match nth_error env o with
  | None => SL [SZ (-2)%Z]
  | Some c =>
      let ins := map (fun k => match nth_error env k with Some x => x | None => mkCont true [] [] None end) inputs in
      SL [sshape06 (c_shape c); sbool (match c_hist c with Some _ => true | None => false end);
          slist (spair (nenc ops) snat) (c_data c);
          match c_hist c with
          | None => SL []
          | Some _ => SL [slist (fun p => derivs_wrt_c t ins (snd p)) (c_data c)]
          end]
  end.

Definition e_result (t : tape R) (env : list (econt R)) (inputs : list nat) (o : nat) : sx :=
  match nth_error env o with
  | None => SL [SZ (-2)%Z]
  | Some c =>
      let ins := map (fun k => match nth_error env k with Some x => map (@r_idx R) (e_recs x) | None => [] end) inputs in
      SL [slist (fun r => SL [nenc ops (r_num r); sbool (match r_hist r with Some _ => true | None => false end);
                              snat (r_idx r)]) (e_recs c);
          slist (fun r => match r_hist r with
                          | None => SL []
                          | Some _ => SL [derivs_wrt t ins (r_idx r)]
                          end) (e_recs c)]
  end.

(* the containers the derivatives are queried with respect to must exist and live on the tape *)
Definition wrt_ok (env : list (cont R)) (k : nat) : bool :=
  match nth_error env k with
  | Some c => match c_hist c with Some _ => true | None => false end
  | None => false
  end.

Definition c06 (D : nat) (prog : list sx) (outs : list nat) (wrt : option (list nat)) : sx :=
  match sequence (map (dcop D) prog) with
  | None => bad_case
  | Some prog =>
      let inputs := match wrt with Some w => w | None => input_ids 0 prog end in
      match crun ops ([], []) 0 prog, erun ops ([], []) 0 prog with
      | Some (n, Ok (t, env)), Some (n', Ok (t', env')) =>
          if negb (forallb (fun o => Nat.ltb o (length env)) outs) then bad_case else
          if negb (forallb (wrt_ok env) inputs) then bad_case else
          SL [snat n; soutcome (fun x => x)
                (Ok (SL [slist (c_result t env inputs) outs; slist (e_result t' env' inputs) outs]))]
      | Some (n, Err e), Some _ => SL [snat n; soutcome (fun x => x) (Err e)]
      | Some (n, Panic), Some _ => SL [snat n; soutcome (fun x : sx => x) Panic]
      | _, _ => bad_case
      end
  end.
End Run.

Definition run_c06 (args : list sx) : sx :=
  match args with
  | [SZ ty; D; SL prog; outs] =>
      match dnat D, dlist dnat outs with
      | Some D, Some outs => with_ty ty (fun R ops => c06 ops D prog outs None)
      | _, _ => bad_case
      end
  | [SZ ty; D; SL prog; outs; wrt] =>
      match dnat D, dlist dnat outs, dlist dnat wrt with
      | Some D, Some outs, Some wrt => with_ty ty (fun R ops => c06 ops D prog outs (Some wrt))
      | _, _, _ => bad_case
      end
  | _ => bad_case
  end.
