(* Entry point of the extracted model runner: one case in, one result out. *)
From Coq Require Import List ZArith.
From EasyML Require Import Base.Sx Run.RunC01.
Import ListNotations.

Definition run (c : sx) : sx :=
  match c with
  | SL (SZ 1%Z :: args) => run_c01 args
  | _ => bad_case
  end.
