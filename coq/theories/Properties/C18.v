(* C18 — Results are a deterministic pure function of the explicit inputs.
   The Gallina models of this development are functions, so repeating a model computation gives
   the same result by definition (C18_runner_functional states it for the record).  The one
   non-trivial thing a theorem can say is about the only place where the crate consults something
   that is NOT an explicit input -- the address of a WengertList, through std::ptr::eq in
   record_operations::same_lists: results cannot depend on which addresses the allocator handed
   out, as long as distinct live tapes have distinct addresses.
   Model/Determinism.v (the multi-tape machine, parameterised by the same-list test),
   Proofs/C18P.v.  The tie to the code: tools/props/c18.py (source scan that there is no OTHER
   address / hash / time / thread / environment dependence in src/, the machine replayed against
   the real crate with four different memory placements of the tapes, and digest equality of
   workloads across processes, threads, heap states and call orders). *)
From Coq Require Import List Arith Bool ZArith.
From EasyML Require Import Base.Sx Model.Num Model.Tape Model.Determinism Proofs.C18P Run.RunC18.
Import ListNotations.

(* any two injective address assignments -- of any two pointer types -- give the same final state
   and the same observable events (values, tape positions, panics, error values), for every
   program, every start state and every element type *)
Theorem C18_address_parametric : forall R (ops : numops R) A B
    (eqA : A -> A -> bool) (eqB : B -> B -> bool) (addr1 : tid -> A) (addr2 : tid -> B),
  injective eqA addr1 -> injective eqB addr2 ->
  forall s p, machine_run ops (sl_of eqA addr1) s p = machine_run ops (sl_of eqB addr2) s p.
Proof. exact @address_parametric. Qed.

(* ... namely the result of the reference machine, which compares tape identities and contains no
   address at all (this is the machine that Run/RunC18.v executes against the crate) *)
Theorem C18_addresses_irrelevant : forall R (ops : numops R) A (eqA : A -> A -> bool) addr,
  injective eqA addr ->
  forall s p, machine_run ops (sl_of eqA addr) s p = machine_run ops sl_id s p.
Proof. exact @run_addresses_irrelevant. Qed.

(* the same-list test is the ONLY channel: two machines whose tests agree are equal *)
Theorem C18_same_list_only_channel : forall R (ops : numops R) sl1 sl2,
  (forall a b, sl1 a b = sl2 a b) -> forall p s, machine_run ops sl1 s p = machine_run ops sl2 s p.
Proof. exact @run_ext. Qed.

(* tape positions are a function of append order only: a record produced on tape h sits at the
   position that was the tape's length, the tape grows by one, all other tapes are untouched *)
Theorem C18_positions_append_order : forall R (ops : numops R) sl s i s' r h,
  machine_step ops sl s i = (s', ERec r) -> r_hist r = Some h -> h < length (tapes s) ->
  appended s s' r h.
Proof. exact @positions_append_order. Qed.

(* the model runner is a function of the case alone *)
Theorem C18_runner_functional : forall a b, a = b -> run_c18 a = run_c18 b.
Proof. intros a b H. rewrite H. reflexivity. Qed.

(* non-vacuity: injective assignments exist (identity; an allocator handing out k + 8 t), and
   injectivity is needed -- were two live tapes to compare equal, a cross-tape addition would be
   recorded instead of panicking *)
Example C18_nonvacuous :
  injective Nat.eqb (fun t : tid => t) /\ (forall k, injective Nat.eqb (fun t : tid => k + 8 * t)) /\
  snd (machine_run Fpops (sl_of Nat.eqb (fun _ => 0)) (machine_init (R:=Z)) collision_program)
  <> snd (machine_run Fpops sl_id (machine_init (R:=Z)) collision_program).
Proof.
  split; [exact identity_is_injective|]. split; [exact shifted_is_injective | exact collision_observable].
Qed.

Print Assumptions C18_address_parametric.
Print Assumptions C18_addresses_irrelevant.
Print Assumptions C18_same_list_only_channel.
Print Assumptions C18_positions_append_order.
Print Assumptions C18_runner_functional.
