(* C18 — Results are a deterministic pure function of the explicit inputs.
   The Gallina models of this development are functions, so repeating a model computation gives
   the same result by definition (C18_runner_functional states it for the record).  The one
   non-trivial thing a theorem can say is about the only place where the crate consults something
   that is NOT an explicit input -- the address of a WengertList, through std::ptr::eq in
   record_operations::same_lists: results cannot depend on which addresses the allocator handed
   out, as long as distinct live tapes have distinct addresses.
   Model/Determinism.v (the multi-tape machine, parameterised by the same-list test),
   Proofs/C18P.v.  The tie to the code: tools/props/c18.py (source scan that there is no OTHER
   address / hash / time / thread / environment dependence in src/, the machine replayed against
   the real crate with four different memory placements of the tapes, and digest equality of
   workloads across processes, threads, heap states and call orders).

   Session 3 additions:
   * FRAME ("no result depends on previously executed unrelated library calls"): two clients with
     their own registers share the tapes (Model/Determinism.v Section Two); whatever the other
     client does on other tapes, in whatever interleaving, a client observes exactly the events of
     running alone and leaves the same tape contents (C18_frame_interleaving,
     C18_frame_two_interleavings; Proofs/C18FrameP.v).
   * FORMATTED OUTPUT: Model/Format.v transcribes the Display code of matrices, tensors (D <= 3),
     tensor accesses, records, traces, record containers and the LDLT result as functions to lists
     of character codes, executed against the crate by Run/RunC18.v ((18 3 ..) cases, compared
     byte for byte).  Theorems (Proofs/C18FormatP.v): the loops equal the documented layout
     (C18_matrix_display_layout), an r-row matrix prints r lines (C18_matrix_display_lines), the
     text DETERMINES rows, columns and all elements (C18_matrix_display_injective,
     C18_tensor_display_injective for D <= 2) for every element renderer that is injective and
     avoids blank / comma / newline -- which the two exact renderers of the correspondence do
     (C18_renderers_admissible).

   Wave 2 additions:
   * the GENERAL-D arm of tensors/display.rs (D >= 4; Model/Format.v fmt_general, driven by the
     row-major enumeration of all indexes as in the code) is modelled and compared byte for byte
     for D = 4, 5, 6; C18_general_arm_is_recursive_layout proves it equal, for EVERY shape of >= 2
     dimensions, to the layout defined by recursion on the dimensionality (blocks of k dimensions
     joined by k-1 newlines), C18_blocks_arm_is_recursive_layout that the D = 3 arm is the same
     layout, and C18_tensor_display_injective_any_D extends the injectivity theorem to every D.
   * Model/FormatDebug.v: std's Debug builders ({:?} and the pretty {:#?} with its PadAdapter) as
     functions on a tree, the trees `#[derive(Debug)]` gives the plain data types (Tensor, Matrix,
     both IndexRange, DataLayout, shape / name arrays, the tape) and every error struct / enum, and
     the Display of every error type from exact payloads -- (18 3 6 ..) / (18 3 7 ..) cases, each
     error value built through its constructor AND obtained from the failing call where the API
     can produce it; QR / LDLT-tensor / QR-tensor / MatrixQuadrants Display ((18 3 8 ..)).
   * C18_error_text_contains_*: the Display text CONTAINS the Debug text of the offending shape /
     names / ranges / length exactly as the payload has them; C18_shape_text_injective,
     C18_names_text_injective, C18_invalid_shape_message_identifies_shape: that text determines
     the payload (all names, all lengths in N).  C18_access_error_text_as_written records the
     text of tensors::indexing::InvalidDimensionsError as the code produces it (the source's shape
     follows the label "Requested dimension order", the requested names follow "the shape in the
     source": candidate finding, notes/C18_C20.md). *)
From Coq Require Import List Arith Bool ZArith NArith.
From EasyML Require Import Base.Sx Model.Num Model.Tape Model.Determinism Model.Format Model.FormatDebug
  Proofs.C18P Proofs.C18FrameP Proofs.C18FormatP Proofs.C18FormatGP Proofs.C18ErrTextP Run.RunC18.
Import ListNotations.

(* any two injective address assignments -- of any two pointer types -- give the same final state
   and the same observable events (values, tape positions, panics, error values), for every
   program, every start state and every element type *)
Theorem C18_address_parametric : forall R (ops : numops R) A B
    (eqA : A -> A -> bool) (eqB : B -> B -> bool) (addr1 : tid -> A) (addr2 : tid -> B),
  injective eqA addr1 -> injective eqB addr2 ->
  forall s p, machine_run ops (sl_of eqA addr1) s p = machine_run ops (sl_of eqB addr2) s p.
Proof. exact @address_parametric. Qed.

(* ... namely the result of the reference machine, which compares tape identities and contains no
   address at all (this is the machine that Run/RunC18.v executes against the crate) *)
Theorem C18_addresses_irrelevant : forall R (ops : numops R) A (eqA : A -> A -> bool) addr,
  injective eqA addr ->
  forall s p, machine_run ops (sl_of eqA addr) s p = machine_run ops sl_id s p.
Proof. exact @run_addresses_irrelevant. Qed.

(* the same-list test is the ONLY channel: two machines whose tests agree are equal *)
Theorem C18_same_list_only_channel : forall R (ops : numops R) sl1 sl2,
  (forall a b, sl1 a b = sl2 a b) -> forall p s, machine_run ops sl1 s p = machine_run ops sl2 s p.
Proof. exact @run_ext. Qed.

(* tape positions are a function of append order only: a record produced on tape h sits at the
   position that was the tape's length, the tape grows by one, all other tapes are untouched *)
Theorem C18_positions_append_order : forall R (ops : numops R) sl s i s' r h,
  machine_step ops sl s i = (s', ERec r) -> r_hist r = Some h -> h < length (tapes s) ->
  appended s s' r h.
Proof. exact @positions_append_order. Qed.

(* the model runner is a function of the case alone *)
Theorem C18_runner_functional : forall a b, a = b -> run_c18 a = run_c18 b.
Proof. intros a b H. rewrite H. reflexivity. Qed.

(* ---------------------------------------------------------------- frame property
   Two clients (owner true = L, owner false = R) with their own registers run an arbitrary
   interleaving I against the same tapes.  inA marks the tapes L may name; L's instructions name
   only those (and L allocates no tape: tape identities are allocation order), R's name none of
   them (R may allocate).  Then the events L observes, L's registers and the contents of every
   tape of A after the interleaving are those of L's instructions run ALONE from the same state:
   same values, tape positions, derivative vectors, panics and error values. *)
Theorem C18_frame_interleaving : forall R (ops : numops R) sl (inA : tid -> bool) ts rl rr
    (I : list (bool * instr R)),
  (forall t, inA t = true -> t < length ts) ->
  regs_in inA true rl -> regs_in inA false rr -> Forall (confined2 inA) I ->
  let joint := run2 ops sl (mkSt2 ts rl rr) I in
  let solo := machine_run ops sl (mkSt ts rl) (proj true I) in
  proj true (snd joint) = snd solo
  /\ regsL (fst joint) = regs (fst solo)
  /\ forall t, inA t = true -> tape_at (mkSt (tapes2 (fst joint)) []) t = tape_at (fst solo) t.
Proof. exact @frame_interleaving. Qed.

(* ... hence any two interleavings with the same L part -- a different R program, a different
   order of R's calls, R's calls before, between or after L's -- are indistinguishable for L *)
Theorem C18_frame_two_interleavings : forall R (ops : numops R) sl (inA : tid -> bool) ts rl rr
    (I1 I2 : list (bool * instr R)),
  (forall t, inA t = true -> t < length ts) ->
  regs_in inA true rl -> regs_in inA false rr ->
  Forall (confined2 inA) I1 -> Forall (confined2 inA) I2 ->
  proj true I1 = proj true I2 ->
  proj true (snd (run2 ops sl (mkSt2 ts rl rr) I1)) = proj true (snd (run2 ops sl (mkSt2 ts rl rr) I2)).
Proof. exact @frame_two_interleavings. Qed.

(* ---------------------------------------------------------------- formatted output *)
(* the transcribed loops of matrices/views.rs format_view produce the documented layout *)
Theorem C18_matrix_display_layout : forall E (re : option N -> E -> text) prec rows cols get,
  0 < rows ->
  fmt_matrix re prec rows cols get
  = t_open ++ join (t_nl ++ t_indent) (map (join t_comma) (cells_of re prec rows cols get)) ++ t_close.
Proof. exact @fmt_matrix_layout. Qed.

(* one line per row *)
Theorem C18_matrix_display_lines : forall E (re : option N -> E -> text) prec rows cols get,
  (forall e, word (re prec e)) -> 0 < rows ->
  newlines (fmt_matrix re prec rows cols get) = rows - 1.
Proof. exact @matrix_display_lines. Qed.

(* the text determines the shape and every element *)
Theorem C18_matrix_display_injective : forall E (re : option N -> E -> text) prec,
  (forall e, word (re prec e)) -> (forall a b, re prec a = re prec b -> a = b) ->
  forall rows1 cols1 get1 rows2 cols2 get2,
  0 < rows1 -> 0 < cols1 -> 0 < rows2 -> 0 < cols2 ->
  fmt_matrix re prec rows1 cols1 get1 = fmt_matrix re prec rows2 cols2 get2 ->
  rows1 = rows2 /\ cols1 = cols2 /\ forall r c, r < rows1 -> c < cols1 -> get1 r c = get2 r c.
Proof. exact @matrix_display_injective. Qed.

Theorem C18_tensor_display_injective : forall E (re : option N -> E -> text) prec,
  (forall e, word (re prec e)) -> (forall a b, re prec a = re prec b -> a = b) ->
  forall (sh : list (nat * nat)) (g1 g2 : list nat -> E) t,
  length sh <= 2 -> Forall (fun p => 0 < snd p) sh ->
  fmt_tensor re prec sh g1 = Some t -> fmt_tensor re prec sh g2 = Some t ->
  forall idx, Forall2 (fun i p => i < snd p) idx sh -> g1 idx = g2 idx.
Proof. exact @tensor_display_injective. Qed.

(* the two exact element renderers used by the correspondence (i64: decimal; Tok: "<v>p<k>") are
   admissible: no separator characters, injective -- for every precision *)
Theorem C18_renderers_admissible : forall el prec,
  (forall v, word (render el prec v)) /\ (forall a b, render el prec a = render el prec b -> a = b).
Proof. intros el prec. split; [apply render_word | apply render_inj]. Qed.

(* ---------------------------------------------------------------- wave 2: every dimensionality *)
(* the D >= 4 arm as written (one pass over all indexes in row-major order, newlines counted from
   the dimensions that are at their end) IS the layout by recursion on the dimensionality: "[\n",
   then `body`, then "\n]", where a row is the indent and its cells joined by ", " and a block of
   k >= 2 dimensions is its sub-blocks joined by k-1 newlines -- for every shape with >= 2
   dimensions and no zero length *)
Theorem C18_general_arm_is_recursive_layout : forall E (re : option N -> E -> text) prec lens get,
  2 <= length lens -> Forall (fun l => 0 < l) lens ->
  fmt_general re prec lens get = [91; 10]%N ++ body re prec lens get ++ [10; 93]%N.
Proof. exact @fmt_general_is_recursive. Qed.

(* the recursion, spelled out *)
Theorem C18_recursive_layout_unfolds : forall E (re : option N -> E -> text) prec,
  (forall c get, body re prec [c] get = t_indent ++ fmt_cells re prec c (fun j => get [j])) /\
  (forall l a rest get, body re prec (l :: a :: rest) get
     = join (nls (S (length rest))) (map (fun i => body re prec (a :: rest) (fun s => get (i :: s))) (seq 0 l))).
Proof. intros E re prec. split; reflexivity. Qed.

(* the hand-written D = 3 arm is the same layout at k = 3 *)
Theorem C18_blocks_arm_is_recursive_layout : forall E (re : option N -> E -> text) prec b r c get,
  0 < b -> 0 < r ->
  fmt_blocks re prec b r c get
  = fmt_rec re prec [b; r; c] (fun idx => match idx with [i; j; k] => get i j k | _ => get 0 0 0 end).
Proof. exact @fmt_blocks_is_recursive. Qed.

(* for a given shape of ANY dimensionality the text determines every element *)
Theorem C18_tensor_display_injective_any_D : forall E (re : option N -> E -> text) prec,
  (forall e, word (re prec e)) -> (forall a b, re prec a = re prec b -> a = b) ->
  forall (sh : list (nat * nat)) (g1 g2 : list nat -> E) t,
  Forall (fun p => 0 < snd p) sh ->
  fmt_tensor re prec sh g1 = Some t -> fmt_tensor re prec sh g2 = Some t ->
  forall idx, Forall2 (fun i p => i < snd p) idx sh -> g1 idx = g2 idx.
Proof. exact @tensor_display_injective_any. Qed.

(* ---------------------------------------------------------------- wave 2: error values *)
(* the Display text of every error type contains the Debug text of the offending shape / dimension
   names / index ranges / data length exactly as the payload has them *)
Theorem C18_error_text_contains_shape : forall sh, contains (fmt_err_shape sh) (dbg_c (d_shape sh)).
Proof. exact err_shape_contains. Qed.

Theorem C18_error_text_contains_names : forall provided valid,
  contains (fmt_err_dims provided valid) (dbg_c (d_names provided)) /\ (provided <> [] -> contains (fmt_err_dims provided valid) (dbg_c (d_names valid))).
Proof. exact err_dims_contains. Qed.

Theorem C18_error_text_contains_access : forall actual requested,
  contains (fmt_err_access actual requested) (dbg_c (d_shape actual)) /\ contains (fmt_err_access actual requested) (dbg_c (d_names requested)).
Proof. exact err_access_contains. Qed.

Theorem C18_error_text_contains_range_validation : forall e,
  match e with
  | IrvShape sh => contains (fmt_err_irv e) (dbg_c (d_shape sh))
  | IrvDims p v => contains (fmt_err_irv e) (dbg_c (d_names p)) /\ contains (fmt_err_irv e) (dbg_c (d_names v))
  end.
Proof. exact err_irv_contains. Qed.

Theorem C18_error_text_contains_strict_range_validation : forall e,
  match e with
  | StrictOutside sh rs => contains (fmt_err_strict e) (dbg_c (d_shape sh)) /\ contains (fmt_err_strict e) (dbg_c (d_ranges rs))
  | StrictError (IrvShape sh) => contains (fmt_err_strict e) (dbg_c (d_shape sh))
  | StrictError (IrvDims p v) => contains (fmt_err_strict e) (dbg_c (d_names p)) /\ contains (fmt_err_strict e) (dbg_c (d_names v))
  end.
Proof. exact err_strict_contains. Qed.

Theorem C18_error_text_contains_record_iterator_shape : forall sh len,
  contains (fmt_err_rie (RieShape sh len)) (dbg_c (d_shape sh)) /\ contains (fmt_err_rie (RieShape sh len)) (dec_N len).
Proof. exact err_rie_shape_contains. Qed.

Theorem C18_error_text_contains_gaussian_shapes : forall e,
  contains (fmt_err_mvg e) (dbg_c (d_shape (mg_cov_shape e))) /\ (mg_wrong_length e = true -> contains (fmt_err_mvg e) (dbg_c (d_shape (mg_mean_shape e)))).
Proof. exact err_mvg_contains. Qed.

(* ... and that text is faithful: the Debug text of a shape array / a name array determines the
   array (every name, every length in N), so equal InvalidShapeError messages come from equal shapes *)
Theorem C18_shape_text_injective : forall sh1 sh2, dbg_c (d_shape sh1) = dbg_c (d_shape sh2) -> sh1 = sh2.
Proof. exact shape_text_inj. Qed.

Theorem C18_names_text_injective : forall ns1 ns2, dbg_c (d_names ns1) = dbg_c (d_names ns2) -> ns1 = ns2.
Proof. exact names_text_inj. Qed.

Theorem C18_invalid_shape_message_identifies_shape : forall sh1 sh2,
  fmt_err_shape sh1 = fmt_err_shape sh2 -> sh1 = sh2.
Proof. exact err_shape_text_inj. Qed.

(* tensors/indexing.rs:196-203 as written: the SOURCE's shape is printed after the label
   "Requested dimension order: " and the REQUESTED names after " does not match the shape in the
   source: " (the error VALUE carries both correctly; C18_error_text_contains_access) *)
Theorem C18_access_error_text_as_written : forall actual requested,
  fmt_err_access actual requested
  = t_requested_order ++ dbg_c (d_shape actual) ++ t_not_match_source ++ dbg_c (d_names requested).
Proof. exact err_access_text_as_written. Qed.

(* non-vacuity of the wave-2 theorems: a 2x1x2x3 tensor through the general arm (3 blank-line
   levels), the documented texts of two error values and a pretty Debug text *)
Example C18_wave2_nonvacuous :
  fmt_general (render ElInt) None [2; 1; 2; 2] (flatn 0%Z [2; 1; 2; 2] [1; 2; 3; 4; 5; 6; 7; 8]%Z)
  = [91;10; 32;32;49;44;32;50;10; 32;32;51;44;32;52;10; 10;10; 32;32;53;44;32;54;10; 32;32;55;44;32;56; 10;93]%N
  /\ fmt_err_shape [(0, 2%N); (0, 3%N)]
     = t_invalid_shape ++ [91; 40;34;100;48;34;44;32;50;41; 44;32; 40;34;100;48;34;44;32;51;41; 93]%N
  /\ fmt_err_access [(0, 2%N); (1, 3%N)] [1; 7]
     = t_requested_order ++ [91; 40;34;100;48;34;44;32;50;41; 44;32; 40;34;100;49;34;44;32;51;41; 93]%N
       ++ t_not_match_source ++ [91; 34;100;49;34; 44;32; 34;100;55;34; 93]%N.
Proof. split; [vm_compute; reflexivity | split; [exact err_shape_example | exact err_access_example]]. Qed.

(* non-vacuity: injective assignments exist (identity; an allocator handing out k + 8 t), and
   injectivity is needed -- were two live tapes to compare equal, a cross-tape addition would be
   recorded instead of panicking *)
Example C18_nonvacuous :
  injective Nat.eqb (fun t : tid => t) /\ (forall k, injective Nat.eqb (fun t : tid => k + 8 * t)) /\
  snd (machine_run Fpops (sl_of Nat.eqb (fun _ => 0)) (machine_init (R:=Z)) collision_program)
  <> snd (machine_run Fpops sl_id (machine_init (R:=Z)) collision_program).
Proof.
  split; [exact identity_is_injective|]. split; [exact shifted_is_injective | exact collision_observable].
Qed.

(* non-vacuity of the frame theorem: L works on tape 0 while R clears, allocates, appends to and
   panics on other tapes; R's activity is visible in the joint tapes but not to L *)
Example C18_frame_nonvacuous :
  let inA := Nat.eqb 0 in
  let I : list (bool * instr Z) :=
    [(true, IVar 0 2%Z); (false, IVar 1 5%Z); (false, INewTape); (true, IVar 0 3%Z); (false, IVar 2 7%Z);
     (false, IAdd 0 1); (true, IMul 0 1); (false, IClear 1); (true, IDeriv 2)] in
  (forall t, inA t = true -> t < 2) /\ Forall (confined2 inA) I /\
  proj true (snd (run2 Fpops sl_id (mkSt2 [[]; []] [] []) I))
  = snd (machine_run Fpops sl_id (mkSt [[]; []] []) (proj true I)) /\
  length (proj false (snd (run2 Fpops sl_id (mkSt2 [[]; []] [] []) I))) = 5 /\
  length (tapes2 (fst (run2 Fpops sl_id (mkSt2 [[]; []] [] []) I))) = 3.
Proof.
  cbv zeta. split; [|split; [|split; [|split]]].
  - intros t H. apply Nat.eqb_eq in H. subst. auto.
  - repeat constructor.
  - vm_compute. reflexivity.
  - vm_compute. reflexivity.
  - vm_compute. reflexivity.
Qed.

(* non-vacuity of the formatting theorems: the documented example "[ 1, 2\n  3, 4 ]"
   (matrices/views.rs printing_matrices) *)
Example C18_format_nonvacuous :
  fmt_matrix (render ElInt) None 2 2 (flat2 0%Z 2 [1; 2; 3; 4]%Z)
  = [91;32;49;44;32;50;10;32;32;51;44;32;52;32;93]%N.
Proof. exact documented_example. Qed.

Print Assumptions C18_address_parametric.
Print Assumptions C18_addresses_irrelevant.
Print Assumptions C18_same_list_only_channel.
Print Assumptions C18_positions_append_order.
Print Assumptions C18_runner_functional.
Print Assumptions C18_frame_interleaving.
Print Assumptions C18_frame_two_interleavings.
Print Assumptions C18_matrix_display_layout.
Print Assumptions C18_matrix_display_lines.
Print Assumptions C18_matrix_display_injective.
Print Assumptions C18_tensor_display_injective.
Print Assumptions C18_renderers_admissible.
Print Assumptions C18_general_arm_is_recursive_layout.
Print Assumptions C18_recursive_layout_unfolds.
Print Assumptions C18_blocks_arm_is_recursive_layout.
Print Assumptions C18_tensor_display_injective_any_D.
Print Assumptions C18_error_text_contains_shape.
Print Assumptions C18_error_text_contains_names.
Print Assumptions C18_error_text_contains_access.
Print Assumptions C18_error_text_contains_range_validation.
Print Assumptions C18_error_text_contains_strict_range_validation.
Print Assumptions C18_error_text_contains_record_iterator_shape.
Print Assumptions C18_error_text_contains_gaussian_shapes.
Print Assumptions C18_shape_text_injective.
Print Assumptions C18_names_text_injective.
Print Assumptions C18_invalid_shape_message_identifies_shape.
Print Assumptions C18_access_error_text_as_written.
