(* C17 — Gaussian density and draws follow the normal distribution's definition.
   Only the property theorems (closed by `exact`), the non-vacuity example and the assumption
   audit.  Transcribed code: Model/Gaussian.v.  Specification (Proofs/C17P.v, Proofs/C17R.v):
     normal_pdf ops mean var x   1 / sqrt(2 pi var) * exp( -(x - mean)^2 / (2 var) )
     box_muller ops g u v        ( sqrt(-2 ln u) cos(2 pi v) sd + mean , the sin twin )  [Model]
     bm_list ops g src           the samples made from consecutive pairs of src
     width k                     2 * ceil(k / 2): the source numbers k samples need
     std_row ops n src r         the r-th vector of n standard normals taken from src
     affine ops mean L z         mean + L z
     inner ops xs ys             sum_j xs_j ys_j
     C17PD.real_closed_field / carrier / rcf_ops / cov_symmetric / cov_posdef
                                 any real closed field F (mathcomp rcfType), its dictionary with
                                 sqrt = Num.sqrt, cov[i][j] = cov[j][i], 0 < x^T cov x for x <> 0
   A source iterator is the list of numbers it will still yield; every draw returns the rest.
   Session 3 additions: C17_pdf_real_shape (positive, symmetric, maximal at the mean),
   C17_draw_doc_counts (k / k + 1 numbers, present <-> available, both
   directions), C17_std_row_values, C17_affine_entry, C17_mv_draw_real (the multivariate clause over
   the reals in one statement), C17_mv_draw_absent_no_factor, C17_mv_draw_absent_not_posdef,
   C17_mv_draw_present_iff_posdef (absent for a non-positive-definite covariance, stated for the
   draw itself).
   Wave 3: FLOAT TIER of the correspondence (ops 6 - 8, f64 and f32): IEEE arithmetic is still not
   modelled; the harness compares every density / sample / multivariate row with a real-number
   closed form evaluated in f64 inside a stated rounding budget.  Those closed forms are exactly
   the right-hand sides proved of the model over Coq's R: the density reference is
   C17_float_oracle_pdf_reference (= C17_pdf_real, hypothesis 0 < var only; symmetry and the maximum
   at the mean: C17_pdf_real_shape), a sample is C17_draw_values_real (which source pair, cos for
   even and sin for odd positions, radicand >= 0 for u in (0,1]), a multivariate row is
   C17_mv_draw_real (mean_i + sum_j L_ij z_j with L the Cholesky routine's own factor — the harness
   takes L from the crate's routine, C08 says what L is).  Beyond these the oracle trusts: std's
   f64 sqrt / exp / ln / cos / sin / PI as the real functions to a few units in the last place,
   and — for the predicted PRESENCE of a multivariate draw — that a symmetric matrix is positive
   definite (C17_mv_draw_present_iff_posdef) iff every pivot of its exact LDL^T decomposition is
   positive (textbook; from C08_ldlt_sound's A = L D L^T, not restated here).
   Wave 4 (builder GEN, block at the end of this file): C17_generated_draw_matches_model -
   Gaussian::draw and generate_pair are re-translated from src/distributions.rs on every run
   (tools/gen_arith.py element backend -> Gen/ArithReal.v) and proved equal to Model.Gaussian.draw
   for every dictionary, source and budget >= k (Proofs/GenGaussianP.v): the univariate draw every
   theorem here speaks about is tied to the Rust TEXT, not only to the transcription.
   Limits: K1 (0 samples: the library panics, the model returns None); the rcf theorems have no
   constructed instance (none installed, as in C08); floats are not modelled (oracle tier only);
   draw_tensor_samples / the Cholesky routine / probability are transcribed, not regenerated. *)
From Coq Require Import List Arith NArith ZArith Reals.
From EasyML Require Import Base.Sx Model.Num Model.Stats Model.Gaussian Proofs.C14P Proofs.RealOps Proofs.C17P Proofs.C17R Proofs.C17Chol.
From EasyML Require Model.Decomp Model.LinAlg Proofs.C08P2 Proofs.C08P5 Proofs.C17PD.
Import ListNotations.
Local Close Scope R_scope.
Local Open Scope nat_scope.

(* the density as written is the normal density, in any field whose Real methods satisfy: sqrt
   is multiplicative and a right inverse of squaring on `nonneg`, pow y 2 = y * y *)
Theorem C17_pdf : forall R (ops : numops R), is_field ops ->
  forall nonneg : R -> Prop,
  (forall a b, nonneg a -> nonneg b -> nsqrt ops (nmul ops a b) = nmul ops (nsqrt ops a) (nsqrt ops b)) ->
  (forall a, nonneg a -> nmul ops (nsqrt ops a) (nsqrt ops a) = a) ->
  (forall y, npow ops y (two ops) = nmul ops y y) ->
  forall mean var x : R,
  nonneg var -> nonneg (nmul ops (two ops) (npi ops)) -> nsqrt ops var <> nzero ops ->
  two ops <> nzero ops ->
  probability ops (mkGaussian mean var) x =
  nmul ops (ndiv ops (none_ ops) (nsqrt ops (nmul ops (nmul ops (two ops) (npi ops)) var)))
       (nexp ops (ndiv ops (nneg ops (nmul ops (nsub ops x mean) (nsub ops x mean)))
                       (nmul ops (two ops) var))).
Proof. exact @probability_is_normal_pdf. Qed.

(* ... and those hypotheses hold for the real numbers: for every mean, every variance > 0 and
   every point the density is 1/sqrt(2 pi var) * exp(-(x - mean)^2 / (2 var)) *)
Theorem C17_pdf_real : forall mean var x : R, (0 < var)%R ->
  probability Rops (mkGaussian mean var) x =
  (1 / sqrt (2 * PI * var) * exp (- ((x - mean) * (x - mean)) / (2 * var)))%R.
Proof. exact pdf_real. Qed.

(* Gaussian::approximating fits the population mean and variance (C14's definitions) *)
Theorem C17_approximating : forall R (ops : numops R), is_field ops -> forall l : list R,
  (l <> [] -> approximating ops l = Ok (mkGaussian (mean_spec ops l) (var_spec ops l))) /\
  approximating ops [] = Panic.
Proof. exact @approximating_correct. Qed.

(* the pair of samples made from the source numbers (u, v), over the reals: the documented
   Box-Muller transform scaled by the standard deviation and shifted by the mean *)
Theorem C17_box_muller_real : forall mean var u v : R,
  box_muller Rops (mkGaussian mean var) u v =
  ((sqrt (-2 * ln u) * cos (2 * PI * v) * sqrt var + mean)%R,
   (sqrt (-2 * ln u) * sin (2 * PI * v) * sqrt var + mean)%R).
Proof. exact box_muller_real. Qed.

(* Gaussian::draw as one equation: present exactly when 2*ceil(k/2) numbers are available; the
   samples are the first k of the pairwise Box-Muller images; the rest of the source is untouched *)
Theorem C17_draw_spec : forall R (ops : numops R) (g : gaussian) (src : list R) (k : nat),
  draw ops g src (N.of_nat k) =
  if width k <=? length src
  then (Some (firstn k (bm_list ops g (firstn (width k) src))), skipn (width k) src)
  else (None, []).
Proof. exact @draw_spec. Qed.

Theorem C17_draw_len : forall R (ops : numops R) (g : gaussian) (src : list R) (k : nat) l rest,
  draw ops g src (N.of_nat k) = (Some l, rest) -> length l = k.
Proof. exact @draw_len. Qed.

Theorem C17_draw_consumption : forall R (ops : numops R) (g : gaussian) (src : list R) (k : nat),
  (width k <= length src ->
     exists l, draw ops g src (N.of_nat k) = (Some l, skipn (width k) src) /\
               length src - length (skipn (width k) src) = width k) /\
  (length src < width k -> draw ops g src (N.of_nat k) = (None, [])) /\
  (fst (draw ops g src (N.of_nat k)) = None <-> length src < width k) /\
  draw ops g src 0%N = (Some [], src).
Proof. exact @draw_consumption. Qed.

Theorem C17_draw_values : forall R (ops : numops R) (g : gaussian) (src : list R) (k : nat) l rest d,
  draw ops g src (N.of_nat k) = (Some l, rest) ->
  forall i,
  (2 * i < k -> nth (2 * i) l d =
     fst (box_muller ops g (nth (2 * i) src d) (nth (2 * i + 1) src d))) /\
  (2 * i + 1 < k -> nth (2 * i + 1) l d =
     snd (box_muller ops g (nth (2 * i) src d) (nth (2 * i + 1) src d))).
Proof. exact @draw_values. Qed.

(* multivariate draws: refused (nothing consumed) for equal names, a covariance the Cholesky
   routine rejects, and 0 samples (K1: the library panics there); absent when the source runs
   dry; otherwise k rows of n values, row r = mean + L z_r, exactly k * 2*ceil(n/2) numbers used *)
Theorem C17_mv_draw : forall R (ops : numops R) (mean : list R) (cov : list (list R))
    (src : list R) (k ns nf : nat),
  length mean = length cov ->
  let n := length mean in
  (ns = nf -> draw_tensor_samples ops mean cov src (N.of_nat k) ns nf = (None, src)) /\
  (cholesky ops cov = None -> draw_tensor_samples ops mean cov src (N.of_nat k) ns nf = (None, src)) /\
  (k = 0 -> draw_tensor_samples ops mean cov src (N.of_nat k) ns nf = (None, src)) /\
  (forall L, ns <> nf -> cholesky ops cov = Some L -> 0 < k ->
     (length src < k * width n ->
        draw_tensor_samples ops mean cov src (N.of_nat k) ns nf = (None, [])) /\
     (k * width n <= length src ->
        exists rows,
          draw_tensor_samples ops mean cov src (N.of_nat k) ns nf =
            (Some ((ns, N.of_nat k), (nf, N.of_nat n), rows), skipn (k * width n) src) /\
          length rows = k /\
          (forall r, r < k -> nth r rows [] = affine ops mean L (std_row ops n src r) /\
                              length (nth r rows []) = n))).
Proof. exact @mv_draw_correct. Qed.

(* the Cholesky routine transcribed in Model/Gaussian.v for the draws is, on EVERY input, the
   function of C08's transcription Model/Decomp.v *)
Theorem C17_cholesky_same : forall R (ops : numops R) (a : list (list R)),
  Gaussian.cholesky ops a = Decomp.cholesky ops a.
Proof. exact @cholesky_same. Qed.

(* hence (C08_cholesky_sound) a PRESENT multivariate draw uses a genuine Cholesky factor: under C08's
   hypotheses `C08P5.ordered_sqrt_field ops lt` (ring laws, (1/x) x = 1, `<=` decides the order,
   sqrt x sqrt x = x and 0 < sqrt x for 0 < x) there is L with `C08P5.cholesky_factor ops lt cov L`
   = L is n x n, zero above the diagonal, positive on it, (L L^T)[i][j] = cov[i][j] for j <= i and
   — for a symmetric covariance — for all i, j; and every row of the result is mean + L z_r *)
Theorem C17_mv_draw_genuine_factor : forall R (ops : numops R) (lt : R -> R -> Prop)
    (mean : list R) (cov : list (list R)) (src : list R) (k ns nf : nat) d0 d1 rows rest,
  C08P5.ordered_sqrt_field ops lt ->
  draw_tensor_samples ops mean cov src (N.of_nat k) ns nf = (Some (d0, d1, rows), rest) ->
  exists L,
    Gaussian.cholesky ops cov = Some L /\ Decomp.cholesky ops cov = Some L /\
    C08P5.cholesky_factor ops lt cov L /\
    0 < k /\ ns <> nf /\
    d0 = (ns, N.of_nat k) /\ d1 = (nf, N.of_nat (length mean)) /\
    rest = skipn (k * width (length mean)) src /\ length rows = k /\
    forall r, r < k -> nth r rows [] = affine ops mean L (std_row ops (length mean) src r).
Proof. exact @mv_draw_genuine_factor. Qed.

(* over the reals, sample 2i / 2i+1 of a present draw IS the documented Box-Muller image of the
   i-th source pair (u, v), scaled by the standard deviation sqrt(variance) and shifted by the mean;
   for u in (0, 1] the radicand -2 ln u is non-negative (sqrt is its genuine root) and for a
   variance >= 0 the scale squares to the variance *)
Theorem C17_draw_values_real : forall (mean var : R) (src : list R) (k : nat) (l rest : list R),
  draw Rops (mkGaussian mean var) src (N.of_nat k) = (Some l, rest) ->
  (forall i : nat,
     let u := nth (2 * i) src 0%R in
     let v := nth (2 * i + 1) src 0%R in
     (2 * i < k ->
        nth (2 * i) l 0%R = (sqrt (-2 * ln u) * cos (2 * PI * v) * sqrt var + mean)%R) /\
     (2 * i + 1 < k ->
        nth (2 * i + 1) l 0%R = (sqrt (-2 * ln u) * sin (2 * PI * v) * sqrt var + mean)%R)) /\
  (forall u : R, (0 < u <= 1)%R ->
     (0 <= -2 * ln u)%R /\ (sqrt (-2 * ln u) * sqrt (-2 * ln u) = -2 * ln u)%R) /\
  ((0 <= var)%R -> (sqrt var * sqrt var = var)%R).
Proof.
  intros mean var src k l rest H. split; [exact (draw_values_real mean var src k l rest H)|].
  split; [exact box_muller_radicand | exact (standard_deviation_squared var)].
Qed.

(* the matrix variant is the tensor variant on the mean's sole column, for any two distinct names *)
Theorem C17_mv_matrix_tensor_agree : forall R (ops : numops R) (meanm cov : list (list R))
    (src : list R) (k ns nf : nat), ns <> nf ->
  let mean := map (fun row => nth 0 row (nzero ops)) meanm in
  mv_draw ops (meanm, cov) src (N.of_nat k) =
  (option_map snd (fst (mvt_draw ops (mean, cov) src (N.of_nat k) ns nf)),
   snd (mvt_draw ops (mean, cov) src (N.of_nat k) ns nf)).
Proof. exact @mv_matrix_tensor_agree. Qed.

(* constructor validation: the matrix variant asserts, the tensor variant reports *)
Theorem C17_mv_constructors : forall R (meanm cov : list (list R)) (mean : list R),
  ((length (hd [] meanm) = 1 /\ length cov = length (hd [] cov) /\ length meanm = length cov ->
     mv_new meanm cov = Ok (meanm, cov)) /\
   (~ (length (hd [] meanm) = 1 /\ length cov = length (hd [] cov) /\ length meanm = length cov) ->
     mv_new meanm cov = Panic)) /\
  ((length cov <> length (hd [] cov) -> mvt_new mean cov = Err (SZ 0)) /\
   (length cov = length (hd [] cov) -> length mean <> length cov -> mvt_new mean cov = Err (SZ 1)) /\
   (length cov = length (hd [] cov) -> length mean = length cov -> mvt_new mean cov = Ok (mean, cov))).
Proof. intros R meanm cov mean. split; [exact (mv_new_spec meanm cov) | exact (mvt_new_spec mean cov)]. Qed.

(* ---- session 3 ---- *)
(* what the documentation of `probability` promises, over the reals, for every mean and every
   variance > 0: positive everywhere, symmetric about the mean, largest at the mean *)
Theorem C17_pdf_real_shape : forall mean var : R, (0 < var)%R ->
  let p := probability Rops (mkGaussian mean var) in
  (forall x, (0 < p x)%R) /\ (forall d, p (mean + d)%R = p (mean - d)%R) /\
  (forall x, (p x <= p mean)%R) /\ p mean = (1 / sqrt (2 * PI * var))%R.
Proof. exact pdf_real_shape. Qed.

(* the documented counts: k source numbers for an even k, k + 1 for an odd k; present exactly when
   that many are available, absent (everything consumed) exactly when not — both directions *)
Theorem C17_draw_doc_counts : forall R (ops : numops R) (g : gaussian) (src : list R) (k : nat),
  let needed := if Nat.even k then k else k + 1 in
  width k = needed /\
  ((exists l, fst (draw ops g src (N.of_nat k)) = Some l) <-> needed <= length src) /\
  (fst (draw ops g src (N.of_nat k)) = None <-> length src < needed) /\
  (needed <= length src -> length (snd (draw ops g src (N.of_nat k))) = length src - needed) /\
  (length src < needed -> snd (draw ops g src (N.of_nat k)) = []).
Proof. intros R ops g src k. split; [exact (width_doc k) | exact (draw_doc_counts ops g src k)]. Qed.

(* the standard normals of sample row r of a multivariate draw, as a function of the source *)
Theorem C17_std_row_values : forall R (ops : numops R) (n : nat) (src : list R) (r : nat) (d : R),
  (r + 1) * width n <= length src ->
  length (std_row ops n src r) = n /\
  forall i,
  (2 * i < n -> nth (2 * i) (std_row ops n src r) d =
     fst (box_muller ops (standard_normal ops) (nth (r * width n + 2 * i) src d)
                                                (nth (r * width n + 2 * i + 1) src d))) /\
  (2 * i + 1 < n -> nth (2 * i + 1) (std_row ops n src r) d =
     snd (box_muller ops (standard_normal ops) (nth (r * width n + 2 * i) src d)
                                                (nth (r * width n + 2 * i + 1) src d))).
Proof. exact @std_row_values. Qed.

(* entry i of mean + L z is mean_i + sum_j L_ij z_j (inner = the textbook inner product) *)
Theorem C17_affine_entry : forall R (ops : numops R), is_field ops ->
  forall (mean : list R) (L : list (list R)) (z : list R) (i : nat),
  i < length mean -> i < length L ->
  nth i (affine ops mean L z) (nzero ops) =
  nadd ops (nth i mean (nzero ops)) (inner ops (nth i L []) z).
Proof. exact @affine_entry. Qed.

(* THE MULTIVARIATE CLAUSE OVER THE REALS, in one statement: a present draw has k rows; row r is
   mean + L z_r entry by entry, L the Cholesky routine's factor of the covariance, z_r made of
   sqrt(-2 ln u) cos(2 pi v) / sqrt(-2 ln u) sin(2 pi v) for consecutive source pairs (u, v), each
   row starting a fresh pair *)
Theorem C17_mv_draw_real : forall (mean : list R) (cov : list (list R)) (src : list R)
    (k ns nf : nat) d0 d1 rows rest,
  length mean = length cov ->
  draw_tensor_samples Rops mean cov src (N.of_nat k) ns nf = (Some (d0, d1, rows), rest) ->
  let n := length mean in
  let w := width n in
  exists L, cholesky Rops cov = Some L /\ length rows = k /\
  forall r, r < k ->
    exists z, length z = n /\
      (forall j, 2 * j < n ->
         nth (2 * j) z 0%R = (sqrt (-2 * ln (nth (r * w + 2 * j) src 0))
                              * cos (2 * PI * nth (r * w + 2 * j + 1) src 0))%R) /\
      (forall j, 2 * j + 1 < n ->
         nth (2 * j + 1) z 0%R = (sqrt (-2 * ln (nth (r * w + 2 * j) src 0))
                                  * sin (2 * PI * nth (r * w + 2 * j + 1) src 0))%R) /\
      (forall i, i < n ->
         nth i (nth r rows []) 0%R = (nth i mean 0 + inner Rops (nth i L []) z)%R).
Proof. exact mv_draw_real. Qed.

(* ABSENT FOR A NON-POSITIVE-DEFINITE COVARIANCE, any dictionary that is an ordered field with
   square roots (C08's hypotheses): a covariance with no Cholesky factor in C08's sense — L L^T
   with a positive diagonal is positive definite, so this includes every covariance that is not
   positive definite — or a non-square one makes the draw absent with nothing consumed, for every
   number of samples and every names *)
Theorem C17_mv_draw_absent_no_factor : forall R (ops : numops R) (lt : R -> R -> Prop)
    (mean : list R) (cov : list (list R)) (src : list R) (k : N) (ns nf : nat),
  C08P5.ordered_sqrt_field ops lt ->
  (~ exists L, C08P5.cholesky_factor ops lt cov L) \/ LinAlg.mrows cov <> LinAlg.mcols cov ->
  draw_tensor_samples ops mean cov src k ns nf = (None, src).
Proof. exact @mv_draw_absent_no_factor. Qed.

(* ... and with positive definiteness itself (0 < x^T cov x for every x <> 0, C17PD.cov_posdef),
   over EVERY real closed field F with sqrt = F's square root and F's order (C17PD.rcf_ops):
   a symmetric covariance that is not positive definite makes the draw absent; and with distinct
   names, at least one sample and enough source numbers the draw of a symmetric square
   covariance is present EXACTLY when the covariance is positive definite *)
Theorem C17_mv_draw_absent_not_posdef : forall (F : C17PD.real_closed_field)
    (mean : list (C17PD.carrier F)) (cov : list (list (C17PD.carrier F)))
    (src : list (C17PD.carrier F)) (k : N) (ns nf : nat),
  C17PD.cov_symmetric cov -> ~ C17PD.cov_posdef cov ->
  draw_tensor_samples (C17PD.rcf_ops F) mean cov src k ns nf = (None, src).
Proof. exact C17PD.mv_draw_absent_not_posdef. Qed.

Theorem C17_mv_draw_present_iff_posdef : forall (F : C17PD.real_closed_field)
    (mean : list (C17PD.carrier F)) (cov : list (list (C17PD.carrier F)))
    (src : list (C17PD.carrier F)) (k ns nf : nat),
  LinAlg.mrows cov = LinAlg.mcols cov -> C17PD.cov_symmetric cov -> ns <> nf -> 0 < k ->
  k * width (length mean) <= length src ->
  ((exists t rest, draw_tensor_samples (C17PD.rcf_ops F) mean cov src (N.of_nat k) ns nf = (Some t, rest))
   <-> C17PD.cov_posdef cov).
Proof. exact C17PD.mv_draw_present_iff_posdef. Qed.

(* ---- wave 3: what the float tier's density reference is ---- *)
(* the value the harness evaluates in f64 — d = x - mean, y = -(d d)/(2 var), norm = 1/sqrt(2 pi var),
   reference = norm * exp y — IS the transcribed `probability` over the reals, for every mean, every
   variance > 0 and every point; y <= 0 and exp y <= 1 (nothing exceeds the density at the mean),
   norm > 0.  No hypothesis beyond 0 < var: the oracle relies on no other real-number fact *)
Theorem C17_float_oracle_pdf_reference : forall mean var x : R, (0 < var)%R ->
  let d := (x - mean)%R in
  let y := (- (d * d) / (2 * var))%R in
  let norm := (1 / sqrt (2 * PI * var))%R in
  probability Rops (mkGaussian mean var) x = (norm * exp y)%R /\
  (y <= 0)%R /\ (exp y <= 1)%R /\ (0 < norm)%R.
Proof. exact float_oracle_pdf_reference. Qed.

(* non-vacuity: the reals satisfy the density hypotheses (that is C17_pdf_real); on the executable
   prime-field dictionary a draw of 3 samples takes 4 of 5 numbers, runs dry on 3, and a
   2-dimensional multivariate draw of 2 samples yields a 2 x 2 result using 4 numbers *)
Example C17_nonvacuous :
  is_field Rops /\
  (exists l, draw Fpops (mkGaussian 1%Z 4%Z) [2; 3; 5; 7; 11]%Z 3%N = (Some l, [11%Z]) /\ length l = 3) /\
  draw Fpops (mkGaussian 1%Z 4%Z) [2; 3; 5]%Z 3%N = (None, []) /\
  (exists L rows, cholesky Fpops [[4; 1]; [1; 3]]%Z = Some L /\
     draw_tensor_samples Fpops [5; 6]%Z [[4; 1]; [1; 3]]%Z [2; 3; 5; 7; 9]%Z 2%N 0 1 =
       (Some ((0, 2%N), (1, 2%N), rows), [9%Z]) /\ length rows = 2).
Proof.
  split; [exact Rops_is_field|]. split; [|split].
  - eexists. vm_compute. split; reflexivity.
  - vm_compute. reflexivity.
  - do 2 eexists. vm_compute. repeat split; reflexivity.
Qed.

(* non-vacuity of the session-3 statements: C08's hypotheses hold for Coq's reals; on the
   executable prime-field dictionary a covariance whose first pivot is 0 is refused with nothing
   consumed; 3 samples need 4 numbers, 4 need 4; inner [1;2] [3;4] = 11.  (The two theorems over
   `C17PD.real_closed_field` quantify over every real closed field; as in C08 no instance is
   constructed here — none is installed — their oracle-free content is carried by
   C17_mv_draw_absent_no_factor, whose hypotheses the reals satisfy.) *)
Example C17_nonvacuous_session3 :
  C08P5.ordered_sqrt_field C08P2.Rops Rlt /\
  draw_tensor_samples Fpops [5; 6]%Z [[0; 1]; [1; 3]]%Z [2; 3; 5; 7]%Z 2%N 0 1 = (None, [2; 3; 5; 7]%Z) /\
  width 3 = 4 /\ width 4 = 4 /\ inner Fpops [1; 2]%Z [3; 4]%Z = 11%Z.
Proof.
  split; [exact C08P5.Rops_ordered_sqrt_field|]. vm_compute. repeat split; reflexivity.
Qed.

Print Assumptions C17_pdf.
Print Assumptions C17_pdf_real.
Print Assumptions C17_approximating.
Print Assumptions C17_box_muller_real.
Print Assumptions C17_draw_spec.
Print Assumptions C17_draw_len.
Print Assumptions C17_draw_consumption.
Print Assumptions C17_draw_values.
Print Assumptions C17_mv_draw.
Print Assumptions C17_cholesky_same.
Print Assumptions C17_mv_draw_genuine_factor.
Print Assumptions C17_draw_values_real.
Print Assumptions C17_mv_matrix_tensor_agree.
Print Assumptions C17_mv_constructors.
Print Assumptions C17_pdf_real_shape.
Print Assumptions C17_draw_doc_counts.
Print Assumptions C17_std_row_values.
Print Assumptions C17_affine_entry.
Print Assumptions C17_mv_draw_real.
Print Assumptions C17_mv_draw_absent_no_factor.
Print Assumptions C17_mv_draw_absent_not_posdef.
Print Assumptions C17_mv_draw_present_iff_posdef.
Print Assumptions C17_float_oracle_pdf_reference.

(* ---- fourth extension wave (builder GEN): Gaussian::draw / generate_pair regenerated from the source ----
   tools/gen_arith.py (element backend) re-translates the bodies of Gaussian::draw and
   Gaussian::generate_pair from src/distributions.rs on every run (Gen/ArithReal.v): values of the
   element type T are values of the dictionary's carrier, `self` is (mean, variance), the source
   iterator is the list of numbers it will still yield (`next()` pops the front, `?` on None returns
   None with the source as it is then), the `while` loop runs under an iteration budget `fuel`.
   For EVERY dictionary, gaussian, source, sample count k and budget >= k the generated draw is the
   model's draw (Model/Gaussian.v) - value and remaining source -, and the generated generate_pair
   takes the first two numbers in order (u, then v) or answers None having consumed what was left.
   This ties to the Rust TEXT: how many pairs are drawn for k samples (the loop condition), which of
   the two numbers is u and which v, cos for the first / sin for the second sample of a pair, the pop
   of the surplus sample for odd k, the early None, the scaling by sqrt(variance) and the shift by the
   mean.  (Proofs/GenGaussianP.v; every C17 theorem above is about Model.Gaussian.draw.) *)
From EasyML Require Gen.ArithReal Proofs.GenGaussianP.

Theorem C17_generated_draw_matches_model :
  forall (R : Type) (ops : numops R) (mean variance : R) (source : list R) (k : N) (fuel : nat),
  N.to_nat k <= fuel ->
  ArithReal.gen_Gaussian_draw ops fuel (mean, variance) source k =
    Some (draw ops (mkGaussian mean variance) source k) /\
  ArithReal.gen_Gaussian_generate_pair ops (mean, variance) source =
    match source with u :: v :: rest => (Some (u, v), rest) | _ => (None, []) end.
Proof.
  intros R ops mean variance source k fuel H. split.
  - exact (GenGaussianP.gen_Gaussian_draw_eq ops mean variance source k fuel H).
  - exact (GenGaussianP.gen_Gaussian_generate_pair_eq ops (mean, variance) source).
Qed.

(* non-vacuity: the generated definitions evaluated by the kernel on the prime-field dictionary - 3
   samples take 4 of 5 numbers, a budget of 1 iteration is not enough for 3 samples (the hypothesis
   on fuel is needed), a source of 3 numbers runs dry, generate_pair takes (2, 3) of [2; 3; 5] *)
Example C17_generated_draw_nonvacuous : GenGaussianP.gaussian_example.
Proof. exact GenGaussianP.gaussian_example_holds. Qed.

Print Assumptions C17_generated_draw_matches_model.
