(* C05 — Forward-mode differentiation carries the true derivative through every operation.
   Only the property theorems (closed by `exact`), the assumption audit and a non-vacuity
   example.  Definitions: Model/Forward.v (transcription of Trace and trace_operations.rs:
   `trun seed prog` runs a program with the variable instruction `seed` as Trace::variable and all
   other inputs as Trace::constant), Spec/FormalD.v (`value`, `grad`), Model/AD.v (reverse mode),
   Proofs/C05P.v (`nonzero_denominators`), Proofs/C04R.v (`Rops`, `dom`, `set_var`).
   Session 3 added (clause audit: notes/C04_C05.md): Proofs/C05X.v -- the whole gradient by seeding
   every variable in turn = the reverse-mode entries, independent inputs give 0; Proofs/C05XI.v --
   the analytic theorem over `Rops_i` / `dom_i` (Proofs/C04RI.v: natural-number powers at any base).
   Wave 2 added: Proofs/C05XZ.v -- the analytic theorem over `Rops_z` / `dom_z` (Proofs/C04RZ.v: EVERY
   integer power -- x^n, 1 / x^n -- at any base without a pole, for trace ^ number and trace ^
   constant-trace).  The correspondence hands the items of every Sum to `impl Sum for Trace`
   through 16 iterator shapes (harness/src/c04/prog.rs `sum_shaped`; round-4 seed C05-v1). *)
From Coq Require Import List Arith ZArith Reals Bool.
From EasyML Require Import Base.Sx Model.Num Model.Tape Model.AD Model.Forward Spec.FormalD
  Proofs.C04P Proofs.C04R Proofs.C04RI Proofs.C04RZ Proofs.C05P Proofs.C05X Proofs.C05XI Proofs.C05XZ.
Import ListNotations.

(* the number component of every trace is the same computation on plain numbers *)
Theorem C05_value : forall R (ops : numops R), is_field ops ->
  forall seed (prog : list (instr R)) k,
  tnumber (gett ops (trun ops seed prog) k) = nth k (value ops prog) (nzero ops).
Proof. exact @forward_value. Qed.

(* the derivative component is the formal partial derivative with respect to the seeded
   variable (any field; record / record and record / number denominators non-zero) *)
Theorem C05_derivative_is_gradient : forall R (ops : numops R), is_field ops ->
  forall seed (prog : list (instr R)) k, nonzero_denominators ops prog ->
  tnumber (gett ops (trun ops seed prog) k) = nth k (value ops prog) (nzero ops) /\
  tderivative (gett ops (trun ops seed prog) k) = grad ops prog k seed.
Proof. exact @forward_correct. Qed.

(* seeding each input in turn reproduces exactly the gradient that reverse mode reports for the
   same program (and 0 where reverse mode reports a constant) *)
Theorem C05_forward_equals_reverse : forall R (ops : numops R), is_field ops ->
  forall (prog : list (instr R)) seed x out,
  nth_error prog seed = Some (IVar x) -> nonzero_denominators ops prog ->
  match try_derivatives ops (run_prog ops prog) out with
  | Some d => tderivative (gett ops (trun ops seed prog) out)
              = at_ ops d (getr ops (fst (run_prog ops prog)) seed)
  | None => tderivative (gett ops (trun ops seed prog) out) = nzero ops
  end.
Proof. exact @forward_equals_reverse. Qed.

(* every trace (op) number form, and number ^ trace, equals the trace (op) trace form applied to
   Trace::constant(number): plain-number operands are constants *)
Theorem C05_number_operand_is_constant_trace : forall R (ops : numops R), is_field ops ->
  forall o (a : trace R) c,
  t_bin_num ops o a c = t_bin ops o a (tconstant ops c) /\
  t_num_pow ops c a = t_pow ops (tconstant ops c) a.
Proof. exact @number_operand_is_constant_trace. Qed.

(* over Coq's real numbers the derivative component is the true derivative of the number
   component with respect to the seeded input, inside the domain (`dom`, see C04) *)
Theorem C05_forward_mode_is_true_derivative : forall prog i x0 out,
  nth_error prog i = Some (IVar x0) -> dom prog ->
  derivable_pt_lim (fun t => tnumber (gett Rops (trun Rops i (set_var prog i t)) out)) x0
                   (tderivative (gett Rops (trun Rops i prog) out)).
Proof. exact forward_mode_is_true_derivative. Qed.

(* ---- extension round (session 3), Proofs/C05X.v ---- *)

(* the WHOLE gradient at once: seeding every variable instruction of the program in turn gives
   exactly the list of entries Derivatives::at reports for those variables in reverse mode (all
   zeros when the output is a constant); every program, every output *)
Theorem C05_gradient_by_seeding : forall R (ops : numops R), is_field ops ->
  forall (prog : list (instr R)) out, nonzero_denominators ops prog ->
  let forward := map (fun s => tderivative (gett ops (trun ops s prog) out)) (var_nodes prog) in
  match try_derivatives ops (run_prog ops prog) out with
  | Some d => forward = map (fun s => at_ ops d (getr ops (fst (run_prog ops prog)) s)) (var_nodes prog)
  | None => forward = map (fun _ => nzero ops) (var_nodes prog)
  end.
Proof. exact @gradient_by_seeding. Qed.

(* seeding an input the output does not (syntactically) depend on -- e.g. one created after it --
   gives derivative component exactly zero *)
Theorem C05_independent_zero : forall R (ops : numops R), is_field ops ->
  forall (prog : list (instr R)) seed out, nonzero_denominators ops prog ->
  nth out (depends_on prog seed) false = false ->
  tderivative (gett ops (trun ops seed prog) out) = nzero ops.
Proof. exact @forward_independent_zero. Qed.

(* integer powers at any base (see Properties/C04.v, Proofs/C04RI.v): over `Rops_i` (rpow x n = x^n for
   a natural number n at ANY base) the derivative component is the true derivative inside `dom_i`,
   which admits trace ^ number at a negative or zero base for natural-number exponents *)
Theorem C05_forward_mode_is_true_derivative_ipow : forall prog i x0 out,
  nth_error prog i = Some (IVar x0) -> dom_i prog ->
  derivable_pt_lim (fun t => tnumber (gett Rops_i (trun Rops_i i (set_var prog i t)) out)) x0
                   (tderivative (gett Rops_i (trun Rops_i i prog) out)).
Proof. exact forward_mode_is_true_derivative_i. Qed.

(* every integer power at any base without a pole (see Properties/C04.v, Proofs/C04RZ.v): over `Rops_z`
   (zpow x z = powerRZ x z for an integer z) the derivative component is the true derivative inside
   `dom_z`, which admits trace ^ number and trace ^ constant at a negative base for any integer
   exponent (x^(-2) at x = -3) and at a zero base for natural exponents *)
Theorem C05_forward_mode_is_true_derivative_zpow : forall prog i x0 out,
  nth_error prog i = Some (IVar x0) -> dom_z prog ->
  derivable_pt_lim (fun t => tnumber (gett Rops_z (trun Rops_z i (set_var prog i t)) out)) x0
                   (tderivative (gett Rops_z (trun Rops_z i prog) out)).
Proof. exact forward_mode_is_true_derivative_z. Qed.

(* non-vacuity: the reals are a field instance; (x / y) * x + 7 / y at x = 2, y = 3 has non-zero
   denominators, lies in the domain, and seeding x gives 2x/y = 4/3, seeding y gives
   -(x^2 + 7)/y^2 = -11/9 *)
Example C05_nonvacuous :
  is_field Rops /\
  let prog := [IVar 2%R; IVar 3%R; IBin BDiv 0 1; IBin BMul 2 0; ICBin CDiv 7%R 1; IBin BAdd 3 4] in
  nonzero_denominators Rops prog /\ dom prog /\
  nth_error prog 0 = Some (IVar 2%R) /\ nth_error prog 1 = Some (IVar 3%R) /\
  tderivative (gett Rops (trun Rops 0 prog) 5) = (4 / 3)%R /\
  tderivative (gett Rops (trun Rops 1 prog) 5) = (- 11 / 9)%R.
Proof.
  split; [exact Rops_is_field|]. cbv zeta.
  assert (H3 : (3 <> 0)%R) by (apply Rgt_not_eq; apply Rlt_gt; prove_sup0).
  split; [unfold nonzero_denominators; cbn; tauto|].
  split; [unfold dom; cbn; tauto|]. split; [reflexivity|]. split; [reflexivity|].
  split; cbn; field.
Qed.

Print Assumptions C05_value.
Print Assumptions C05_derivative_is_gradient.
Print Assumptions C05_forward_equals_reverse.
Print Assumptions C05_number_operand_is_constant_trace.
Print Assumptions C05_forward_mode_is_true_derivative.
Print Assumptions C05_gradient_by_seeding.
Print Assumptions C05_independent_zero.
Print Assumptions C05_forward_mode_is_true_derivative_ipow.
Print Assumptions C05_forward_mode_is_true_derivative_zpow.
