(* C19 — Numeric trait contracts hold for built-in, wrapper and user-defined types.
   Only the property theorems (closed by `exact`), the assumption audit and the non-vacuity
   example.  Definitions: Model/Numeric.v (transcription of src/numeric.rs and of the
   Trace / Record impls), Proofs/C19P.v.
   `all_ity` = [u8 i8 u16 i16 u32 i32 u64 i64 u128 i128 usize isize]; counts are usize values
   (n < 2^64).  The "four owned/borrowed operand forms agree" clause for the PRIMITIVE types
   (std's impls) is decided by the correspondence check (harness/src/c19.rs); for Trace / Record
   it is C19_wrapper_forms_agree.  "User types work in every generic routine": the
   division-bearing routines follow their documented formula for every dictionary of operations
   (C19_user_type_*, session 3; instantiated in the correspondence at Rat, Fp, Wrapping<i64>, the
   user-defined whole-number type `Whole` and i64 — case (19 12 ..)); the remaining routines are
   instantiated at Rat / Fp by the other properties' harnesses and by cases (19 5) (19 6) (19 10)
   (19 13) — the audit table is in notes/C03_C19.md.
   Second extension wave: "floats always succeed with the NEAREST value" is C19_float_nearest +
   C19_float_bits_denote_the_rounded_count (Model/FloatConv.v, Proofs/C19F.v; integers only, no
   Flocq, closed under the global context) and the correspondence compares the crate's bit pattern
   with the model's; Trace<T> as an element type: Model/WrapperNum.v (dictionary incl. the Real
   functions), C19_trace_dictionary_is_the_forward_model, C19_trace_number_is_a_homomorphism,
   C19_routines_at_trace_inherit (Proofs/C19W.v), case (19 14 ..) at Trace / Record of Rat / Fp.
   Still correspondence-only: the operand forms of the primitive types (std), Record<T> as an
   element type (checked against Trace<T> in the harness), inverse / A*A / euclidean_length at
   Trace<T> (no homomorphism theorem). *)
From Coq Require Import List ZArith NArith QArith Bool Ring_theory.
From EasyML Require Import Base.Sx Model.Num Model.Tape Model.Numeric Proofs.C19P
     Gen.ArithNumeric Proofs.GenNumericP.
From EasyML Require Import Model.Stats Model.Whole Proofs.C19U.
From EasyML Require Import Model.FloatConv Proofs.C19F.
From EasyML Require Import Model.WrapperNum Proofs.C19W.
From EasyML Require Model.Forward Model.LinAlg.
Import ListNotations.
Open Scope Z_scope.

(* the conversion, WITH the `MAX as usize` cast as written, is the total specification
   "Some n when n <= MAX, None otherwise" *)
Theorem C19_from_usize_spec : forall t (n : N), In t all_ity -> (n < 18446744073709551616)%N ->
  from_usize t n = if Z.of_N n <=? imax t then Some (Z.of_N n) else None.
Proof. exact from_usize_spec. Qed.

(* succeeds exactly when the count is representable, and then round-trips *)
Theorem C19_from_usize_iff : forall t (n : N), In t all_ity -> (n < 18446744073709551616)%N ->
  ((exists v, from_usize t n = Some v) <-> Z.of_N n <= imax t) /\
  (forall v, from_usize t n = Some v -> Z.to_N v = n /\ in_range t v = true).
Proof. exact from_usize_iff. Qed.

(* MAX is accepted and MAX + 1 refused (for the types whose MAX is a usize) *)
Theorem C19_from_usize_boundary : forall t, In t all_ity -> imax t < 18446744073709551616 ->
  from_usize t (Z.to_N (imax t)) = Some (imax t) /\ from_usize t (Z.to_N (imax t + 1)) = None.
Proof. exact from_usize_boundary. Qed.

Theorem C19_float_always : forall n, exists v, from_usize_float n = Some v.
Proof. exact float_always. Qed.

(* ---- "floats always succeed with the NEAREST value" (second extension wave).
   Model/FloatConv.v: `n as f` = round to nearest, ties to even, to a p-bit significand (p = 24
   for f32, 53 for f64), integer arithmetic only; float_round p n = (m, e) denotes m * 2^e.
   (1) the answer is a float of precision p (m < 2^p; normalised: e > 0 -> 2^(p-1) <= m);
   (2) it is a nearest one: EVERY binary float of precision p is m' * 2^z for an integer z, written
       z = e' - k with e', k >= 0; |answer - n| <= |m' * 2^(e'-k) - n|, both sides multiplied by
       2^k to stay in Z (fractions and every exponent included; negative floats are farther still,
       n being >= 0); on a tie with a different float the answer's significand is even;
   (3) counts below 2^p are exact.
   The correspondence compares `f32::from_usize(n).to_bits()` / f64 with the model's bit pattern
   (case (19 1 w 12|13 n)); C19_float_bits_denote_the_rounded_count says that pattern denotes
   the value (1)-(3) are about and that its exponent field is never the all-ones (infinite) one. *)
Theorem C19_float_nearest : forall p n, 2 <= p -> 0 <= n ->
  (0 <= fst (float_round p n) < 2 ^ p /\ 0 <= snd (float_round p n) /\
   (0 < snd (float_round p n) -> 2 ^ (p - 1) <= fst (float_round p n))) /\
  (forall m' e' k, 0 <= m' < 2 ^ p -> 0 <= e' -> 0 <= k ->
     Z.abs (fl_val (float_round p n) * 2 ^ k - n * 2 ^ k) <= Z.abs (m' * 2 ^ e' - n * 2 ^ k) /\
     (Z.abs (fl_val (float_round p n) * 2 ^ k - n * 2 ^ k) = Z.abs (m' * 2 ^ e' - n * 2 ^ k) ->
      m' * 2 ^ e' = fl_val (float_round p n) * 2 ^ k \/ Z.even (fst (float_round p n)) = true)) /\
  (n < 2 ^ p -> float_round p n = (n, 0)).
Proof.
  intros p n Hp Hn. split; [exact (float_round_representable p n Hp Hn)|].
  split; [exact (float_round_nearest p n Hp Hn)|].
  intros H. apply float_round_exact; [|exact Hn|exact H]. apply Z.le_trans with 2; [discriminate|exact Hp].
Qed.

Theorem C19_float_bits_denote_the_rounded_count : forall n : N, (n < 18446744073709551616)%N ->
  f32_bits_of_usize 0 = 0 /\ f64_bits_of_usize 0 = 0 /\
  ((0 < n)%N ->
   (ieee_value 23 127 (f32_bits_of_usize n) == inject_Z (fl_val (float_round 24 (Z.of_N n))))%Q /\
   127 <= f32_bits_of_usize n / 2 ^ 23 <= 191 /\
   (ieee_value 52 1023 (f64_bits_of_usize n) == inject_Z (fl_val (float_round 53 (Z.of_N n))))%Q /\
   1023 <= f64_bits_of_usize n / 2 ^ 52 <= 1087).
Proof. exact usize_float_bits. Qed.

(* non-vacuity: 2^24 + 1 is a tie and goes DOWN to the even neighbour, 2^24 + 3 is a tie and goes
   UP; usize::MAX carries into the next binade (2^64) in both formats *)
Example C19_float_nonvacuous :
  float_round 24 16777217 = (8388608, 1) /\ float_round 24 16777219 = (8388610, 1) /\
  float_round 24 18446744073709551615 = (8388608, 41) /\
  float_round 53 18446744073709551615 = (4503599627370496, 12) /\
  float_round 53 9007199254740993 = (4503599627370496, 1) /\
  f32_bits_of_usize 16777217 = 1266679808 /\ f64_bits_of_usize 1 = 4607182418800017408 /\
  f32_bits_of_usize 18446744073709551615 = 1602224128.
Proof. exact float_round_examples. Qed.

(* Wrapping<T> / Saturating<T> inherit the conversion and the constants *)
Theorem C19_wrappers_inherit : forall t n,
  from_usize_wrapper t n = from_usize t n /\
  wrapper_zero t = int_zero t /\ wrapper_one t = int_one t.
Proof. exact wrapper_inherits. Qed.

(* zero and one are the additive and multiplicative identities in each modelled arithmetic *)
Theorem C19_identities_plain : forall t x, In t all_ity -> in_range t x = true ->
  plain_op t 0 (int_zero t) x = Ok x /\ plain_op t 0 x (int_zero t) = Ok x /\
  plain_op t 2 (int_one t) x = Ok x /\ plain_op t 2 x (int_one t) = Ok x /\
  plain_op t 1 x (int_zero t) = Ok x /\ plain_op t 3 x (int_one t) = Ok x.
Proof. exact plain_identities. Qed.

Theorem C19_identities_wrapping : forall t x, In t all_ity -> in_range t x = true ->
  wrapping_op t 0 (wrapper_zero t) x = Ok x /\ wrapping_op t 0 x (wrapper_zero t) = Ok x /\
  wrapping_op t 2 (wrapper_one t) x = Ok x /\ wrapping_op t 2 x (wrapper_one t) = Ok x /\
  wrapping_op t 1 x (wrapper_zero t) = Ok x /\ wrapping_op t 3 x (wrapper_one t) = Ok x.
Proof. exact wrapping_identities. Qed.

Theorem C19_identities_saturating : forall t x, In t all_ity -> in_range t x = true ->
  saturating_op t 0 (wrapper_zero t) x = Ok x /\ saturating_op t 0 x (wrapper_zero t) = Ok x /\
  saturating_op t 2 (wrapper_one t) x = Ok x /\ saturating_op t 2 x (wrapper_one t) = Ok x /\
  saturating_op t 1 x (wrapper_zero t) = Ok x /\ saturating_op t 3 x (wrapper_one t) = Ok x.
Proof. exact saturating_identities. Qed.

(* the wrapper arithmetics are closed on the type, and Wrapping is arithmetic modulo 2^bits *)
Theorem C19_wrapper_results_in_range : forall t op a b v, In t all_ity ->
  (wrapping_op t op a b = Ok v -> in_range t v = true) /\
  (saturating_op t op a b = Ok v -> in_range t v = true).
Proof. exact wrapper_results_in_range. Qed.

Theorem C19_wrapping_is_modular : forall t op a b v, In t all_ity ->
  wrapping_op t op a b = Ok v -> v mod imod t = exact_op op a b mod imod t.
Proof. exact wrapping_is_modular. Qed.

Theorem C19_identities_w64 : forall x, in_range I64 x = true ->
  nadd W64ops (nzero W64ops) x = x /\ nadd W64ops x (nzero W64ops) = x /\
  nmul W64ops (none_ W64ops) x = x /\ nmul W64ops x (none_ W64ops) = x.
Proof. exact w64_identities. Qed.

(* Trace / Record: zero, one and from_usize are constants — derivative 0, no tape *)
Theorem C19_record_trace_constants : forall R (ops : numops R),
  (tr_number (trace_zero ops) = nzero ops /\ tr_derivative (trace_zero ops) = nzero ops /\
   tr_number (trace_one ops) = none_ ops /\ tr_derivative (trace_one ops) = nzero ops /\
   forall n, match trace_from_usize ops n with
             | Some t => nof_N ops n = Some (tr_number t) /\ tr_derivative t = nzero ops
             | None => nof_N ops n = None
             end) /\
  (rc_number (record_zero ops) = nzero ops /\ rc_history (record_zero ops) = None /\
   rc_number (record_one ops) = none_ ops /\ rc_history (record_one ops) = None /\
   forall n, match record_from_usize ops n with
             | Some r => nof_N ops n = Some (rc_number r) /\ rc_history r = None /\ rc_index r = 0%nat
             | None => nof_N ops n = None
             end).
Proof. intros R ops. split; [exact (trace_constants ops)|exact (record_constants ops)]. Qed.

(* ---- "trace/record wrappers inherit these": the operators of Trace and Record ---- *)

(* every owned / borrowed operand form runs the `&x op &y` impl, and both negation impls agree
   (the Rust side of the same fact is the harness cross-check of all forms) *)
Theorem C19_wrapper_forms_agree : forall R (ops : numops R),
  (forall op a b,
     trace_vv ops op a b = trace_rr ops op a b /\ trace_vr ops op a b = trace_rr ops op a b /\
     trace_rv ops op a b = trace_rr ops op a b /\ trace_neg_v ops a = trace_neg_r ops a) /\
  (forall op t a b,
     record_vv ops op t a b = record_rr ops op t a b /\ record_vr ops op t a b = record_rr ops op t a b /\
     record_rv ops op t a b = record_rr ops op t a b /\ record_neg_v ops t a = record_neg_r ops t a).
Proof. intros R ops. split; [exact (trace_forms_agree ops)|exact (record_forms_agree ops)]. Qed.

(* Record arithmetic on constants stays constant: no tape, index 0, the tape state untouched *)
Theorem C19_record_constants_closed : forall R (ops : numops R) op t a b,
  rc_history a = None -> rc_history b = None ->
  record_rr ops op t a b = Ok (mkRecord (fn_of ops op (rc_number a) (rc_number b)) None 0%nat, t) /\
  record_neg_r ops t a = Ok (mkRecord (nneg ops (rc_number a)) None 0%nat, t) /\
  record_neg_v ops t a = Ok (mkRecord (nneg ops (rc_number a)) None 0%nat, t).
Proof. exact @record_constants_closed. Qed.

(* an operand on a tape puts the result on that tape, at the entry just appended *)
Theorem C19_record_tape_result : forall R (ops : numops R) op t a b r t',
  record_rr ops op t a b = Ok (r, t') ->
  (rc_history a <> None \/ rc_history b <> None) ->
  rc_index r = length t /\ length t' = S (length t) /\
  (rc_history r = rc_history a \/ rc_history r = rc_history b) /\ rc_history r <> None.
Proof. exact @record_tape_result. Qed.

Theorem C19_record_cross_tape_panics : forall R (ops : numops R) op t a b x y,
  rc_history a = Some x -> rc_history b = Some y -> x <> y -> record_rr ops op t a b = Panic.
Proof. exact @record_cross_tape_panics. Qed.

(* Trace arithmetic on constants stays constant (derivative 0), over a commutative ring *)
Theorem C19_trace_constants_closed : forall R (ops : numops R),
  ring_theory (nzero ops) (none_ ops) (nadd ops) (nmul ops) (nsub ops) (nneg ops) eq ->
  forall a b,
  trace_rr ops 0 (trace_constant ops a) (trace_constant ops b) = trace_constant ops (nadd ops a b) /\
  trace_rr ops 1 (trace_constant ops a) (trace_constant ops b) = trace_constant ops (nsub ops a b) /\
  trace_rr ops 2 (trace_constant ops a) (trace_constant ops b) = trace_constant ops (nmul ops a b) /\
  ((forall y, ndiv ops (nzero ops) y = nzero ops) ->
   trace_rr ops 3 (trace_constant ops a) (trace_constant ops b) = trace_constant ops (ndiv ops a b)) /\
  trace_neg_r ops (trace_constant ops a) = trace_constant ops (nneg ops a) /\
  trace_neg_v ops (trace_constant ops a) = trace_constant ops (nneg ops a).
Proof. exact @trace_constants_closed. Qed.

(* zero and one are the identities of Trace arithmetic as DUAL numbers: 0 + t = t, 1 * t = t
   including the derivative component *)
Theorem C19_trace_identities : forall R (ops : numops R),
  ring_theory (nzero ops) (none_ ops) (nadd ops) (nmul ops) (nsub ops) (nneg ops) eq ->
  forall t,
  trace_rr ops 0 (trace_zero ops) t = t /\ trace_rr ops 0 t (trace_zero ops) = t /\
  trace_rr ops 2 (trace_one ops) t = t /\ trace_rr ops 2 t (trace_one ops) = t /\
  trace_rr ops 1 t (trace_zero ops) = t /\
  ((forall x, ndiv ops x (none_ ops) = x) -> trace_rr ops 3 t (trace_one ops) = t).
Proof. exact @trace_identities. Qed.

Theorem C19_trace_neg_spec : forall R (ops : numops R),
  ring_theory (nzero ops) (none_ ops) (nadd ops) (nmul ops) (nsub ops) (nneg ops) eq ->
  forall t, trace_neg_r ops t = mkTrace (nneg ops (tr_number t)) (nneg ops (tr_derivative t)).
Proof. exact @trace_neg_spec. Qed.

Theorem C19_record_identities : forall R (ops : numops R),
  ring_theory (nzero ops) (none_ ops) (nadd ops) (nmul ops) (nsub ops) (nneg ops) eq ->
  forall t x,
  record_rr ops 0 t (record_zero ops) (record_constant x) = Ok (record_constant x, t) /\
  record_rr ops 0 t (record_constant x) (record_zero ops) = Ok (record_constant x, t) /\
  record_rr ops 2 t (record_one ops) (record_constant x) = Ok (record_constant x, t) /\
  record_rr ops 2 t (record_constant x) (record_one ops) = Ok (record_constant x, t).
Proof. exact @record_identities. Qed.

(* non-vacuity of the ring / quotient hypotheses: the integers; and a product of two variables
   on one tape records both partial derivatives *)
Example C19_wrappers_nonvacuous :
  ring_theory (nzero ZopsC19) (none_ ZopsC19) (nadd ZopsC19) (nmul ZopsC19) (nsub ZopsC19)
              (nneg ZopsC19) eq /\
  (forall y, ndiv ZopsC19 (nzero ZopsC19) y = nzero ZopsC19) /\
  (forall x, ndiv ZopsC19 x (none_ ZopsC19) = x) /\
  trace_rr ZopsC19 2 (mkTrace 3 1) (mkTrace 5 0) = mkTrace 15 5 /\
  (let '(x, t1) := record_variable ZopsC19 0 [] 3 in
   let '(y, t2) := record_variable ZopsC19 0 t1 5 in
   record_rr ZopsC19 2 t2 x y =
     Ok (mkRecord 15 (Some 0%nat) 2%nat, t2 ++ [mkEntry 0%nat 1%nat 5 3])) /\
  record_rr ZopsC19 0 [] (mkRecord 1 (Some 0%nat) 0%nat) (mkRecord 1 (Some 1%nat) 0%nat) = Panic.
Proof.
  split; [exact ZopsC19_ring|]. split; [exact (proj1 ZopsC19_div)|]. split; [exact (proj2 ZopsC19_div)|].
  vm_compute. repeat split.
Qed.

(* ---- "any user type supplying the same operations can be used as an element type ... and the
   library's result on it is identical to evaluating the documented formula directly on that
   type" (session 3).  For EVERY dictionary of operations — no algebraic law assumed, so also
   for element types that are not fields (integers, Wrapping / Saturating integers, a user-defined
   whole-number type: a / n and a * (1 / n) differ there) — the division-bearing generic routines
   compute the documented formula with the type's own + - * /, in the documented order.
   sum_of / count_of: left folds from T::zero() (count adds T::one() per item);
   covariance_formula n xs ys = sum((x - sum xs / n) * (y - sum ys / n)) / n. ---- *)
Theorem C19_user_type_mean_variance : forall R (ops : numops R) (l : list R), l <> [] ->
  mean ops l = Ok (ndiv ops (sum_of ops l) (count_of ops l)) /\
  variance ops l = Ok (variance_formula ops l) /\
  variance_formula ops l =
    mean_formula ops (map (fun x => nmul ops (nsub ops x (mean_formula ops l))
                                             (nsub ops x (mean_formula ops l))) l).
Proof.
  intros R ops l H. split; [exact (any_type_mean ops l H)|].
  split; [exact (any_type_variance ops l H)|reflexivity].
Qed.

Theorem C19_user_type_covariance : forall R (ops : numops R) (m : list (list R)),
  (forall n, nof_N ops (N.of_nat (mrows m)) = Some n ->
     exists t, covariance_column_features ops m = Ok t /\
       forall i j, (i < mcols m)%nat -> (j < mcols m)%nat ->
         nth j (nth i t []) (nzero ops) =
         covariance_formula ops n (column_iter ops m i) (column_iter ops m j)) /\
  (forall n, nof_N ops (N.of_nat (mcols m)) = Some n ->
     exists t, covariance_row_features ops m = Ok t /\
       forall i j, (i < mrows m)%nat -> (j < mrows m)%nat ->
         nth j (nth i t []) (nzero ops) = covariance_formula ops n (row_iter m i) (row_iter m j)) /\
  (forall n0 n1 n, nof_N ops (N.of_nat (mcols m)) = Some n ->
     exists t, covariance ops (n0, n1) m n0 =
                 Ok ((name_i, N.of_nat (mrows m)), (name_j, N.of_nat (mrows m)), t) /\
       forall i j, (i < mrows m)%nat -> (j < mrows m)%nat ->
         nth j (nth i t []) (nzero ops) = covariance_formula ops n (row_iter m i) (row_iter m j)) /\
  (forall n0 n1 n, n0 <> n1 -> nof_N ops (N.of_nat (mrows m)) = Some n ->
     exists t, covariance ops (n0, n1) m n1 =
                 Ok ((name_i, N.of_nat (mcols m)), (name_j, N.of_nat (mcols m)), t) /\
       forall i j, (i < mcols m)%nat -> (j < mcols m)%nat ->
         nth j (nth i t []) (nzero ops) =
         covariance_formula ops n (column_iter ops m i) (column_iter ops m j)).
Proof. exact @any_type_covariance. Qed.

Theorem C19_user_type_f1 : forall R (ops : numops R) p r,
  f1_score ops p r =
  nmul ops (nadd ops (none_ ops) (none_ ops)) (ndiv ops (nmul ops p r) (nadd ops p r)).
Proof. exact @any_type_f1. Qed.

(* non-vacuity: the whole-number type is an instance that is not a field — 7 / 2 = 3 but
   7 * (1 / 2) = 0 — and on it the formulas give the textbook integers, not zeros *)
Example C19_user_type_nonvacuous :
  ndiv Wholeops 7 2 = 3 /\ nmul Wholeops 7 (ndiv Wholeops 1 2) = 0 /\
  covariance_column_features Wholeops [[2; 1]; [4; 3]; [6; 2]; [8; 6]] = Ok [[5; 3]; [3; 3]] /\
  covariance Wholeops (0%nat, 1%nat) [[2; 1]; [4; 3]; [6; 2]; [8; 6]] 1%nat =
    Ok ((name_i, 2%N), (name_j, 2%N), [[5; 3]; [3; 3]]) /\
  mean Wholeops [1; 2; 4] = Ok 2 /\ variance Wholeops [1; 2; 4; 9] = Ok 9 /\
  (let rcp := ndiv Wholeops 1 4 in nmul Wholeops (sum_of Wholeops [2; 4; 6; 8]) rcp = 0) /\
  covariance_formula Wholeops 4 [2; 4; 6; 8] [1; 3; 2; 6] = 3.
Proof. exact whole_is_not_a_field. Qed.

(* ---- Trace<T> as an ELEMENT TYPE (second extension wave; Model/WrapperNum.v is the dictionary
   of Trace<T> over the dictionary of T; case (19 14 ..) runs determinant / inverse / mean /
   variance / A*A / softmax / euclidean_length / f1_score at Trace<Rat|Fp> AND Record<Rat|Fp>
   against the routines' models at that dictionary, number and derivative components).
   The dictionary's derivative rules are those of C05's forward-mode model (Model/Forward.v). *)
Theorem C19_trace_dictionary_is_the_forward_model : forall R (ops : numops R) (a b : trace R),
  let W := wrapper_numops ops in
  fw (nadd W a b) = Forward.t_add ops (fw a) (fw b) /\
  fw (nsub W a b) = Forward.t_sub ops (fw a) (fw b) /\
  fw (nmul W a b) = Forward.t_mul ops (fw a) (fw b) /\
  fw (ndiv W a b) = Forward.t_div ops (fw a) (fw b) /\
  fw (nneg W a) = Forward.t_neg ops (fw a) /\
  fw (nsin W a) = Forward.t_sin ops (fw a) /\ fw (ncos W a) = Forward.t_cos ops (fw a) /\
  fw (nexp W a) = Forward.t_exp ops (fw a) /\ fw (nln W a) = Forward.t_ln ops (fw a) /\
  fw (nsqrt W a) = Forward.t_sqrt ops (fw a) /\ fw (npow W a b) = Forward.t_pow ops (fw a) (fw b) /\
  fw (nzero W) = Forward.tconstant ops (nzero ops) /\ fw (none_ W) = Forward.tconstant ops (none_ ops) /\
  (forall l, fw (fold_left (nadd W) l (nzero W)) = Forward.t_sum ops (map fw l)).
Proof. exact @wrapper_dictionary_is_forward_model. Qed.

(* "inherit": the number component of every operation of Trace<T> is T's operation on the number
   components — comparisons and the Real functions included.  Unary minus is `0 - x` (see the
   verdict on negation in notes/C03_C19.md): it is T's `-x` exactly where 0 - x = -x in T. *)
Theorem C19_trace_number_is_a_homomorphism : forall R (ops : numops R) (a b : trace R),
  let W := wrapper_numops ops in
  tr_number (nzero W) = nzero ops /\ tr_number (none_ W) = none_ ops /\
  tr_number (nadd W a b) = nadd ops (tr_number a) (tr_number b) /\
  tr_number (nsub W a b) = nsub ops (tr_number a) (tr_number b) /\
  tr_number (nmul W a b) = nmul ops (tr_number a) (tr_number b) /\
  tr_number (ndiv W a b) = ndiv ops (tr_number a) (tr_number b) /\
  tr_number (nneg W a) = nsub ops (nzero ops) (tr_number a) /\
  neqb W a b = neqb ops (tr_number a) (tr_number b) /\ nltb W a b = nltb ops (tr_number a) (tr_number b) /\
  nleb W a b = nleb ops (tr_number a) (tr_number b) /\
  tr_number (nsqrt W a) = nsqrt ops (tr_number a) /\ tr_number (nexp W a) = nexp ops (tr_number a) /\
  tr_number (nln W a) = nln ops (tr_number a) /\ tr_number (nsin W a) = nsin ops (tr_number a) /\
  tr_number (ncos W a) = ncos ops (tr_number a) /\
  tr_number (npow W a b) = npow ops (tr_number a) (tr_number b) /\
  tr_number (npi W) = npi ops /\
  (forall n, option_map (@tr_number R) (nof_N W n) = nof_N ops n).
Proof. exact @number_is_a_homomorphism. Qed.

(* the generic routines at element type Trace<T> answer, in the number component, what they answer
   at T on the number components — for every dictionary, no law assumed: mean, variance,
   f1_score, softmax (Real-bounded), determinant (tensor and matrix route) *)
Theorem C19_routines_at_trace_inherit : forall R (ops : numops R),
  let W := wrapper_numops ops in
  (forall (l : list (trace R)) p r, l <> [] ->
     omap (@tr_number R) (mean W l) = mean ops (map (@tr_number R) l) /\
     omap (@tr_number R) (variance W l) = variance ops (map (@tr_number R) l) /\
     tr_number (f1_score W p r) = f1_score ops (tr_number p) (tr_number r)) /\
  (forall l : list (trace R),
     map (@tr_number R) (softmax W l) = softmax ops (map (@tr_number R) l)) /\
  (forall m : list (list (trace R)),
     option_map (@tr_number R) (LinAlg.det_tensor W m) =
       LinAlg.det_tensor ops (map (map (@tr_number R)) m) /\
     option_map (@tr_number R) (LinAlg.det_matrix W m) =
       LinAlg.det_matrix ops (map (map (@tr_number R)) m)).
Proof.
  intros R ops W. split; [exact (wrapper_mean_variance_f1 ops)|].
  split; [exact (wrapper_softmax ops)|exact (wrapper_determinant ops)].
Qed.

(* non-vacuity: over the integers d/da det [[a b] [c d]] = d, and the mean of (3, 1') (5, 0') *)
Example C19_trace_element_nonvacuous :
  let W := wrapper_numops ZopsC19 in
  LinAlg.det_matrix W [[mkTrace 1 1; mkTrace 2 0]; [mkTrace 3 0; mkTrace 5 0]] = Some (mkTrace (-1) 5) /\
  mean W [mkTrace 4 1; mkTrace 6 0] = Ok (mkTrace 5 0) /\
  tr_number (nneg W (mkTrace 7 1)) = -7.
Proof. vm_compute. repeat split. Qed.

(* Pi for f32 / f64: the bit patterns the model names are the floats nearest to pi — every real
   of [3.14159265358979323, 3.14159265358979324] lies within half an ulp of the denoted value *)
Theorem C19_pi_bits_nearest :
  (ieee_value 23 127 pi_bits_f32 == 13176795 # 4194304)%Q /\
  (ieee_value 23 127 pi_bits_f32 - (1 # 8388608) < pi_lo)%Q /\
  (pi_hi < ieee_value 23 127 pi_bits_f32 + (1 # 8388608))%Q /\
  (ieee_value 52 1023 pi_bits_f64 == 884279719003555 # 281474976710656)%Q /\
  (ieee_value 52 1023 pi_bits_f64 - (1 # 4503599627370496) < pi_lo)%Q /\
  (pi_hi < ieee_value 52 1023 pi_bits_f64 + (1 # 4503599627370496))%Q.
Proof. exact pi_bits_nearest. Qed.

(* non-vacuity: i8 accepts 127 and refuses 128; i128's MAX truncates to usize::MAX so that the
   largest count is accepted and round-trips; wrapping i8 arithmetic wraps, saturating clamps *)
Example C19_nonvacuous :
  In I8 all_ity /\ In I128 all_ity /\
  from_usize I8 127 = Some 127 /\ from_usize I8 128 = None /\
  as_usize (imax I128) = 18446744073709551615 /\
  from_usize I128 18446744073709551615 = Some 18446744073709551615 /\
  from_usize I64 9223372036854775808 = None /\
  in_range I8 (-128) = true /\
  wrapping_op I8 0 127 1 = Ok (-128) /\ saturating_op I8 0 127 1 = Ok 127 /\
  wrapping_op I8 3 (-128) (-1) = Ok (-128) /\ saturating_op I8 3 (-128) (-1) = Ok 127.
Proof. vm_compute. repeat split; auto 20. Qed.

Print Assumptions C19_from_usize_spec.
Print Assumptions C19_from_usize_iff.
Print Assumptions C19_from_usize_boundary.
Print Assumptions C19_float_always.
Print Assumptions C19_float_nearest.
Print Assumptions C19_float_bits_denote_the_rounded_count.
Print Assumptions C19_wrappers_inherit.
Print Assumptions C19_identities_plain.
Print Assumptions C19_identities_wrapping.
Print Assumptions C19_identities_saturating.
Print Assumptions C19_wrapper_results_in_range.
Print Assumptions C19_wrapping_is_modular.
Print Assumptions C19_identities_w64.
Print Assumptions C19_record_trace_constants.
Print Assumptions C19_wrapper_forms_agree.
Print Assumptions C19_record_constants_closed.
Print Assumptions C19_record_tape_result.
Print Assumptions C19_record_cross_tape_panics.
Print Assumptions C19_trace_constants_closed.
Print Assumptions C19_trace_identities.
Print Assumptions C19_trace_neg_spec.
Print Assumptions C19_record_identities.
Print Assumptions C19_user_type_mean_variance.
Print Assumptions C19_user_type_covariance.
Print Assumptions C19_user_type_f1.
Print Assumptions C19_pi_bits_nearest.
Print Assumptions C19_trace_dictionary_is_the_forward_model.
Print Assumptions C19_trace_number_is_a_homomorphism.
Print Assumptions C19_routines_at_trace_inherit.

(* ---- appended by the translator builder (notes/GEN.md) ----
   Gen/ArithNumeric.v is REGENERATED from src/numeric.rs by tools/gen_arith.py before the proof
   layer runs (tools/props/c19.py pre_proof): the body of from_usize_integral! (translated once,
   the macro's type metavariable as the parameter), of from_usize_float!, of the Wrapping /
   Saturating impls, and the lists of types the macros are invoked at.  Re-proved on every run:
   the translated bodies ARE the hand-written from_usize / from_usize_float / from_usize_wrapper
   the theorems above are about, and the integral macro is instantiated at exactly all_ity. *)
Theorem C19_generated_from_usize_matches_model :
  (forall t n, gen_from_usize_integral t n = from_usize t n) /\
  (forall t, In t gen_from_usize_integral_types <-> In t all_ity) /\
  (forall n, gen_from_usize_float n = from_usize_float n) /\
  (forall b, In b gen_from_usize_float_types <-> (b = 32 \/ b = 64)%N) /\
  (forall t n, gen_from_usize_Wrapping (from_usize t) n = from_usize_wrapper t n /\
               gen_from_usize_Saturating (from_usize t) n = from_usize_wrapper t n).
Proof.
  split; [exact gen_from_usize_integral_eq|]. split; [exact gen_from_usize_integral_types_eq|].
  split; [exact gen_from_usize_float_eq|]. split; [exact gen_from_usize_float_types_eq|].
  exact gen_from_usize_wrappers_eq.
Qed.
Print Assumptions C19_generated_from_usize_matches_model.
