(* C19 — Numeric trait contracts hold for built-in, wrapper and user-defined types.
   Only the property theorems (closed by `exact`), the assumption audit and the non-vacuity
   example.  Definitions: Model/Numeric.v (transcription of src/numeric.rs and of the
   Trace / Record impls), Proofs/C19P.v.
   `all_ity` = [u8 i8 u16 i16 u32 i32 u64 i64 u128 i128 usize isize]; counts are usize values
   (n < 2^64).  The "four owned/borrowed operand forms agree" and "user types work in every
   generic routine" clauses are decided by the correspondence check (harness/src/c19.rs and the
   Rat / Fp instantiations of every other property's harness). *)
From Coq Require Import List ZArith NArith Bool Ring_theory.
From EasyML Require Import Base.Sx Model.Num Model.Tape Model.Numeric Proofs.C19P.
Import ListNotations.
Open Scope Z_scope.

(* the conversion, WITH the `MAX as usize` cast as written, is the total specification
   "Some n when n <= MAX, None otherwise" *)
Theorem C19_from_usize_spec : forall t (n : N), In t all_ity -> (n < 18446744073709551616)%N ->
  from_usize t n = if Z.of_N n <=? imax t then Some (Z.of_N n) else None.
Proof. exact from_usize_spec. Qed.

(* succeeds exactly when the count is representable, and then round-trips *)
Theorem C19_from_usize_iff : forall t (n : N), In t all_ity -> (n < 18446744073709551616)%N ->
  ((exists v, from_usize t n = Some v) <-> Z.of_N n <= imax t) /\
  (forall v, from_usize t n = Some v -> Z.to_N v = n /\ in_range t v = true).
Proof. exact from_usize_iff. Qed.

(* MAX is accepted and MAX + 1 refused (for the types whose MAX is a usize) *)
Theorem C19_from_usize_boundary : forall t, In t all_ity -> imax t < 18446744073709551616 ->
  from_usize t (Z.to_N (imax t)) = Some (imax t) /\ from_usize t (Z.to_N (imax t + 1)) = None.
Proof. exact from_usize_boundary. Qed.

Theorem C19_float_always : forall n, exists v, from_usize_float n = Some v.
Proof. exact float_always. Qed.

(* Wrapping<T> / Saturating<T> inherit the conversion and the constants *)
Theorem C19_wrappers_inherit : forall t n,
  from_usize_wrapper t n = from_usize t n /\
  wrapper_zero t = int_zero t /\ wrapper_one t = int_one t.
Proof. exact wrapper_inherits. Qed.

(* zero and one are the additive and multiplicative identities in each modelled arithmetic *)
Theorem C19_identities_plain : forall t x, In t all_ity -> in_range t x = true ->
  plain_op t 0 (int_zero t) x = Ok x /\ plain_op t 0 x (int_zero t) = Ok x /\
  plain_op t 2 (int_one t) x = Ok x /\ plain_op t 2 x (int_one t) = Ok x /\
  plain_op t 1 x (int_zero t) = Ok x /\ plain_op t 3 x (int_one t) = Ok x.
Proof. exact plain_identities. Qed.

Theorem C19_identities_wrapping : forall t x, In t all_ity -> in_range t x = true ->
  wrapping_op t 0 (wrapper_zero t) x = Ok x /\ wrapping_op t 0 x (wrapper_zero t) = Ok x /\
  wrapping_op t 2 (wrapper_one t) x = Ok x /\ wrapping_op t 2 x (wrapper_one t) = Ok x /\
  wrapping_op t 1 x (wrapper_zero t) = Ok x /\ wrapping_op t 3 x (wrapper_one t) = Ok x.
Proof. exact wrapping_identities. Qed.

Theorem C19_identities_saturating : forall t x, In t all_ity -> in_range t x = true ->
  saturating_op t 0 (wrapper_zero t) x = Ok x /\ saturating_op t 0 x (wrapper_zero t) = Ok x /\
  saturating_op t 2 (wrapper_one t) x = Ok x /\ saturating_op t 2 x (wrapper_one t) = Ok x /\
  saturating_op t 1 x (wrapper_zero t) = Ok x /\ saturating_op t 3 x (wrapper_one t) = Ok x.
Proof. exact saturating_identities. Qed.

(* the wrapper arithmetics are closed on the type, and Wrapping is arithmetic modulo 2^bits *)
Theorem C19_wrapper_results_in_range : forall t op a b v, In t all_ity ->
  (wrapping_op t op a b = Ok v -> in_range t v = true) /\
  (saturating_op t op a b = Ok v -> in_range t v = true).
Proof. exact wrapper_results_in_range. Qed.

Theorem C19_wrapping_is_modular : forall t op a b v, In t all_ity ->
  wrapping_op t op a b = Ok v -> v mod imod t = exact_op op a b mod imod t.
Proof. exact wrapping_is_modular. Qed.

Theorem C19_identities_w64 : forall x, in_range I64 x = true ->
  nadd W64ops (nzero W64ops) x = x /\ nadd W64ops x (nzero W64ops) = x /\
  nmul W64ops (none_ W64ops) x = x /\ nmul W64ops x (none_ W64ops) = x.
Proof. exact w64_identities. Qed.

(* Trace / Record: zero, one and from_usize are constants — derivative 0, no tape *)
Theorem C19_record_trace_constants : forall R (ops : numops R),
  (tr_number (trace_zero ops) = nzero ops /\ tr_derivative (trace_zero ops) = nzero ops /\
   tr_number (trace_one ops) = none_ ops /\ tr_derivative (trace_one ops) = nzero ops /\
   forall n, match trace_from_usize ops n with
             | Some t => nof_N ops n = Some (tr_number t) /\ tr_derivative t = nzero ops
             | None => nof_N ops n = None
             end) /\
  (rc_number (record_zero ops) = nzero ops /\ rc_history (record_zero ops) = None /\
   rc_number (record_one ops) = none_ ops /\ rc_history (record_one ops) = None /\
   forall n, match record_from_usize ops n with
             | Some r => nof_N ops n = Some (rc_number r) /\ rc_history r = None /\ rc_index r = 0%nat
             | None => nof_N ops n = None
             end).
Proof. intros R ops. split; [exact (trace_constants ops)|exact (record_constants ops)]. Qed.

(* ---- "trace/record wrappers inherit these": the operators of Trace and Record ---- *)

(* every owned / borrowed operand form runs the `&x op &y` impl, and both negation impls agree
   (the Rust side of the same fact is the harness cross-check of all forms) *)
Theorem C19_wrapper_forms_agree : forall R (ops : numops R),
  (forall op a b,
     trace_vv ops op a b = trace_rr ops op a b /\ trace_vr ops op a b = trace_rr ops op a b /\
     trace_rv ops op a b = trace_rr ops op a b /\ trace_neg_v ops a = trace_neg_r ops a) /\
  (forall op t a b,
     record_vv ops op t a b = record_rr ops op t a b /\ record_vr ops op t a b = record_rr ops op t a b /\
     record_rv ops op t a b = record_rr ops op t a b /\ record_neg_v ops t a = record_neg_r ops t a).
Proof. intros R ops. split; [exact (trace_forms_agree ops)|exact (record_forms_agree ops)]. Qed.

(* Record arithmetic on constants stays constant: no tape, index 0, the tape state untouched *)
Theorem C19_record_constants_closed : forall R (ops : numops R) op t a b,
  rc_history a = None -> rc_history b = None ->
  record_rr ops op t a b = Ok (mkRecord (fn_of ops op (rc_number a) (rc_number b)) None 0%nat, t) /\
  record_neg_r ops t a = Ok (mkRecord (nneg ops (rc_number a)) None 0%nat, t) /\
  record_neg_v ops t a = Ok (mkRecord (nneg ops (rc_number a)) None 0%nat, t).
Proof. exact @record_constants_closed. Qed.

(* an operand on a tape puts the result on that tape, at the entry just appended *)
Theorem C19_record_tape_result : forall R (ops : numops R) op t a b r t',
  record_rr ops op t a b = Ok (r, t') ->
  (rc_history a <> None \/ rc_history b <> None) ->
  rc_index r = length t /\ length t' = S (length t) /\
  (rc_history r = rc_history a \/ rc_history r = rc_history b) /\ rc_history r <> None.
Proof. exact @record_tape_result. Qed.

Theorem C19_record_cross_tape_panics : forall R (ops : numops R) op t a b x y,
  rc_history a = Some x -> rc_history b = Some y -> x <> y -> record_rr ops op t a b = Panic.
Proof. exact @record_cross_tape_panics. Qed.

(* Trace arithmetic on constants stays constant (derivative 0), over a commutative ring *)
Theorem C19_trace_constants_closed : forall R (ops : numops R),
  ring_theory (nzero ops) (none_ ops) (nadd ops) (nmul ops) (nsub ops) (nneg ops) eq ->
  forall a b,
  trace_rr ops 0 (trace_constant ops a) (trace_constant ops b) = trace_constant ops (nadd ops a b) /\
  trace_rr ops 1 (trace_constant ops a) (trace_constant ops b) = trace_constant ops (nsub ops a b) /\
  trace_rr ops 2 (trace_constant ops a) (trace_constant ops b) = trace_constant ops (nmul ops a b) /\
  ((forall y, ndiv ops (nzero ops) y = nzero ops) ->
   trace_rr ops 3 (trace_constant ops a) (trace_constant ops b) = trace_constant ops (ndiv ops a b)) /\
  trace_neg_r ops (trace_constant ops a) = trace_constant ops (nneg ops a) /\
  trace_neg_v ops (trace_constant ops a) = trace_constant ops (nneg ops a).
Proof. exact @trace_constants_closed. Qed.

(* zero and one are the identities of Trace arithmetic as DUAL numbers: 0 + t = t, 1 * t = t
   including the derivative component *)
Theorem C19_trace_identities : forall R (ops : numops R),
  ring_theory (nzero ops) (none_ ops) (nadd ops) (nmul ops) (nsub ops) (nneg ops) eq ->
  forall t,
  trace_rr ops 0 (trace_zero ops) t = t /\ trace_rr ops 0 t (trace_zero ops) = t /\
  trace_rr ops 2 (trace_one ops) t = t /\ trace_rr ops 2 t (trace_one ops) = t /\
  trace_rr ops 1 t (trace_zero ops) = t /\
  ((forall x, ndiv ops x (none_ ops) = x) -> trace_rr ops 3 t (trace_one ops) = t).
Proof. exact @trace_identities. Qed.

Theorem C19_trace_neg_spec : forall R (ops : numops R),
  ring_theory (nzero ops) (none_ ops) (nadd ops) (nmul ops) (nsub ops) (nneg ops) eq ->
  forall t, trace_neg_r ops t = mkTrace (nneg ops (tr_number t)) (nneg ops (tr_derivative t)).
Proof. exact @trace_neg_spec. Qed.

Theorem C19_record_identities : forall R (ops : numops R),
  ring_theory (nzero ops) (none_ ops) (nadd ops) (nmul ops) (nsub ops) (nneg ops) eq ->
  forall t x,
  record_rr ops 0 t (record_zero ops) (record_constant x) = Ok (record_constant x, t) /\
  record_rr ops 0 t (record_constant x) (record_zero ops) = Ok (record_constant x, t) /\
  record_rr ops 2 t (record_one ops) (record_constant x) = Ok (record_constant x, t) /\
  record_rr ops 2 t (record_constant x) (record_one ops) = Ok (record_constant x, t).
Proof. exact @record_identities. Qed.

(* non-vacuity of the ring / quotient hypotheses: the integers; and a product of two variables
   on one tape records both partial derivatives *)
Example C19_wrappers_nonvacuous :
  ring_theory (nzero ZopsC19) (none_ ZopsC19) (nadd ZopsC19) (nmul ZopsC19) (nsub ZopsC19)
              (nneg ZopsC19) eq /\
  (forall y, ndiv ZopsC19 (nzero ZopsC19) y = nzero ZopsC19) /\
  (forall x, ndiv ZopsC19 x (none_ ZopsC19) = x) /\
  trace_rr ZopsC19 2 (mkTrace 3 1) (mkTrace 5 0) = mkTrace 15 5 /\
  (let '(x, t1) := record_variable ZopsC19 0 [] 3 in
   let '(y, t2) := record_variable ZopsC19 0 t1 5 in
   record_rr ZopsC19 2 t2 x y =
     Ok (mkRecord 15 (Some 0%nat) 2%nat, t2 ++ [mkEntry 0%nat 1%nat 5 3])) /\
  record_rr ZopsC19 0 [] (mkRecord 1 (Some 0%nat) 0%nat) (mkRecord 1 (Some 1%nat) 0%nat) = Panic.
Proof.
  split; [exact ZopsC19_ring|]. split; [exact (proj1 ZopsC19_div)|]. split; [exact (proj2 ZopsC19_div)|].
  vm_compute. repeat split.
Qed.

(* non-vacuity: i8 accepts 127 and refuses 128; i128's MAX truncates to usize::MAX so that the
   largest count is accepted and round-trips; wrapping i8 arithmetic wraps, saturating clamps *)
Example C19_nonvacuous :
  In I8 all_ity /\ In I128 all_ity /\
  from_usize I8 127 = Some 127 /\ from_usize I8 128 = None /\
  as_usize (imax I128) = 18446744073709551615 /\
  from_usize I128 18446744073709551615 = Some 18446744073709551615 /\
  from_usize I64 9223372036854775808 = None /\
  in_range I8 (-128) = true /\
  wrapping_op I8 0 127 1 = Ok (-128) /\ saturating_op I8 0 127 1 = Ok 127 /\
  wrapping_op I8 3 (-128) (-1) = Ok (-128) /\ saturating_op I8 3 (-128) (-1) = Ok 127.
Proof. vm_compute. repeat split; auto 20. Qed.

Print Assumptions C19_from_usize_spec.
Print Assumptions C19_from_usize_iff.
Print Assumptions C19_from_usize_boundary.
Print Assumptions C19_float_always.
Print Assumptions C19_wrappers_inherit.
Print Assumptions C19_identities_plain.
Print Assumptions C19_identities_wrapping.
Print Assumptions C19_identities_saturating.
Print Assumptions C19_wrapper_results_in_range.
Print Assumptions C19_wrapping_is_modular.
Print Assumptions C19_identities_w64.
Print Assumptions C19_record_trace_constants.
Print Assumptions C19_wrapper_forms_agree.
Print Assumptions C19_record_constants_closed.
Print Assumptions C19_record_tape_result.
Print Assumptions C19_record_cross_tape_panics.
Print Assumptions C19_trace_constants_closed.
Print Assumptions C19_trace_identities.
Print Assumptions C19_trace_neg_spec.
Print Assumptions C19_record_identities.
