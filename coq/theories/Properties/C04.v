(* C04 — Reverse-mode differentiation returns the true partial derivative for every input.
   Only the property theorems (closed by `exact`), the assumption audit and non-vacuity examples.
   Definitions: Model/Tape.v + Model/AD.v (transcription of differentiation.rs,
   record_operations.rs, functions.rs: `run_prog`, `try_derivatives`, `at_`), Spec/FormalD.v (the
   short specification: `value`, `grad`, `depends_on`, `depends_any`), Proofs/C04P.v (any
   commutative ring), Proofs/C04R.v (Coq's real numbers: `Rops`, `dom`, `set_var`). *)
From Coq Require Import List Arith ZArith Reals Bool.
From EasyML Require Import Base.Sx Model.Num Model.Tape Model.AD Spec.FormalD
  Proofs.TapeP Proofs.C04P Proofs.C04R.
Import ListNotations.

(* the number carried by the record of every instruction is the same computation on plain
   numbers (all programs, all reuse, all operand kinds; any commutative ring) *)
Theorem C04_value : forall R (ops : numops R), is_ring ops ->
  forall (prog : list (instr R)) k,
  number (getr ops (fst (run_prog ops prog)) k) = nth k (value ops prog) (nzero ops).
Proof. exact @value_correct. Qed.

(* the derivative read off the reverse sweep at the position of ANY variable is the formal
   partial derivative of the program (all programs, any fan-out, any commutative ring) *)
Theorem C04_sweep_is_gradient : forall R (ops : numops R), is_ring ops ->
  forall (prog : list (instr R)) out v x d,
  nth_error prog v = Some (IVar x) ->
  try_derivatives ops (run_prog ops prog) out = Some d ->
  at_ ops d (getr ops (fst (run_prog ops prog)) v) = grad ops prog out v.
Proof. exact @try_derivatives_is_gradient. Qed.

(* constants neither receive nor perturb derivative mass: an instruction whose result is a
   constant appends nothing to the tape (so the derivative vector has no slot for it), and a
   constant record operand is treated exactly like the plain number it carries *)
Theorem C04_constants_inert : forall R (ops : numops R),
  (forall nodes t (ins : instr R),
     history (fst (exec_op ops nodes t ins)) = false -> snd (exec_op ops nodes t ins) = t) /\
  (forall F cm t (a : rec R) c,
     rec_rec ops F cm t a (constant c) = rec_num ops F t a c /\
     rec_rec ops F false t (constant c) a = num_rec ops F t c a) /\
  (forall (t : tape R) out, length (sweep ops t out) = length t).
Proof.
  intros R ops. split; [exact (constants_inert ops)|].
  split; [exact (constant_operand_is_number ops)|exact (sweep_length ops)].
Qed.

(* inputs the result does not (syntactically) depend on get exactly zero *)
Theorem C04_independent_zero : forall R (ops : numops R), is_ring ops ->
  forall (prog : list (instr R)) out v x d,
  nth_error prog v = Some (IVar x) ->
  nth out (depends_on prog v) false = false ->
  try_derivatives ops (run_prog ops prog) out = Some d ->
  at_ ops d (getr ops (fst (run_prog ops prog)) v) = nzero ops.
Proof. exact @try_derivatives_independent_zero. Qed.

(* the result is a constant (no tape, try_derivatives = None) exactly when no variable
   contributed *)
Theorem C04_const_iff : forall R (ops : numops R) (prog : list (instr R)) out,
  try_derivatives ops (run_prog ops prog) out = None <-> nth out (depends_any prog) false = false.
Proof. exact @try_derivatives_none_iff. Qed.

(* over Coq's real numbers the formal partial derivative IS the partial derivative, provided
   every division has a non-zero denominator, every ln / sqrt argument and power base is
   positive, and the caller-supplied derivative functions are derivatives (`dom`) *)
Theorem C04_formal_is_true_derivative : forall prog i x0 out,
  nth_error prog i = Some (IVar x0) -> dom prog ->
  derivable_pt_lim (fun t => nth out (value Rops (set_var prog i t)) 0%R) x0 (grad Rops prog out i).
Proof. exact formal_is_true_derivative. Qed.

(* together: what Record::try_derivatives reports for input i is the true partial derivative of
   the number carried by the result, as a function of that input *)
Theorem C04_reverse_mode_is_true_derivative : forall prog i x0 out d,
  nth_error prog i = Some (IVar x0) -> dom prog ->
  try_derivatives Rops (run_prog Rops prog) out = Some d ->
  derivable_pt_lim (fun t => number (getr Rops (fst (run_prog Rops (set_var prog i t))) out)) x0
                   (at_ Rops d (getr Rops (fst (run_prog Rops prog)) i)).
Proof. exact reverse_mode_is_true_derivative. Qed.

(* non-vacuity, ring level: the integers are an instance; for x = 3, y = 5 the program
   u = x*y; w = u + x; c = 7; z = c*w (constant record on the left, reuse of x) reports
   dz/dx = 7*(y+1) = 42, dz/dy = 7*x = 21, and the constant c has no derivatives *)
Example C04_nonvacuous :
  is_ring Zops /\
  let prog := [IVar 3%Z; IVar 5%Z; IBin BMul 0 1; IBin BAdd 2 0; IConst 7%Z; IBin BMul 4 3] in
  let st := run_prog Zops prog in
  exists d, try_derivatives Zops st 5 = Some d /\
    at_ Zops d (getr Zops (fst st) 0) = 42%Z /\ at_ Zops d (getr Zops (fst st) 1) = 21%Z /\
    grad Zops prog 5 0 = 42%Z /\ grad Zops prog 5 1 = 21%Z /\
    number (getr Zops (fst st) 5) = 126%Z /\ try_derivatives Zops st 4 = None.
Proof. split; [exact Zops_ring|]. eexists. vm_compute. repeat split; reflexivity. Qed.

(* non-vacuity, real level: w = ln(y) * (x / y) + x^y, then w.unary(sq, dsq) and
   binary(f, fx, fy) with the caller-supplied functions of the correspondence (entries 0 of
   user1_table / user2_table), at x = 2, y = 3: inside the domain *)
Example C04_nonvacuous_real :
  let prog := [IVar 2%R; IVar 3%R; IBin BDiv 0 1; IUn ULn 1; IBin BMul 3 2; IBin BPow 0 1; IBin BAdd 4 5;
               IUser1 (fun x => x * x)%R (fun x => x + x)%R 6;
               IUser2 (fun x y => x * y + x)%R (fun _ y => y + 1)%R (fun x _ => x) 7 0] in
  dom prog /\ nth_error prog 0 = Some (IVar 2%R) /\
  exists d, try_derivatives Rops (run_prog Rops prog) 8 = Some d.
Proof.
  cbv zeta. split; [|split; [reflexivity|eexists; reflexivity]].
  unfold dom. cbn [dom_from dom_instr].
  assert (H3 : (0 < 3)%R) by prove_sup0. assert (H2 : (0 < 2)%R) by prove_sup0.
  split; [exact I|]. split; [exact I|]. split; [cbn; apply Rgt_not_eq; exact H3|].
  split; [cbn; exact H3|]. split; [exact I|]. split; [cbn; exact H2|]. split; [exact I|].
  split; [apply (user1_table_derivative 0%Z _ _ (or_introl eq_refl) eq_refl)|].
  split; [apply (user2_table_derivative 0%Z _ _ _ (or_introl eq_refl) eq_refl)|exact I].
Qed.

Print Assumptions C04_value.
Print Assumptions C04_sweep_is_gradient.
Print Assumptions C04_constants_inert.
Print Assumptions C04_independent_zero.
Print Assumptions C04_const_iff.
Print Assumptions C04_formal_is_true_derivative.
Print Assumptions C04_reverse_mode_is_true_derivative.
