(* C04 — Reverse-mode differentiation returns the true partial derivative for every input.
   Only the property theorems (closed by `exact`), the assumption audit and non-vacuity examples.
   Definitions: Model/Tape.v + Model/AD.v (transcription of differentiation.rs,
   record_operations.rs, functions.rs: `run_prog`, `try_derivatives`, `at_`), Spec/FormalD.v (the
   short specification: `value`, `grad`, `depends_on`, `depends_any`), Spec/FormalAdj.v (`adjoint`:
   the formal derivative with respect to an intermediate result), Proofs/C04P.v (any commutative
   ring), Proofs/C04R.v (Coq's real numbers: `Rops`, `dom`, `set_var`).
   Session 3 added (clause audit: notes/C04_C05.md): Proofs/C04X.v -- the last sentence of the
   property for all programs (vector length / every record has a slot, later variables get zero,
   constant instructions are inert, no variable => no tape, a constant operand is its number in every
   operator form); Proofs/C04A.v -- the COMPLETE derivative vector is the vector of adjoints;
   Proofs/C04RI.v -- the analytic theorems over `Rops_i`, whose power function is x^n for natural
   exponents at ANY base (negative bases of record ^ number inside the domain `dom_i`).
   Wave 2 added: Proofs/C04RZ.v -- the analytic theorems over `Rops_z`, whose power function is
   powerRZ for EVERY integer exponent (x^n, 1 / x^n) at any base; the domain `dom_z` admits
   record ^ number and record ^ constant-record at a negative base for any integer exponent and at
   a zero base for natural exponents (only the pole 0^(-n) stays outside) -- the two exclusions of
   the session-3 audit are gone.  The correspondence hands the items of every Sum to `impl Sum for
   Record` through 16 iterator shapes (unknown lower bound, from_fn, chain, not fused, lying size
   hints; harness/src/c04/prog.rs `sum_shaped`): the model's `rec_sum` is a fold over the LIST of
   items, so a summation that depends on anything but the items yielded disagrees with it.
   Proofs/C04S.v -- `impl Sum for Record` of this model IS the fold `each_sum` of the container /
   machine model (Model/Container.v, C06 / C15) on one list, and appends between 0 and n entries
   with the result at the last one (the connecting theorem for a future TSum machine operation).
   By-value / by-reference operand forms are one model function per operator kind; they are
   separated by the correspondence only (harness/src/c04/prog.rs). *)
From Coq Require Import List Arith ZArith Reals Bool.
From EasyML Require Import Base.Sx Model.Num Model.Tape Model.AD Spec.FormalD Spec.FormalAdj
  Proofs.TapeP Proofs.C04P Proofs.C04R Proofs.C04X Proofs.C04A Proofs.C04RI Proofs.C04RZ Proofs.C04S.
From EasyML Require Model.Container.
Import ListNotations.

(* the number carried by the record of every instruction is the same computation on plain
   numbers (all programs, all reuse, all operand kinds; any commutative ring) *)
Theorem C04_value : forall R (ops : numops R), is_ring ops ->
  forall (prog : list (instr R)) k,
  number (getr ops (fst (run_prog ops prog)) k) = nth k (value ops prog) (nzero ops).
Proof. exact @value_correct. Qed.

(* the derivative read off the reverse sweep at the position of ANY variable is the formal
   partial derivative of the program (all programs, any fan-out, any commutative ring) *)
Theorem C04_sweep_is_gradient : forall R (ops : numops R), is_ring ops ->
  forall (prog : list (instr R)) out v x d,
  nth_error prog v = Some (IVar x) ->
  try_derivatives ops (run_prog ops prog) out = Some d ->
  at_ ops d (getr ops (fst (run_prog ops prog)) v) = grad ops prog out v.
Proof. exact @try_derivatives_is_gradient. Qed.

(* constants neither receive nor perturb derivative mass: an instruction whose result is a
   constant appends nothing to the tape (so the derivative vector has no slot for it), and a
   constant record operand is treated exactly like the plain number it carries *)
Theorem C04_constants_inert : forall R (ops : numops R),
  (forall nodes t (ins : instr R),
     history (fst (exec_op ops nodes t ins)) = false -> snd (exec_op ops nodes t ins) = t) /\
  (forall F cm t (a : rec R) c,
     rec_rec ops F cm t a (constant c) = rec_num ops F t a c /\
     rec_rec ops F false t (constant c) a = num_rec ops F t c a) /\
  (forall (t : tape R) out, length (sweep ops t out) = length t).
Proof.
  intros R ops. split; [exact (constants_inert ops)|].
  split; [exact (constant_operand_is_number ops)|exact (sweep_length ops)].
Qed.

(* inputs the result does not (syntactically) depend on get exactly zero *)
Theorem C04_independent_zero : forall R (ops : numops R), is_ring ops ->
  forall (prog : list (instr R)) out v x d,
  nth_error prog v = Some (IVar x) ->
  nth out (depends_on prog v) false = false ->
  try_derivatives ops (run_prog ops prog) out = Some d ->
  at_ ops d (getr ops (fst (run_prog ops prog)) v) = nzero ops.
Proof. exact @try_derivatives_independent_zero. Qed.

(* the result is a constant (no tape, try_derivatives = None) exactly when no variable
   contributed *)
Theorem C04_const_iff : forall R (ops : numops R) (prog : list (instr R)) out,
  try_derivatives ops (run_prog ops prog) out = None <-> nth out (depends_any prog) false = false.
Proof. exact @try_derivatives_none_iff. Qed.

(* over Coq's real numbers the formal partial derivative IS the partial derivative, provided
   every division has a non-zero denominator, every ln / sqrt argument and power base is
   positive, and the caller-supplied derivative functions are derivatives (`dom`) *)
Theorem C04_formal_is_true_derivative : forall prog i x0 out,
  nth_error prog i = Some (IVar x0) -> dom prog ->
  derivable_pt_lim (fun t => nth out (value Rops (set_var prog i t)) 0%R) x0 (grad Rops prog out i).
Proof. exact formal_is_true_derivative. Qed.

(* together: what Record::try_derivatives reports for input i is the true partial derivative of
   the number carried by the result, as a function of that input *)
Theorem C04_reverse_mode_is_true_derivative : forall prog i x0 out d,
  nth_error prog i = Some (IVar x0) -> dom prog ->
  try_derivatives Rops (run_prog Rops prog) out = Some d ->
  derivable_pt_lim (fun t => number (getr Rops (fst (run_prog Rops (set_var prog i t))) out)) x0
                   (at_ Rops d (getr Rops (fst (run_prog Rops prog)) i)).
Proof. exact reverse_mode_is_true_derivative. Qed.

(* ---- extension round (session 3): the last sentence of the property, and the shape of the
   Derivatives object, for ALL programs (Proofs/C04X.v) ---- *)

(* Derivatives has one entry per entry of the WHOLE tape: every record of the program that is not
   a constant -- created before OR after the output -- has a slot, so Derivatives::at / Index never
   leave the vector *)
Theorem C04_derivatives_cover_every_record : forall R (ops : numops R), is_ring ops ->
  forall (prog : list (instr R)) out d,
  try_derivatives ops (run_prog ops prog) out = Some d ->
  length d = length (snd (run_prog ops prog)) /\
  forall k, history (getr ops (fst (run_prog ops prog)) k) = true ->
            (index (getr ops (fst (run_prog ops prog)) k) < length d)%nat.
Proof. exact @derivatives_cover_every_record. Qed.

(* an input created AFTER the output gets exactly zero *)
Theorem C04_later_variable_zero : forall R (ops : numops R), is_ring ops ->
  forall (prog : list (instr R)) out v x d,
  nth_error prog v = Some (IVar x) -> (out < v)%nat ->
  try_derivatives ops (run_prog ops prog) out = Some d ->
  at_ ops d (getr ops (fst (run_prog ops prog)) v) = nzero ops.
Proof. exact @later_variable_zero. Qed.

(* constants do not perturb: an instruction whose result is a constant leaves the tape and the
   derivative vector of every earlier output exactly as they were (any program, any instruction,
   Sum and the caller-supplied function forms included) *)
Theorem C04_constant_instruction_inert : forall R (ops : numops R) (prog : list (instr R)) ins,
  history (getr ops (fst (run_prog ops (prog ++ [ins]))) (length prog)) = false ->
  snd (run_prog ops (prog ++ [ins])) = snd (run_prog ops prog) /\
  forall out, (out < length prog)%nat ->
    try_derivatives ops (run_prog ops (prog ++ [ins])) out = try_derivatives ops (run_prog ops prog) out.
Proof. exact @constant_instruction_inert. Qed.

(* constants do not receive: a program that creates no variable never appends to the tape and
   every one of its results is a constant *)
Theorem C04_no_variable_no_tape : forall R (ops : numops R) (prog : list (instr R)),
  var_nodes prog = [] ->
  snd (run_prog ops prog) = [] /\ forall out, try_derivatives ops (run_prog ops prog) out = None.
Proof. exact @no_variable_no_tape. Qed.

(* a Record::constant operand IS the plain number it carries, at any point of any program and in
   every operator form: record (op) constant = record (op) number; constant (op) record =
   sub_swapped / div_swapped / number.pow(record); constant + record, constant * record = the
   commuted record (op) number; Record::binary with a constant on either side = Record::unary of
   the partial application (same record, same tape) *)
Theorem C04_constant_operand_every_form : forall R (ops : numops R), is_ring ops ->
  forall (prog : list (instr R)) b c, nth_error prog b = Some (IConst c) ->
  let nodes := fst (run_prog ops prog) in
  forall t a,
  (forall o, exec_op ops nodes t (IBin o a b) = exec_op ops nodes t (IBinC o a c)) /\
  (forall o, exec_op ops nodes t (IBin (cop_bop o) b a) = exec_op ops nodes t (ICBin o c a)) /\
  exec_op ops nodes t (IBin BAdd b a) = exec_op ops nodes t (IBinC BAdd a c) /\
  exec_op ops nodes t (IBin BMul b a) = exec_op ops nodes t (IBinC BMul a c) /\
  (forall f dx dy, exec_op ops nodes t (IUser2 f dx dy a b)
                   = exec_op ops nodes t (IUser1 (fun x => f x c) (fun x => dx x c) a)) /\
  (forall f dx dy, exec_op ops nodes t (IUser2 f dx dy b a)
                   = exec_op ops nodes t (IUser1 (fun y => f c y) (fun y => dy c y) a)).
Proof. exact @constant_operand_every_form. Qed.

(* the COMPLETE derivative vector (Proofs/C04A.v): for every instruction k whose result is not a
   constant -- input variable or intermediate value, created before or after the output -- the
   entry of Derivatives at k's tape position is the formal partial derivative of the output with
   respect to the RESULT of k (Spec/FormalAdj.v: unit velocity injected at instruction k, every
   other instruction as written); for a variable that is the gradient entry of C04_sweep_is_gradient *)
Theorem C04_complete_vector_is_adjoint : forall R (ops : numops R), is_ring ops ->
  forall (prog : list (instr R)) out k d,
  try_derivatives ops (run_prog ops prog) out = Some d ->
  history (getr ops (fst (run_prog ops prog)) k) = true ->
  at_ ops d (getr ops (fst (run_prog ops prog)) k) = adjoint ops prog out k.
Proof. exact @try_derivatives_is_adjoint. Qed.

Theorem C04_adjoint_of_variable_is_gradient : forall R (ops : numops R), is_ring ops ->
  forall (prog : list (instr R)) out k x, nth_error prog k = Some (IVar x) ->
  adjoint ops prog out k = grad ops prog out k.
Proof. exact @adjoint_of_variable. Qed.

(* ---- integer powers at any base (Proofs/C04RI.v).  `Rops_i` is Coq's real numbers with the power
   function rpow: x^n for a natural-number exponent n at ANY base (what f64 powf computes for
   (-2)^3), Rpower x y = exp (y ln x) otherwise; `dom_i` is `dom` except that record ^ number is also
   inside the domain at any base when the number is a natural number ---- *)
Theorem C04_rpow_is_the_power_function :
  (forall x n, rpow x (INR n) = x ^ n)%R /\ (forall x y, 0 < x -> rpow x y = Rpower x y)%R.
Proof. split; [exact rpow_nat|exact rpow_pos]. Qed.

Theorem C04_formal_is_true_derivative_ipow : forall prog i x0 out,
  nth_error prog i = Some (IVar x0) -> dom_i prog ->
  derivable_pt_lim (fun t => nth out (value Rops_i (set_var prog i t)) 0%R) x0 (grad Rops_i prog out i).
Proof. exact formal_is_true_derivative_i. Qed.

Theorem C04_reverse_mode_is_true_derivative_ipow : forall prog i x0 out d,
  nth_error prog i = Some (IVar x0) -> dom_i prog ->
  try_derivatives Rops_i (run_prog Rops_i prog) out = Some d ->
  derivable_pt_lim (fun t => number (getr Rops_i (fst (run_prog Rops_i (set_var prog i t))) out)) x0
                   (at_ Rops_i d (getr Rops_i (fst (run_prog Rops_i prog)) i)).
Proof. exact reverse_mode_is_true_derivative_i. Qed.

(* ---- Sum in the two record models (Proofs/C04S.v).  On one list h, the fold `each_sum` of the
   container / tape-machine model (Model/Container.v: records carry the name of their list; used by
   C06 / C15) started from Record::zero() is exactly this model's Sum node: same tape, same number,
   same index, same constant-ness -- so C04's theorems about Sum transfer to it.  `emb h` reads a C04
   record as a record of list h. ---- *)
Theorem C04_sum_is_the_container_fold : forall R (ops : numops R) h (t : tape R) (l : list (rec R)),
  Container.each_sum ops t (@Container.rec_constant R (nzero ops)) (map (emb h) l) =
  Ok (snd (rec_sum ops t l), emb h (fst (rec_sum ops t l))).
Proof. exact @each_sum_is_rec_sum. Qed.

(* what a Sum appends: at most one entry per summed record (possibly none, possibly several -- NOT
   the one-entry shape of the other scalar operations); a result with a history sits at the last
   appended entry; a constant result appended nothing *)
Theorem C04_sum_appends : forall R (ops : numops R) (t : tape R) (l : list (rec R)),
  exists suf, snd (rec_sum ops t l) = t ++ suf /\ (length suf <= length l)%nat /\
    (history (fst (rec_sum ops t l)) = true -> (index (fst (rec_sum ops t l)) + 1 = length (t ++ suf))%nat) /\
    (history (fst (rec_sum ops t l)) = false -> suf = []).
Proof. exact @rec_sum_fresh. Qed.

(* ---- ALL integer powers at any base without a pole (Proofs/C04RZ.v).  `Rops_z` is Coq's real numbers
   with the power function zpow: powerRZ x z for an integer exponent z -- x^n for z = n >= 0,
   1 / x^n for z = -n -- at ANY base (what f64 powf computes for (-2)^3 and (-3)^(-2)), Rpower x y =
   exp (y ln x) otherwise.  `dom_z` is `dom` except that a power with a record base whose exponent is
   a plain number (record ^ number) or a constant record (record ^ Record::constant(c)) is also inside
   the domain when the exponent is an integer z and (z >= 0 or base <> 0) -- `int_exponent`.  zpow
   extends rpow (same value on natural exponents at any base and on every exponent at a positive
   base: last conjunct below and zpow_rpow_pos), and the side condition of `dom_i` for record ^
   number (base > 0 or exponent a natural number) is an instance of `int_exponent` ---- *)
Theorem C04_zpow_is_the_power_function :
  (forall x z, zpow x (IZR z) = powerRZ x z)%R /\
  (forall x n, zpow x (INR n) = x ^ n)%R /\
  (forall x n, zpow x (- INR n) = / x ^ n)%R /\
  (forall x y, 0 < x -> zpow x y = Rpower x y)%R /\
  (forall x n, zpow x (INR n) = rpow x (INR n))%R.
Proof.
  split; [exact zpow_int|]. split; [exact zpow_nat|]. split; [exact zpow_neg|].
  split; [exact zpow_pos|exact zpow_rpow_nat].
Qed.

(* the session-3 domain is a special case: inside dom_i the program is inside dom_z and both power
   functions compute the same values, so the `_zpow` theorems cover every point the `_ipow` ones cover *)
Theorem C04_dom_i_inside_dom_z : forall prog,
  dom_i prog -> dom_z prog /\ value Rops_i prog = value Rops_z prog.
Proof. exact dom_i_inside_dom_z. Qed.

Theorem C04_formal_is_true_derivative_zpow : forall prog i x0 out,
  nth_error prog i = Some (IVar x0) -> dom_z prog ->
  derivable_pt_lim (fun t => nth out (value Rops_z (set_var prog i t)) 0%R) x0 (grad Rops_z prog out i).
Proof. exact formal_is_true_derivative_z. Qed.

Theorem C04_reverse_mode_is_true_derivative_zpow : forall prog i x0 out d,
  nth_error prog i = Some (IVar x0) -> dom_z prog ->
  try_derivatives Rops_z (run_prog Rops_z prog) out = Some d ->
  derivable_pt_lim (fun t => number (getr Rops_z (fst (run_prog Rops_z (set_var prog i t))) out)) x0
                   (at_ Rops_z d (getr Rops_z (fst (run_prog Rops_z prog)) i)).
Proof. exact reverse_mode_is_true_derivative_z. Qed.

(* non-vacuity, ring level: the integers are an instance; for x = 3, y = 5 the program
   u = x*y; w = u + x; c = 7; z = c*w (constant record on the left, reuse of x) reports
   dz/dx = 7*(y+1) = 42, dz/dy = 7*x = 21, and the constant c has no derivatives *)
Example C04_nonvacuous :
  is_ring Zops /\
  let prog := [IVar 3%Z; IVar 5%Z; IBin BMul 0 1; IBin BAdd 2 0; IConst 7%Z; IBin BMul 4 3] in
  let st := run_prog Zops prog in
  exists d, try_derivatives Zops st 5 = Some d /\
    at_ Zops d (getr Zops (fst st) 0) = 42%Z /\ at_ Zops d (getr Zops (fst st) 1) = 21%Z /\
    grad Zops prog 5 0 = 42%Z /\ grad Zops prog 5 1 = 21%Z /\
    number (getr Zops (fst st) 5) = 126%Z /\ try_derivatives Zops st 4 = None.
Proof. split; [exact Zops_ring|]. eexists. vm_compute. repeat split; reflexivity. Qed.

(* non-vacuity of the adjoint statement on the same program: u = x*y (instruction 2) and
   w = u + x (instruction 3) are intermediates with dz/du = dz/dw = 7 *)
Example C04_nonvacuous_adjoint :
  let prog := [IVar 3%Z; IVar 5%Z; IBin BMul 0 1; IBin BAdd 2 0; IConst 7%Z; IBin BMul 4 3] in
  let st := run_prog Zops prog in
  exists d, try_derivatives Zops st 5 = Some d /\
    history (getr Zops (fst st) 2) = true /\
    at_ Zops d (getr Zops (fst st) 2) = 7%Z /\ adjoint Zops prog 5 2 = 7%Z /\
    at_ Zops d (getr Zops (fst st) 3) = 7%Z /\ adjoint Zops prog 5 3 = 7%Z /\
    adjoint Zops prog 5 0 = 42%Z.
Proof. eexists. vm_compute. repeat split; reflexivity. Qed.

(* non-vacuity of the integer-power statements: x^3 at x = -2 (a NEGATIVE base) is inside dom_i, its
   value is -8 and the formal derivative 3 x^2 = 12 *)
Example C04_nonvacuous_ipow :
  let prog := [IVar (-2)%R; IBinC BPow 0 (INR 3)] in
  dom_i prog /\ nth_error prog 0 = Some (IVar (-2)%R) /\
  nth 1 (value Rops_i prog) 0%R = (-8)%R /\ grad Rops_i prog 1 0 = 12%R.
Proof.
  cbv zeta. split; [|split; [reflexivity|]].
  - unfold dom_i. cbn [dom_from_i dom_instr_i dom_instr]. split; [exact I|]. split; [|exact I].
    right. exists 3%nat. reflexivity.
  - unfold grad, tangent, value, drun.
    cbn [fold_left dstep fst snd app nth length value_instr tangent_instr bop_f bop_dx Nat.eqb
         npow nmul nsub nadd none_ nzero Rops_i].
    replace (INR 3 - 1)%R with (INR 2) by (cbn [INR]; ring).
    rewrite !rpow_nat. cbn [INR pow]. split; ring.
Qed.

(* non-vacuity, real level: w = ln(y) * (x / y) + x^y, then w.unary(sq, dsq) and
   binary(f, fx, fy) with the caller-supplied functions of the correspondence (entries 0 of
   user1_table / user2_table), at x = 2, y = 3: inside the domain *)
Example C04_nonvacuous_real :
  let prog := [IVar 2%R; IVar 3%R; IBin BDiv 0 1; IUn ULn 1; IBin BMul 3 2; IBin BPow 0 1; IBin BAdd 4 5;
               IUser1 (fun x => x * x)%R (fun x => x + x)%R 6;
               IUser2 (fun x y => x * y + x)%R (fun _ y => y + 1)%R (fun x _ => x) 7 0] in
  dom prog /\ nth_error prog 0 = Some (IVar 2%R) /\
  exists d, try_derivatives Rops (run_prog Rops prog) 8 = Some d.
Proof.
  cbv zeta. split; [|split; [reflexivity|eexists; reflexivity]].
  unfold dom. cbn [dom_from dom_instr].
  assert (H3 : (0 < 3)%R) by prove_sup0. assert (H2 : (0 < 2)%R) by prove_sup0.
  split; [exact I|]. split; [exact I|]. split; [cbn; apply Rgt_not_eq; exact H3|].
  split; [cbn; exact H3|]. split; [exact I|]. split; [cbn; exact H2|]. split; [exact I|].
  split; [apply (user1_table_derivative 0%Z _ _ (or_introl eq_refl) eq_refl)|].
  split; [apply (user2_table_derivative 0%Z _ _ _ (or_introl eq_refl) eq_refl)|exact I].
Qed.

(* non-vacuity of the all-integer-power statements: at x = -3 (a NEGATIVE base), x ^ Record::constant(-2)
   (record ^ constant record) and x ^ (-1) (record ^ number) are inside dom_z; values 1/9 and -1/3,
   formal derivatives -2 x^(-3) = 2/27 and -x^(-2) = -1/9 *)
Example C04_nonvacuous_zpow :
  let prog := [IVar (-3)%R; IConst (IZR (-2)); IBin BPow 0 1; IBinC BPow 0 (IZR (-1))] in
  dom_z prog /\ nth_error prog 0 = Some (IVar (-3)%R) /\
  nth 2 (value Rops_z prog) 0%R = (1 / 9)%R /\ grad Rops_z prog 2 0 = (2 / 27)%R /\
  nth 3 (value Rops_z prog) 0%R = (- 1 / 3)%R /\ grad Rops_z prog 3 0 = (- 1 / 9)%R.
Proof.
  cbv zeta. split; [|split; [reflexivity|]].
  - unfold dom_z. cbn [dom_from_z dom_instr_z dom_instr app nth value_instr].
    assert (Hne : (-3 <> 0)%R) by (apply Rlt_not_eq; apply Ropp_lt_gt_0_contravar; apply Rlt_gt; prove_sup0).
    repeat split.
    + right. exists (IZR (-2)). split; [reflexivity|]. exists (-2)%Z. split; [reflexivity|right; exact Hne].
    + right. exists (-1)%Z. split; [reflexivity|right; exact Hne].
  - unfold grad, tangent, value, drun.
    cbn [fold_left dstep fst snd app nth length value_instr tangent_instr bop_f bop_dx bop_dy Nat.eqb
         npow nmul nsub nadd nln none_ nzero Rops_z].
    replace (IZR (-2) - 1)%R with (IZR (-3)) by (rewrite <- minus_IZR; reflexivity).
    replace (IZR (-1) - 1)%R with (IZR (-2)) by (rewrite <- minus_IZR; reflexivity).
    rewrite !zpow_int. cbn [powerRZ].
    change (Pos.to_nat 1) with 1%nat. change (Pos.to_nat 2) with 2%nat. change (Pos.to_nat 3) with 3%nat.
    cbn [pow].
    assert (Hne : (-3 <> 0)%R) by (apply Rlt_not_eq; apply Ropp_lt_gt_0_contravar; apply Rlt_gt; prove_sup0).
    repeat split; field; exact Hne.
Qed.

Print Assumptions C04_value.
Print Assumptions C04_sweep_is_gradient.
Print Assumptions C04_constants_inert.
Print Assumptions C04_independent_zero.
Print Assumptions C04_const_iff.
Print Assumptions C04_formal_is_true_derivative.
Print Assumptions C04_reverse_mode_is_true_derivative.
Print Assumptions C04_derivatives_cover_every_record.
Print Assumptions C04_later_variable_zero.
Print Assumptions C04_constant_instruction_inert.
Print Assumptions C04_no_variable_no_tape.
Print Assumptions C04_constant_operand_every_form.
Print Assumptions C04_complete_vector_is_adjoint.
Print Assumptions C04_adjoint_of_variable_is_gradient.
Print Assumptions C04_rpow_is_the_power_function.
Print Assumptions C04_formal_is_true_derivative_ipow.
Print Assumptions C04_reverse_mode_is_true_derivative_ipow.
Print Assumptions C04_zpow_is_the_power_function.
Print Assumptions C04_formal_is_true_derivative_zpow.
Print Assumptions C04_reverse_mode_is_true_derivative_zpow.
Print Assumptions C04_sum_is_the_container_fold.
Print Assumptions C04_sum_appends.
Print Assumptions C04_dom_i_inside_dom_z.
