(* C09 — Iterators yield each element once, in documented order, with exact lengths.
   Only the property theorems (closed by `exact`), the assumption audit and a non-vacuity
   example.  Model: Model/ShapeIter.v (ShapeIterator odometer, size_hint, tensor iterators,
   WithIndex, `drive` = k calls of next() recording (item, len() afterwards)), Model/MatrixIter.v
   (matrix iterators), Model/TSource.v (sources).  Specification: `all_indexes` (row-major
   enumeration, Model/Transform.v), `expected` / `cexpected` (Proofs/OdometerP.v, Proofs/C09P.v):
   the q-th call returns the q-th element and the length total - q - 1, and (None, 0) from
   q = total on.
   Sources: the tensor-iterator theorems hold over ANY source term; where the elements matter
   (owning iterators, presence of every yielded element) they are stated for a family with the
   TensorMut "lens" behaviour and then, with no further hypothesis, for every `constructed` source
   (Proofs/SrcWfP.v, Proofs/SrcLensP.v: the contract is proved by induction on the source term).
   The matrix owning iterators likewise: generic lens family, then every well-formed matrix
   source term (Matrix, MatrixRange incl. empty, MatrixReverse — Proofs/C09MatOwnedP.v).
   Second extension wave (the C09_any_source_*, C09_c02_view_*, C09_c12_* theorems at the end):
   Model/IterG.v states the iterators once over an ABSTRACT source (place iterator + get/set =
   the unchecked getters); Proofs/C09GenP.v proves enumeration in row-major order of the view
   shape, exact lengths at every prefix, WithIndex, fusedness, distinct places, "owning iterators
   move each value out once" for any source meeting the TensorRef/TensorMut resp.
   MatrixRef/MatrixMut contract; Proofs/C09ViewsP.v proves that EVERY constructed view of the C02
   algebra (TensorIndex, TensorExpansion, TensorStack, TensorChain, wrappers, matrix-backed
   leaves) and every C12 matrix view (partition parts, quadrants, ranges, reversals, tensor round
   trips) meets those hypotheses — mutable iterators hand out pairwise distinct STORED elements by
   C02's injectivity resp. C12's stack injectivity / partition disjointness.  Correspondence: ops
   (9 5 ..) / (9 6 ..) run the same generic transcription over C02 view terms / C12 view stacks.
   Provided Iterator methods (after round-4 seed C09-v2, an `nth` override that forgot to mark the
   iterator finished): Model/IterProg.v gives nth / skip / step_by / take / count / last / fold
   their std default semantics over the modelled next(); Proofs/C09ProgP.v: a program of nth calls
   reads the closed form at the running positions (C09_nth_program) and after ANY script the
   iterator is on a state plain next() calls reach, so exact lengths and fusedness hold at every
   point of every such history (C09_after_any_script_exact_and_fused); op (9 7 script ..) drives
   every iterator family and API form by such scripts. 
   Third extension wave, builder GEN (appended block at the very end): C09_generated_steps_match_model
   ties the step functions to the Rust TEXT - tools/gen_arith.py re-translates fn column_major_iter /
   row_major_iter (src/matrices/iterators.rs), ShapeIterator::from and fn iter (the odometer:
   increment, carry loop `for d in (1..D).rev()` as a fold with bounds-checked array reads / writes,
   finish test, D = 0; src/tensors/indexing.rs) on every run (Gen/Arith.v) and Proofs/GenIterP.v
   proves them equal to column_major_step / row_major_step / shape_iter_from / iter_next in both
   build profiles whenever no counter is usize::MAX (notes/GEN.md). *)
From Coq Require Import List ZArith NArith Bool Arith.
From EasyML Require Import Base.Sx Model.Shape Model.Tensor Model.TSource Model.ShapeIter
  Model.MatrixIter Model.Transform Proofs.ShapeP Proofs.C01P Proofs.OdometerP Proofs.C09P
  Proofs.C09OwnedP Proofs.C09MatOwnedP Proofs.C13P Proofs.SrcWfP Proofs.SrcLensP Proofs.C13CtorP.
From EasyML Require Import Model.MatrixViews Model.MatrixAccess Model.IterG Model.IterProg Proofs.C09GenP
  Proofs.C09ViewsP Proofs.C09ProgP Proofs.C12P Proofs.C12Partition.
From EasyML Require Model.Views Proofs.C02P Proofs.C02Inj.
Import ListNotations.
Open Scope N_scope.

(* one call of next() on any in-range, unfinished odometer state: yields the current index and
   moves to the in-range index whose row-major position is one larger, or finishes exactly at the
   last position *)
Theorem C09_odometer_step : forall sh idx, in_range idx (lens_of sh) ->
  exists idx' fin, iter_next (mkSI sh idx false) = (Some idx, mkSI sh idx' fin) /\
    if fin then flat idx (lens_of sh) + 1 = elements sh
    else in_range idx' (lens_of sh) /\ flat idx' (lens_of sh) = flat idx (lens_of sh) + 1.
Proof. exact iter_next_spec. Qed.

(* ShapeIterator: unfolding next() yields exactly the row-major enumeration of all indexes of
   the shape (each once, in order), then None forever — for every dimensionality and shape *)
Theorem C09_shape_iter_enumerates : forall sh m,
  map fst (outs (length (all_indexes (lens_of sh)) + m) (shape_iter_from sh)) =
  map Some (all_indexes (lens_of sh)) ++ repeat None m.
Proof. exact shape_iter_enumerates. Qed.

(* the enumeration is the in-range index tuples, the k-th one at row-major position k *)
Theorem C09_enumeration_is_row_major : forall lens k x,
  nth_error (all_indexes lens) k = Some x -> in_range x lens /\ flat x lens = N.of_nat k.
Proof. exact all_indexes_nth. Qed.

Theorem C09_enumeration_complete : forall lens idx, in_range idx lens ->
  nth_error (all_indexes lens) (N.to_nat (flat idx lens)) = Some idx.
Proof. exact all_indexes_at. Qed.

(* a shape containing a zero length: immediately None, length 0, forever *)
Theorem C09_shape_iter_zero_length : forall sh k, ~ lens_pos (lens_of sh) ->
  outs k (shape_iter_from sh) = repeat (None, 0) k /\ all_indexes (lens_of sh) = [].
Proof. exact shape_iter_zero_length. Qed.

(* the exact length: elements before the first call, elements - k after k calls (0 beyond) *)
Theorem C09_len_initial : forall sh, iter_len (shape_iter_from sh) = elements sh.
Proof. exact shape_iter_len0. Qed.

Theorem C09_len_after_k : forall sh k,
  map snd (outs k (shape_iter_from sh)) = map (fun j => elements sh - N.of_nat (S j)) (seq 0 k).
Proof. exact shape_iter_len_after. Qed.

(* tensor iterators (copy / reference / mutable reference) over ANY source: the items are the
   elements of the source at the indexes of its view shape in row-major order, then None *)
Theorem C09_tensor_iter_enumerates : forall A (s : tsrc A) m,
  let all := all_indexes (lens_of (src_shape s)) in
  map fst (fst (drive ti_next ti_len (length all + m) (tensor_iter_from s))) =
  map (fun idx => Some (idx, src_get s idx)) all ++ repeat None m.
Proof. exact @tensor_iter_enumerates. Qed.

Theorem C09_tensor_iter_len_after_k : forall A (s : tsrc A) k,
  ti_len (tensor_iter_from s) = elements (src_shape s) /\
  map snd (fst (drive ti_next ti_len k (tensor_iter_from s))) =
  map (fun j => elements (src_shape s) - N.of_nat (S j)) (seq 0 k).
Proof. exact @tensor_iter_len_after. Qed.

(* the owning iterator visits the same places and reports the same lengths *)
Theorem C09_owned_iter_places : forall A (dflt : A) k si (s : tsrc A),
  map (fun o => (option_map fst (fst o), snd o))
      (fst (drive (ti_next_owned dflt) ti_len k (mkTI si s))) = outs k si.
Proof. exact @ti_owned_places. Qed.

(* WithIndex pairs every item with the index of the place it was read from (in every state) *)
Theorem C09_with_index_true : forall A (it it' : tensor_iter A) index place v,
  ti_with_index ti_next it = (Some (index, (place, v)), it') -> index = place.
Proof. exact @with_index_true. Qed.

Theorem C09_with_index_true_owned : forall A dflt (it it' : tensor_iter A) index place v,
  ti_with_index (ti_next_owned dflt) it = (Some (index, (place, v)), it') -> index = place.
Proof. exact @with_index_true_owned. Qed.

(* the places handed out by any number of calls are pairwise distinct *)
Theorem C09_mut_distinct : forall A (s : tsrc A) k,
  NoDup (map fst (somes (map fst (fst (drive ti_next ti_len k (tensor_iter_from s)))))).
Proof. exact @tensor_iter_mut_distinct. Qed.

Theorem C09_owned_distinct : forall A dflt (s : tsrc A) k,
  NoDup (map fst (somes (map fst (fst (drive (ti_next_owned dflt) ti_len k (tensor_iter_from s)))))).
Proof. exact @tensor_iter_owned_distinct. Qed.

(* owning iterators move each ORIGINAL value out exactly once and leave only placeholders: call
   number q returns the original element at the q-th index; after k calls the first k places hold
   the placeholder and every other place is untouched.  For any family of sources whose in-range
   writes behave like a lens (the TensorMut contract), and in particular for Tensor *)
Theorem C09_owned_moves_once : forall A (dflt : A) (P : tsrc A -> Prop),
  (forall s idx v, P s -> in_range idx (lens_of (src_shape s)) ->
     exists s', src_set s idx v = Some s' /\ P s' /\ src_shape s' = src_shape s /\
                src_get s' idx = Some v /\
                forall idx', in_range idx' (lens_of (src_shape s)) -> idx' <> idx ->
                             src_get s' idx' = src_get s idx') ->
  forall (s : tsrc A) k, P s -> lens_pos (lens_of (src_shape s)) ->
  let r := drive (ti_next_owned dflt) ti_len k (tensor_iter_from s) in
  fst r = map (fun j => oexpected s (N.of_nat j)) (seq 0 k) /\
  forall x, in_range x (lens_of (src_shape s)) ->
    src_get (ti_source (snd r)) x =
    if flat x (lens_of (src_shape s)) <? N.of_nat k then Some dflt else src_get s x.
Proof. exact @owned_moves_once. Qed.

Theorem C09_tensor_owned_moves_once : forall A (dflt : A) (t : tensor A) k, tensor_inv t ->
  let s := TBase t in
  let r := drive (ti_next_owned dflt) ti_len k (tensor_iter_from s) in
  fst r = map (fun j => oexpected s (N.of_nat j)) (seq 0 k) /\
  forall x, in_range x (lens_of (t_shape t)) ->
    src_get (ti_source (snd r)) x =
    if flat x (lens_of (t_shape t)) <? N.of_nat k then Some dflt else t_get t x.
Proof. exact @tensor_owned_moves_once. Qed.

(* ... and, with no hypothesis on the source beyond "its constructors returned Ok": every source
   term built from Tensor / Reverse / Range / Mask / Access / Transpose / Rename *)
Theorem C09_owned_moves_once_constructed : forall A (dflt : A) (s : tsrc A) k, constructed s ->
  let r := drive (ti_next_owned dflt) ti_len k (tensor_iter_from s) in
  fst r = map (fun j => oexpected s (N.of_nat j)) (seq 0 k) /\
  forall x, in_range x (lens_of (src_shape s)) ->
    src_get (ti_source (snd r)) x =
    if flat x (lens_of (src_shape s)) <? N.of_nat k then Some dflt else src_get s x.
Proof. exact @ctor_owned_moves_once. Qed.

(* every element an iterator over a constructed source hands out is present (never an
   out-of-bounds unchecked access) and there are exactly `elements` of them *)
Theorem C09_iter_values_present_constructed : forall A (s : tsrc A), constructed s ->
  exists vals, map (src_get s) (all_indexes (lens_of (src_shape s))) = map Some vals /\
               iter_values s = vals /\ length vals = N.to_nat (elements (src_shape s)).
Proof. exact @ctor_iter_values. Qed.

(* matrix owning iterators (row-major / column-major): call number q returns the ORIGINAL element
   at place q, and after k calls exactly the first k places hold the placeholder; for any family
   of matrix sources whose in-range writes behave like a lens ... *)
Theorem C09_matrix_owned_moves_once : forall A (dflt : A) (P : msrc A -> Prop),
  (forall s r c v, P s -> r < ms_rows s -> c < ms_cols s ->
     exists s', ms_set s r c v = Some s' /\ P s' /\ ms_rows s' = ms_rows s /\ ms_cols s' = ms_cols s /\
                ms_get s' r c = Some v /\
                forall r' c', r' < ms_rows s -> c' < ms_cols s -> (r', c') <> (r, c) ->
                              ms_get s' r' c' = ms_get s r' c') ->
  forall rm (s : msrc A) k, P s -> 0 < ms_rows s -> 0 < ms_cols s ->
  let rows := ms_rows s in let cols := ms_cols s in
  let r := drive (mi_next_owned dflt) mi_len k (major_iter_from rm s) in
  fst r = map (fun j => mexpected rm s (N.of_nat j)) (seq 0 k) /\
  forall q, q < rows * cols ->
    let p := mi_place rm rows cols q in
    ms_get (mi_source (snd r)) (fst p) (snd p) =
    if q <? N.of_nat k then Some dflt else ms_get s (fst p) (snd p).
Proof. exact @matrix_owned_moves_once. Qed.

(* ... in particular for every well-formed matrix source term: Matrix::from_flat_row_major,
   MatrixRange::from (ranges clipped, possibly empty) and MatrixReverse::from establish msrc_wf,
   and msrc_wf sources behave like a lens and have every in-range element *)
Theorem C09_matrix_sources_wf : forall A,
  (forall rows cols (data : list A) m, matrix_from_flat rows cols data = Ok m -> msrc_wf (MBase m)) /\
  (forall (s : msrc A) rr cr, msrc_wf s -> msrc_wf (mrange_from s rr cr)) /\
  (forall (s : msrc A) rv cv, msrc_wf s -> msrc_wf (MRev s rv cv)).
Proof. exact (fun A => conj (@matrix_from_flat_wf A) (conj (@mrange_from_wf A) (@mrev_wf A))). Qed.

Theorem C09_matrix_source_lens : forall A (s : msrc A), msrc_wf s -> forall r c v,
  r < ms_rows s -> c < ms_cols s ->
  exists s', ms_set s r c v = Some s' /\ msrc_wf s' /\ ms_rows s' = ms_rows s /\ ms_cols s' = ms_cols s /\
             ms_get s' r c = Some v /\
             forall r' c', r' < ms_rows s -> c' < ms_cols s -> (r', c') <> (r, c) ->
                           ms_get s' r' c' = ms_get s r' c'.
Proof. exact @msrc_lens. Qed.

Theorem C09_matrix_source_total : forall A (s : msrc A), msrc_wf s -> forall r c,
  r < ms_rows s -> c < ms_cols s -> exists x, ms_get s r c = Some x.
Proof. exact @msrc_total. Qed.

Theorem C09_wf_matrix_owned_moves_once : forall A (dflt : A) rm (s : msrc A) k,
  msrc_wf s -> 0 < ms_rows s -> 0 < ms_cols s ->
  let rows := ms_rows s in let cols := ms_cols s in
  let r := drive (mi_next_owned dflt) mi_len k (major_iter_from rm s) in
  fst r = map (fun j => mexpected rm s (N.of_nat j)) (seq 0 k) /\
  forall q, q < rows * cols ->
    let p := mi_place rm rows cols q in
    ms_get (mi_source (snd r)) (fst p) (snd p) =
    if q <? N.of_nat k then Some dflt else ms_get s (fst p) (snd p).
Proof. exact @wf_matrix_owned_moves_once. Qed.

(* an empty source (0xN / Nx0 view): nothing is yielded and the source is not touched *)
Theorem C09_matrix_owned_empty : forall A (dflt : A) rm (s : msrc A) k,
  ms_rows s = 0 \/ ms_cols s = 0 ->
  let r := drive (mi_next_owned dflt) mi_len k (major_iter_from rm s) in
  fst r = repeat (None, 0) k /\ mi_source (snd r) = s.
Proof.
  exact (fun A dflt => @matrix_owned_empty A dflt (fun _ => False) (fun s r c v H => match H with end)).
Qed.

(* matrix row-major and column-major iterators over any source, empty (0xN, Nx0) ones included:
   call number q returns the element at (q / columns, q mod columns) resp. (q mod rows, q / rows)
   and the length rows*columns - q - 1; from q = rows*columns on: (None, 0) *)
Theorem C09_row_major : forall A (s : msrc A) k,
  let rows := ms_rows s in let cols := ms_cols s in
  fst (drive mi_next mi_len k (major_iter_from true s)) =
  map (fun j => cexpected (rows * cols)
                 (fun q => ((q / cols, q mod cols), ms_get s (q / cols) (q mod cols)))
                 (N.of_nat j)) (seq 0 k)
  /\ mi_len (major_iter_from true s) = rows * cols.
Proof. exact (fun A => @major_iter_spec A true). Qed.

Theorem C09_column_major : forall A (s : msrc A) k,
  let rows := ms_rows s in let cols := ms_cols s in
  fst (drive mi_next mi_len k (major_iter_from false s)) =
  map (fun j => cexpected (rows * cols)
                 (fun q => ((q mod rows, q / rows), ms_get s (q mod rows) (q / rows)))
                 (N.of_nat j)) (seq 0 k)
  /\ mi_len (major_iter_from false s) = rows * cols.
Proof. exact (fun A => @major_iter_spec A false). Qed.

(* single column / single row / main diagonal: the constructors accept exactly the existing
   column / row; call number q returns the element at (q, column) / (row, q) / (q, q) and the
   length n - q - 1 where n = rows / columns / min(rows, columns) *)
Theorem C09_column : forall A (s : msrc A) column k,
  (column_iter_from s column = if (0 <? ms_rows s) && (column <? ms_cols s)
                               then Ok (mkLI LColumn column (0, ms_rows s) s) else Panic) /\
  fst (drive li_next li_len k (mkLI LColumn column (0, ms_rows s) s)) =
  map (fun j => cexpected (ms_rows s) (fun q => ((q, column), ms_get s q column)) (N.of_nat j)) (seq 0 k)
  /\ li_len (mkLI LColumn column (0, ms_rows s) s) = ms_rows s.
Proof.
  exact (fun A s column k => conj eq_refl (@line_iter_spec A LColumn column (ms_rows s) s k)).
Qed.

Theorem C09_row : forall A (s : msrc A) row k,
  (row_iter_from s row = if (row <? ms_rows s) && (0 <? ms_cols s)
                         then Ok (mkLI LRow row (0, ms_cols s) s) else Panic) /\
  fst (drive li_next li_len k (mkLI LRow row (0, ms_cols s) s)) =
  map (fun j => cexpected (ms_cols s) (fun q => ((row, q), ms_get s row q)) (N.of_nat j)) (seq 0 k)
  /\ li_len (mkLI LRow row (0, ms_cols s) s) = ms_cols s.
Proof.
  exact (fun A s row k => conj eq_refl (@line_iter_spec A LRow row (ms_cols s) s k)).
Qed.

Theorem C09_diagonal : forall A (s : msrc A) k,
  let n := N.min (ms_rows s) (ms_cols s) in
  fst (drive li_next li_len k (diagonal_iter_from s)) =
  map (fun j => cexpected n (fun q => ((q, q), ms_get s q q)) (N.of_nat j)) (seq 0 k)
  /\ li_len (diagonal_iter_from s) = n.
Proof.
  exact (fun A s k => @line_iter_spec A LDiagonal 0 (N.min (ms_rows s) (ms_cols s)) s k).
Qed.

Theorem C09_major_with_index_true : forall A (it it' : major_iter A) index place v,
  mi_with_index mi_next it = (Some (index, (place, v)), it') -> index = place.
Proof. exact @major_with_index_true. Qed.

Theorem C09_major_with_index_true_owned : forall A dflt (it it' : major_iter A) index place v,
  mi_with_index (mi_next_owned dflt) it = (Some (index, (place, v)), it') -> index = place.
Proof. exact @major_with_index_true_owned. Qed.

(* different call numbers address different elements (so, with the enumeration theorems above,
   no matrix iterator hands out the same element twice) *)
Theorem C09_major_places_distinct : forall rm rows cols q1 q2,
  q1 < rows * cols -> q2 < rows * cols ->
  mi_place rm rows cols q1 = mi_place rm rows cols q2 -> q1 = q2.
Proof. exact mi_place_injective. Qed.

Theorem C09_line_places_distinct : forall A kind fixed rg (s : msrc A) q1 q2,
  li_place (mkLI kind fixed rg s) q1 = li_place (mkLI kind fixed rg s) q2 -> q1 = q2.
Proof. exact @li_place_injective. Qed.

(* non-vacuity: the 2x1x3 shape iterated to the end plus two more calls, a shape with a zero
   length, and a 2x3 matrix restricted to an empty (0x2) range *)
Example C09_nonvacuous :
  outs 8 (shape_iter_from [(0%nat, 2); (1%nat, 1); (2%nat, 3)]) =
    [(Some [0;0;0], 5); (Some [0;0;1], 4); (Some [0;0;2], 3); (Some [1;0;0], 2);
     (Some [1;0;1], 1); (Some [1;0;2], 0); (None, 0); (None, 0)] /\
  in_range [1;0;2] (lens_of [(0%nat, 2); (1%nat, 1); (2%nat, 3)]) /\
  outs 2 (shape_iter_from [(0%nat, 2); (1%nat, 0)]) = [(None, 0); (None, 0)] /\
  (let s := mrange_from (MBase (mkMatrix [1;2;3;4;5;6]%Z 2 3)) (2, 5) (1, 2) in
   ms_rows s = 0 /\ ms_cols s = 2 /\
   fst (drive mi_next mi_len 2 (major_iter_from true s)) = [(None, 0); (None, 0)]).
Proof. vm_compute. repeat split; reflexivity. Qed.

(* non-vacuity of the matrix owning theorem: a 2x2 range view (columns 1..3) of a 2x3 matrix is a
   well-formed, non-empty source; three calls move out 2, 3, 5 and leave placeholders there *)
Example C09_nonvacuous_matrix_owned :
  let s := mrange_from (MBase (mkMatrix [1; 2; 3; 4; 5; 6]%Z 2 3)) (0, 2) (1, 2) in
  msrc_wf s /\ 0 < ms_rows s /\ 0 < ms_cols s /\
  fst (drive (mi_next_owned 0%Z) mi_len 3 (major_iter_from true s)) =
    [(Some ((0, 0), Some 2%Z), 3); (Some ((0, 1), Some 3%Z), 2); (Some ((1, 0), Some 5%Z), 1)] /\
  m_data (ms_base (mi_source (snd (drive (mi_next_owned 0%Z) mi_len 3 (major_iter_from true s))))) =
    [1; 0; 0; 4; 0; 6]%Z.
Proof. cbv zeta. split; [vm_compute; repeat split; (reflexivity || (right; discriminate))|]. vm_compute. repeat split; reflexivity. Qed.

(* ================= second extension wave: iterators over ANY source =================
   Model/IterG.v writes the iterators once against an abstract source: an iterator is a place
   iterator (ShapeIterator; the row-/column-major counters; the Range of the line iterators) plus
   `get` = get_reference_unchecked and `set` = a write through get_reference_unchecked_mut.  The
   term-level iterators above are instances (C09_term_iterators_are_instances); the same
   transcription runs over every constructed view of the C02 algebra (`cview_source`: TensorIndex,
   TensorExpansion, TensorStack, TensorChain, wrappers, matrix-backed leaves, any depth) and over
   every C12 matrix view (`mview_source`: partition parts, quadrants, ranges, reversals, tensor
   round trips, MatrixRefTensor over tensor views — reached through their UNCHECKED getters). *)

(* --- tensor iterators over any source `o`, any state `s` of it --- *)
(* enumerates each element of the source once, in row-major order of the VIEW shape, fused *)
Theorem C09_any_source_tensor_iter_enumerates : forall St A (o : tsource St A) (s : St) m,
  let all := all_indexes (lens_of (ts_shape o s)) in
  map fst (fst (drive (gti_next o) gti_len (length all + m) (gti_from o s))) =
  map (fun idx => Some (idx, ts_get o s idx)) all ++ repeat None m.
Proof. exact @gen_tensor_iter_enumerates. Qed.

(* the exact remaining length before the first call and after every call *)
Theorem C09_any_source_tensor_iter_len_after_k : forall St A (o : tsource St A) (s : St) k,
  gti_len (gti_from o s) = elements (ts_shape o s) /\
  map snd (fst (drive (gti_next o) gti_len k (gti_from o s))) =
  map (fun j => elements (ts_shape o s) - N.of_nat (S j)) (seq 0 k).
Proof. exact @gen_tensor_iter_len_after. Qed.

Theorem C09_any_source_with_index_true : forall St A (o : tsource St A)
  (it it' : giter shape_iter St) index place v,
  gti_with_index (gti_next o) it = (Some (index, (place, v)), it') -> index = place.
Proof. exact @gen_with_index_true. Qed.

Theorem C09_any_source_with_index_true_owned : forall St A (o : tsource St A) dflt
  (it it' : giter shape_iter St) index place v,
  gti_with_index (gti_next_owned o dflt) it = (Some (index, (place, v)), it') -> index = place.
Proof. exact @gen_with_index_true_owned. Qed.

(* the indexes handed to get_reference_unchecked(_mut) by the first k calls are the first k
   indexes of the row-major enumeration: inside the view shape and pairwise distinct *)
Theorem C09_any_source_places : forall St A (o : tsource St A) (s : St) k,
  let places := map fst (somes (map fst (fst (drive (gti_next o) gti_len k (gti_from o s))))) in
  places = firstn k (all_indexes (lens_of (ts_shape o s))) /\ NoDup places /\
  Forall (fun idx => in_range idx (lens_of (ts_shape o s))) places.
Proof.
  exact (fun St A o s k => conj (gen_tensor_iter_places o s k)
                                (conj (gen_tensor_iter_distinct o s k) (gen_tensor_iter_places_in_shape o s k))).
Qed.

(* owning iterator over any source meeting the TensorMut contract (an in-range write succeeds, is
   read back, changes no other in-range index, keeps the invariant P): the items are those the
   SHARED iterator yields over the untouched source — each original value exactly once, in order —
   and after k calls exactly the first k indexes read the placeholder *)
Theorem C09_any_source_owned_moves_once : forall St A (o : tsource St A) (dflt : A)
  (P : St -> Prop) (sh : shape),
  (forall s idx v, P s -> in_range idx (lens_of sh) ->
     exists s', ts_set o s idx v = Some s' /\ P s' /\ ts_get o s' idx = Some v /\
                forall idx', in_range idx' (lens_of sh) -> idx' <> idx ->
                             ts_get o s' idx' = ts_get o s idx') ->
  forall (s : St) k, P s -> ts_shape o s = sh ->
  let r := drive (gti_next_owned o dflt) gti_len k (gti_from o s) in
  fst r = fst (drive (gti_next o) gti_len k (gti_from o s)) /\
  P (gi_source (snd r)) /\
  forall x, in_range x (lens_of sh) ->
    ts_get o (gi_source (snd r)) x = if flat x (lens_of sh) <? N.of_nat k then Some dflt else ts_get o s x.
Proof. exact @gen_owned_moves_once. Qed.

(* the term-level iterators of Model/ShapeIter.v / Model/MatrixIter.v ARE the generic ones *)
Theorem C09_term_iterators_are_instances : forall A,
  (forall (s : tsrc A) k,
     fst (drive ti_next ti_len k (tensor_iter_from s)) =
     fst (drive (gti_next tsrc_source) gti_len k (gti_from tsrc_source s))) /\
  (forall dflt k (it : tensor_iter A),
     drive (gti_next_owned tsrc_source dflt) gti_len k (gi_of_ti it) =
     (fst (drive (ti_next_owned dflt) ti_len k it), gi_of_ti (snd (drive (ti_next_owned dflt) ti_len k it)))) /\
  (forall rm (s : msrc A) k,
     fst (drive mi_next mi_len k (major_iter_from rm s)) =
     fst (drive (gmi_next msrc_source) gmi_len k (gmi_from msrc_source rm s))).
Proof.
  exact (fun A => conj (@tensor_iter_is_generic A) (conj (@ti_owned_is_generic A) (@major_iter_is_generic A))).
Qed.

(* --- every constructed C02 view meets the hypotheses (store = leaf storage covering the leaves) --- *)
(* enumeration in row-major order of the VIEW shape; every element present (never an out-of-bounds
   unchecked access), resolved to one stored element of one leaf *)
Theorem C09_c02_view_iter_enumerates : forall A v c, Views.v_ctor v = Ok c -> C02P.usize_view c ->
  forall (st : N * N -> option A) m, covers c st ->
  let all := all_indexes (lens_of (Views.c_shape c)) in
  map fst (fst (drive (gti_next (cview_source c)) gti_len (length all + m) (gti_from (cview_source c) st))) =
  map (fun idx => Some (idx, ts_get (cview_source c) st idx)) all ++ repeat None m /\
  Forall (fun idx => exists e x, Views.c_get c idx = Some e /\ st e = Some x /\
                                 ts_get (cview_source c) st idx = Some x) all.
Proof. exact @cview_iter_enumerates. Qed.

Theorem C09_c02_view_len_after_k : forall A c (st : N * N -> option A) k,
  gti_len (gti_from (cview_source c) st) = elements (Views.c_shape c) /\
  map snd (fst (drive (gti_next (cview_source c)) gti_len k (gti_from (cview_source c) st))) =
  map (fun j => elements (Views.c_shape c) - N.of_nat (S j)) (seq 0 k).
Proof. exact @cview_iter_len_after. Qed.

(* mutable iterators: the references of any prefix point at pairwise distinct STORED elements —
   by C02's injectivity (distinct leaves) *)
Theorem C09_c02_view_mut_distinct_elements : forall A v c, Views.v_ctor v = Ok c ->
  C02P.usize_view c -> NoDup (C02Inj.leaf_ids c) -> forall (st : N * N -> option A) k,
  let places := map fst (somes (map fst (fst (drive (gti_next (cview_source c)) gti_len k
                                                    (gti_from (cview_source c) st))))) in
  NoDup (map (Views.c_get c) places) /\
  Forall (fun idx => exists e, Views.c_get c idx = Some e) places.
Proof. exact @cview_mut_distinct_elements. Qed.

(* a write through a constructed view behaves like a lens on the indexes of its shape *)
Theorem C09_c02_view_meets_mut_contract : forall A v c, Views.v_ctor v = Ok c ->
  C02P.usize_view c -> NoDup (C02Inj.leaf_ids c) -> forall (st : N * N -> option A) idx x,
  covers c st -> in_range idx (lens_of (Views.c_shape c)) ->
  exists st', ts_set (cview_source c) st idx x = Some st' /\ covers c st' /\
              ts_get (cview_source c) st' idx = Some x /\
              forall idx', in_range idx' (lens_of (Views.c_shape c)) -> idx' <> idx ->
                           ts_get (cview_source c) st' idx' = ts_get (cview_source c) st idx'.
Proof. exact @cview_lens. Qed.

(* owning iterators over a constructed view: each original element is moved out exactly once, in
   row-major order of the view shape; only placeholders are left at the first k indexes *)
Theorem C09_c02_view_owned_moves_once : forall A v c, Views.v_ctor v = Ok c ->
  C02P.usize_view c -> NoDup (C02Inj.leaf_ids c) ->
  forall (dflt : A) (st : N * N -> option A) k, covers c st ->
  let r := drive (gti_next_owned (cview_source c) dflt) gti_len k (gti_from (cview_source c) st) in
  fst r = fst (drive (gti_next (cview_source c)) gti_len k (gti_from (cview_source c) st)) /\
  covers c (gi_source (snd r)) /\
  forall x, in_range x (lens_of (Views.c_shape c)) ->
    ts_get (cview_source c) (gi_source (snd r)) x =
    if flat x (lens_of (Views.c_shape c)) <? N.of_nat k then Some dflt else ts_get (cview_source c) st x.
Proof. exact @cview_owned_moves_once. Qed.

(* --- matrix iterators over any source --- *)
Theorem C09_any_source_major_iter : forall St A (o : msource St A) rm (s : St) k,
  let rows := mo_rows o s in let cols := mo_cols o s in
  fst (drive (gmi_next o) gmi_len k (gmi_from o rm s)) =
  map (fun j => cexpected (rows * cols)
                 (fun q => let p := mi_place rm rows cols q in (p, mo_get o s p)) (N.of_nat j)) (seq 0 k)
  /\ gmi_len (gmi_from o rm s) = rows * cols.
Proof. exact @gen_major_iter_spec. Qed.

(* single column / row / diagonal: the constructors accept exactly the existing column / row *)
Theorem C09_any_source_line_iter : forall St A (o : msource St A) (s : St),
  (forall column, gli_column o s column =
     if (0 <? mo_rows o s) && (column <? mo_cols o s)
     then Ok (mkGI (mkLC LColumn column (0, mo_rows o s)) s) else Panic) /\
  (forall row, gli_row o s row =
     if (row <? mo_rows o s) && (0 <? mo_cols o s)
     then Ok (mkGI (mkLC LRow row (0, mo_cols o s)) s) else Panic) /\
  gli_diagonal o s = mkGI (mkLC LDiagonal 0 (0, N.min (mo_rows o s) (mo_cols o s))) s /\
  forall kind fixed n k,
    fst (drive (gli_next o) gli_len k (mkGI (mkLC kind fixed (0, n)) s)) =
    map (fun j => cexpected n (fun q => let p := lc_place (mkLC kind fixed (0, n)) q in (p, mo_get o s p))
                   (N.of_nat j)) (seq 0 k)
    /\ gli_len (mkGI (mkLC kind fixed (0, n)) s) = n.
Proof.
  intros St A o s. split; [|split; [|split; [reflexivity|]]].
  - intros column. unfold gli_column, lc_column. destruct ((0 <? mo_rows o s) && (column <? mo_cols o s)); reflexivity.
  - intros row. unfold gli_row, lc_row. destruct ((row <? mo_rows o s) && (0 <? mo_cols o s)); reflexivity.
  - intros kind fixed n k. exact (gen_line_iter_spec o kind fixed n s k).
Qed.

Theorem C09_any_source_major_with_index_true : forall St A (o : msource St A)
  (it it' : giter mcounters St) index place v,
  gmi_with_index (gmi_next o) it = (Some (index, (place, v)), it') -> index = place.
Proof. exact @gen_major_with_index_true. Qed.

Theorem C09_any_source_major_with_index_true_owned : forall St A (o : msource St A) dflt
  (it it' : giter mcounters St) index place v,
  gmi_with_index (gmi_next_owned o dflt) it = (Some (index, (place, v)), it') -> index = place.
Proof. exact @gen_major_with_index_true_owned. Qed.

Theorem C09_any_source_matrix_owned_moves_once : forall St A (o : msource St A) (dflt : A)
  (P : St -> Prop) (rows cols : N),
  (forall s p v, P s -> fst p < rows /\ snd p < cols ->
     exists s', mo_set o s p v = Some s' /\ P s' /\ mo_get o s' p = Some v /\
                forall p', fst p' < rows /\ snd p' < cols -> p' <> p -> mo_get o s' p' = mo_get o s p') ->
  forall rm (s : St) k, P s -> mo_rows o s = rows -> mo_cols o s = cols ->
  let r := drive (gmi_next_owned o dflt) gmi_len k (gmi_from o rm s) in
  fst r = fst (drive (gmi_next o) gmi_len k (gmi_from o rm s)) /\
  P (gi_source (snd r)) /\
  forall q, q < rows * cols ->
    mo_get o (gi_source (snd r)) (mi_place rm rows cols q) =
    if q <? N.of_nat k then Some dflt else mo_get o s (mi_place rm rows cols q).
Proof. exact @gen_matrix_owned_moves_once. Qed.

(* --- every C12 matrix view as the source (reached through its unchecked getters) --- *)
(* row-/column-major iterators over any well-formed view, empty ones (0xN, Nx0, 0x0 parts)
   included: every call, every length; every element present and equal to the checked read *)
Theorem C09_c12_view_major_iter : forall (T : Type) v len, wf len v -> forall rm (data : list T) k,
  N.of_nat (length data) = len ->
  let rows := view_rows v in let cols := view_cols v in
  fst (drive (gmi_next (mview_source v)) gmi_len k (gmi_from (mview_source v) rm data)) =
  map (fun j => cexpected (rows * cols)
                 (fun q => let p := mi_place rm rows cols q in (p, mo_get (mview_source v) data p))
                 (N.of_nat j)) (seq 0 k)
  /\ gmi_len (gmi_from (mview_source v) rm data) = rows * cols
  /\ forall q, q < rows * cols ->
       exists x, mo_get (mview_source v) data (mi_place rm rows cols q) = Some x /\
                 read data (try_get v (fst (mi_place rm rows cols q)) (snd (mi_place rm rows cols q))) = Ok (Some x).
Proof. exact @mview_major_iter. Qed.

(* mutable iterators over any stack on a matrix or a partition part: the references of any prefix
   point at pairwise distinct cells of the root (C12's stack injectivity / partition disjointness) *)
Theorem C09_c12_stack_mut_distinct_cells : forall (T : Type) rows cols v, 1 <= rows ->
  stack rows cols v -> forall rm (data : list T) k,
  let places := map fst (somes (map fst (fst (drive (gmi_next (mview_source v)) gmi_len k
                                                    (gmi_from (mview_source v) rm data))))) in
  NoDup (map (fun p => try_get v (fst p) (snd p)) places) /\
  Forall (fun p => exists cell, try_get v (fst p) (snd p) = Cell cell /\ cell < rows * cols) places.
Proof. exact @mstack_mut_distinct_cells. Qed.

(* owning iterators over such a stack (partition parts included): each original cell of the view
   is moved out exactly once, placeholders are left at the first k places, the root keeps its size *)
Theorem C09_c12_stack_owned_moves_once : forall (T : Type) rows cols v, 1 <= rows ->
  stack rows cols v -> has_mut v = true -> forall (dflt : T) rm (data : list T) k,
  N.of_nat (length data) = rows * cols ->
  let r := drive (gmi_next_owned (mview_source v) dflt) gmi_len k (gmi_from (mview_source v) rm data) in
  fst r = fst (drive (gmi_next (mview_source v)) gmi_len k (gmi_from (mview_source v) rm data)) /\
  N.of_nat (length (gi_source (snd r))) = rows * cols /\
  forall q, q < view_rows v * view_cols v ->
    mo_get (mview_source v) (gi_source (snd r)) (mi_place rm (view_rows v) (view_cols v) q) =
    if q <? N.of_nat k then Some dflt
    else mo_get (mview_source v) data (mi_place rm (view_rows v) (view_cols v) q).
Proof. exact @mstack_owned_moves_once. Qed.

(* --- scripts over the PROVIDED Iterator methods (nth, skip, step_by, take, count, last, fold) ---
   None of the crate's iterators overrides them: they are the std default functions of next()
   (Model/IterProg.v: `nth_default` = advance_by(n) then next(); `run_script`).  An override has to
   be observationally that function — also in what it leaves behind when it runs past the end. *)

(* the iterator families have closed forms: call number q of next() returns E q; E is (None, 0)
   from `total` on and yields an item before *)
Theorem C09_iterators_have_closed_forms :
  (forall sh, closed_form iter_next iter_len (shape_iter_from sh)
                (fun q => expected (lens_of sh) (N.of_nat q)) (N.to_nat (prod (lens_of sh)))) /\
  (forall St A (o : tsource St A) (s : St),
     closed_form (gti_next o) gti_len (gti_from o s)
       (fun q => let e := expected (lens_of (ts_shape o s)) (N.of_nat q) in
                 (option_map (fun idx => (idx, ts_get o s idx)) (fst e), snd e))
       (N.to_nat (prod (lens_of (ts_shape o s))))) /\
  (forall St A (o : msource St A) rm (s : St),
     closed_form (gmi_next o) gmi_len (gmi_from o rm s)
       (fun q => cexpected (mo_rows o s * mo_cols o s)
                   (fun q => let p := mi_place rm (mo_rows o s) (mo_cols o s) q in (p, mo_get o s p)) (N.of_nat q))
       (N.to_nat (mo_rows o s * mo_cols o s))) /\
  (forall St A (o : msource St A) kind fixed n (s : St),
     closed_form (gli_next o) gli_len (mkGI (mkLC kind fixed (0, n)) s)
       (fun q => cexpected n (fun q => let p := lc_place (mkLC kind fixed (0, n)) q in (p, mo_get o s p)) (N.of_nat q))
       (N.to_nat n)).
Proof.
  exact (conj shape_iter_closed_form
        (conj (@gen_tensor_iter_closed_form) (conj (@gen_major_iter_closed_form) (@gen_line_iter_closed_form)))).
Qed.

(* a program of nth(n1), nth(n2), ... calls returns exactly the closed form at the running
   positions n1, n1 + n2 + 1, ...: nth(n) IS n + 1 applications of next() (the first n discarded),
   and a call that runs past the end returns None with length 0 *)
Theorem C09_nth_program : forall St I (next : St -> option I * St) len s0 E total prog,
  closed_form next len s0 E total ->
  fst (drive_prog next len prog s0) = map E (positions prog 0).
Proof. exact @closed_form_prog. Qed.

(* after ANY script over nth / by_ref().skip / step_by / take (and the terminal count / last /
   fold) the iterator is where some number m' of plain next() calls would have left it: further
   next() calls return E m', E (m' + 1), ... — the exact lengths and "None forever after
   exhaustion" of the closed form hold at every point of every such history *)
Theorem C09_after_any_script_exact_and_fused : forall St I (next : St -> option I * St) len s0 E total script,
  closed_form next len s0 E total ->
  exists m', forall k, fst (drive next len k (snd (run_script next len script s0))) = map E (seq m' k).
Proof. exact @closed_form_after_script. Qed.

Example C09_nonvacuous_scripts :
  (* D = 0: nth(1) on a fresh scalar iterator returns None and leaves it exhausted *)
  fst (run_script iter_next iter_len [PNth 1; PNth 0] (shape_iter_from [])) = [OItem None 0; OItem None 0] /\
  (* 2x2: nth(4) runs exactly past the end; nth(1), step_by(2) x2, then count *)
  fst (run_script iter_next iter_len [PNth 4; PNth 0] (shape_iter_from [(0%nat, 2); (1%nat, 2)])) =
    [OItem None 0; OItem None 0] /\
  fst (run_script iter_next iter_len [PNth 1; PStepBy 2 2; PCount] (shape_iter_from [(0%nat, 2); (1%nat, 3)])) =
    [OItem (Some [0; 1]) 4; OItems 7 [[0; 2]; [1; 1]] 1; OCount 1] /\
  positions [1; 0; 2]%nat 0 = [1; 2; 5]%nat.
Proof. vm_compute. repeat split; reflexivity. Qed.

(* non-vacuity: a TensorIndex over a TensorStack of two 2x2 leaves (view shape 2x2: selecting
   the second leaf), iterated by the owning iterator for 3 calls; and the bottom-right quadrant of
   a 3x3 matrix reversed, iterated column-major *)
Example C09_nonvacuous_any_source :
  (exists c, Views.v_ctor (Views.VIndex (Views.VStack [Views.VTensor 1 [(0%nat, 2); (1%nat, 2)];
                                                        Views.VTensor 2 [(0%nat, 2); (1%nat, 2)]] 0 7%nat)
                                        [(7%nat, 1)]) = Ok c /\
     Views.c_shape c = [(0%nat, 2); (1%nat, 2)] /\ C02P.usize_view c /\ NoDup (C02Inj.leaf_ids c) /\
     let st : N * N -> option Z := fun e => Some (Views.leaf_value e) in
     covers c st /\
     map fst (fst (drive (gti_next_owned (cview_source c) 0%Z) gti_len 3 (gti_from (cview_source c) st))) =
       [Some ([0; 0], Some 2000%Z); Some ([0; 1], Some 2001%Z); Some ([1; 0], Some 2002%Z)]) /\
  (exists parts p, partition 3 3 [1] [1] = Ok parts /\ nth_error parts 3 = Some p /\
     let v := VReverse true false (VPart p) in
     stack 3 3 v /\ has_mut v = true /\ (view_rows v, view_cols v) = (2, 2) /\
     fst (drive (gmi_next (mview_source v)) gmi_len 5 (gmi_from (mview_source v) false [1; 2; 3; 4; 5; 6; 7; 8; 9]%Z)) =
       [(Some ((0, 0), Some 8%Z), 3); (Some ((1, 0), Some 5%Z), 2); (Some ((0, 1), Some 9%Z), 1);
        (Some ((1, 1), Some 6%Z), 0); (None, 0)]).
Proof.
  split.
  - eexists. split; [vm_compute; reflexivity|]. split; [reflexivity|]. split; [vm_compute; tauto|].
    split; [vm_compute; constructor; [intros [H|[]]; discriminate|constructor; [intros []|constructor]]|].
    cbv zeta. split; [intros l n off _ _; eexists; reflexivity|]. vm_compute. reflexivity.
  - eexists. eexists. split; [vm_compute; reflexivity|]. split; [reflexivity|]. cbv zeta.
    split; [apply st_reverse; apply (st_part 3 3 [1] [1] _ _ eq_refl); vm_compute; tauto|].
    split; [reflexivity|]. split; [reflexivity|]. vm_compute. reflexivity.
Qed.

Print Assumptions C09_odometer_step.
Print Assumptions C09_shape_iter_enumerates.
Print Assumptions C09_enumeration_is_row_major.
Print Assumptions C09_enumeration_complete.
Print Assumptions C09_shape_iter_zero_length.
Print Assumptions C09_len_initial.
Print Assumptions C09_len_after_k.
Print Assumptions C09_tensor_iter_enumerates.
Print Assumptions C09_tensor_iter_len_after_k.
Print Assumptions C09_owned_iter_places.
Print Assumptions C09_with_index_true.
Print Assumptions C09_with_index_true_owned.
Print Assumptions C09_mut_distinct.
Print Assumptions C09_owned_distinct.
Print Assumptions C09_owned_moves_once.
Print Assumptions C09_tensor_owned_moves_once.
Print Assumptions C09_row_major.
Print Assumptions C09_column_major.
Print Assumptions C09_column.
Print Assumptions C09_row.
Print Assumptions C09_diagonal.
Print Assumptions C09_major_with_index_true.
Print Assumptions C09_major_with_index_true_owned.
Print Assumptions C09_major_places_distinct.
Print Assumptions C09_line_places_distinct.
Print Assumptions C09_owned_moves_once_constructed.
Print Assumptions C09_iter_values_present_constructed.
Print Assumptions C09_matrix_owned_moves_once.
Print Assumptions C09_matrix_sources_wf.
Print Assumptions C09_matrix_source_lens.
Print Assumptions C09_matrix_source_total.
Print Assumptions C09_wf_matrix_owned_moves_once.
Print Assumptions C09_matrix_owned_empty.
Print Assumptions C09_any_source_tensor_iter_enumerates.
Print Assumptions C09_any_source_tensor_iter_len_after_k.
Print Assumptions C09_any_source_with_index_true.
Print Assumptions C09_any_source_with_index_true_owned.
Print Assumptions C09_any_source_places.
Print Assumptions C09_any_source_owned_moves_once.
Print Assumptions C09_term_iterators_are_instances.
Print Assumptions C09_c02_view_iter_enumerates.
Print Assumptions C09_c02_view_len_after_k.
Print Assumptions C09_c02_view_mut_distinct_elements.
Print Assumptions C09_c02_view_meets_mut_contract.
Print Assumptions C09_c02_view_owned_moves_once.
Print Assumptions C09_any_source_major_iter.
Print Assumptions C09_any_source_line_iter.
Print Assumptions C09_any_source_major_with_index_true.
Print Assumptions C09_any_source_major_with_index_true_owned.
Print Assumptions C09_any_source_matrix_owned_moves_once.
Print Assumptions C09_c12_view_major_iter.
Print Assumptions C09_c12_stack_mut_distinct_cells.
Print Assumptions C09_c12_stack_owned_moves_once.
Print Assumptions C09_iterators_have_closed_forms.
Print Assumptions C09_nth_program.
Print Assumptions C09_after_any_script_exact_and_fused.

(* ---- third extension wave (builder GEN): the step functions regenerated from the source ----
   In both build profiles: (1) fn column_major_iter / row_major_iter as generated return the
   place and leave the (finished, row_counter, column_counter) that Model/MatrixIter.v's
   column_major_step / row_major_step compute, for any non-empty size and counters below
   usize::MAX; (2) ShapeIterator::from as generated builds the model's initial state (finished
   iff SOME length is zero); (3) fn iter as generated - the odometer step - returns the item
   and leaves the finished flag and index array of Model/ShapeIter.v's iter_next, for every
   dimensionality (D = 0 included) and every state whose indexes are below usize::MAX. *)
From EasyML Require Import Model.U64 Gen.Arith.
From EasyML Require Proofs.GenIterP.

Theorem C09_generated_steps_match_model : forall md,
  (forall fin rows cols rc cc, 0 < rows -> 0 < cols -> rc < usize_max -> cc < usize_max ->
     gen_column_major_iter md fin rows cols rc cc = Ok (@column_major_step fin rows cols rc cc) /\
     gen_row_major_iter md fin rows cols rc cc = Ok (@row_major_step fin rows cols rc cc)) /\
  (forall sh,
     gen_ShapeIterator_from md (GenIterP.shN sh) =
     Ok (GenIterP.shN (si_shape (shape_iter_from sh)), si_indexes (shape_iter_from sh), si_finished (shape_iter_from sh))) /\
  (forall it : shape_iter,
     length (si_indexes it) = length (si_shape it) ->
     (forall j, nth j (si_indexes it) 0 < usize_max) ->
     gen_ShapeIterator_iter md (si_finished it) (si_indexes it) (GenIterP.shN (si_shape it)) =
     Ok (fst (iter_next it), (si_finished (snd (iter_next it)), si_indexes (snd (iter_next it))))).
Proof. exact GenIterP.generated_steps_match_model. Qed.

(* non-vacuity: the generated steps evaluated by the kernel - a carry through two dimensions, the
   last item (finishes), D = 0, a zero length in a trailing dimension, a column end *)
Example C09_generated_steps_nonvacuous :
  gen_ShapeIterator_iter Debug false [0; 1; 2] [(0, 2); (1, 2); (2, 3)] = Ok (Some [0; 1; 2], (false, [1; 0; 0])) /\
  gen_ShapeIterator_iter Release false [1; 1; 2] [(0, 2); (1, 2); (2, 3)] = Ok (Some [1; 1; 2], (true, [2; 0; 0])) /\
  gen_ShapeIterator_iter Debug false [] [] = Ok (Some [], (true, [])) /\
  gen_ShapeIterator_iter Debug true [2; 0] [(0, 2); (1, 3)] = Ok (None, (true, [2; 0])) /\
  gen_ShapeIterator_from Debug [(0, 2); (1, 0)] = Ok ([(0, 2); (1, 0)], [0; 0], true) /\
  gen_ShapeIterator_from Debug [(0, 2); (1, 3)] = Ok ([(0, 2); (1, 3)], [0; 0], false) /\
  gen_column_major_iter Debug false 2 3 1 0 = Ok (Some (1, 0), (false, 0, 1)) /\
  gen_column_major_iter Debug false 2 3 1 2 = Ok (Some (1, 2), (true, 0, 3)) /\
  gen_row_major_iter Debug false 2 3 0 2 = Ok (Some (0, 2), (false, 1, 0)) /\
  gen_row_major_iter Debug false 3 0 0 0 = Panic /\
  (exists it : shape_iter, length (si_indexes it) = length (si_shape it) /\ (forall j, nth j (si_indexes it) 0 < usize_max) /\
                           si_finished it = false /\ length (si_shape it) = 3%nat).
Proof.
  repeat (split; [vm_compute; reflexivity|]).
  exists (mkSI [(0%nat, 2); (1%nat, 2); (2%nat, 3)] [0; 1; 2] false). cbn [si_indexes si_shape si_finished length].
  repeat split. intros [|[|[|[|j]]]]; vm_compute; reflexivity.
Qed.

Print Assumptions C09_generated_steps_match_model.
