(* C09 — Iterators yield each element once, in documented order, with exact lengths.
   Only the property theorems (closed by `exact`), the assumption audit and a non-vacuity
   example.  Model: Model/ShapeIter.v (ShapeIterator odometer, size_hint, tensor iterators,
   WithIndex, `drive` = k calls of next() recording (item, len() afterwards)), Model/MatrixIter.v
   (matrix iterators), Model/TSource.v (sources).  Specification: `all_indexes` (row-major
   enumeration, Model/Transform.v), `expected` / `cexpected` (Proofs/OdometerP.v, Proofs/C09P.v):
   the q-th call returns the q-th element and the length total - q - 1, and (None, 0) from
   q = total on.
   Sources: the tensor-iterator theorems hold over ANY source term; where the elements matter
   (owning iterators, presence of every yielded element) they are stated for a family with the
   TensorMut "lens" behaviour and then, with no further hypothesis, for every `constructed` source
   (Proofs/SrcWfP.v, Proofs/SrcLensP.v: the contract is proved by induction on the source term).
   The matrix owning iterators likewise: generic lens family, then every well-formed matrix
   source term (Matrix, MatrixRange incl. empty, MatrixReverse — Proofs/C09MatOwnedP.v). *)
From Coq Require Import List ZArith NArith Bool Arith.
From EasyML Require Import Base.Sx Model.Shape Model.Tensor Model.TSource Model.ShapeIter
  Model.MatrixIter Model.Transform Proofs.ShapeP Proofs.C01P Proofs.OdometerP Proofs.C09P
  Proofs.C09OwnedP Proofs.C09MatOwnedP Proofs.C13P Proofs.SrcWfP Proofs.SrcLensP Proofs.C13CtorP.
Import ListNotations.
Open Scope N_scope.

(* one call of next() on any in-range, unfinished odometer state: yields the current index and
   moves to the in-range index whose row-major position is one larger, or finishes exactly at the
   last position *)
Theorem C09_odometer_step : forall sh idx, in_range idx (lens_of sh) ->
  exists idx' fin, iter_next (mkSI sh idx false) = (Some idx, mkSI sh idx' fin) /\
    if fin then flat idx (lens_of sh) + 1 = elements sh
    else in_range idx' (lens_of sh) /\ flat idx' (lens_of sh) = flat idx (lens_of sh) + 1.
Proof. exact iter_next_spec. Qed.

(* ShapeIterator: unfolding next() yields exactly the row-major enumeration of all indexes of
   the shape (each once, in order), then None forever — for every dimensionality and shape *)
Theorem C09_shape_iter_enumerates : forall sh m,
  map fst (outs (length (all_indexes (lens_of sh)) + m) (shape_iter_from sh)) =
  map Some (all_indexes (lens_of sh)) ++ repeat None m.
Proof. exact shape_iter_enumerates. Qed.

(* the enumeration is the in-range index tuples, the k-th one at row-major position k *)
Theorem C09_enumeration_is_row_major : forall lens k x,
  nth_error (all_indexes lens) k = Some x -> in_range x lens /\ flat x lens = N.of_nat k.
Proof. exact all_indexes_nth. Qed.

Theorem C09_enumeration_complete : forall lens idx, in_range idx lens ->
  nth_error (all_indexes lens) (N.to_nat (flat idx lens)) = Some idx.
Proof. exact all_indexes_at. Qed.

(* a shape containing a zero length: immediately None, length 0, forever *)
Theorem C09_shape_iter_zero_length : forall sh k, ~ lens_pos (lens_of sh) ->
  outs k (shape_iter_from sh) = repeat (None, 0) k /\ all_indexes (lens_of sh) = [].
Proof. exact shape_iter_zero_length. Qed.

(* the exact length: elements before the first call, elements - k after k calls (0 beyond) *)
Theorem C09_len_initial : forall sh, iter_len (shape_iter_from sh) = elements sh.
Proof. exact shape_iter_len0. Qed.

Theorem C09_len_after_k : forall sh k,
  map snd (outs k (shape_iter_from sh)) = map (fun j => elements sh - N.of_nat (S j)) (seq 0 k).
Proof. exact shape_iter_len_after. Qed.

(* tensor iterators (copy / reference / mutable reference) over ANY source: the items are the
   elements of the source at the indexes of its view shape in row-major order, then None *)
Theorem C09_tensor_iter_enumerates : forall A (s : tsrc A) m,
  let all := all_indexes (lens_of (src_shape s)) in
  map fst (fst (drive ti_next ti_len (length all + m) (tensor_iter_from s))) =
  map (fun idx => Some (idx, src_get s idx)) all ++ repeat None m.
Proof. exact @tensor_iter_enumerates. Qed.

Theorem C09_tensor_iter_len_after_k : forall A (s : tsrc A) k,
  ti_len (tensor_iter_from s) = elements (src_shape s) /\
  map snd (fst (drive ti_next ti_len k (tensor_iter_from s))) =
  map (fun j => elements (src_shape s) - N.of_nat (S j)) (seq 0 k).
Proof. exact @tensor_iter_len_after. Qed.

(* the owning iterator visits the same places and reports the same lengths *)
Theorem C09_owned_iter_places : forall A (dflt : A) k si (s : tsrc A),
  map (fun o => (option_map fst (fst o), snd o))
      (fst (drive (ti_next_owned dflt) ti_len k (mkTI si s))) = outs k si.
Proof. exact @ti_owned_places. Qed.

(* WithIndex pairs every item with the index of the place it was read from (in every state) *)
Theorem C09_with_index_true : forall A (it it' : tensor_iter A) index place v,
  ti_with_index ti_next it = (Some (index, (place, v)), it') -> index = place.
Proof. exact @with_index_true. Qed.

Theorem C09_with_index_true_owned : forall A dflt (it it' : tensor_iter A) index place v,
  ti_with_index (ti_next_owned dflt) it = (Some (index, (place, v)), it') -> index = place.
Proof. exact @with_index_true_owned. Qed.

(* the places handed out by any number of calls are pairwise distinct *)
Theorem C09_mut_distinct : forall A (s : tsrc A) k,
  NoDup (map fst (somes (map fst (fst (drive ti_next ti_len k (tensor_iter_from s)))))).
Proof. exact @tensor_iter_mut_distinct. Qed.

Theorem C09_owned_distinct : forall A dflt (s : tsrc A) k,
  NoDup (map fst (somes (map fst (fst (drive (ti_next_owned dflt) ti_len k (tensor_iter_from s)))))).
Proof. exact @tensor_iter_owned_distinct. Qed.

(* owning iterators move each ORIGINAL value out exactly once and leave only placeholders: call
   number q returns the original element at the q-th index; after k calls the first k places hold
   the placeholder and every other place is untouched.  For any family of sources whose in-range
   writes behave like a lens (the TensorMut contract), and in particular for Tensor *)
Theorem C09_owned_moves_once : forall A (dflt : A) (P : tsrc A -> Prop),
  (forall s idx v, P s -> in_range idx (lens_of (src_shape s)) ->
     exists s', src_set s idx v = Some s' /\ P s' /\ src_shape s' = src_shape s /\
                src_get s' idx = Some v /\
                forall idx', in_range idx' (lens_of (src_shape s)) -> idx' <> idx ->
                             src_get s' idx' = src_get s idx') ->
  forall (s : tsrc A) k, P s -> lens_pos (lens_of (src_shape s)) ->
  let r := drive (ti_next_owned dflt) ti_len k (tensor_iter_from s) in
  fst r = map (fun j => oexpected s (N.of_nat j)) (seq 0 k) /\
  forall x, in_range x (lens_of (src_shape s)) ->
    src_get (ti_source (snd r)) x =
    if flat x (lens_of (src_shape s)) <? N.of_nat k then Some dflt else src_get s x.
Proof. exact @owned_moves_once. Qed.

Theorem C09_tensor_owned_moves_once : forall A (dflt : A) (t : tensor A) k, tensor_inv t ->
  let s := TBase t in
  let r := drive (ti_next_owned dflt) ti_len k (tensor_iter_from s) in
  fst r = map (fun j => oexpected s (N.of_nat j)) (seq 0 k) /\
  forall x, in_range x (lens_of (t_shape t)) ->
    src_get (ti_source (snd r)) x =
    if flat x (lens_of (t_shape t)) <? N.of_nat k then Some dflt else t_get t x.
Proof. exact @tensor_owned_moves_once. Qed.

(* ... and, with no hypothesis on the source beyond "its constructors returned Ok": every source
   term built from Tensor / Reverse / Range / Mask / Access / Transpose / Rename *)
Theorem C09_owned_moves_once_constructed : forall A (dflt : A) (s : tsrc A) k, constructed s ->
  let r := drive (ti_next_owned dflt) ti_len k (tensor_iter_from s) in
  fst r = map (fun j => oexpected s (N.of_nat j)) (seq 0 k) /\
  forall x, in_range x (lens_of (src_shape s)) ->
    src_get (ti_source (snd r)) x =
    if flat x (lens_of (src_shape s)) <? N.of_nat k then Some dflt else src_get s x.
Proof. exact @ctor_owned_moves_once. Qed.

(* every element an iterator over a constructed source hands out is present (never an
   out-of-bounds unchecked access) and there are exactly `elements` of them *)
Theorem C09_iter_values_present_constructed : forall A (s : tsrc A), constructed s ->
  exists vals, map (src_get s) (all_indexes (lens_of (src_shape s))) = map Some vals /\
               iter_values s = vals /\ length vals = N.to_nat (elements (src_shape s)).
Proof. exact @ctor_iter_values. Qed.

(* matrix owning iterators (row-major / column-major): call number q returns the ORIGINAL element
   at place q, and after k calls exactly the first k places hold the placeholder; for any family
   of matrix sources whose in-range writes behave like a lens ... *)
Theorem C09_matrix_owned_moves_once : forall A (dflt : A) (P : msrc A -> Prop),
  (forall s r c v, P s -> r < ms_rows s -> c < ms_cols s ->
     exists s', ms_set s r c v = Some s' /\ P s' /\ ms_rows s' = ms_rows s /\ ms_cols s' = ms_cols s /\
                ms_get s' r c = Some v /\
                forall r' c', r' < ms_rows s -> c' < ms_cols s -> (r', c') <> (r, c) ->
                              ms_get s' r' c' = ms_get s r' c') ->
  forall rm (s : msrc A) k, P s -> 0 < ms_rows s -> 0 < ms_cols s ->
  let rows := ms_rows s in let cols := ms_cols s in
  let r := drive (mi_next_owned dflt) mi_len k (major_iter_from rm s) in
  fst r = map (fun j => mexpected rm s (N.of_nat j)) (seq 0 k) /\
  forall q, q < rows * cols ->
    let p := mi_place rm rows cols q in
    ms_get (mi_source (snd r)) (fst p) (snd p) =
    if q <? N.of_nat k then Some dflt else ms_get s (fst p) (snd p).
Proof. exact @matrix_owned_moves_once. Qed.

(* ... in particular for every well-formed matrix source term: Matrix::from_flat_row_major,
   MatrixRange::from (ranges clipped, possibly empty) and MatrixReverse::from establish msrc_wf,
   and msrc_wf sources behave like a lens and have every in-range element *)
Theorem C09_matrix_sources_wf : forall A,
  (forall rows cols (data : list A) m, matrix_from_flat rows cols data = Ok m -> msrc_wf (MBase m)) /\
  (forall (s : msrc A) rr cr, msrc_wf s -> msrc_wf (mrange_from s rr cr)) /\
  (forall (s : msrc A) rv cv, msrc_wf s -> msrc_wf (MRev s rv cv)).
Proof. exact (fun A => conj (@matrix_from_flat_wf A) (conj (@mrange_from_wf A) (@mrev_wf A))). Qed.

Theorem C09_matrix_source_lens : forall A (s : msrc A), msrc_wf s -> forall r c v,
  r < ms_rows s -> c < ms_cols s ->
  exists s', ms_set s r c v = Some s' /\ msrc_wf s' /\ ms_rows s' = ms_rows s /\ ms_cols s' = ms_cols s /\
             ms_get s' r c = Some v /\
             forall r' c', r' < ms_rows s -> c' < ms_cols s -> (r', c') <> (r, c) ->
                           ms_get s' r' c' = ms_get s r' c'.
Proof. exact @msrc_lens. Qed.

Theorem C09_matrix_source_total : forall A (s : msrc A), msrc_wf s -> forall r c,
  r < ms_rows s -> c < ms_cols s -> exists x, ms_get s r c = Some x.
Proof. exact @msrc_total. Qed.

Theorem C09_wf_matrix_owned_moves_once : forall A (dflt : A) rm (s : msrc A) k,
  msrc_wf s -> 0 < ms_rows s -> 0 < ms_cols s ->
  let rows := ms_rows s in let cols := ms_cols s in
  let r := drive (mi_next_owned dflt) mi_len k (major_iter_from rm s) in
  fst r = map (fun j => mexpected rm s (N.of_nat j)) (seq 0 k) /\
  forall q, q < rows * cols ->
    let p := mi_place rm rows cols q in
    ms_get (mi_source (snd r)) (fst p) (snd p) =
    if q <? N.of_nat k then Some dflt else ms_get s (fst p) (snd p).
Proof. exact @wf_matrix_owned_moves_once. Qed.

(* an empty source (0xN / Nx0 view): nothing is yielded and the source is not touched *)
Theorem C09_matrix_owned_empty : forall A (dflt : A) rm (s : msrc A) k,
  ms_rows s = 0 \/ ms_cols s = 0 ->
  let r := drive (mi_next_owned dflt) mi_len k (major_iter_from rm s) in
  fst r = repeat (None, 0) k /\ mi_source (snd r) = s.
Proof.
  exact (fun A dflt => @matrix_owned_empty A dflt (fun _ => False) (fun s r c v H => match H with end)).
Qed.

(* matrix row-major and column-major iterators over any source, empty (0xN, Nx0) ones included:
   call number q returns the element at (q / columns, q mod columns) resp. (q mod rows, q / rows)
   and the length rows*columns - q - 1; from q = rows*columns on: (None, 0) *)
Theorem C09_row_major : forall A (s : msrc A) k,
  let rows := ms_rows s in let cols := ms_cols s in
  fst (drive mi_next mi_len k (major_iter_from true s)) =
  map (fun j => cexpected (rows * cols)
                 (fun q => ((q / cols, q mod cols), ms_get s (q / cols) (q mod cols)))
                 (N.of_nat j)) (seq 0 k)
  /\ mi_len (major_iter_from true s) = rows * cols.
Proof. exact (fun A => @major_iter_spec A true). Qed.

Theorem C09_column_major : forall A (s : msrc A) k,
  let rows := ms_rows s in let cols := ms_cols s in
  fst (drive mi_next mi_len k (major_iter_from false s)) =
  map (fun j => cexpected (rows * cols)
                 (fun q => ((q mod rows, q / rows), ms_get s (q mod rows) (q / rows)))
                 (N.of_nat j)) (seq 0 k)
  /\ mi_len (major_iter_from false s) = rows * cols.
Proof. exact (fun A => @major_iter_spec A false). Qed.

(* single column / single row / main diagonal: the constructors accept exactly the existing
   column / row; call number q returns the element at (q, column) / (row, q) / (q, q) and the
   length n - q - 1 where n = rows / columns / min(rows, columns) *)
Theorem C09_column : forall A (s : msrc A) column k,
  (column_iter_from s column = if (0 <? ms_rows s) && (column <? ms_cols s)
                               then Ok (mkLI LColumn column (0, ms_rows s) s) else Panic) /\
  fst (drive li_next li_len k (mkLI LColumn column (0, ms_rows s) s)) =
  map (fun j => cexpected (ms_rows s) (fun q => ((q, column), ms_get s q column)) (N.of_nat j)) (seq 0 k)
  /\ li_len (mkLI LColumn column (0, ms_rows s) s) = ms_rows s.
Proof.
  exact (fun A s column k => conj eq_refl (@line_iter_spec A LColumn column (ms_rows s) s k)).
Qed.

Theorem C09_row : forall A (s : msrc A) row k,
  (row_iter_from s row = if (row <? ms_rows s) && (0 <? ms_cols s)
                         then Ok (mkLI LRow row (0, ms_cols s) s) else Panic) /\
  fst (drive li_next li_len k (mkLI LRow row (0, ms_cols s) s)) =
  map (fun j => cexpected (ms_cols s) (fun q => ((row, q), ms_get s row q)) (N.of_nat j)) (seq 0 k)
  /\ li_len (mkLI LRow row (0, ms_cols s) s) = ms_cols s.
Proof.
  exact (fun A s row k => conj eq_refl (@line_iter_spec A LRow row (ms_cols s) s k)).
Qed.

Theorem C09_diagonal : forall A (s : msrc A) k,
  let n := N.min (ms_rows s) (ms_cols s) in
  fst (drive li_next li_len k (diagonal_iter_from s)) =
  map (fun j => cexpected n (fun q => ((q, q), ms_get s q q)) (N.of_nat j)) (seq 0 k)
  /\ li_len (diagonal_iter_from s) = n.
Proof.
  exact (fun A s k => @line_iter_spec A LDiagonal 0 (N.min (ms_rows s) (ms_cols s)) s k).
Qed.

Theorem C09_major_with_index_true : forall A (it it' : major_iter A) index place v,
  mi_with_index mi_next it = (Some (index, (place, v)), it') -> index = place.
Proof. exact @major_with_index_true. Qed.

Theorem C09_major_with_index_true_owned : forall A dflt (it it' : major_iter A) index place v,
  mi_with_index (mi_next_owned dflt) it = (Some (index, (place, v)), it') -> index = place.
Proof. exact @major_with_index_true_owned. Qed.

(* different call numbers address different elements (so, with the enumeration theorems above,
   no matrix iterator hands out the same element twice) *)
Theorem C09_major_places_distinct : forall rm rows cols q1 q2,
  q1 < rows * cols -> q2 < rows * cols ->
  mi_place rm rows cols q1 = mi_place rm rows cols q2 -> q1 = q2.
Proof. exact mi_place_injective. Qed.

Theorem C09_line_places_distinct : forall A kind fixed rg (s : msrc A) q1 q2,
  li_place (mkLI kind fixed rg s) q1 = li_place (mkLI kind fixed rg s) q2 -> q1 = q2.
Proof. exact @li_place_injective. Qed.

(* non-vacuity: the 2x1x3 shape iterated to the end plus two more calls, a shape with a zero
   length, and a 2x3 matrix restricted to an empty (0x2) range *)
Example C09_nonvacuous :
  outs 8 (shape_iter_from [(0%nat, 2); (1%nat, 1); (2%nat, 3)]) =
    [(Some [0;0;0], 5); (Some [0;0;1], 4); (Some [0;0;2], 3); (Some [1;0;0], 2);
     (Some [1;0;1], 1); (Some [1;0;2], 0); (None, 0); (None, 0)] /\
  in_range [1;0;2] (lens_of [(0%nat, 2); (1%nat, 1); (2%nat, 3)]) /\
  outs 2 (shape_iter_from [(0%nat, 2); (1%nat, 0)]) = [(None, 0); (None, 0)] /\
  (let s := mrange_from (MBase (mkMatrix [1;2;3;4;5;6]%Z 2 3)) (2, 5) (1, 2) in
   ms_rows s = 0 /\ ms_cols s = 2 /\
   fst (drive mi_next mi_len 2 (major_iter_from true s)) = [(None, 0); (None, 0)]).
Proof. vm_compute. repeat split; reflexivity. Qed.

(* non-vacuity of the matrix owning theorem: a 2x2 range view (columns 1..3) of a 2x3 matrix is a
   well-formed, non-empty source; three calls move out 2, 3, 5 and leave placeholders there *)
Example C09_nonvacuous_matrix_owned :
  let s := mrange_from (MBase (mkMatrix [1; 2; 3; 4; 5; 6]%Z 2 3)) (0, 2) (1, 2) in
  msrc_wf s /\ 0 < ms_rows s /\ 0 < ms_cols s /\
  fst (drive (mi_next_owned 0%Z) mi_len 3 (major_iter_from true s)) =
    [(Some ((0, 0), Some 2%Z), 3); (Some ((0, 1), Some 3%Z), 2); (Some ((1, 0), Some 5%Z), 1)] /\
  m_data (ms_base (mi_source (snd (drive (mi_next_owned 0%Z) mi_len 3 (major_iter_from true s))))) =
    [1; 0; 0; 4; 0; 6]%Z.
Proof. cbv zeta. split; [vm_compute; repeat split; (reflexivity || (right; discriminate))|]. vm_compute. repeat split; reflexivity. Qed.

Print Assumptions C09_odometer_step.
Print Assumptions C09_shape_iter_enumerates.
Print Assumptions C09_enumeration_is_row_major.
Print Assumptions C09_enumeration_complete.
Print Assumptions C09_shape_iter_zero_length.
Print Assumptions C09_len_initial.
Print Assumptions C09_len_after_k.
Print Assumptions C09_tensor_iter_enumerates.
Print Assumptions C09_tensor_iter_len_after_k.
Print Assumptions C09_owned_iter_places.
Print Assumptions C09_with_index_true.
Print Assumptions C09_with_index_true_owned.
Print Assumptions C09_mut_distinct.
Print Assumptions C09_owned_distinct.
Print Assumptions C09_owned_moves_once.
Print Assumptions C09_tensor_owned_moves_once.
Print Assumptions C09_row_major.
Print Assumptions C09_column_major.
Print Assumptions C09_column.
Print Assumptions C09_row.
Print Assumptions C09_diagonal.
Print Assumptions C09_major_with_index_true.
Print Assumptions C09_major_with_index_true_owned.
Print Assumptions C09_major_places_distinct.
Print Assumptions C09_line_places_distinct.
Print Assumptions C09_owned_moves_once_constructed.
Print Assumptions C09_iter_values_present_constructed.
Print Assumptions C09_matrix_owned_moves_once.
Print Assumptions C09_matrix_sources_wf.
Print Assumptions C09_matrix_source_lens.
Print Assumptions C09_matrix_source_total.
Print Assumptions C09_wf_matrix_owned_moves_once.
Print Assumptions C09_matrix_owned_empty.
