(* C12 — Matrix views and partitions expose exactly the requested disjoint sub-grids.
   This file contains only the property theorems (closed by `exact`), their assumption audit and
   the non-vacuity example.  Definitions: Model/MatrixViews.v (transcription of
   src/matrices/views/{ranges,reverse,partitions,map}.rs, Matrix::partition / partition_quadrants
   and src/interop/mod.rs: a view RESOLVES (row, column) to a position in the flat storage of the
   matrix at the bottom of the stack, or is absent, or panics); Proofs/C12P.v (well-formedness
   `wf`, `inside`, `mirror`), Proofs/C12Partition.v (`chain_b`, `intervals`, `grid_slices`,
   `grid_parts`, `bad_list`, `stack`), Proofs/C12Release.v (session 3: `partition_release`, the
   transcription of Matrix::partition without overflow checks, equals `partition` on every
   matrix that can exist, so the partition theorems hold in both build profiles; `data_layout`
   of a stack of views and what `&S` / `&mut S` answer instead).
   Second extension wave: the three access forms are SEPARATE transcriptions
   (Model/MatrixAccess.v: `try_get_mut` = try_get_reference_mut, `get_unchecked` /
   `get_unchecked_mut` = get_reference_unchecked(_mut), each from its own impl block of
   Matrix / MatrixPart / MatrixRange / MatrixReverse / MatrixMap / MatrixRefTensor); Proofs/C12Access.v
   proves that they agree on every present index (and the two checked forms on every index), that
   outside the size the unchecked forms are NOT the checked ones (panic / undefined / a different
   cell), and — with the any-source iterators of Model/IterG.v, Proofs/C09GenP.v, C09ViewsP.v —
   that the only safe callers of the unchecked getters (the matrix iterators) pass present
   indexes only.  The correspondence prints each form on its own (Run/RunC12.v).
   Views over a source that is mutated THROUGH the view (`source_ref_mut()`; round-4 seed C12-v1):
   `rev_stack` (Model/MatrixAccess.v) is the MatrixReverse stack re-evaluated over the matrix as it
   is now; C12_reversal_views_survive_source_mutation: after every step of every history of Matrix
   operations it is a stack over a valid matrix; op (12 7 ..) keeps one view object across such
   histories and observes it through all four access forms after every step.
   Mapped views: MatrixMap is crate-private (its only user is Display for RecordMatrix); no public
   API hands out a lazily mapped matrix view, MatrixView::map / map_with_index build a new Matrix.
   The model node VMap (index-transparent) is covered by C12_contract. *)
From Coq Require Import List ZArith NArith Bool Arith Sorted.
From EasyML Require Import Base.Sx Model.Shape Model.MatrixViews Proofs.C12P Proofs.C12Partition Proofs.C12Tensor Proofs.C12Release.
From EasyML Require Import Model.MatrixAccess Model.ShapeIter Model.MatrixIter Model.Transform Model.IterG
  Proofs.C12Access Proofs.C09GenP Proofs.C09ViewsP.
From EasyML Require Model.Views Proofs.C02P Proofs.C02Inj Model.Matrix Proofs.C11Spec.
Import ListNotations.
Open Scope N_scope.

(* THE CONTRACT, for every stack of views the API can build over a rows x cols matrix — the
   matrix itself or any part of any accepted partition at the bottom, then ranges, reversals,
   mapped views and tensor round trips in any order and to any depth (induction over the term):
   an index is present exactly when it is inside the reported size; otherwise it is absent —
   never a panic, also on empty views —; a present index resolves to a cell inside the root's
   storage.  Shared, mutable and unchecked access compute the same index. *)
Theorem C12_contract : forall rows cols v, 1 <= rows -> stack rows cols v -> forall row column,
  if inside v row column
  then exists p, try_get v row column = Cell p /\ p < rows * cols
  else try_get v row column = Absent.
Proof. exact stack_contract. Qed.

(* the same contract when the bottom of the stack is MatrixRefTensor::from(t) for ANY constructed
   2-dimensional tensor view t of the C02 development (tensor ranges, masks, indexing, expansion,
   renaming, reversal, access, transposition, stacks and chains over Tensor / TensorRefMatrix
   leaves): the root is the concatenation of the leaves' stores.  `usize_view`: the lengths of
   mask sources are usize values; the leaves are pairwise distinct objects. *)
Theorem C12_contract_over_tensor_views : forall v c s, Views.v_ctor v = Ok c -> C02P.usize_view c ->
  length (Views.c_shape c) = 2%nat -> NoDup (C02Inj.leaf_ids c) -> tstack c s ->
  forall row column,
  if inside s row column
  then exists p, try_get s row column = Cell p /\ p < N.of_nat (length (tensor_root c))
  else try_get s row column = Absent.
Proof. exact tstack_contract. Qed.

Theorem C12_present_iff_inside : forall len v, wf len v -> forall row column,
  (exists p, try_get v row column = Cell p) <-> (row < view_rows v /\ column < view_cols v).
Proof. exact view_present_iff. Qed.

(* ranges: the size is the request clipped to the source (an empty or fully out of range request
   gives an empty view), and the cell at (row, column) is the source's cell at
   (row + start_row, column + start_column) *)
Theorem C12_range : forall len src r0 rl c0 cl, wf len src ->
  view_rows src <= usize_max -> view_cols src <= usize_max ->
  let v := range_from src (mkIR r0 rl) (mkIR c0 cl) in
  view_rows v = N.min rl (view_rows src - r0) /\
  view_cols v = N.min cl (view_cols src - c0) /\
  forall row column,
    try_get v row column =
    if inside v row column then try_get src (row + r0) (column + c0) else Absent.
Proof. exact range_spec. Qed.

(* reversal: the mirror image inside, absent outside, also over sources with zero rows or
   columns (always absent, never a panic) *)
Theorem C12_reverse : forall len src rr rc, wf len src -> forall row column,
  try_get (VReverse rr rc src) row column =
  if inside src row column
  then try_get src (mirror rr (view_rows src) row) (mirror rc (view_cols src) column)
  else Absent.
Proof. exact reverse_spec. Qed.

(* partition, exactly: accepted iff check_axis (as written) passes and neither boundary list,
   extended by the dimension's length, decreases anywhere; the result is then the grid of parts
   in row-major order *)
Theorem C12_partition_exact : forall rows cols rp cp, 1 <= rows ->
  partition rows cols rp cp =
  if check_axis rp rows && check_axis cp cols && chain_b 0 (rp ++ [rows]) && chain_b 0 (cp ++ [cols])
  then Ok (grid_parts rows cols rp cp) else Panic.
Proof. exact partition_spec. Qed.

(* every strictly ascending list within 0..=len is accepted *)
Theorem C12_partition_accepts : forall rows cols rp cp, 1 <= rows ->
  StronglySorted N.lt rp -> Forall (fun x => x <= rows) rp ->
  StronglySorted N.lt cp -> Forall (fun x => x <= cols) cp ->
  partition rows cols rp cp = Ok (grid_parts rows cols rp cp).
Proof. exact partition_accepts. Qed.

(* every list with an entry > len or with a decrease is rejected with a panic (no part is
   returned), for either axis *)
Theorem C12_partition_rejects : forall rows cols rp cp, 1 <= rows ->
  bad_list rows rp \/ bad_list cols cp -> partition rows cols rp cp = Panic.
Proof. exact partition_rejects. Qed.

(* the documented size (0 x 0 when empty) and the cell mapping of the part at a row interval
   [rlo, rhi) and a column interval [clo, chi) *)
Theorem C12_partition_parts : forall W rlo rhi clo chi, rlo <= rhi -> clo <= chi ->
  let p := make_part (grid_slices W (rlo, rhi) (clo, chi)) in
  let h := rhi - rlo in let w := chi - clo in
  (p_rows p, p_cols p) = (if (h =? 0) || (w =? 0) then (0, 0) else (h, w)) /\
  forall i j, try_get (VPart p) i j =
    if (i <? h) && (j <? w) then Cell ((rlo + i) * W + clo + j) else Absent.
Proof. exact grid_part_get. Qed.

(* together the parts cover the matrix ... *)
Theorem C12_partition_cover : forall rows cols rp cp parts, 1 <= rows ->
  partition rows cols rp cp = Ok parts ->
  forall x y, x < rows -> y < cols ->
  exists p i j, In p parts /\ try_get (VPart p) i j = Cell (x * cols + y).
Proof. exact partition_cover. Qed.

(* ... and are pairwise disjoint: a cell is exposed by one part only, at one index only *)
Theorem C12_partition_disjoint : forall rows cols rp cp parts, 1 <= rows ->
  partition rows cols rp cp = Ok parts ->
  forall k k' p p' i j i' j' a,
  nth_error parts k = Some p -> nth_error parts k' = Some p' ->
  try_get (VPart p) i j = Cell a -> try_get (VPart p') i' j' = Cell a ->
  k = k' /\ i = i' /\ j = j'.
Proof. exact partition_disjoint. Qed.

Theorem C12_quadrants : forall rows cols row column, 1 <= rows -> row <= rows -> column <= cols ->
  partition_quadrants rows cols row column
  = Ok [ make_part (grid_slices cols (0, row) (0, column)); make_part (grid_slices cols (0, row) (column, cols));
         make_part (grid_slices cols (row, rows) (0, column)); make_part (grid_slices cols (row, rows) (column, cols)) ].
Proof. exact quadrants_spec. Qed.

(* a write through any well formed view hits exactly the resolved cell; absent indexes panic and
   change nothing *)
Theorem C12_write_through : forall (T : Type) (data : list T) v row column x,
  wf (N.of_nat (length data)) v ->
  if inside v row column
  then exists p, try_get v row column = Cell p /\ p < N.of_nat (length data) /\
         write data v row column x = (replace_nth data (N.to_nat p) x, true) /\
         read (fst (write data v row column x)) (try_get v row column) = Ok (Some x) /\
         forall q, q <> N.to_nat p ->
           nth_error (fst (write data v row column x)) q = nth_error data q
  else write data v row column x = (data, false).
Proof. exact @write_spec. Qed.

(* a write through one part changes only that part's cell: all other parts read as before *)
Theorem C12_write_through_part : forall (T : Type) rows cols rp cp parts (data : list T), 1 <= rows ->
  N.of_nat (length data) = rows * cols ->
  partition rows cols rp cp = Ok parts ->
  forall k p i j x data', nth_error parts k = Some p ->
  write data (VPart p) i j x = (data', true) ->
  read data' (try_get (VPart p) i j) = Ok (Some x) /\
  forall k' p' i' j', nth_error parts k' = Some p' -> (k', i', j') <> (k, i, j) ->
    read data' (try_get (VPart p') i' j') = read data (try_get (VPart p') i' j').
Proof. exact @write_through_part. Qed.

(* the tensor wrappers: accepted exactly for two different names over a view with at least one
   row and one column (otherwise the InvalidShapeError carrying the shape); size and cells are
   delegated unchanged *)
Theorem C12_interop : forall src n0 n1,
  (n0 <> n1 /\ view_rows src <> 0 /\ view_cols src <> 0 ->
     via_tensor src n0 n1 = Ok (VViaTensor n0 n1 src)) /\
  (~ (n0 <> n1 /\ view_rows src <> 0 /\ view_cols src <> 0) ->
     via_tensor src n0 n1 = Err (sshape [(n0, view_rows src); (n1, view_cols src)])) /\
  (forall row column, try_get (VViaTensor n0 n1 src) row column = try_get src row column) /\
  view_rows (VViaTensor n0 n1 src) = view_rows src /\
  view_cols (VViaTensor n0 n1 src) = view_cols src.
Proof. exact via_tensor_spec. Qed.

(* non-vacuity: a 3 x 4 matrix, an accepted partition, a stack over one of its parts *)
Example C12_nonvacuous :
  exists parts p v,
    partition 3 4 [1] [2; 3] = Ok parts /\ length parts = 6%nat /\ nth_error parts 4 = Some p /\
    (p_rows p, p_cols p) = (2, 1) /\
    v = VReverse true false (range_from (VPart p) (mkIR 0 5) (mkIR 0 usize_max)) /\
    stack 3 4 v /\ wf 12 v /\ (view_rows v, view_cols v) = (2, 1) /\
    try_get v 0 0 = Cell 10 /\ try_get v 1 0 = Cell 6 /\ try_get v 2 0 = Absent /\
    StronglySorted N.lt [2; 3] /\ bad_list 3 [2; 1] /\ partition 3 4 [2; 1] [] = Panic.
Proof.
  eexists. eexists. eexists.
  split; [vm_compute; reflexivity|].
  split; [reflexivity|]. split; [reflexivity|]. split; [reflexivity|]. split; [reflexivity|].
  assert (Hs : stack 3 4 (VReverse true false
             (range_from (VPart {| p_slices := [(6, 1); (10, 1)]; p_rows := 2; p_cols := 1 |}) (mkIR 0 5) (mkIR 0 usize_max)))).
  { apply st_reverse, st_range.
    apply (st_part 3 4 [1] [2; 3] _ _ eq_refl). vm_compute. tauto. }
  split; [exact Hs|]. split; [apply (stack_wf 3 4 _ ltac:(discriminate) Hs)|].
  repeat split; try reflexivity.
  - repeat constructor.
  - right. exists [], 2, 1, []. split; reflexivity.
Qed.


(* ---- session 3 ---- *)
(* BOTH BUILD PROFILES: `partition_release` transcribes Matrix::partition as compiled without
   overflow checks (the two subtractions wrap; a decreasing list is then stopped by split_at_mut
   panicking on a length beyond what is left, or by Vec::with_capacity panicking with a capacity
   overflow).  On every matrix that can exist — at most isize::MAX stored elements, fewer than
   2^59 rows (the per-part Vec of row slices must be allocatable, in either profile) — it is the
   same function as `partition`, so every theorem above holds for both profiles. *)
Theorem C12_partition_profiles_agree : forall rows cols rp cp, 1 <= rows ->
  rows * cols <= isize_max_bytes -> rows <= part_rows_capacity_max ->
  partition_release rows cols rp cp = partition rows cols rp cp.
Proof. exact partition_release_eq. Qed.

(* spelled out for the release profile: strictly ascending lists within 0..=len are accepted and
   give the grid of parts; a list with a decrease or an entry > len panics, nothing is returned *)
Theorem C12_partition_release_accepts_rejects : forall rows cols rp cp, 1 <= rows ->
  rows * cols <= isize_max_bytes -> rows <= part_rows_capacity_max ->
  (StronglySorted N.lt rp -> Forall (fun x => x <= rows) rp ->
   StronglySorted N.lt cp -> Forall (fun x => x <= cols) cp ->
   partition_release rows cols rp cp = Ok (grid_parts rows cols rp cp)) /\
  (bad_list rows rp \/ bad_list cols cp -> partition_release rows cols rp cp = Panic).
Proof. exact partition_release_accepts_rejects. Qed.

(* data_layout (the memory-order hint of MatrixRef): ranges, mapped views, boxes and the tensor
   round trip pass their source's hint on; a stack is RowMajor over a matrix or a partition part,
   Other as soon as the first non-transparent view on the way down is a reversal, and over a
   tensor view it is what the tensor's own layout says about (rows name, columns name) *)
Theorem C12_data_layout : forall v,
  data_layout v =
  match bottom v with
  | VReverse _ _ _ => LOther
  | VOverTensor c => layout_of_tensor c
  | _ => LRowMajor
  end.
Proof. exact data_layout_spec. Qed.

(* AS WRITTEN, `impl MatrixRef for &S` / `&mut S` answer RowMajor without asking S (the tensor
   counterparts forward): the hint through a reference is the view's own hint only when that is
   RowMajor — see notes/C11_C12.md, observation O4 *)
Theorem C12_data_layout_through_reference : forall v,
  data_layout_through_reference v = data_layout v <-> data_layout v = LRowMajor.
Proof. exact data_layout_reference_agrees_iff. Qed.

Example C12_nonvacuous_session3 :
  partition_release 3 4 [1] [2; 3] = partition 3 4 [1] [2; 3] /\
  partition_release 3 4 [1; 3; 2] [] = Panic /\ partition_release 3 4 [] [4; 5] = Panic /\
  3 * 4 <= isize_max_bytes /\ 3 <= part_rows_capacity_max /\
  data_layout (VReverse true false (VMatrix 3 4)) = LOther /\
  data_layout_through_reference (VReverse true false (VMatrix 3 4)) = LRowMajor /\
  data_layout (range_from (VMatrix 3 4) (mkIR 0 2) (mkIR 1 2)) = LRowMajor.
Proof. repeat split; try reflexivity; try (vm_compute; discriminate). Qed.

(* ---- second extension wave: shared, mutable and unchecked access alike ---- *)
(* the mutable checked getter (its own transcription) computes what the shared one does, on EVERY
   index, present or not, for every stack that has a mutable face (no mapped layer) *)
Theorem C12_mutable_getter_is_shared_getter : forall v, has_mut v = true -> forall row column,
  try_get_mut v row column = try_get v row column.
Proof. exact try_get_mut_eq. Qed.

(* both unchecked getters (their own transcriptions: `unwrap`, unguarded reverse_indexes,
   get_unchecked on the slices) resolve every PRESENT index to the designated cell *)
Theorem C12_unchecked_getters_on_present : forall v row column p, try_get v row column = Cell p ->
  get_unchecked v row column = UCell p /\
  (has_mut v = true -> get_unchecked_mut v row column = UCell p).
Proof.
  exact (fun v row column p H => conj (get_unchecked_present v row column p H)
                                       (fun Hm => get_unchecked_mut_present v Hm row column p H)).
Qed.

(* all four forms for every well-formed view: inside the size one cell of the root's storage,
   outside absent for both checked forms *)
Theorem C12_access_forms_agree : forall len v, wf len v -> has_mut v = true -> forall row column,
  if inside v row column
  then exists p, p < len /\
         try_get v row column = Cell p /\ try_get_mut v row column = Cell p /\
         get_unchecked v row column = UCell p /\ get_unchecked_mut v row column = UCell p
  else try_get v row column = Absent /\ try_get_mut v row column = Absent.
Proof. exact access_forms_agree. Qed.

(* ... in particular for every stack over a matrix or a partition part *)
Theorem C12_access_forms_agree_stack : forall rows cols v, 1 <= rows -> stack rows cols v ->
  has_mut v = true -> forall row column,
  if inside v row column
  then exists p, p < rows * cols /\
         try_get v row column = Cell p /\ try_get_mut v row column = Cell p /\
         get_unchecked v row column = UCell p /\ get_unchecked_mut v row column = UCell p
  else try_get v row column = Absent /\ try_get_mut v row column = Absent.
Proof. exact (fun rows cols v H1 Hs => access_forms_agree (rows * cols) v (stack_wf rows cols v H1 Hs)). Qed.

(* views with a mapped layer (MatrixRef only): the two shared forms *)
Theorem C12_shared_forms_agree : forall len v, wf len v -> forall row column,
  if inside v row column
  then exists p, p < len /\ try_get v row column = Cell p /\ get_unchecked v row column = UCell p
  else try_get v row column = Absent.
Proof. exact access_forms_agree_shared. Qed.

(* writes through the mutable checked form (MatrixView::set, try_get_reference_mut,
   get_reference_mut) and through the unchecked mutable form on a present index are the write of
   C12_write_through *)
Theorem C12_writes_through_every_form : forall (T : Type) (data : list T) v row column x,
  has_mut v = true ->
  write_mut data v row column x = write data v row column x /\
  forall p, try_get v row column = Cell p ->
    write_unchecked data v row column x = write data v row column x.
Proof.
  exact (fun T data v row column x Hm =>
           conj (write_mut_eq data v row column x Hm)
                (fun p E => write_unchecked_present data v row column x p Hm E)).
Qed.

(* outside the size the unchecked forms are NOT the checked ones: a defined read of a DIFFERENT
   cell (Matrix), a panic in `unwrap` (MatrixRange), an out-of-bounds get_unchecked (MatrixPart),
   an arithmetic underflow (MatrixReverse over an empty source) — so the safety of the crate
   rests on who calls them: *)
Theorem C12_unchecked_forms_need_present_indexes :
  try_get (VMatrix 2 3) 0 4 = Absent /\ get_unchecked (VMatrix 2 3) 0 4 = UCell 4 /\
  try_get (VMatrix 2 3) 1 1 = Cell 4 /\
  get_unchecked (range_from (VMatrix 2 3) (mkIR 0 1) (mkIR 0 3)) 1 0 = UPanic /\
  get_unchecked (VPart (mkPart [(0, 2); (3, 2)] 2 2)) 0 2 = UUndefined /\
  get_unchecked_mut (VReverse true false (range_from (VMatrix 2 3) (mkIR 5 1) (mkIR 0 3))) 0 0 = UPanic /\
  try_get (VReverse true false (range_from (VMatrix 2 3) (mkIR 5 1) (mkIR 0 3))) 0 0 = Absent.
Proof. exact unchecked_outside_examples. Qed.

(* the only safe callers of a matrix view's unchecked getters are the matrix iterators
   (src/matrices/iterators.rs; C10's iterator-place theorems): over ANY well-formed view as the
   source (Model/IterG.v `mview_source`, any root data), every (row, column) the row-major /
   column-major iterators pass — at every prefix, exhausted and empty views included — is present:
   both unchecked getters resolve it to the cell the checked getter designates, inside the root *)
Theorem C12_major_iterators_reach_unchecked_getters_with_present_indexes :
  forall (T : Type) len v, wf len v -> forall rm (data : list T) k,
  Forall (fun p => exists cell, cell < len /\ try_get v (fst p) (snd p) = Cell cell /\
                     get_unchecked v (fst p) (snd p) = UCell cell /\
                     (has_mut v = true -> get_unchecked_mut v (fst p) (snd p) = UCell cell))
         (map fst (somes (map fst (fst (drive (gmi_next (mview_source v)) gmi_len k
                                              (gmi_from (mview_source v) rm data)))))).
Proof. exact (fun T len v Hw rm data k => mview_major_iter_reaches_present v len Hw rm data k). Qed.

(* ... and the single-column / single-row / diagonal iterators, whose constructors assert that the
   column / row exists *)
Theorem C12_line_iterators_reach_unchecked_getters_with_present_indexes :
  forall (T : Type) len v, wf len v -> forall kind fixed (data : list T) k c,
  (kind = LColumn /\ lc_column (view_rows v) (view_cols v) fixed = Ok c) \/
  (kind = LRow /\ lc_row (view_rows v) (view_cols v) fixed = Ok c) \/
  (kind = LDiagonal /\ c = lc_diagonal (view_rows v) (view_cols v)) ->
  Forall (fun p => exists cell, cell < len /\ try_get v (fst p) (snd p) = Cell cell /\
                     get_unchecked v (fst p) (snd p) = UCell cell /\
                     (has_mut v = true -> get_unchecked_mut v (fst p) (snd p) = UCell cell))
         (map fst (somes (map fst (fst (drive (gli_next (mview_source v)) gli_len k (mkGI c data)))))).
Proof. exact (fun T len v Hw kind fixed data k c => mview_line_iter_reaches_present v len Hw kind fixed data k c). Qed.

(* two different indexes of a stack over a matrix or a partition part never resolve to the same
   cell (ranges shift, reversals mirror, parts are disjoint slices) *)
Theorem C12_stack_injective : forall rows cols v, 1 <= rows -> stack rows cols v ->
  forall r c r' c' cell, try_get v r c = Cell cell -> try_get v r' c' = Cell cell -> r = r' /\ c = c'.
Proof. exact stack_injective. Qed.

(* views over a source that is MUTATED through the view (round-4 seed C12-v1: a MatrixReverse that
   cached its source's size at construction).  MatrixReverse is the one public matrix adaptor that
   hands out `source_ref_mut()`; it stores its two flags and nothing else, so after ANY history of
   Matrix operations (insertions, removals, transposition, writes; valid or panicking) applied to
   the source, the same view object is `rev_stack m revs` over the matrix as it is now: a stack
   over a valid matrix reporting that matrix' size — hence C12_contract, C12_reverse,
   C12_access_forms_agree_stack and C12_stack_injective hold for it after every step *)
Theorem C12_reversal_views_survive_source_mutation : forall (T : Type) (m0 : Matrix.matrix T)
  (ops : list (Matrix.op T)) revs, C11Spec.Inv m0 ->
  Forall (fun r : Matrix.matrix T * bool =>
            let m := fst r in let v := rev_stack m revs in
            1 <= Matrix.m_rows m /\ N.of_nat (length (Matrix.m_data m)) = Matrix.m_rows m * Matrix.m_cols m /\
            stack (Matrix.m_rows m) (Matrix.m_cols m) v /\ has_mut v = true /\
            view_rows v = Matrix.m_rows m /\ view_cols v = Matrix.m_cols m)
         (Matrix.impl_trace m0 ops).
Proof. exact @reversal_views_survive_source_mutation. Qed.

Example C12_nonvacuous_source_mutation :
  let m0 := Matrix.mkM [1; 2; 3; 4; 5; 6]%Z 3 2 in
  C11Spec.Inv m0 /\
  (* reversed rows over a 3 x 2 matrix: (0, 0) is the last row; after insert_row(3, 9) on the
     source the same view has 4 rows and (0, 0) is the NEW last row *)
  try_get (rev_stack m0 [(true, false)]) 0 0 = Cell 4 /\
  (let m1 := fst (Matrix.impl_step m0 (Matrix.OInsertRow 3 9%Z)) in
   view_rows (rev_stack m1 [(true, false)]) = 4 /\
   read (Matrix.m_data m1) (try_get (rev_stack m1 [(true, false)]) 0 0) = Ok (Some 9%Z) /\
   read_unchecked (Matrix.m_data m1) (get_unchecked (rev_stack m1 [(true, false)]) 3 1) = Ok (Some 2%Z)).
Proof. vm_compute. repeat split; reflexivity || (intros H; discriminate H). Qed.

Example C12_nonvacuous_access_forms :
  let v := VReverse true false (range_from (VMatrix 3 4) (mkIR 1 5) (mkIR 0 usize_max)) in
  stack 3 4 v /\ has_mut v = true /\ inside v 1 2 = true /\
  try_get v 1 2 = Cell 6 /\ try_get_mut v 1 2 = Cell 6 /\
  get_unchecked v 1 2 = UCell 6 /\ get_unchecked_mut v 1 2 = UCell 6 /\
  try_get v 2 0 = Absent /\ get_unchecked v 2 0 = UPanic.
Proof.
  cbv zeta. split; [apply st_reverse, st_range, st_matrix|]. vm_compute. repeat split; reflexivity.
Qed.

Print Assumptions C12_contract.
Print Assumptions C12_contract_over_tensor_views.
Print Assumptions C12_present_iff_inside.
Print Assumptions C12_range.
Print Assumptions C12_reverse.
Print Assumptions C12_partition_exact.
Print Assumptions C12_partition_accepts.
Print Assumptions C12_partition_rejects.
Print Assumptions C12_partition_parts.
Print Assumptions C12_partition_cover.
Print Assumptions C12_partition_disjoint.
Print Assumptions C12_quadrants.
Print Assumptions C12_write_through.
Print Assumptions C12_write_through_part.
Print Assumptions C12_interop.
Print Assumptions C12_partition_profiles_agree.
Print Assumptions C12_partition_release_accepts_rejects.
Print Assumptions C12_data_layout.
Print Assumptions C12_data_layout_through_reference.
Print Assumptions C12_mutable_getter_is_shared_getter.
Print Assumptions C12_unchecked_getters_on_present.
Print Assumptions C12_access_forms_agree.
Print Assumptions C12_access_forms_agree_stack.
Print Assumptions C12_shared_forms_agree.
Print Assumptions C12_writes_through_every_form.
Print Assumptions C12_unchecked_forms_need_present_indexes.
Print Assumptions C12_major_iterators_reach_unchecked_getters_with_present_indexes.
Print Assumptions C12_line_iterators_reach_unchecked_getters_with_present_indexes.
Print Assumptions C12_stack_injective.
Print Assumptions C12_reversal_views_survive_source_mutation.
