(* C01 — Named-dimension addressing reads and writes exactly the addressed element.
   This file contains only the property theorems (closed by `exact`), their assumption audit
   and the non-vacuity example.  Definitions: Model/Shape.v, Model/Tensor.v (transcription of
   the code), Proofs/C01P.v (specification: addr_by_name, shape_by_name). *)
From Coq Require Import List ZArith NArith Bool Arith Permutation.
From EasyML Require Import Base.Sx Model.Shape Model.Tensor Proofs.ShapeP Proofs.C01P.
Import ListNotations.
Open Scope N_scope.

(* a name list is accepted exactly when it is a permutation of the tensor's names; everything
   else (duplicates, foreign names) is an Err carrying (actual shape, requested names) from the
   fallible constructor and a panic from the panicking one *)
Theorem C01_new_iff_perm : forall A (t : tensor A) req,
  NoDup (names_of (t_shape t)) -> length req = length (t_shape t) ->
  ((exists a, access_try_from t req = Ok a) <-> Permutation (names_of (t_shape t)) req).
Proof. exact @access_try_from_iff_perm. Qed.

Theorem C01_non_permutation_rejected : forall A (t : tensor A) req,
  NoDup (names_of (t_shape t)) -> length req = length (t_shape t) ->
  ~ Permutation (names_of (t_shape t)) req ->
  access_try_from t req = Err (SL [sshape (t_shape t); snames req]) /\ access_from t req = Panic.
Proof. exact @access_rejects. Qed.

(* the two internal tables are mutually inverse permutations of 0..D-1 *)
Theorem C01_tables_inverse : forall src req tbl, NoDup src -> length req = length src ->
  dm_new src req = Some tbl -> forall d, (d < length src)%nat ->
  nth (nth d (dm_s2r tbl) 0%nat) (dm_r2s tbl) 0%nat = d /\
  nth (nth d (dm_r2s tbl) 0%nat) (dm_s2r tbl) 0%nat = d.
Proof. exact tables_inverse. Qed.

(* the reported shape is the tensor's shape permuted the same way, by name *)
Theorem C01_shape_permuted : forall A (t : tensor A) req a,
  NoDup (names_of (t_shape t)) -> length req = length (t_shape t) ->
  access_try_from t req = Ok a ->
  access_shape a = shape_by_name (t_shape t) req.
Proof. exact @access_shape_by_name. Qed.

(* reads: present exactly when every coordinate, matched by name, is inside its dimension, and
   then the element read is the one at the row-major position of the by-name coordinates *)
Theorem C01_get_by_name : forall A (t : tensor A) req a idx,
  tensor_inv t -> length req = length (t_shape t) -> length idx = length (t_shape t) ->
  access_try_from t req = Ok a ->
  access_get a idx =
    if in_range_b (coords_by_name (t_shape t) req idx) (lens_of (t_shape t))
    then nth_error (t_data t) (N.to_nat (addr_by_name (t_shape t) req idx))
    else None.
Proof. exact @access_get_by_name. Qed.

Theorem C01_in_range_by_name_is_in_reported_shape : forall A (t : tensor A) req a idx,
  tensor_inv t -> length req = length (t_shape t) -> length idx = length (t_shape t) ->
  access_try_from t req = Ok a ->
  in_range_b (coords_by_name (t_shape t) req idx) (lens_of (t_shape t)) =
  in_range_b idx (lens_of (access_shape a)).
Proof. exact @in_range_by_name_iff. Qed.

Theorem C01_get_present : forall A (t : tensor A) req a idx,
  tensor_inv t -> length req = length (t_shape t) -> length idx = length (t_shape t) ->
  access_try_from t req = Ok a ->
  in_range idx (lens_of (access_shape a)) ->
  exists x, access_get a idx = Some x /\
            nth_error (t_data t) (N.to_nat (addr_by_name (t_shape t) req idx)) = Some x.
Proof. exact @access_get_present. Qed.

(* any coordinate outside its dimension (every value up to 2^64-1 and beyond): absent for reads
   and writes alike — it can never alias another element *)
Theorem C01_oob_never_aliases : forall A (t : tensor A) req a idx,
  tensor_inv t -> length req = length (t_shape t) -> length idx = length (t_shape t) ->
  access_try_from t req = Ok a ->
  ~ in_range idx (lens_of (access_shape a)) ->
  access_get a idx = None /\ forall v, access_set a idx v = None.
Proof. exact @access_get_oob. Qed.

(* writes: exactly the addressed storage cell changes *)
Theorem C01_set_exact : forall A (t : tensor A) req a idx v,
  tensor_inv t -> length req = length (t_shape t) -> length idx = length (t_shape t) ->
  access_try_from t req = Ok a ->
  in_range idx (lens_of (access_shape a)) ->
  exists a', access_set a idx v = Some a' /\
    a_tbl a' = a_tbl a /\ t_shape (a_src a') = t_shape t /\ t_strides (a_src a') = t_strides t /\
    length (t_data (a_src a')) = length (t_data t) /\
    forall k, nth_error (t_data (a_src a')) k =
              if Nat.eqb k (N.to_nat (addr_by_name (t_shape t) req idx)) then Some v
              else nth_error (t_data t) k.
Proof. exact @access_set_exact. Qed.

Theorem C01_write_no_alias : forall A (t : tensor A) req a idx1 idx2 v a',
  tensor_inv t -> length req = length (t_shape t) ->
  length idx1 = length (t_shape t) -> length idx2 = length (t_shape t) ->
  access_try_from t req = Ok a ->
  in_range idx1 (lens_of (access_shape a)) -> idx1 <> idx2 ->
  access_set a idx1 v = Some a' ->
  access_get a' idx1 = Some v /\ access_get a' idx2 = access_get a idx2.
Proof. exact @access_write_no_alias. Qed.

(* constructors: accepted exactly for unique names, non-zero lengths and a matching element
   count (that fits a usize); otherwise Err(shape) / panic; an accepted tensor satisfies the
   representation invariant the theorems above assume *)
Theorem C01_ctor_validation : forall A sh (data : list A),
  (exists t, tensor_try_from sh data = Ok t) <->
  valid_shape sh /\ elements sh = N.of_nat (length data) /\ elements sh <= usize_max.
Proof. exact @ctor_validation. Qed.

Theorem C01_ctor_rejects : forall A sh (data : list A),
  ~ (valid_shape sh /\ elements sh = N.of_nat (length data) /\ elements sh <= usize_max) ->
  tensor_try_from sh data = Err (sshape sh) /\ tensor_from sh data = Panic.
Proof. exact @ctor_rejects. Qed.

Theorem C01_ctor_establishes_invariant : forall A sh (data : list A) t,
  tensor_try_from sh data = Ok t -> tensor_inv t /\ t_shape t = sh /\ t_data t = data.
Proof. exact @try_from_inv. Qed.

(* non-vacuity: a 2x3x2 tensor addressed in the cyclic (non-involutive) order [c; a; b] meets
   every hypothesis, and index [1;0;2] (c=1, a=0, b=2) reads storage position 0*6+2*2+1 = 5 *)
Example C01_nonvacuous :
  exists t a,
    tensor_try_from [(0%nat, 2); (1%nat, 3); (2%nat, 2)] (map Z.of_nat (seq 100 12)) = Ok t /\
    access_try_from t [2%nat; 0%nat; 1%nat] = Ok a /\
    access_shape a = [(2%nat, 2); (0%nat, 2); (1%nat, 3)] /\
    in_range [1; 0; 2] (lens_of (access_shape a)) /\
    access_get a [1; 0; 2] = Some 105%Z /\
    access_get a [2; 0; 0] = None.
Proof. do 2 eexists. vm_compute. repeat split; try reflexivity; apply N.lt_0_1 || constructor. Qed.

Print Assumptions C01_new_iff_perm.
Print Assumptions C01_non_permutation_rejected.
Print Assumptions C01_tables_inverse.
Print Assumptions C01_shape_permuted.
Print Assumptions C01_get_by_name.
Print Assumptions C01_in_range_by_name_is_in_reported_shape.
Print Assumptions C01_get_present.
Print Assumptions C01_oob_never_aliases.
Print Assumptions C01_set_exact.
Print Assumptions C01_write_no_alias.
Print Assumptions C01_ctor_validation.
Print Assumptions C01_ctor_rejects.
Print Assumptions C01_ctor_establishes_invariant.
