(* C01 — Named-dimension addressing reads and writes exactly the addressed element.
   This file contains only the property theorems (closed by `exact`), their assumption audit
   and the non-vacuity example.  Definitions: Model/Shape.v, Model/Tensor.v (transcription of
   DimensionMappings, get_index_direct, Tensor::from / try_from, TensorAccess), Model/TensorFn.v
   (Tensor::from_fn over the transcribed ShapeIterator, from_source_order / from_memory_order,
   the panicking accessors), Proofs/C01P.v (specification: addr_by_name, shape_by_name),
   Proofs/C01FnP.v.
   Clause -> theorem: any ordering accepted iff permutation (C01_new_iff_perm,
   C01_non_permutation_rejected, C01_source_order_is_own_names); reads/writes exactly the element
   matched by name (C01_get_by_name, C01_get_present, C01_set_exact, C01_write_no_alias,
   C01_from_fn_get_by_name); reported shape permuted the same way (C01_shape_permuted,
   C01_tables_inverse); out-of-range coordinates absent / panicking and never aliasing, for
   coordinates of ANY size and in both build profiles (C01_oob_never_aliases,
   C01_panicking_accessors, C01_access_index_machine); constructors (the C01_ctor_ and C01_from_fn_ theorems).
   Conversions (third wave; Model/Transform.v tensor_into_matrix / matrix_into_tensor,
   Model/C01Conv.v, Proofs/C01ConvP.v): Tensor<T,2> -> Matrix keeps every element at its
   (row, column) (C01_tensor_into_matrix_elements); Matrix -> Tensor<T,2> succeeds exactly for
   distinct names, keeps every element, and its error value is the would-be shape
   (C01_matrix_into_tensor_spec); both round trips are the identity (C01_conversion_round_trips);
   the interop wrappers read / write exactly the addressed element (C01_interop_wrappers).
   Carried by the correspondence only: that shared / mutable / owned access and Clone /
   non-Clone element types are the same function (harness cross-checks, one model function),
   the const-generic instances D = 0..6, and that the trait forms (From / Into / TryFrom /
   try_into) and the shared / owned / mutable wrapper sources agree (harness codes 14xx). *)
From Coq Require Import List ZArith NArith Bool Arith Permutation.
From EasyML Require Import Base.Sx Model.Shape Model.Tensor Model.TensorFn Model.U64
     Model.Fallible Model.Transform Model.C01Conv Proofs.ShapeP Proofs.C01P Proofs.C01FnP
     Proofs.C01ConvP.
Import ListNotations.
Open Scope N_scope.

(* a name list is accepted exactly when it is a permutation of the tensor's names; everything
   else (duplicates, foreign names) is an Err carrying (actual shape, requested names) from the
   fallible constructor and a panic from the panicking one *)
Theorem C01_new_iff_perm : forall A (t : tensor A) req,
  NoDup (names_of (t_shape t)) -> length req = length (t_shape t) ->
  ((exists a, access_try_from t req = Ok a) <-> Permutation (names_of (t_shape t)) req).
Proof. exact @access_try_from_iff_perm. Qed.

Theorem C01_non_permutation_rejected : forall A (t : tensor A) req,
  NoDup (names_of (t_shape t)) -> length req = length (t_shape t) ->
  ~ Permutation (names_of (t_shape t)) req ->
  access_try_from t req = Err (SL [sshape (t_shape t); snames req]) /\ access_from t req = Panic.
Proof. exact @access_rejects. Qed.

(* the two internal tables are mutually inverse permutations of 0..D-1 *)
Theorem C01_tables_inverse : forall src req tbl, NoDup src -> length req = length src ->
  dm_new src req = Some tbl -> forall d, (d < length src)%nat ->
  nth (nth d (dm_s2r tbl) 0%nat) (dm_r2s tbl) 0%nat = d /\
  nth (nth d (dm_r2s tbl) 0%nat) (dm_s2r tbl) 0%nat = d.
Proof. exact tables_inverse. Qed.

(* the reported shape is the tensor's shape permuted the same way, by name *)
Theorem C01_shape_permuted : forall A (t : tensor A) req a,
  NoDup (names_of (t_shape t)) -> length req = length (t_shape t) ->
  access_try_from t req = Ok a ->
  access_shape a = shape_by_name (t_shape t) req.
Proof. exact @access_shape_by_name. Qed.

(* reads: present exactly when every coordinate, matched by name, is inside its dimension, and
   then the element read is the one at the row-major position of the by-name coordinates *)
Theorem C01_get_by_name : forall A (t : tensor A) req a idx,
  tensor_inv t -> length req = length (t_shape t) -> length idx = length (t_shape t) ->
  access_try_from t req = Ok a ->
  access_get a idx =
    if in_range_b (coords_by_name (t_shape t) req idx) (lens_of (t_shape t))
    then nth_error (t_data t) (N.to_nat (addr_by_name (t_shape t) req idx))
    else None.
Proof. exact @access_get_by_name. Qed.

Theorem C01_in_range_by_name_is_in_reported_shape : forall A (t : tensor A) req a idx,
  tensor_inv t -> length req = length (t_shape t) -> length idx = length (t_shape t) ->
  access_try_from t req = Ok a ->
  in_range_b (coords_by_name (t_shape t) req idx) (lens_of (t_shape t)) =
  in_range_b idx (lens_of (access_shape a)).
Proof. exact @in_range_by_name_iff. Qed.

Theorem C01_get_present : forall A (t : tensor A) req a idx,
  tensor_inv t -> length req = length (t_shape t) -> length idx = length (t_shape t) ->
  access_try_from t req = Ok a ->
  in_range idx (lens_of (access_shape a)) ->
  exists x, access_get a idx = Some x /\
            nth_error (t_data t) (N.to_nat (addr_by_name (t_shape t) req idx)) = Some x.
Proof. exact @access_get_present. Qed.

(* any coordinate outside its dimension (every value up to 2^64-1 and beyond): absent for reads
   and writes alike — it can never alias another element *)
Theorem C01_oob_never_aliases : forall A (t : tensor A) req a idx,
  tensor_inv t -> length req = length (t_shape t) -> length idx = length (t_shape t) ->
  access_try_from t req = Ok a ->
  ~ in_range idx (lens_of (access_shape a)) ->
  access_get a idx = None /\ forall v, access_set a idx v = None.
Proof. exact @access_get_oob. Qed.

(* writes: exactly the addressed storage cell changes *)
Theorem C01_set_exact : forall A (t : tensor A) req a idx v,
  tensor_inv t -> length req = length (t_shape t) -> length idx = length (t_shape t) ->
  access_try_from t req = Ok a ->
  in_range idx (lens_of (access_shape a)) ->
  exists a', access_set a idx v = Some a' /\
    a_tbl a' = a_tbl a /\ t_shape (a_src a') = t_shape t /\ t_strides (a_src a') = t_strides t /\
    length (t_data (a_src a')) = length (t_data t) /\
    forall k, nth_error (t_data (a_src a')) k =
              if Nat.eqb k (N.to_nat (addr_by_name (t_shape t) req idx)) then Some v
              else nth_error (t_data t) k.
Proof. exact @access_set_exact. Qed.

Theorem C01_write_no_alias : forall A (t : tensor A) req a idx1 idx2 v a',
  tensor_inv t -> length req = length (t_shape t) ->
  length idx1 = length (t_shape t) -> length idx2 = length (t_shape t) ->
  access_try_from t req = Ok a ->
  in_range idx1 (lens_of (access_shape a)) -> idx1 <> idx2 ->
  access_set a idx1 v = Some a' ->
  access_get a' idx1 = Some v /\ access_get a' idx2 = access_get a idx2.
Proof. exact @access_write_no_alias. Qed.

(* constructors: accepted exactly for unique names, non-zero lengths and a matching element
   count (that fits a usize); otherwise Err(shape) / panic; an accepted tensor satisfies the
   representation invariant the theorems above assume *)
Theorem C01_ctor_validation : forall A sh (data : list A),
  (exists t, tensor_try_from sh data = Ok t) <->
  valid_shape sh /\ elements sh = N.of_nat (length data) /\ elements sh <= usize_max.
Proof. exact @ctor_validation. Qed.

Theorem C01_ctor_rejects : forall A sh (data : list A),
  ~ (valid_shape sh /\ elements sh = N.of_nat (length data) /\ elements sh <= usize_max) ->
  tensor_try_from sh data = Err (sshape sh) /\ tensor_from sh data = Panic.
Proof. exact @ctor_rejects. Qed.

Theorem C01_ctor_establishes_invariant : forall A sh (data : list A) t,
  tensor_try_from sh data = Ok t -> tensor_inv t /\ t_shape t = sh /\ t_data t = data.
Proof. exact @try_from_inv. Qed.

(* Tensor::from_fn: accepted exactly for a valid shape (whose element count fits a usize),
   otherwise a panic; it IS Tensor::from on the row-major enumeration of the shape's indexes *)
Theorem C01_from_fn_is_from : forall A sh (f : list N -> A),
  tensor_from_fn sh f = tensor_from sh (map f (all_indexes (lens_of sh))).
Proof. exact @from_fn_as_from. Qed.

Theorem C01_from_fn_validation : forall A sh (f : list N -> A),
  ((exists t, tensor_from_fn sh f = Ok t) <-> valid_shape sh /\ elements sh <= usize_max) /\
  (~ (valid_shape sh /\ elements sh <= usize_max) -> tensor_from_fn sh f = Panic).
Proof. intros A sh f. split; [exact (from_fn_ok_iff sh f)|exact (from_fn_rejects sh f)]. Qed.

(* ... and the tensor it builds holds, at EVERY index tuple, the producer's value for that tuple
   (absent outside the shape), also when read through any accepted ordering of the names *)
Theorem C01_from_fn_get : forall A sh (f : list N -> A) t,
  tensor_from_fn sh f = Ok t ->
  t_shape t = sh /\ tensor_inv t /\ t_data t = map f (all_indexes (lens_of sh)) /\
  forall idx, t_get t idx = if in_range_b idx (lens_of sh) then Some (f idx) else None.
Proof. exact @from_fn_get. Qed.

Theorem C01_from_fn_get_by_name : forall A sh (f : list N -> A) t req a idx,
  tensor_from_fn sh f = Ok t -> length req = length sh -> length idx = length sh ->
  access_try_from t req = Ok a ->
  access_get a idx =
    if in_range_b idx (lens_of (access_shape a)) then Some (f (coords_by_name sh req idx)) else None.
Proof. exact @from_fn_get_by_name. Qed.

(* Tensor::index / TensorAccess::from_source_order / from_memory_order: the same access as
   index_by(the tensor's own names), reporting the tensor's shape and addressing it directly *)
Theorem C01_source_order_is_own_names : forall A (t : tensor A),
  access_try_from t (names_of (t_shape t)) = Ok (access_from_source_order t) /\
  access_from_memory_order t = Ok (Some (access_from_source_order t)) /\
  access_shape (access_from_source_order t) = t_shape t /\
  forall idx, length idx = length (t_shape t) ->
    access_get (access_from_source_order t) idx = t_get t idx.
Proof.
  intros A t. destruct (source_order_is_own_names t) as [H1 H2].
  destruct (source_order_access t) as [H3 H4]. repeat split; try assumption.
  intros idx Hl. exact (proj1 (H4 idx Hl)).
Qed.

(* the panicking accessors (get / get_ref / get_ref_mut) panic exactly where the fallible ones
   report absence and otherwise return the same element *)
Theorem C01_panicking_accessors : forall A (a : access A) idx,
  (access_get_or_panic a idx = Panic <-> access_get a idx = None) /\
  (forall x, access_get_or_panic a idx = Ok x <-> access_get a idx = Some x).
Proof. exact @get_or_panic_spec. Qed.

(* machine arithmetic: for every tensor a validating constructor accepts, every accepted
   ordering and EVERY index tuple (coordinates up to usize::MAX and beyond), the position
   computation `index += n * strides[d]` neither panics in an overflow-checking build nor wraps
   in a release build: it is the ideal position of C01_get_by_name or absent *)
Theorem C01_access_index_machine : forall A (m : mode) sh (data : list A) t req a idx,
  tensor_try_from sh data = Ok t -> access_try_from t req = Ok a ->
  access_index_m m a idx =
  Ok (get_index_direct (map_dimensions_to_source (a_tbl a) idx 0) (t_strides t) (t_shape t)).
Proof. exact @access_index_machine. Qed.

(* ---- conversions between 2-D tensors and matrices (a matrix is (rows, columns, row-major
   data); mat_get is Matrix::try_get_reference) ---- *)

(* From<Tensor<T, 2>> for Matrix<T> / Tensor::into_matrix on any tensor a validating constructor
   accepts: succeeds (whenever the element count is a usize - always so for a real Vec), the
   result is (first length, second length, the same data), and the matrix element at (i, j) IS
   the tensor element at [i; j] for EVERY i, j (absent together outside), namely
   data[i * columns + j] *)
Theorem C01_tensor_into_matrix_elements : forall A (t : tensor A) a r b c,
  tensor_inv t -> t_shape t = [(a, r); (b, c)] ->
  (r * c <= usize_max -> tensor_into_matrix t = Ok (r, c, t_data t)) /\
  (forall m, tensor_into_matrix t = Ok m -> m = (r, c, t_data t)) /\
  (forall i j, mat_get (r, c, t_data t) i j = t_get t [i; j]) /\
  (forall i j, i < r -> j < c ->
     t_get t [i; j] = nth_error (t_data t) (N.to_nat (i * c + j))) /\
  (forall i j, ~ (i < r /\ j < c) -> t_get t [i; j] = None).
Proof. exact @into_matrix_spec. Qed.

(* TryFrom<(Matrix<T>, [Dimension; 2])> for Tensor<T, 2> / Matrix::into_tensor on any matrix
   (rows * columns = number of elements > 0): Ok exactly when the two names differ; the tensor
   satisfies the invariant, has shape [(rn, rows); (cn, columns)], the same data, and reads the
   matrix element at every [i; j]; for equal names the error value is exactly that shape *)
Theorem C01_matrix_into_tensor_spec : forall A r c (d : list A) rn cn,
  r * c = N.of_nat (length d) -> 0 < r * c -> r * c <= usize_max ->
  (rn <> cn ->
     exists t, matrix_into_tensor r c d rn cn = Ok t /\ tensor_inv t /\
               t_shape t = [(rn, r); (cn, c)] /\ t_data t = d /\
               (forall i j, t_get t [i; j] = mat_get (r, c, d) i j) /\
               (forall i j, i < r -> j < c ->
                  t_get t [i; j] = nth_error d (N.to_nat (i * c + j)))) /\
  (rn = cn -> matrix_into_tensor r c d rn cn = Err (sshape [(rn, r); (cn, c)])) /\
  ((exists t, matrix_into_tensor r c d rn cn = Ok t) <-> rn <> cn).
Proof. exact @into_tensor_spec. Qed.

(* both round trips are the identity: matrix -> tensor -> matrix on (rows, columns, data), and
   tensor -> matrix -> tensor (with the tensor's own two names) on the whole tensor *)
Theorem C01_conversion_round_trips : forall A,
  (forall r c (d : list A) rn cn t,
     r * c = N.of_nat (length d) -> 0 < r * c -> r * c <= usize_max ->
     matrix_into_tensor r c d rn cn = Ok t -> tensor_into_matrix t = Ok (r, c, d)) /\
  (forall (t : tensor A) a r b c m,
     tensor_inv t -> t_shape t = [(a, r); (b, c)] -> tensor_into_matrix t = Ok m ->
     m = (r, c, t_data t) /\ matrix_into_tensor r c (t_data t) a b = Ok t).
Proof. intros A. split; [exact (@matrix_tensor_matrix A)|exact (@tensor_matrix_tensor A)]. Qed.

(* the interop wrappers: TensorRefMatrix::with_names over a matrix is Ok exactly for distinct
   names (error value = the would-be shape), reports [(rn, rows); (cn, columns)] and reads the
   matrix element at every [i; j]; a write through its mutable face (= Matrix::
   try_get_reference_mut) changes exactly the addressed element and is absent outside.
   MatrixRefTensor's getters are the tensor's own at [row; column] by definition (mrt_get), so
   C01_tensor_into_matrix_elements / C01_set_exact speak about them directly *)
Theorem C01_interop_wrappers : forall A r c (d : list A) rn cn,
  0 < r -> 0 < c -> r * c = N.of_nat (length d) ->
  (rn <> cn -> exists w, trm_with_names (r, c, d) rn cn = Ok w /\
      trm_shape w = [(rn, r); (cn, c)] /\
      forall i j, trm_get w [i; j] = mat_get (r, c, d) i j) /\
  (rn = cn -> trm_with_names (r, c, d) rn cn = Err (sshape [(rn, r); (cn, c)])) /\
  (forall i j v, i < r /\ j < c ->
     exists d', mat_set (r, c, d) i j v = Some (r, c, d') /\
       forall i' j', mat_get (r, c, d') i' j' =
         if (i' =? i) && (j' =? j) then Some v else mat_get (r, c, d) i' j') /\
  (forall i j v, ~ (i < r /\ j < c) -> mat_set (r, c, d) i j v = None).
Proof.
  intros A r c d rn cn Hr Hc Hlen. destruct (trm_spec r c d rn cn Hr Hc) as [H1 H2].
  split; [exact H1|]. split; [exact H2|].
  split; intros i j v; [exact (proj1 (mat_set_exact r c d i j v Hlen))
                       |exact (proj2 (mat_set_exact r c d i j v Hlen))].
Qed.

(* non-vacuity: a 2x3x2 tensor addressed in the cyclic (non-involutive) order [c; a; b] meets
   every hypothesis, and index [1;0;2] (c=1, a=0, b=2) reads storage position 0*6+2*2+1 = 5 *)
Example C01_nonvacuous :
  exists t a,
    tensor_try_from [(0%nat, 2); (1%nat, 3); (2%nat, 2)] (map Z.of_nat (seq 100 12)) = Ok t /\
    access_try_from t [2%nat; 0%nat; 1%nat] = Ok a /\
    access_shape a = [(2%nat, 2); (0%nat, 2); (1%nat, 3)] /\
    in_range [1; 0; 2] (lens_of (access_shape a)) /\
    access_get a [1; 0; 2] = Some 105%Z /\
    access_get a [2; 0; 0] = None.
Proof. do 2 eexists. vm_compute. repeat split; try reflexivity; apply N.lt_0_1 || constructor. Qed.

(* from_fn on the same shape with producer [a;b;c] |-> 100a+10b+c, read in the order [c;a;b]:
   index [1;0;2] is (c=1, a=0, b=2), i.e. the producer's value at [0;2;1]; 2^63 in the position
   of the first stored dimension is absent in both build profiles *)
Example C01_nonvacuous_from_fn :
  exists t a,
    tensor_from_fn [(0%nat, 2); (1%nat, 3); (2%nat, 2)]
      (fun idx => fold_left (fun acc i => 10 * acc + i) idx 0) = Ok t /\
    access_try_from t [2%nat; 0%nat; 1%nat] = Ok a /\
    access_get a [1; 0; 2] = Some 21 /\
    access_index_m Release a [0; 9223372036854775808; 0] = Ok None /\
    access_index_m Debug a [0; 9223372036854775808; 0] = Ok None.
Proof. do 2 eexists. repeat (split; [vm_compute; reflexivity|]). vm_compute; reflexivity. Qed.

(* conversions: the 2 x 3 matrix 0..5 becomes the tensor [(0, 2); (1, 3)] whose element [1; 2]
   is 5, which converts back to the same matrix; equal names give the shape as the error *)
Example C01_nonvacuous_conversions :
  exists t,
    matrix_into_tensor 2 3 (map Z.of_nat (seq 0 6)) 0%nat 1%nat = Ok t /\ tensor_inv t /\
    t_get t [1; 2] = Some 5%Z /\ t_get t [2; 0] = None /\ t_get t [0; 3] = None /\
    tensor_into_matrix t = Ok (2, 3, map Z.of_nat (seq 0 6)) /\
    mat_get (2, 3, map Z.of_nat (seq 0 6)) 1 2 = Some 5%Z /\
    matrix_into_tensor 2 3 (map Z.of_nat (seq 0 6)) 4%nat 4%nat
      = Err (sshape [(4%nat, 2); (4%nat, 3)]) /\
    (2 * 3 = N.of_nat (length (map Z.of_nat (seq 0 6))) /\ 0 < 2 * 3 /\ 2 * 3 <= usize_max).
Proof.
  destruct (into_tensor_spec 2 3 (map Z.of_nat (seq 0 6)) 0%nat 1%nat) as [Hok _];
    [reflexivity|reflexivity|discriminate|].
  destruct (Hok ltac:(discriminate)) as [t [Ht [Hinv _]]]. exists t.
  split; [exact Ht|]. split; [exact Hinv|].
  vm_compute in Ht. injection Ht as <-.
  repeat (split; [vm_compute; reflexivity|]).
  repeat split; try reflexivity; discriminate.
Qed.

Print Assumptions C01_new_iff_perm.
Print Assumptions C01_non_permutation_rejected.
Print Assumptions C01_tables_inverse.
Print Assumptions C01_shape_permuted.
Print Assumptions C01_get_by_name.
Print Assumptions C01_in_range_by_name_is_in_reported_shape.
Print Assumptions C01_get_present.
Print Assumptions C01_oob_never_aliases.
Print Assumptions C01_set_exact.
Print Assumptions C01_write_no_alias.
Print Assumptions C01_ctor_validation.
Print Assumptions C01_ctor_rejects.
Print Assumptions C01_ctor_establishes_invariant.
Print Assumptions C01_from_fn_is_from.
Print Assumptions C01_from_fn_validation.
Print Assumptions C01_from_fn_get.
Print Assumptions C01_from_fn_get_by_name.
Print Assumptions C01_source_order_is_own_names.
Print Assumptions C01_panicking_accessors.
Print Assumptions C01_access_index_machine.
Print Assumptions C01_tensor_into_matrix_elements.
Print Assumptions C01_matrix_into_tensor_spec.
Print Assumptions C01_conversion_round_trips.
Print Assumptions C01_interop_wrappers.
