(* C13 — Tensor transformations equal their lazy views; equality and similarity laws hold.
   Only the property theorems (closed by `exact`), the assumption audit and a non-vacuity
   example.  Model: Model/Transform.v (transcription of the Tensor and TensorView methods and of
   tensor_equality / tensor_similarity), Model/TSource.v (sources: tensors and view adaptors),
   Model/ShapeIter.v (the iterators the methods are written against).
   Specification vocabulary (Proofs/C13P.v):
     materialises t sh get   t has shape sh, row-major strides, and t_get t idx = get idx at every
                             in-range idx — "t is the lazy view, materialised"
     good_view s             the TensorRef contract of a source: valid view shape, element count
                             within usize, an element at every in-range index
     tensor_inv t            what the validating constructors establish (Proofs/C01P.v)
     constructed s           s was built by the constructors of the source-term language
                             (Tensor::from, then any chain of TensorReverse / TensorRange /
                             TensorMask / TensorAccess / TensorTranspose / TensorRename ::from
                             that returned Ok) — Proofs/SrcWfP.v
     contract s              the TensorRef contract: valid view shape, element count within
                             usize, an element EXACTLY at the indexes inside the view shape
   The theorems of the first part are stated for any source satisfying good_view / src_total;
   C13_contract proves that contract for every constructed source (by induction on the term),
   and the `_constructed` theorems at the end restate the main results with no hypothesis on
   the source other than `constructed`.
   Session 3 (Model/TransformG.v, Proofs/C13GenP.v): the TensorView methods and tensor_equality /
   tensor_similarity are generic in the source; `gsrc A` = (view_shape, get_reference) is an
   abstract TensorRef source and g_map / g_reorder / g_equality / ... the same transcriptions
   written against it.  `of_tsrc s` embeds the source terms, `of_cview c store` every constructed
   view of the C02 algebra (Model/Views.v: also TensorIndex, TensorExpansion, TensorStack,
   TensorChain, wrappers, matrix-backed leaves, at any depth) over leaf storage `store`.
     g_contract g    the TensorRef contract of an abstract source (valid shape, element count
                     within usize, an element at every in-range index)
     g_equiv g s     g exposes the shape and the in-range elements of the source term s
   C13_generic_is_model: on source terms the generic transcriptions are those of Model/Transform.v;
   C13_c02_view_meets_contract: every constructed C02 view meets g_contract (by C02's theorems);
   the `_over_any_source` theorems: materialise / equality / similarity for EVERY source meeting
   the contract, hence for every C02 view term.  Hypothesis kept explicit there:
   elements (view shape) <= usize::MAX (a view whose index space exceeds usize cannot be
   materialised at all), and `store` covers the leaves.
   Third wave (Model/TransformMutG.v, Proofs/C13MutGenP.v, C13LeavesP.v, C13ReorderP.v):
   (i) the MUTABLE TensorView methods map_mut / map_mut_with_index are transcribed against the
   abstract TensorMut face `tsource` of Model/IterG.v and proved for every lens-like source and for
   EVERY constructed C02 view with distinct leaf objects: exactly the stored elements some index of
   the view resolves to change, to f(index, old); every other stored element is untouched; the view
   afterwards reads the allocating map_with_index (C13_c02_view_map_mut*, C13_map_mut_over_constructed_view);
   (ii) first / scalar / into_scalar / elementwise_with_index over any source meeting the contract;
   (iii) the hypotheses of the `_over_any_source` theorems are discharged for constructed views
   from facts about the LEAF containers only (distinct objects, data.len() = element count, together
   at most usize::MAX values): C13_constructed_view_meets_contract; C13_elements_hypothesis_needed
   shows that `v_ctor v = Ok c` alone does not suffice (a leaf stacked with itself);
   (iv) reorder_mut IS `if D == 2 && is_square then swap loop else *self = self.reorder(..)`
   (C13_reorder_mut_paths), the fallback is literally reorder for every tensor value and every
   shape outside the guard, the swap loop runs exactly for [(a, n); (b, n)], and the shape of a
   transposition is by NAME in the requested (not the inverse) order (C13_transpose_shape_by_name).
   The guard is re-read from the Rust source on every run (tools/props/c13.py). *)
From Coq Require Import List ZArith NArith Bool Arith Permutation.
From EasyML Require Import Base.Sx Model.Shape Model.Tensor Model.TSource Model.ShapeIter
  Model.Transform Model.TransformG Proofs.ShapeP Proofs.C01P Proofs.OdometerP Proofs.C09P Proofs.C13P
  Proofs.C13bP Proofs.SwapLoopP Proofs.C13SymP Proofs.C09OwnedP Proofs.C13MutP Proofs.SrcWfP
  Proofs.SrcLensP Proofs.C13CtorP Proofs.C13GenP
  Model.IterG Model.TransformMutG Proofs.C09ViewsP Proofs.C13MutGenP Proofs.C13LeavesP Proofs.C13ReorderP Proofs.C13EqTransP Proofs.C13SimNamesP.
From EasyML Require Model.Views Proofs.C02P Proofs.C02Inj.
Import ListNotations.
Open Scope N_scope.

(* what `source.iter()` / `iter_reference()` collect: the elements at all indexes, row-major *)
Theorem C13_iter_collects : forall A (s : tsrc A),
  iter_values s = somes (map (src_get s) (all_indexes (lens_of (src_shape s)))).
Proof. exact @iter_values_spec. Qed.

(* reorder (Tensor and TensorView): the TensorAccess view in the new order, materialised;
   rejected (panic) exactly when DimensionMappings rejects the names (C01: non-permutations) *)
Theorem C13_materialise_reorder : forall A (s : tsrc A) dims tbl,
  dm_new (names_of (src_shape s)) dims = Some tbl -> good_view (TAccess s tbl) ->
  exists t, reorder s dims = Ok t /\
            materialises t (src_shape (TAccess s tbl)) (src_get (TAccess s tbl)).
Proof. exact @reorder_materialises. Qed.

Theorem C13_reorder_rejects : forall A (s : tsrc A) dims,
  dm_new (names_of (src_shape s)) dims = None ->
  reorder s dims = Panic /\ transpose s dims = Panic.
Proof. exact @reorder_rejects. Qed.

(* transpose: the TensorTranspose view (data reordered, names kept in their order), materialised *)
Theorem C13_materialise_transpose : forall A (s : tsrc A) dims tbl,
  dm_new (names_of (src_shape s)) dims = Some tbl -> good_view (TAccess s tbl) ->
  exists t, transpose s dims = Ok t /\
            materialises t (src_shape (TTranspose s tbl)) (src_get (TTranspose s tbl)).
Proof. exact @transpose_materialises. Qed.

(* map / map_with_index / elementwise / elementwise_with_index of a view: the pointwise view *)
Theorem C13_materialise_map : forall A B (f : A -> B) (s : tsrc A), good_view s ->
  exists t, view_map f s = Ok t /\
            materialises t (src_shape s) (fun idx => option_map f (src_get s idx)).
Proof. exact @view_map_materialises. Qed.

Theorem C13_materialise_map_with_index : forall A B (f : list N -> A -> B) (s : tsrc A), good_view s ->
  exists t, view_map_with_index f s = Ok t /\
            materialises t (src_shape s) (fun idx => option_map (f idx) (src_get s idx)).
Proof. exact @view_map_with_index_materialises. Qed.

Theorem C13_materialise_elementwise : forall A (f : A -> A -> A) (l r : tsrc A),
  good_view l -> good_view r ->
  (src_shape l = src_shape r ->
   exists t, view_elementwise f l r = Ok t /\ materialises t (src_shape l) (zip_get f l r)) /\
  (src_shape l <> src_shape r -> view_elementwise f l r = Panic).
Proof. exact @view_elementwise_materialises. Qed.

Theorem C13_materialise_elementwise_with_index : forall A (f : list N -> A -> A -> A) (l r : tsrc A),
  good_view l -> good_view r -> src_shape l = src_shape r ->
  exists t, view_elementwise_with_index f l r = Ok t /\
            materialises t (src_shape l) (fun idx => zip_get (f idx) l r idx).
Proof. exact @view_elementwise_with_index_materialises. Qed.

(* a Tensor is its own view: iterating it yields its storage in order, and the Tensor methods
   (written against the storage) equal the TensorView methods (written against the iterators) *)
Theorem C13_tensor_is_its_own_view : forall A (t : tensor A), tensor_inv t ->
  view_elems (TBase t) = map Some (t_data t) /\ iter_values (TBase t) = t_data t /\
  src_total (TBase t).
Proof. exact @tensor_view_elems. Qed.

Theorem C13_tensor_map_eq_view_map : forall A B (f : A -> B) (t : tensor A),
  tensor_inv t -> elements (t_shape t) <= usize_max ->
  view_map f (TBase t) = Ok (tensor_map f t).
Proof. exact @tensor_map_eq_view_map. Qed.

Theorem C13_tensor_map_with_index_eq_view : forall A B (f : list N -> A -> B) (t : tensor A),
  tensor_inv t -> elements (t_shape t) <= usize_max ->
  view_map_with_index f (TBase t) = Ok (tensor_map_with_index f t).
Proof. exact @tensor_map_with_index_eq_view. Qed.

Theorem C13_tensor_elementwise_eq_view : forall A (f : A -> A -> A) (t : tensor A) (rhs : tsrc A),
  tensor_inv t -> elements (t_shape t) <= usize_max -> good_view rhs ->
  tensor_elementwise f t rhs = view_elementwise f (TBase t) rhs.
Proof. exact @tensor_elementwise_eq_view. Qed.

Theorem C13_tensor_elementwise_with_index_eq_view :
  forall A (f : list N -> A -> A -> A) (t : tensor A) (rhs : tsrc A),
  tensor_inv t -> elements (t_shape t) <= usize_max -> good_view rhs ->
  tensor_elementwise_with_index f t rhs = view_elementwise_with_index f (TBase t) rhs.
Proof. exact @tensor_elementwise_with_index_eq_view. Qed.

Theorem C13_first_eq_view_first : forall A (t : tensor A), tensor_inv t ->
  tensor_first t = view_first (TBase t).
Proof. exact @tensor_first_eq_view_first. Qed.

(* in-place = allocating, for every shape *)
Theorem C13_map_mut_eq_map : forall A (f : A -> A) (t : tensor A), tensor_map_mut f t = tensor_map f t.
Proof. exact @tensor_map_mut_eq_map. Qed.

(* map_mut_with_index: the sequential write loop through the mutable with-index iterator leaves
   f(index, element) at every index (for any source family whose writes behave like a lens), and
   on a Tensor it equals the allocating map_with_index *)
Theorem C13_view_map_mut_with_index : forall A (f : list N -> A -> A) (P : tsrc A -> Prop),
  (forall s idx v, P s -> in_range idx (lens_of (src_shape s)) ->
     exists s', src_set s idx v = Some s' /\ P s' /\ src_shape s' = src_shape s /\
                src_get s' idx = Some v /\
                forall idx', in_range idx' (lens_of (src_shape s)) -> idx' <> idx ->
                             src_get s' idx' = src_get s idx') ->
  (forall s idx, P s -> in_range idx (lens_of (src_shape s)) -> exists v, src_get s idx = Some v) ->
  forall s : tsrc A, P s -> lens_pos (lens_of (src_shape s)) ->
  let s' := view_map_mut_with_index f s in
  P s' /\ src_shape s' = src_shape s /\
  forall x, in_range x (lens_of (src_shape s)) -> src_get s' x = option_map (f x) (src_get s x).
Proof. exact @view_map_mut_with_index_spec. Qed.

Theorem C13_map_mut_with_index_eq_map_with_index : forall A (f : list N -> A -> A) (t : tensor A),
  tensor_inv t -> elements (t_shape t) <= usize_max ->
  tensor_map_mut_with_index f t = tensor_map_with_index f t.
Proof. exact @tensor_map_mut_with_index_eq. Qed.

(* the square 2-D loop of reorder_mut with the two dimensions exchanged is the transposition,
   for every side length n *)
Theorem C13_swap_loop_transposes : forall A (t : tensor A) a b n,
  tensor_inv t -> t_shape t = [(a, n); (b, n)] ->
  exists t', fold_left (swap_step swap_tbl) (all_indexes [n; n]) (Some t) = Some t' /\
    same_frame t t' /\
    forall i j, i < n -> j < n ->
      nth_error (t_data t') (N.to_nat (i * n + j)) = nth_error (t_data t) (N.to_nat (j * n + i)).
Proof. exact @swap_loop_transposes. Qed.

Theorem C13_in_place_eq_allocating : forall A (t : tensor A) dims,
  tensor_inv t -> elements (t_shape t) <= usize_max -> length dims = length (t_shape t) ->
  reorder_mut t dims = reorder (TBase t) dims.
Proof. exact @reorder_mut_eq_reorder. Qed.

Theorem C13_transpose_mut_eq_transpose : forall A (t : tensor A) dims,
  tensor_inv t -> elements (t_shape t) <= usize_max -> length dims = length (t_shape t) ->
  transpose_mut t dims = transpose (TBase t) dims.
Proof. exact @transpose_mut_eq_transpose. Qed.

(* reshape: both forms agree; accepted exactly for a valid shape with the same element count;
   the row-major data is kept (an index of the new shape reads the old storage at its row-major
   position); rename: data, lengths and strides kept, names replaced, duplicates rejected *)
Theorem C13_reshape : forall A (t : tensor A) (sh : shape),
  reshape_mut t sh = reshape_owned t sh /\
  ((valid_shape sh /\ elements sh = N.of_nat (length (t_data t)) /\ elements sh <= usize_max) ->
   reshape_mut t sh = Ok (mkTensor (t_data t) sh (compute_strides sh))) /\
  (~ (valid_shape sh /\ elements sh = N.of_nat (length (t_data t)) /\ elements sh <= usize_max) ->
   reshape_mut t sh = Panic).
Proof. exact @reshape_spec. Qed.

Theorem C13_reshape_reads : forall A (t : tensor A) (sh : shape) idx,
  valid_shape sh -> elements sh = N.of_nat (length (t_data t)) -> elements sh <= usize_max ->
  in_range idx (lens_of sh) ->
  t_get (mkTensor (t_data t) sh (compute_strides sh)) idx =
  nth_error (t_data t) (N.to_nat (flat idx (lens_of sh))).
Proof. exact @reshape_reads. Qed.

Theorem C13_rename : forall A (t : tensor A) dims, length dims = length (t_shape t) ->
  (NoDup dims -> exists t', rename t dims = Ok t' /\ t_data t' = t_data t /\
                            t_strides t' = t_strides t /\ names_of (t_shape t') = dims /\
                            lens_of (t_shape t') = lens_of (t_shape t)) /\
  (~ NoDup dims -> rename t dims = Panic).
Proof. exact @rename_spec. Qed.

(* equality: exactly same shape (names, order, lengths) and the same element at every index *)
Theorem C13_eq_iff : forall A (eqb : A -> A -> bool),
  (forall x y, eqb x y = true <-> x = y) ->
  forall l r : tsrc A, src_total l -> src_total r ->
  (tensor_equality eqb l r = true <->
   src_shape l = src_shape r /\
   forall idx, in_range idx (lens_of (src_shape l)) -> src_get l idx = src_get r idx).
Proof. exact @equality_iff. Qed.

Theorem C13_eq_refl : forall A (eqb : A -> A -> bool),
  (forall x y, eqb x y = true <-> x = y) -> forall l : tsrc A, tensor_equality eqb l l = true.
Proof. exact @equality_refl. Qed.

Theorem C13_eq_sym : forall A (eqb : A -> A -> bool),
  (forall x y, eqb x y = true <-> x = y) ->
  forall l r : tsrc A, tensor_equality eqb l r = tensor_equality eqb r l.
Proof. exact @equality_sym. Qed.

(* ... and transitive: with C13_eq_refl and C13_eq_sym, == is an equivalence relation on sources that
   meet the TensorRef contract *)
Theorem C13_eq_trans : forall A (eqb : A -> A -> bool),
  (forall x y, eqb x y = true <-> x = y) ->
  forall l m r : tsrc A, src_total l -> src_total m -> src_total r ->
  tensor_equality eqb l m = true -> tensor_equality eqb m r = true -> tensor_equality eqb l r = true.
Proof. exact @equality_trans. Qed.

(* similarity: exactly when reordering r's dimensions into l's name order (a TensorAccess over
   r) makes the two equal *)
Theorem C13_similar_iff : forall A (eqb : A -> A -> bool) (l r : tsrc A),
  tensor_similarity eqb l r = true <->
  exists tbl, dm_new (names_of (src_shape r)) (names_of (src_shape l)) = Some tbl /\
              tensor_equality eqb l (TAccess r tbl) = true.
Proof. exact @similarity_iff. Qed.

(* ... equivalently: exactly when SOME accepted reordering of r's dimensions makes them equal
   (such an ordering is necessarily l's name order) *)
Theorem C13_similar_iff_some_reordering : forall A (eqb : A -> A -> bool) (l r : tsrc A),
  NoDup (names_of (src_shape r)) ->
  (tensor_similarity eqb l r = true <->
   exists dims tbl, length dims = length (src_shape r) /\
                    dm_new (names_of (src_shape r)) dims = Some tbl /\
                    tensor_equality eqb l (TAccess r tbl) = true).
Proof. exact @similarity_iff_some_reordering. Qed.

(* similar sources have the same SET of dimension names: the right one's names are a permutation of the
   left one's (D is equal by typing: Similar relates sources of one dimensionality) *)
Theorem C13_similar_names_perm : forall A (eqb : A -> A -> bool) (l r : tsrc A),
  NoDup (names_of (src_shape r)) -> length (src_shape l) = length (src_shape r) ->
  tensor_similarity eqb l r = true ->
  Permutation (names_of (src_shape r)) (names_of (src_shape l)).
Proof. exact @similarity_names_perm. Qed.

(* similarity is symmetric (for sources meeting the TensorRef contract, with valid names) *)
Theorem C13_similar_sym : forall A (eqb : A -> A -> bool),
  (forall x y, eqb x y = true <-> x = y) ->
  forall l r : tsrc A, src_total l -> src_total r ->
  NoDup (names_of (src_shape l)) -> NoDup (names_of (src_shape r)) ->
  length (src_shape l) = length (src_shape r) ->
  tensor_similarity eqb l r = tensor_similarity eqb r l.
Proof. exact @similarity_sym. Qed.

(* a reordered (TensorAccess) view of a total source is total: in-range indexes of the view map
   to in-range indexes of the source *)
Theorem C13_access_total : forall A (s : tsrc A) req tbl,
  NoDup (names_of (src_shape s)) -> length req = length (src_shape s) ->
  dm_new (names_of (src_shape s)) req = Some tbl ->
  src_total s -> src_total (TAccess s tbl).
Proof. exact @access_total. Qed.

Theorem C13_eq_implies_similar : forall A (eqb : A -> A -> bool) (l r : tsrc A),
  tensor_equality eqb l r = true -> tensor_similarity eqb l r = true.
Proof. exact @equality_implies_similarity. Qed.

Theorem C13_similar_refl : forall A (eqb : A -> A -> bool),
  (forall x y, eqb x y = true <-> x = y) -> forall l : tsrc A, tensor_similarity eqb l l = true.
Proof. exact @similarity_refl. Qed.

(* ---------------- every constructed source meets the contract ---------------- *)

(* the TensorRef contract, by induction on the source term: unique names, non-zero lengths,
   element count within usize, and get is Some exactly inside the view shape *)
Theorem C13_contract : forall A (s : tsrc A), constructed s ->
  valid_shape (src_shape s) /\ elements (src_shape s) <= usize_max /\
  forall idx, length idx = length (src_shape s) ->
    (in_range idx (lens_of (src_shape s)) <-> exists x, src_get s idx = Some x).
Proof. exact @constructed_contract. Qed.

Theorem C13_constructed_good_view : forall A (s : tsrc A), constructed s -> good_view s.
Proof. exact @constructed_good_view. Qed.

(* each constructor that returns Ok establishes the stored-field invariants src_wf, and src_wf
   gives the contract *)
Theorem C13_constructed_wf : forall A (s : tsrc A), constructed s -> src_wf s.
Proof. exact @constructed_wf. Qed.

Theorem C13_wf_contract : forall A (s : tsrc A), src_wf s -> contract s.
Proof. exact @wf_contract. Qed.

(* every source term the case language of the correspondence decodes is constructed *)
Theorem C13_case_language_constructed : forall fuel sx s, dsrc fuel sx = Some (Ok s) -> constructed s.
Proof. exact dsrc_constructed. Qed.

(* the TensorMut contract: in-range writes behave like a lens, for every well-formed source *)
Theorem C13_wf_lens : forall A (s : tsrc A), src_wf s -> forall idx v,
  in_range idx (lens_of (src_shape s)) ->
  exists s', src_set s idx v = Some s' /\ src_wf s' /\ src_shape s' = src_shape s /\
             src_get s' idx = Some v /\
             forall idx', in_range idx' (lens_of (src_shape s)) -> idx' <> idx ->
                          src_get s' idx' = src_get s idx'.
Proof. exact @wf_lens. Qed.

(* the main results with no hypothesis on the source other than `constructed` *)
Theorem C13_reorder_constructed : forall A (s : tsrc A) dims,
  constructed s -> length dims = length (src_shape s) ->
  match dm_new (names_of (src_shape s)) dims with
  | Some tbl => exists t, reorder s dims = Ok t /\
                          materialises t (src_shape (TAccess s tbl)) (src_get (TAccess s tbl))
  | None => reorder s dims = Panic
  end.
Proof. exact @ctor_reorder. Qed.

Theorem C13_transpose_constructed : forall A (s : tsrc A) dims,
  constructed s -> length dims = length (src_shape s) ->
  match dm_new (names_of (src_shape s)) dims with
  | Some tbl => exists t, transpose s dims = Ok t /\
                          materialises t (src_shape (TTranspose s tbl)) (src_get (TTranspose s tbl))
  | None => transpose s dims = Panic
  end.
Proof. exact @ctor_transpose. Qed.

Theorem C13_map_constructed : forall A B (f : A -> B) (s : tsrc A), constructed s ->
  exists t, view_map f s = Ok t /\
            materialises t (src_shape s) (fun idx => option_map f (src_get s idx)).
Proof. exact @ctor_map. Qed.

Theorem C13_map_with_index_constructed : forall A B (f : list N -> A -> B) (s : tsrc A), constructed s ->
  exists t, view_map_with_index f s = Ok t /\
            materialises t (src_shape s) (fun idx => option_map (f idx) (src_get s idx)).
Proof. exact @ctor_map_with_index. Qed.

Theorem C13_elementwise_constructed : forall A (f : A -> A -> A) (l r : tsrc A),
  constructed l -> constructed r ->
  (src_shape l = src_shape r ->
   exists t, view_elementwise f l r = Ok t /\ materialises t (src_shape l) (zip_get f l r)) /\
  (src_shape l <> src_shape r -> view_elementwise f l r = Panic).
Proof. exact @ctor_elementwise. Qed.

Theorem C13_elementwise_with_index_constructed : forall A (f : list N -> A -> A -> A) (l r : tsrc A),
  constructed l -> constructed r -> src_shape l = src_shape r ->
  exists t, view_elementwise_with_index f l r = Ok t /\
            materialises t (src_shape l) (fun idx => zip_get (f idx) l r idx).
Proof. exact @ctor_elementwise_with_index. Qed.

Theorem C13_map_mut_with_index_constructed : forall A (f : list N -> A -> A) (s : tsrc A),
  constructed s ->
  let s' := view_map_mut_with_index f s in
  src_wf s' /\ src_shape s' = src_shape s /\
  forall x, in_range x (lens_of (src_shape s)) -> src_get s' x = option_map (f x) (src_get s x).
Proof. exact @ctor_map_mut_with_index. Qed.

Theorem C13_eq_iff_constructed : forall A (eqb : A -> A -> bool),
  (forall x y, eqb x y = true <-> x = y) ->
  forall l r : tsrc A, constructed l -> constructed r ->
  (tensor_equality eqb l r = true <->
   src_shape l = src_shape r /\
   forall idx, in_range idx (lens_of (src_shape l)) -> src_get l idx = src_get r idx).
Proof. exact @ctor_equality_iff. Qed.

Theorem C13_similar_iff_constructed : forall A (eqb : A -> A -> bool),
  (forall x y, eqb x y = true <-> x = y) ->
  forall l r : tsrc A, constructed l -> constructed r ->
  length (src_shape l) = length (src_shape r) ->
  (tensor_similarity eqb l r = true <->
   exists tbl, dm_new (names_of (src_shape r)) (names_of (src_shape l)) = Some tbl /\
     src_shape l = src_shape (TAccess r tbl) /\
     forall idx, in_range idx (lens_of (src_shape l)) ->
       src_get l idx = src_get r (map_dimensions_to_source tbl idx 0)).
Proof. exact @ctor_similarity_iff. Qed.

Theorem C13_similar_sym_constructed : forall A (eqb : A -> A -> bool),
  (forall x y, eqb x y = true <-> x = y) ->
  forall l r : tsrc A, constructed l -> constructed r ->
  length (src_shape l) = length (src_shape r) ->
  tensor_similarity eqb l r = tensor_similarity eqb r l.
Proof. exact @ctor_similarity_sym. Qed.

(* ---------------- session 3: any TensorRef source, in particular every C02 view ---------------- *)

(* on the source terms of Model/TSource.v the generic transcriptions are the model's *)
Theorem C13_generic_is_model : forall A (s : tsrc A), NoDup (names_of (src_shape s)) ->
  g_iter_values (of_tsrc s) = iter_values s /\ g_iter_indexed (of_tsrc s) = iter_indexed s /\
  (forall B (f : A -> B), g_map f (of_tsrc s) = view_map f s) /\
  (forall B (f : list N -> A -> B), g_map_with_index f (of_tsrc s) = view_map_with_index f s) /\
  (forall dims, length dims = length (src_shape s) ->
     g_reorder (of_tsrc s) dims = reorder s dims /\ g_transpose (of_tsrc s) dims = transpose s dims).
Proof. exact @gen_ops_on_terms. Qed.

Theorem C13_generic_is_model_binary : forall A (l r : tsrc A) (eqb : A -> A -> bool),
  NoDup (names_of (src_shape l)) -> NoDup (names_of (src_shape r)) ->
  (forall f, g_elementwise f (of_tsrc l) (of_tsrc r) = view_elementwise f l r) /\
  (forall f, g_elementwise_with_index f (of_tsrc l) (of_tsrc r) = view_elementwise_with_index f l r) /\
  g_equality eqb (of_tsrc l) (of_tsrc r) = tensor_equality eqb l r /\
  (length (src_shape l) = length (src_shape r) ->
   g_similarity eqb (of_tsrc l) (of_tsrc r) = tensor_similarity eqb l r).
Proof. exact @gen_binary_on_terms. Qed.

(* the operations observe a source through its view_shape and in-range elements only: every
   abstract source meeting the contract is indistinguishable from a CONSTRUCTED source term (the
   tensor of its elements), so all `_constructed` theorems above transfer to it *)
Theorem C13_contract_has_constructed_standin : forall A (g : gsrc A), g_contract g ->
  exists s, constructed s /\ g_equiv g s /\
    (forall B (f : A -> B), g_map f g = view_map f s) /\
    (forall dims, length dims = length (src_shape s) -> g_reorder g dims = reorder s dims) /\
    (forall eqb (g' : gsrc A) s', g_equiv g' s' -> g_equality eqb g g' = tensor_equality eqb s s').
Proof.
  intros A g Hc. destruct (contract_standin g Hc) as [s [Hs He]]. exists s.
  split; [exact Hs|]. split; [exact He|]. split; [intros B f; apply (equiv_map g s He)|].
  split; [intros dims Hl; apply (equiv_reorder g s He (standin_nodup g s Hc He) dims Hl)|].
  intros eqb g' s' He'. apply (equiv_equality g g' s s' He He').
Qed.

(* every constructed view of the C02 algebra (any term, any depth) over covering leaf storage meets
   the TensorRef contract C13 needs -- from C02_wf, C02_present_iff and C02_resolves_in_bounds *)
Theorem C13_c02_view_meets_contract : forall A v c (store : N * N -> option A),
  Views.v_ctor v = Ok c -> C02P.usize_view c -> elements (Views.c_shape c) <= usize_max ->
  (forall l n off, In (l, n) (Views.c_leaves c) -> off < n -> exists x, store (l, off) = Some x) ->
  g_contract (of_cview c store).
Proof. exact @cview_contract. Qed.

(* materialisation, for every source meeting the contract *)
Theorem C13_map_over_any_source : forall A B (f : A -> B) (g : gsrc A), g_contract g ->
  exists t, g_map f g = Ok t /\
            materialises t (gs_shape g) (fun idx => option_map f (gs_get g idx)).
Proof. exact @gen_map_materialises. Qed.

Theorem C13_map_with_index_over_any_source : forall A B (f : list N -> A -> B) (g : gsrc A),
  g_contract g ->
  exists t, g_map_with_index f g = Ok t /\
            materialises t (gs_shape g) (fun idx => option_map (f idx) (gs_get g idx)).
Proof. exact @gen_map_with_index_materialises. Qed.

Theorem C13_reorder_over_any_source : forall A (g : gsrc A) dims,
  g_contract g -> length dims = length (gs_shape g) ->
  match dm_new (names_of (gs_shape g)) dims with
  | Some tbl => exists t, g_reorder g dims = Ok t /\
                          materialises t (gs_shape (g_access g tbl)) (gs_get (g_access g tbl))
  | None => g_reorder g dims = Panic
  end.
Proof. exact @gen_reorder. Qed.

Theorem C13_transpose_over_any_source : forall A (g : gsrc A) dims,
  g_contract g -> length dims = length (gs_shape g) ->
  match dm_new (names_of (gs_shape g)) dims with
  | Some tbl => exists t, g_transpose g dims = Ok t /\
      materialises t (with_names_of (gs_shape g) (gs_shape (g_access g tbl))) (gs_get (g_access g tbl))
  | None => g_transpose g dims = Panic
  end.
Proof. exact @gen_transpose. Qed.

Theorem C13_elementwise_over_any_sources : forall A (f : A -> A -> A) (l r : gsrc A),
  g_contract l -> g_contract r ->
  (gs_shape l = gs_shape r ->
   exists t, g_elementwise f l r = Ok t /\
     materialises t (gs_shape l)
       (fun idx => match gs_get l idx, gs_get r idx with Some x, Some y => Some (f x y) | _, _ => None end)) /\
  (gs_shape l <> gs_shape r -> g_elementwise f l r = Panic).
Proof. exact @gen_elementwise. Qed.

(* equality and similarity, for every pair of sources meeting the contract (views of any kind,
   tensors, mixed pairs) *)
Theorem C13_eq_iff_over_any_sources : forall A (eqb : A -> A -> bool),
  (forall x y, eqb x y = true <-> x = y) ->
  forall l r : gsrc A, g_contract l -> g_contract r ->
  (g_equality eqb l r = true <->
   gs_shape l = gs_shape r /\
   forall idx, in_range idx (lens_of (gs_shape l)) -> gs_get l idx = gs_get r idx).
Proof. exact @gen_equality_iff. Qed.

Theorem C13_eq_trans_over_any_sources : forall A (eqb : A -> A -> bool),
  (forall x y, eqb x y = true <-> x = y) ->
  forall l m r : gsrc A, g_contract l -> g_contract m -> g_contract r ->
  g_equality eqb l m = true -> g_equality eqb m r = true -> g_equality eqb l r = true.
Proof. exact @gen_equality_trans. Qed.

Theorem C13_similar_iff_over_any_sources : forall A (eqb : A -> A -> bool),
  (forall x y, eqb x y = true <-> x = y) ->
  forall l r : gsrc A, g_contract l -> g_contract r -> length (gs_shape l) = length (gs_shape r) ->
  (g_similarity eqb l r = true <->
   exists tbl, dm_new (names_of (gs_shape r)) (names_of (gs_shape l)) = Some tbl /\
     gs_shape l = gs_shape (g_access r tbl) /\
     forall idx, in_range idx (lens_of (gs_shape l)) -> gs_get l idx = gs_get (g_access r tbl) idx).
Proof. exact @gen_similarity_iff. Qed.

Theorem C13_similar_sym_over_any_sources : forall A (eqb : A -> A -> bool),
  (forall x y, eqb x y = true <-> x = y) ->
  forall l r : gsrc A, g_contract l -> g_contract r -> length (gs_shape l) = length (gs_shape r) ->
  g_similarity eqb l r = g_similarity eqb r l.
Proof. exact @gen_similarity_sym. Qed.

(* ---------------- third wave: mutable methods, first / scalar, leaf-only hypotheses ---------------- *)

(* map_mut_with_index through the generic mutable iterator, for ANY source family whose in-range
   writes behave like a lens (P is kept by writes; shape sh fixed): afterwards every index of the
   shape reads f(index, old element) *)
Theorem C13_map_mut_with_index_over_any_lens_source :
  forall St A (o : tsource St A) (sh : shape) (P : St -> Prop),
  (forall s idx v, P s -> in_range idx (lens_of sh) ->
     exists s', ts_set o s idx v = Some s' /\ P s' /\ ts_get o s' idx = Some v /\
       forall idx', in_range idx' (lens_of sh) -> idx' <> idx -> ts_get o s' idx' = ts_get o s idx') ->
  (forall s idx, P s -> in_range idx (lens_of sh) -> exists v, ts_get o s idx = Some v) ->
  forall (f : list N -> A -> A) (s : St), P s -> ts_shape o s = sh -> lens_pos (lens_of sh) ->
  let s' := gm_map_mut_with_index o f s in
  P s' /\ forall x, in_range x (lens_of sh) -> ts_get o s' x = option_map (f x) (ts_get o s x).
Proof. exact @gm_map_mut_with_index_spec. Qed.

(* map_mut is the same loop with a closure ignoring the index *)
Theorem C13_map_mut_over_any_lens_source :
  forall St A (o : tsource St A) (sh : shape) (P : St -> Prop),
  (forall s idx v, P s -> in_range idx (lens_of sh) ->
     exists s', ts_set o s idx v = Some s' /\ P s' /\ ts_get o s' idx = Some v /\
       forall idx', in_range idx' (lens_of sh) -> idx' <> idx -> ts_get o s' idx' = ts_get o s idx') ->
  (forall s idx, P s -> in_range idx (lens_of sh) -> exists v, ts_get o s idx = Some v) ->
  forall (g : A -> A) (s : St), P s -> ts_shape o s = sh -> lens_pos (lens_of sh) ->
  let s' := gm_map_mut o g s in
  gm_map_mut o g s = gm_map_mut_with_index o (fun _ => g) s /\
  P s' /\ forall x, in_range x (lens_of sh) -> ts_get o s' x = option_map g (ts_get o s x).
Proof. exact @gm_map_mut_spec. Qed.

(* on the source terms of Model/TSource.v the generic loop IS Model/Transform.v's *)
Theorem C13_term_map_mut_is_generic : forall A (f : list N -> A -> A) (s : tsrc A),
  view_map_mut_with_index f s = gm_map_mut_with_index tsrc_source f s.
Proof. exact @view_map_mut_with_index_is_generic. Qed.

(* map_mut_with_index through EVERY constructed C02 view (any term, any depth) with distinct leaf
   objects, over covering leaf storage: the stored element each index resolves to becomes
   f(index, old); every stored element NO index of the view resolves to is untouched *)
Theorem C13_c02_view_map_mut_with_index : forall A v c,
  Views.v_ctor v = Ok c -> C02P.usize_view c -> NoDup (C02Inj.leaf_ids c) ->
  forall (f : list N -> A -> A) st, covers c st ->
  let st' := gm_map_mut_with_index (cview_source c) f st in
  covers c st' /\
  (forall x, in_range x (lens_of (Views.c_shape c)) ->
     ts_get (cview_source c) st' x = option_map (f x) (ts_get (cview_source c) st x)) /\
  (forall x e, in_range x (lens_of (Views.c_shape c)) -> Views.c_get c x = Some e ->
     st' e = option_map (f x) (st e)) /\
  (forall e, ~ designated c e -> st' e = st e).
Proof. exact @cview_map_mut_with_index. Qed.

Theorem C13_c02_view_map_mut : forall A v c,
  Views.v_ctor v = Ok c -> C02P.usize_view c -> NoDup (C02Inj.leaf_ids c) ->
  forall (g : A -> A) st, covers c st ->
  let st' := gm_map_mut (cview_source c) g st in
  covers c st' /\
  (forall x, in_range x (lens_of (Views.c_shape c)) ->
     ts_get (cview_source c) st' x = option_map g (ts_get (cview_source c) st x)) /\
  (forall x e, in_range x (lens_of (Views.c_shape c)) -> Views.c_get c x = Some e ->
     st' e = option_map g (st e)) /\
  (forall e, ~ designated c e -> st' e = st e).
Proof. exact @cview_map_mut. Qed.

(* in-place = allocating, through any constructed view: afterwards the view reads, index by index,
   the tensor map_with_index over the view (before) returns *)
Theorem C13_c02_view_map_mut_eq_map : forall A v c,
  Views.v_ctor v = Ok c -> C02P.usize_view c -> NoDup (C02Inj.leaf_ids c) ->
  forall (f : list N -> A -> A) st, covers c st -> elements (Views.c_shape c) <= usize_max ->
  exists t, g_map_with_index f (of_cview c st) = Ok t /\ t_shape t = Views.c_shape c /\
    forall x, in_range x (lens_of (Views.c_shape c)) ->
      ts_get (cview_source c) (gm_map_mut_with_index (cview_source c) f st) x = t_get t x.
Proof. exact @cview_map_mut_eq_map. Qed.

(* first / scalar / into_scalar / elementwise_with_index over any source meeting the contract *)
Theorem C13_first_over_any_source : forall A (g : gsrc A), g_contract g ->
  exists x, g_first g = Ok x /\ gs_get g (repeat 0 (length (gs_shape g))) = Some x.
Proof. exact @gen_first. Qed.

Theorem C13_first_is_materialised_first : forall A (g : gsrc A), g_contract g ->
  exists t, g_map (fun x => x) g = Ok t /\ g_first g = tensor_first t.
Proof. exact @gen_first_is_materialised_first. Qed.

Theorem C13_scalar_over_any_source : forall A (g : gsrc A), g_contract g -> gs_shape g = [] ->
  exists x, g_scalar g = Ok x /\ g_first g = Ok x /\ gs_get g [] = Some x.
Proof. exact @gen_scalar. Qed.

Theorem C13_into_scalar_moves_out : forall St A (o : tsource St A) (dflt : A) (s : St),
  ts_shape o s = [] ->
  fst (gm_into_scalar o dflt s) = gm_scalar o s /\
  (forall x, ts_get o s [] = Some x ->
     snd (gm_into_scalar o dflt s) = match ts_set o s [] dflt with Some s' => s' | None => s end).
Proof. exact @gm_into_scalar_spec. Qed.

Theorem C13_elementwise_with_index_over_any_sources :
  forall A (f : list N -> A -> A -> A) (l r : gsrc A), g_contract l -> g_contract r ->
  (gs_shape l = gs_shape r ->
   exists t, g_elementwise_with_index f l r = Ok t /\
     materialises t (gs_shape l)
       (fun idx => match gs_get l idx, gs_get r idx with Some x, Some y => Some (f idx x y) | _, _ => None end)) /\
  (gs_shape l <> gs_shape r -> g_elementwise_with_index f l r = Panic).
Proof. exact @gen_elementwise_with_index. Qed.

(* ---- the hypotheses of the any-source theorems, from the LEAVES of a constructed view ---- *)

(* pigeonhole over C02's injective, in-bounds index map: a view with distinct leaf objects has at
   most as many elements as its leaves store together *)
Theorem C13_view_elements_le_leaves : forall c,
  C02P.cwf c -> C02P.usize_view c -> NoDup (C02Inj.leaf_ids c) ->
  elements (Views.c_shape c) <= Views.sum (map snd (Views.c_leaves c)).
Proof. exact view_elements_le_leaves. Qed.

Theorem C13_leaves_give_usize_view : forall c, C02P.cwf c -> NoDup (C02Inj.leaf_ids c) ->
  Views.sum (map snd (Views.c_leaves c)) <= usize_max -> C02P.usize_view c.
Proof. exact sum_usize_view. Qed.

(* leaf containers satisfying data.len() = element count cover every in-bounds offset *)
Theorem C13_leaves_cover : forall A c (L : N -> list A), leaves_hold c L -> covers c (store_of L).
Proof. exact @leaves_cover. Qed.

(* every constructed view over its leaf containers meets the contract of ALL `_over_any_source`
   theorems above (map, map_with_index, reorder, transpose, elementwise(_with_index), first,
   scalar, equality, similarity): no hypothesis on the view, only on the leaves *)
Theorem C13_constructed_view_meets_contract : forall A v c (L : N -> list A),
  Views.v_ctor v = Ok c -> NoDup (C02Inj.leaf_ids c) -> leaves_hold c L ->
  Views.sum (map snd (Views.c_leaves c)) <= usize_max ->
  C02P.usize_view c /\ elements (Views.c_shape c) <= usize_max /\ covers c (store_of L) /\
  g_contract (of_cview c (store_of L)).
Proof. exact @constructed_view_hypotheses. Qed.

Theorem C13_map_mut_over_constructed_view : forall A v c (L : N -> list A) (f : list N -> A -> A),
  Views.v_ctor v = Ok c -> NoDup (C02Inj.leaf_ids c) -> leaves_hold c L ->
  Views.sum (map snd (Views.c_leaves c)) <= usize_max ->
  forall st st', st = store_of L -> st' = gm_map_mut_with_index (cview_source c) f st ->
  covers c st' /\
  (forall x e, in_range x (lens_of (Views.c_shape c)) -> Views.c_get c x = Some e ->
     st' e = option_map (f x) (st e)) /\
  (forall e, ~ designated c e -> st' e = st e) /\
  exists t, g_map_with_index f (of_cview c st) = Ok t /\ t_shape t = Views.c_shape c /\
    forall x, in_range x (lens_of (Views.c_shape c)) -> ts_get (cview_source c) st' x = t_get t x.
Proof. exact @constructed_view_map_mut. Qed.

(* `v_ctor v = Ok c` alone does NOT bound the element count: a 2^63-element leaf (zero-sized
   elements) stacked with itself is accepted and has 2^64 elements - the leaf objects are shared *)
Theorem C13_elements_hypothesis_needed :
  let t := Views.VTensor 0 [(0%nat, 2 ^ 63)] in
  exists c, Views.v_ctor (Views.VStack [t; t] 0 1%nat) = Ok c /\
            usize_max < elements (Views.c_shape c) /\ ~ NoDup (C02Inj.leaf_ids c).
Proof. exact elements_hypothesis_needed. Qed.

(* ---- reorder_mut's two paths; the shape of a transposition ---- *)

Theorem C13_reorder_mut_paths : forall A (t : tensor A) dims,
  reorder_mut t dims =
  if reorder_mut_guard (t_shape t) then reorder_mut_square_path t dims else reorder (TBase t) dims.
Proof. exact @reorder_mut_paths. Qed.

(* the fallback path is LITERALLY `*self = self.reorder(..)`: any tensor value, any shape outside
   the guard (D <> 2, or unequal lengths), any name list; the same for transpose_mut *)
Theorem C13_reorder_mut_fallback_is_reorder : forall A (t : tensor A) dims,
  (length (t_shape t) <> 2%nat \/ is_square (t_shape t) = false) ->
  reorder_mut t dims = reorder (TBase t) dims /\
  transpose_mut t dims = transpose (TBase t) dims.
Proof. exact @reorder_mut_fallback. Qed.

Theorem C13_square_path_iff : forall sh,
  reorder_mut_guard sh = true <-> exists a b n, sh = [(a, n); (b, n)].
Proof. exact square_path_iff. Qed.

Theorem C13_square_path_requires_two_dimensions : forall sh,
  reorder_mut_guard sh = true -> length sh = 2%nat.
Proof. exact square_path_requires_two_dimensions. Qed.

Theorem C13_cubes_take_the_fallback : forall A (t : tensor A) dims,
  (3 <= length (t_shape t))%nat -> reorder_mut t dims = reorder (TBase t) dims.
Proof. exact @cubes_take_the_fallback. Qed.

(* transpose: dimension d keeps its name and gets the length of the dimension CALLED dims[d] *)
Theorem C13_transpose_shape_by_name : forall A (s : tsrc A) dims t',
  NoDup (names_of (src_shape s)) -> length dims = length (src_shape s) ->
  transpose s dims = Ok t' ->
  t_shape t' = with_names_of (src_shape s) (shape_by_name (src_shape s) dims) /\
  names_of (t_shape t') = names_of (src_shape s) /\
  lens_of (t_shape t') =
    map (fun n => match length_of (src_shape s) n with Some l => l | None => 0 end) dims.
Proof. exact @transpose_shape_by_name. Qed.

(* non-vacuity of the third-wave statements: a TensorIndex selection (index 2 of dimension 3) of a
   2x1x3 leaf held in a Vec of six values: the leaf facts hold, map_mut_with_index through the view
   changes exactly offsets 2 and 5; a non-involutive transposition of a 2x3x4 tensor gets its
   lengths by name; a 2x2x2 cube takes the fallback *)
Example C13_nonvacuous_third_wave :
  let v := Views.VIndex (Views.VTensor 2 [(0%nat, 2); (5%nat, 1); (3%nat, 3)]) [(3%nat, 2)] in
  let L := fun _ : N => [10; 11; 12; 13; 14; 15]%Z in
  let f := fun (i : list N) (x : Z) => (x * 100 + Z.of_N (nth 0%nat i 0%N))%Z in
  (exists c, Views.v_ctor v = Ok c /\ NoDup (C02Inj.leaf_ids c) /\ leaves_hold c L /\
     Views.sum (map snd (Views.c_leaves c)) <= usize_max /\
     map (fun off => gm_map_mut_with_index (cview_source c) f (store_of L) (2, off)) [0; 1; 2; 3; 4; 5] =
     map Some [10; 11; 1200; 13; 14; 1501]%Z) /\
  (exists t', transpose (TBase (mkTensor (map Z.of_nat (seq 0 24)) [(0%nat, 2); (1%nat, 3); (2%nat, 4)] [12; 4; 1]))
                        [1%nat; 2%nat; 0%nat] = Ok t' /\
              t_shape t' = [(0%nat, 3); (1%nat, 4); (2%nat, 2)]) /\
  reorder_mut_guard [(0%nat, 2); (1%nat, 2); (2%nat, 2)] = false /\
  reorder_mut_guard [(0%nat, 3); (1%nat, 3)] = true.
Proof.
  cbv zeta. split; [|split; [|split; reflexivity]].
  - eexists. split; [vm_compute; reflexivity|]. split; [repeat constructor; intros []|].
    split; [intros l n [[= <- <-]|[]]; reflexivity|]. split; [vm_compute; discriminate|].
    vm_compute. reflexivity.
  - eexists. split; vm_compute; reflexivity.
Qed.

(* non-vacuity of the session-3 statements: a TensorStack of a TensorExpansion and a reversed
   TensorIndex selection (none of which is a source term of Model/TSource.v) meets the contract and
   is materialised by map *)
Example C13_nonvacuous_over_c02_view :
  let v := Views.VStack [ Views.VExpand (Views.VTensor 1 [(0%nat, 2)]) [(1%nat, 5%nat)];
                          Views.VReverse (Views.VIndex (Views.VTensor 2 [(0%nat, 2); (5%nat, 1); (3%nat, 3)])
                                                       [(3%nat, 2)]) [0%nat] ] 0%nat 7%nat in
  exists c, Views.v_ctor v = Ok c /\
    g_contract (of_cview c (fun e => Some (Views.leaf_value e))) /\
    exists t, g_map (fun x => x) (of_cview c (fun e => Some (Views.leaf_value e))) = Ok t /\
      t_shape t = [(7%nat, 2); (0%nat, 2); (5%nat, 1)] /\ t_data t = [1000; 1001; 2005; 2002]%Z.
Proof.
  cbv zeta.
  set (v := Views.VStack _ _ _).
  assert (E : exists c, Views.v_ctor v = Ok c) by (eexists; vm_compute; reflexivity).
  destruct E as [c E]. exists c. split; [exact E|].
  pose proof E as E'. vm_compute in E'. injection E' as Ec. subst c.
  split.
  - apply (C13_c02_view_meets_contract Z v _ _ E).
    + cbn. repeat split.
    + vm_compute. discriminate.
    + intros l n off _ _. eexists. reflexivity.
  - eexists. split; [vm_compute; reflexivity|]. split; reflexivity.
Qed.

(* non-vacuity: a 3x3 tensor (the square in-place path) and a 2x3 tensor (the fallback) meet the
   hypotheses; the exchanged ordering really transposes; a permuted copy is similar, not equal *)
Example C13_nonvacuous :
  let t := mkTensor (map Z.of_nat (seq 1 9)) [(0%nat, 3); (1%nat, 3)] [3; 1] in
  let u := mkTensor (map Z.of_nat (seq 1 6)) [(0%nat, 2); (1%nat, 3)] [3; 1] in
  let u' := mkTensor [1; 4; 2; 5; 3; 6]%Z [(1%nat, 3); (0%nat, 2)] [2; 1] in
  tensor_inv t /\ tensor_inv u /\
  reorder_mut t [1%nat; 0%nat] =
    Ok (mkTensor [1; 4; 7; 2; 5; 8; 3; 6; 9]%Z [(1%nat, 3); (0%nat, 3)] [3; 1]) /\
  reorder_mut u [1%nat; 0%nat] = Ok u' /\
  tensor_equality Z.eqb (TBase u) (TBase u') = false /\
  tensor_similarity Z.eqb (TBase u) (TBase u') = true /\
  tensor_similarity Z.eqb (TBase u') (TBase u) = true.
Proof.
  cbv zeta. repeat split; try (vm_compute; reflexivity);
    try (cbn; repeat constructor; cbn; intuition discriminate).
Qed.

(* non-vacuity of `constructed`: a TensorAccess over a TensorRange over a TensorReverse over a 2x3
   tensor, decoded from the case language, is constructed, has the expected shape and elements *)
Example C13_nonvacuous_constructed :
  exists s : tsrc Z, constructed s /\
    src_shape s = [(1%nat, 2); (0%nat, 2)] /\ src_get s [0; 1] = Some 5%Z /\ src_get s [2; 0] = None.
Proof.
  destruct (dsrc 8 (SL [SZ 3; SL [SZ 2; SL [SZ 1; SL [SZ 0; SL [SL [SZ 0; SZ 2]; SL [SZ 1; SZ 3]];
                                                     SL [SZ 1; SZ 2; SZ 3; SZ 4; SZ 5; SZ 6]];
                                         SL [SZ 1]];
                              SL [SL [SZ 0; SZ 2]; SL [SZ 1; SZ 2]]];
                     SL [SZ 1; SZ 0]])%Z) as [[s| |]|] eqn:E; try (vm_compute in E; discriminate).
  exists s. split; [eapply dsrc_constructed; exact E|].
  vm_compute in E. injection E as <-. vm_compute. repeat split.
Qed.

Print Assumptions C13_iter_collects.
Print Assumptions C13_materialise_reorder.
Print Assumptions C13_reorder_rejects.
Print Assumptions C13_materialise_transpose.
Print Assumptions C13_materialise_map.
Print Assumptions C13_materialise_map_with_index.
Print Assumptions C13_materialise_elementwise.
Print Assumptions C13_materialise_elementwise_with_index.
Print Assumptions C13_tensor_is_its_own_view.
Print Assumptions C13_tensor_map_eq_view_map.
Print Assumptions C13_tensor_map_with_index_eq_view.
Print Assumptions C13_tensor_elementwise_eq_view.
Print Assumptions C13_tensor_elementwise_with_index_eq_view.
Print Assumptions C13_first_eq_view_first.
Print Assumptions C13_map_mut_eq_map.
Print Assumptions C13_view_map_mut_with_index.
Print Assumptions C13_map_mut_with_index_eq_map_with_index.
Print Assumptions C13_swap_loop_transposes.
Print Assumptions C13_in_place_eq_allocating.
Print Assumptions C13_transpose_mut_eq_transpose.
Print Assumptions C13_reshape.
Print Assumptions C13_reshape_reads.
Print Assumptions C13_rename.
Print Assumptions C13_eq_iff.
Print Assumptions C13_eq_refl.
Print Assumptions C13_eq_sym.
Print Assumptions C13_eq_trans.
Print Assumptions C13_similar_iff.
Print Assumptions C13_similar_iff_some_reordering.
Print Assumptions C13_similar_sym.
Print Assumptions C13_similar_names_perm.
Print Assumptions C13_access_total.
Print Assumptions C13_eq_implies_similar.
Print Assumptions C13_similar_refl.
Print Assumptions C13_contract.
Print Assumptions C13_constructed_good_view.
Print Assumptions C13_constructed_wf.
Print Assumptions C13_wf_contract.
Print Assumptions C13_case_language_constructed.
Print Assumptions C13_wf_lens.
Print Assumptions C13_reorder_constructed.
Print Assumptions C13_transpose_constructed.
Print Assumptions C13_map_constructed.
Print Assumptions C13_map_with_index_constructed.
Print Assumptions C13_elementwise_constructed.
Print Assumptions C13_elementwise_with_index_constructed.
Print Assumptions C13_map_mut_with_index_constructed.
Print Assumptions C13_eq_iff_constructed.
Print Assumptions C13_similar_iff_constructed.
Print Assumptions C13_similar_sym_constructed.
Print Assumptions C13_generic_is_model.
Print Assumptions C13_generic_is_model_binary.
Print Assumptions C13_contract_has_constructed_standin.
Print Assumptions C13_c02_view_meets_contract.
Print Assumptions C13_map_over_any_source.
Print Assumptions C13_map_with_index_over_any_source.
Print Assumptions C13_reorder_over_any_source.
Print Assumptions C13_transpose_over_any_source.
Print Assumptions C13_elementwise_over_any_sources.
Print Assumptions C13_eq_iff_over_any_sources.
Print Assumptions C13_eq_trans_over_any_sources.
Print Assumptions C13_similar_iff_over_any_sources.
Print Assumptions C13_similar_sym_over_any_sources.
Print Assumptions C13_map_mut_with_index_over_any_lens_source.
Print Assumptions C13_map_mut_over_any_lens_source.
Print Assumptions C13_term_map_mut_is_generic.
Print Assumptions C13_c02_view_map_mut_with_index.
Print Assumptions C13_c02_view_map_mut.
Print Assumptions C13_c02_view_map_mut_eq_map.
Print Assumptions C13_first_over_any_source.
Print Assumptions C13_first_is_materialised_first.
Print Assumptions C13_scalar_over_any_source.
Print Assumptions C13_into_scalar_moves_out.
Print Assumptions C13_elementwise_with_index_over_any_sources.
Print Assumptions C13_view_elements_le_leaves.
Print Assumptions C13_leaves_give_usize_view.
Print Assumptions C13_leaves_cover.
Print Assumptions C13_constructed_view_meets_contract.
Print Assumptions C13_map_mut_over_constructed_view.
Print Assumptions C13_elements_hypothesis_needed.
Print Assumptions C13_reorder_mut_paths.
Print Assumptions C13_reorder_mut_fallback_is_reorder.
Print Assumptions C13_square_path_iff.
Print Assumptions C13_square_path_requires_two_dimensions.
Print Assumptions C13_cubes_take_the_fallback.
Print Assumptions C13_transpose_shape_by_name.
