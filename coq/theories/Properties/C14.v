(* C14 — Mean, variance, covariance, softmax and F1 equal their population definitions.
   Only the property theorems (closed by `exact`), the non-vacuity example and the assumption
   audit.  Transcribed code: Model/Stats.v.  Specification (Proofs/C14P.v):
     sumR ops l          Σ l                         natR ops n     1 + ... + 1 (n times)
     mean_spec ops l     Σ l / N                     var_spec ops l Σ (x - μ)² / N
     cov_spec ops xs ys  Σ (x - μx)(y - μy) / N      wf_mat m r c   m is a list of r rows of length c
     entry ops m i j     m[i][j]                     transpose ops c m
     is_field ops        the field laws for the dictionary (division total, inverse = 1 / x)
     ordered_exp_field ops lt   ordered field + `<` decided by PartialOrd + exp positive, increasing
   Element types: ANY commutative field (mean, variance, covariance, f1) / ANY ordered field with
   an exp oracle (softmax); `from_usize n` must be the number n (hypothesis Hfrom).  Both sets of
   hypotheses are satisfied by Coq's reals (C14_nonvacuous).
   Session 3 additions: C14_cov_tensor_entry (the named route stated directly),
   C14_softmax_shift_is_max (the subtracted value is THE maximum of the inputs; no exponent is
   positive), C14_softmax_intermediates_bounded (exponentials in (0, 1], denominator in [1, N]:
   large-magnitude stability as a theorem), C14_softmax_textbook (= e^z_i / sum_j e^z_j when exp(a - b) = exp a / exp b),
   C14_softmax_order_iff (strict / tie / non-strict order, both directions), C14_f1_zero and
   C14_f1_on_nonnegatives (the whole range p, r >= 0 incl. the degenerate point p = r = 0, the only
   one with p + r = 0: the formula gives 0 in every field with total division; IEEE floats give
   NaN there and are not modelled).
   Wave 3: C14_var_one_pass_same_in_every_field / C14_cov_one_pass_same_in_every_field: E[x^2] - E[x]^2
   and E[xy] - E[x]E[y] ARE the population variance / covariance in every field, i.e. the exact
   element types of the correspondence provably cannot see a one-pass refactoring — the float tier
   (ops 8 - 11: f64 / f32 mean, variance, covariance, f1, softmax against the population formulas
   evaluated exactly in big-integer arithmetic on the rounded inputs, inside a stated rounding
   budget; covariance symmetric, diagonal = variance and the three routes equal BIT FOR BIT) does,
   on data with a large common offset.
   Limits: theorems are over (ordered) fields, not IEEE floats; float behaviour is covered by
   the oracle ops 7 - 11 of the correspondence only (IEEE arithmetic is not modelled). *)
From Coq Require Import List Arith NArith Reals Lra.
From EasyML Require Import Base.Sx Model.Num Model.Stats Proofs.C14P Proofs.RealOps.
Import ListNotations.
Local Close Scope R_scope.
Local Open Scope nat_scope.

(* mean = Σx / N; the empty iterator panics *)
Theorem C14_mean : forall R (ops : numops R), is_field ops ->
  forall l : list R, l <> [] -> mean ops l = Ok (ndiv ops (sumR ops l) (natR ops (length l))).
Proof. exact @mean_correct. Qed.

(* variance = Σ(x − μ)² / N with μ the population mean (no Bessel correction) *)
Theorem C14_variance : forall R (ops : numops R), is_field ops ->
  forall l : list R, l <> [] ->
  variance ops l =
  Ok (ndiv ops (sumR ops (map (fun x => nmul ops (nsub ops x (mean_spec ops l)) (nsub ops x (mean_spec ops l))) l))
           (natR ops (length l))).
Proof. exact @variance_correct. Qed.

Theorem C14_empty_panics : forall R (ops : numops R),
  mean ops (@nil R) = Panic /\ variance ops (@nil R) = Panic.
Proof. intros R ops. split; [exact (mean_empty ops) | exact (variance_empty ops)]. Qed.

(* entry (i, j) of the covariance matrix = Σ (x_i − μ_i)(x_j − μ_j) / N over the samples, for the
   column-features and the row-features entry point *)
Theorem C14_cov_entry : forall R (ops : numops R), is_field ops ->
  (forall n : N, nof_N ops n = Some (natR ops (N.to_nat n))) ->
  forall (m : list (list R)) (r c : nat), wf_mat m r c -> 0 < r -> 0 < c ->
  (exists C, covariance_column_features ops m = Ok C /\
     forall i j, i < c -> j < c ->
       entry ops C i j = cov_spec ops (column_iter ops m i) (column_iter ops m j)) /\
  (exists C, covariance_row_features ops m = Ok C /\
     forall i j, i < r -> j < r -> entry ops C i j = cov_spec ops (row_iter m i) (row_iter m j)).
Proof. exact @cov_entry. Qed.

(* whatever entry point produced it, the covariance matrix is symmetric *)
Theorem C14_cov_symmetric : forall R (ops : numops R), is_field ops ->
  forall m C : list (list R),
  (covariance_column_features ops m = Ok C \/ covariance_row_features ops m = Ok C \/
   exists names fd d0 d1, covariance ops names m fd = Ok (d0, d1, C)) ->
  forall i j, i < length C -> j < length C -> entry ops C i j = entry ops C j i.
Proof. exact @cov_symmetric. Qed.

(* its diagonal holds the variances of the features, as computed by `variance` *)
Theorem C14_cov_diag_is_variance : forall R (ops : numops R), is_field ops ->
  (forall n : N, nof_N ops n = Some (natR ops (N.to_nat n))) ->
  forall (m : list (list R)) (r c : nat), wf_mat m r c -> 0 < r -> 0 < c ->
  (exists C, covariance_column_features ops m = Ok C /\
     forall i, i < c -> variance ops (column_iter ops m i) = Ok (entry ops C i i)) /\
  (exists C, covariance_row_features ops m = Ok C /\
     forall i, i < r -> variance ops (row_iter m i) = Ok (entry ops C i i)).
Proof. exact @cov_diag_is_variance. Qed.

(* shape: features x features; the tensor route names the result ("i", F), ("j", F) and panics
   for a feature dimension that is not in the input *)
Theorem C14_cov_shape : forall R (ops : numops R), is_field ops ->
  (forall n : N, nof_N ops n = Some (natR ops (N.to_nat n))) ->
  forall (m : list (list R)) (r c n0 n1 : nat), wf_mat m r c -> 0 < r -> 0 < c -> n0 <> n1 ->
  (exists C, covariance_column_features ops m = Ok C /\ wf_mat C c c) /\
  (exists C, covariance_row_features ops m = Ok C /\ wf_mat C r r) /\
  (exists C, covariance ops (n0, n1) m n0 =
               Ok ((name_i, N.of_nat r), (name_j, N.of_nat r), C) /\ wf_mat C r r) /\
  (exists C, covariance ops (n0, n1) m n1 =
               Ok ((name_i, N.of_nat c), (name_j, N.of_nat c), C) /\ wf_mat C c c) /\
  (forall fd, fd <> n0 -> fd <> n1 -> covariance ops (n0, n1) m fd = Panic).
Proof. exact @cov_shape. Qed.

(* row features on A = column features on Aᵀ = the named-dimension route (feature dimension first
   or second, data transposed or not) *)
Theorem C14_cov_entry_points_agree : forall R (ops : numops R),
  (forall n : N, nof_N ops n = Some (natR ops (N.to_nat n))) ->
  forall (m : list (list R)) (r c n0 n1 : nat), wf_mat m r c -> 0 < r -> 0 < c -> n0 <> n1 ->
  covariance_row_features ops m = covariance_column_features ops (transpose ops c m) /\
  covariance_column_features ops m = covariance_row_features ops (transpose ops c m) /\
  covariance ops (n0, n1) m n0 =
    omap (fun C => ((name_i, N.of_nat r), (name_j, N.of_nat r), C)) (covariance_row_features ops m) /\
  covariance ops (n0, n1) m n1 =
    omap (fun C => ((name_i, N.of_nat c), (name_j, N.of_nat c), C)) (covariance_column_features ops m) /\
  covariance ops (n0, n1) m n0 = covariance ops (n1, n0) (transpose ops c m) n0 /\
  covariance ops (n0, n1) m n1 = covariance ops (n1, n0) (transpose ops c m) n1.
Proof. exact @cov_entry_points_agree. Qed.

(* ---- softmax ---- *)
Theorem C14_softmax_len : forall R (ops : numops R) (l : list R),
  length (softmax ops l) = length l.
Proof. exact @softmax_len. Qed.

Theorem C14_softmax_empty : forall R (ops : numops R), softmax ops (@nil R) = [].
Proof. exact @softmax_empty. Qed.

(* every output is strictly positive (hence non-negative) *)
Theorem C14_softmax_nonneg : forall R (ops : numops R) (lt : R -> R -> Prop),
  ordered_exp_field ops lt ->
  forall l : list R, Forall (fun y => lt (nzero ops) y) (softmax ops l).
Proof. exact @softmax_pos. Qed.

Theorem C14_softmax_sums_to_one : forall R (ops : numops R) (lt : R -> R -> Prop),
  ordered_exp_field ops lt ->
  forall l : list R, l <> [] -> sumR ops (softmax ops l) = none_ ops.
Proof. exact @softmax_sums_to_one. Qed.

Theorem C14_softmax_order_preserving : forall R (ops : numops R) (lt : R -> R -> Prop),
  ordered_exp_field ops lt ->
  forall (l : list R) (i j : nat), i < length l -> j < length l ->
  (lt (nth i l (nzero ops)) (nth j l (nzero ops)) ->
   lt (nth i (softmax ops l) (nzero ops)) (nth j (softmax ops l) (nzero ops))) /\
  (nth i l (nzero ops) = nth j l (nzero ops) ->
   nth i (softmax ops l) (nzero ops) = nth j (softmax ops l) (nzero ops)).
Proof. exact @softmax_order_preserving. Qed.

Theorem C14_softmax_shift_invariant : forall R (ops : numops R) (lt : R -> R -> Prop),
  ordered_exp_field ops lt ->
  forall (l : list R) (c : R), softmax ops (map (fun x => nadd ops x c) l) = softmax ops l.
Proof. exact @softmax_shift_invariant. Qed.

(* ---- f1 = 2pr / (p + r), the harmonic mean 2 / (1/p + 1/r) of non-zero p, r (p + r <> 0) *)
Theorem C14_f1_harmonic : forall R (ops : numops R), is_field ops ->
  forall p r : R,
  let two := nadd ops (none_ ops) (none_ ops) in
  f1_score ops p r = ndiv ops (nmul ops (nmul ops two p) r) (nadd ops p r) /\
  (p <> nzero ops -> r <> nzero ops -> nadd ops p r <> nzero ops ->
   f1_score ops p r = ndiv ops two (nadd ops (ndiv ops (none_ ops) p) (ndiv ops (none_ ops) r))).
Proof. exact @f1_harmonic. Qed.

(* non-vacuity: the real numbers satisfy every hypothesis above (field laws, from_usize,
   ordered field with exp), a 3 x 2 matrix is well formed, and on concrete data the model
   computes mean [1;2;3] = 2, variance [1;2;3] = 2/3 and a softmax whose first entry is
   1 / (1 + e) for inputs [0; 1] *)
Example C14_nonvacuous :
  is_field Rops /\ (forall n : N, nof_N Rops n = Some (natR Rops (N.to_nat n))) /\
  ordered_exp_field Rops Rlt /\
  wf_mat [[1; 2]; [3; 5]; [4; 4]]%R 3 2 /\
  mean Rops [1; 2; 3]%R = Ok 2%R /\
  variance Rops [1; 2; 3]%R = Ok (2 / 3)%R /\
  softmax Rops [0; 1]%R = [(exp (-1) / (exp (-1) + exp 0))%R; (exp 0 / (exp (-1) + exp 0))%R] /\
  f1_score Rops (1 / 2)%R 1%R = (2 / 3)%R.
Proof.
  split; [exact Rops_is_field|]. split; [exact Rops_from|]. split; [exact Rops_ordered|].
  split; [split; [reflexivity | repeat constructor]|].
  split; [cbn; f_equal; field|]. split; [cbn; f_equal; field|].
  split.
  - assert (E : max_step Rops 0%R 1%R = 1%R).
    { unfold max_step. cbn. unfold Rltb. destruct (Rlt_dec 1 0) as [H|H]; [lra|reflexivity]. }
    unfold softmax. cbn. rewrite E.
    replace (0 - 1)%R with (-1)%R by lra. replace (1 - 1)%R with 0%R by lra.
    replace (0 + exp (-1) + exp 0)%R with (exp (-1) + exp 0)%R by lra. reflexivity.
  - cbn. field.
Qed.

(* ---- session 3 ---- *)
(* the named-dimension route stated directly: entry (i, j) of covariance(tensor, fd) is the
   population covariance of the feature vectors i and j selected along fd *)
Theorem C14_cov_tensor_entry : forall R (ops : numops R), is_field ops ->
  (forall n : N, nof_N ops n = Some (natR ops (N.to_nat n))) ->
  forall (m : list (list R)) (r c n0 n1 : nat), wf_mat m r c -> 0 < r -> 0 < c -> n0 <> n1 ->
  (exists C, covariance ops (n0, n1) m n0 = Ok ((name_i, N.of_nat r), (name_j, N.of_nat r), C) /\
     forall i j, i < r -> j < r -> entry ops C i j = cov_spec ops (row_iter m i) (row_iter m j)) /\
  (exists C, covariance ops (n0, n1) m n1 = Ok ((name_i, N.of_nat c), (name_j, N.of_nat c), C) /\
     forall i j, i < c -> j < c ->
       entry ops C i j = cov_spec ops (column_iter ops m i) (column_iter ops m j)).
Proof. exact @cov_tensor_entry. Qed.

(* THE SHIFT IS THE MAXIMUM.  The value softmax subtracts before exponentiating is an element of
   the input that no element exceeds, and the only such value; softmax is the quotient written
   with exactly that shift; hence no exponent is positive and at least one is zero (the reason
   large inputs cannot overflow).  A softmax that shifts by anything else (e.g. max(0, inputs))
   differs from this model, and the exact correspondence sees it on Rat / Fp, where the stand-in
   exp is a polynomial and therefore NOT shift invariant. *)
Theorem C14_softmax_shift_is_max : forall R (ops : numops R) (lt : R -> R -> Prop),
  ordered_exp_field ops lt ->
  forall l : list R, l <> [] ->
  exists mx, max_by ops l = Some mx /\ In mx l /\ (forall x, In x l -> ~ lt mx x) /\
    (forall m, In m l -> (forall x, In x l -> ~ lt m x) -> m = mx) /\
    softmax ops l =
      map (fun x => ndiv ops (nexp ops (nsub ops x mx))
                         (sumR ops (map (fun y => nexp ops (nsub ops y mx)) l))) l /\
    (forall x, In x l -> ~ lt (nzero ops) (nsub ops x mx)) /\
    (exists x, In x l /\ nsub ops x mx = nzero ops).
Proof. exact @softmax_shift_is_max. Qed.

(* LARGE-MAGNITUDE STABILITY as a theorem (exp 0 = 1 besides the ordered-field facts): with the
   maximum as shift every exponential softmax evaluates lies in (0, 1] and the denominator in
   [1, N], for inputs of ANY magnitude: nothing can overflow, the denominator cannot vanish *)
Theorem C14_softmax_intermediates_bounded : forall R (ops : numops R) (lt : R -> R -> Prop),
  ordered_exp_field ops lt -> nexp ops (nzero ops) = none_ ops ->
  forall l : list R, l <> [] ->
  exists mx, max_by ops l = Some mx /\
    (forall x, In x l -> lt (nzero ops) (nexp ops (nsub ops x mx)) /\
                         ~ lt (none_ ops) (nexp ops (nsub ops x mx))) /\
    ~ lt (sumR ops (map (fun y => nexp ops (nsub ops y mx)) l)) (none_ ops) /\
    ~ lt (natR ops (length l)) (sumR ops (map (fun y => nexp ops (nsub ops y mx)) l)).
Proof. exact @softmax_intermediates_bounded. Qed.

(* the documented formula softmax(z)[i] = e^z_i / sum_j e^z_j, for every exp that turns
   differences into quotients (the real exponential does: C14_nonvacuous_session3) *)
Theorem C14_softmax_textbook : forall R (ops : numops R) (lt : R -> R -> Prop),
  ordered_exp_field ops lt ->
  (forall a b, nexp ops (nsub ops a b) = ndiv ops (nexp ops a) (nexp ops b)) ->
  forall l : list R,
  softmax ops l = map (fun x => ndiv ops (nexp ops x) (sumR ops (map (nexp ops) l))) l.
Proof. exact @softmax_textbook. Qed.

(* order relations are preserved in both directions: strict order, ties, non-strict order *)
Theorem C14_softmax_order_iff : forall R (ops : numops R) (lt : R -> R -> Prop),
  ordered_exp_field ops lt ->
  forall (l : list R) (i j : nat), i < length l -> j < length l ->
  let x k := nth k l (nzero ops) in let s k := nth k (softmax ops l) (nzero ops) in
  (lt (x i) (x j) <-> lt (s i) (s j)) /\ (x i = x j <-> s i = s j) /\
  (~ lt (x j) (x i) <-> ~ lt (s j) (s i)).
Proof. exact @softmax_order_iff. Qed.

(* f1 with a zero argument is zero in ANY field (0 * 1/(p + r), whatever 1/0 is) — this covers
   the degenerate point p = r = 0, where p + r = 0 and the harmonic mean has no value *)
Theorem C14_f1_zero : forall R (ops : numops R), is_field ops ->
  forall p r : R, p = nzero ops \/ r = nzero ops -> f1_score ops p r = nzero ops.
Proof. exact @f1_zero. Qed.

(* f1 on all non-negative p, r (no side condition on p + r): the harmonic mean when both are
   positive, zero when one is zero, and p + r = 0 happens only at p = r = 0 *)
Theorem C14_f1_on_nonnegatives : forall R (ops : numops R) (lt : R -> R -> Prop),
  ordered_exp_field ops lt ->
  forall p r : R, ~ lt p (nzero ops) -> ~ lt r (nzero ops) ->
  (lt (nzero ops) p -> lt (nzero ops) r ->
     f1_score ops p r =
     ndiv ops (nadd ops (none_ ops) (none_ ops))
              (nadd ops (ndiv ops (none_ ops) p) (ndiv ops (none_ ops) r))) /\
  (p = nzero ops \/ r = nzero ops -> f1_score ops p r = nzero ops) /\
  (nadd ops p r = nzero ops -> p = nzero ops /\ r = nzero ops).
Proof. exact @f1_on_nonnegatives. Qed.

(* ---- wave 3 ---- *)
(* the one-pass formulas are the population variance / covariance in EVERY field (N <> 0 in the
   field): no exact element type distinguishes the two-pass code from a one-pass rewrite *)
Theorem C14_var_one_pass_same_in_every_field : forall R (ops : numops R), is_field ops ->
  forall l : list R, natR ops (length l) <> nzero ops ->
  var_spec ops l =
  nsub ops (ndiv ops (sumR ops (map (fun x => nmul ops x x) l)) (natR ops (length l)))
           (nmul ops (mean_spec ops l) (mean_spec ops l)).
Proof. exact @var_one_pass. Qed.

Theorem C14_cov_one_pass_same_in_every_field : forall R (ops : numops R), is_field ops ->
  forall xs ys : list R, length xs = length ys -> natR ops (length xs) <> nzero ops ->
  cov_spec ops xs ys =
  nsub ops (ndiv ops (sumR ops (map (fun xy => nmul ops (fst xy) (snd xy)) (combine xs ys)))
                     (natR ops (length xs)))
           (nmul ops (mean_spec ops xs) (mean_spec ops ys)).
Proof. exact @cov_one_pass. Qed.

(* non-vacuity of the extra hypothesis of C14_softmax_textbook: the real exponential *)
Example C14_nonvacuous_session3 :
  ordered_exp_field Rops Rlt /\
  (forall a b : R, nexp Rops (nsub Rops a b) = ndiv Rops (nexp Rops a) (nexp Rops b)) /\
  nexp Rops (nzero Rops) = none_ Rops /\
  max_by Rops [1; 3; 2]%R = Some 3%R /\ f1_score Rops 0%R 0%R = 0%R.
Proof.
  split; [exact Rops_ordered|]. split; [|split; [exact exp_0|]].
  - intros a b. cbn. unfold Rminus, Rdiv. now rewrite exp_plus, exp_Ropp.
  - split.
    + cbn. unfold max_step. cbn. unfold Rltb.
      destruct (Rlt_dec 3 1) as [H|H]; [lra|]. destruct (Rlt_dec 2 3) as [H2|H2]; [reflexivity|lra].
    + unfold f1_score. cbn. unfold Rdiv. ring.
Qed.

Print Assumptions C14_mean.
Print Assumptions C14_variance.
Print Assumptions C14_empty_panics.
Print Assumptions C14_cov_entry.
Print Assumptions C14_cov_symmetric.
Print Assumptions C14_cov_diag_is_variance.
Print Assumptions C14_cov_shape.
Print Assumptions C14_cov_entry_points_agree.
Print Assumptions C14_softmax_len.
Print Assumptions C14_softmax_empty.
Print Assumptions C14_softmax_nonneg.
Print Assumptions C14_softmax_sums_to_one.
Print Assumptions C14_softmax_order_preserving.
Print Assumptions C14_softmax_shift_invariant.
Print Assumptions C14_f1_harmonic.
Print Assumptions C14_cov_tensor_entry.
Print Assumptions C14_softmax_shift_is_max.
Print Assumptions C14_softmax_intermediates_bounded.
Print Assumptions C14_softmax_textbook.
Print Assumptions C14_softmax_order_iff.
Print Assumptions C14_f1_zero.
Print Assumptions C14_f1_on_nonnegatives.
Print Assumptions C14_var_one_pass_same_in_every_field.
Print Assumptions C14_cov_one_pass_same_in_every_field.
