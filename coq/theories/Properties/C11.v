(* C11 — Matrix resizing histories keep the matrix equal to a list-of-rows model.
   This file contains only the property theorems (closed by `exact`), their assumption audit and
   the non-vacuity example.  Definitions: Model/Matrix.v (transcription of src/matrices/mod.rs and
   slices.rs: flat storage (data, rows, columns), every operation with its loops, counters and
   checks in the code's order, returning the state left behind also when the call panics);
   Proofs/C11Spec.v (the specification: a plain `list (list T)` with insert_at / remove_at /
   keep_idx / column_of, `abs`, the invariant `Inv`, `fits`); Proofs/C11Ops.v, C11Transpose.v,
   C11P.v (proofs). *)
From Coq Require Import List ZArith NArith Bool Arith.
From EasyML Require Import Base.Sx Model.Matrix Proofs.C11Spec Proofs.C11Ops Proofs.C11Transpose Proofs.C11P.
From EasyML Require Import Model.MatrixViews Model.MatrixHistory Proofs.C12Partition Proofs.C11Part.
Import ListNotations.
Open Scope N_scope.

(* THE HISTORY THEOREM.  From every valid start (rows * columns = stored length, at least 1 x 1),
   for every finite sequence of operations with arbitrary arguments — valid or not —: after
   every step the abstraction (the rows of the flat storage) of the implementation state and the
   outcome of the call (returned / panicked) equal those of the list-of-rows specification run on
   the same sequence, and the representation invariant holds in every state reached, also the
   ones left behind by a panicking call (so the matrix never has zero rows or columns and its
   storage always has rows * columns elements).
   `all_fit`: before each operation the element count is at most usize::MAX.  Where it matters:
   ONLY `retain` (through Clone), `transpose` and the non-square branch of `transpose_mut` look at
   it — they rebuild the matrix with from_flat_row_major, whose checked_mul would refuse a size
   above usize::MAX (the call would panic where the specification returns).  Where it could fail:
   only after an insert_row(_with) / insert_column(_with) has grown a matrix beyond usize::MAX
   elements, which no machine can reach (a Vec holds at most isize::MAX bytes; Vec::insert itself
   panics with a capacity overflow first).  It is NOT needed for the invariant
   (C11_invariant_unconditional) and it is implied by the invariant for every history without
   insertions started from an allocated matrix (C11_all_fit_when_not_growing); C11_all_fit_bounded
   gives the general sufficient condition (the specification's element count stays <= a bound
   <= usize::MAX). *)
Theorem C11_refines : forall (T : Type) (s : matrix T) (ops : list (op T)),
  Inv s -> all_fit (abs s) ops ->
  map abs_result (impl_trace s ops) = spec_trace (abs s) ops
  /\ Forall (fun r => Inv (fst r)) (impl_trace s ops).
Proof. exact @history_refines. Qed.

(* the invariant part needs no size hypothesis at all: in every state reached — also the ones
   left behind by a panicking call — rows * columns = stored length, rows >= 1, columns >= 1 *)
Theorem C11_invariant_unconditional : forall (T : Type) (ops : list (op T)) (s : matrix T),
  Inv s -> Forall (fun r => Inv (fst r)) (impl_trace s ops).
Proof. exact @trace_inv. Qed.

(* `all_fit` is implied by the invariant when no operation of the history is an insertion and
   the start is an allocated matrix (its Vec has at most usize::MAX elements) *)
Theorem C11_all_fit_when_not_growing : forall (T : Type) (s : matrix T) (ops : list (op T)),
  Inv s -> nlen (m_data s) <= usize_max -> forallb non_growing ops = true -> all_fit (abs s) ops.
Proof. exact @all_fit_of_allocated. Qed.

(* in general it is enough that the specification's element count stays within a bound *)
Theorem C11_all_fit_bounded : forall (T : Type) (ops : list (op T)) (m : list (list T)) bound,
  bound <= usize_max ->
  (forall k, (k <= length ops)%nat -> nlen (concat (spec_run m (firstn k ops))) <= bound) ->
  all_fit m ops.
Proof. exact @all_fit_bound. Qed.

(* the same for the state after the whole history *)
Theorem C11_final_state : forall (T : Type) (s : matrix T) (ops : list (op T)),
  Inv s -> all_fit (abs s) ops ->
  abs (impl_run s ops) = spec_run (abs s) ops /\ Inv (impl_run s ops).
Proof. exact @run_refines. Qed.

(* one operation on the flat form of any non-empty rectangle m: the result is the flat form of
   the specified list of rows, which is again a non-empty rectangle *)
Theorem C11_step : forall (T : Type) (m : list (list T)) (o : op T), rect m -> fits m ->
  impl_step (of_rows m) o = (of_rows (fst (spec_step m o)), snd (spec_step m o))
  /\ rect (fst (spec_step m o)).
Proof. exact @step_refines. Qed.

(* what size() and get(r, c) report in a valid state is the size and the (r, c) entry of the
   list of rows; outside the size get panics (None) *)
Theorem C11_observations : forall (T : Type) (s : matrix T), Inv s ->
  (m_rows s, m_cols s) = (nlen (abs s), N.of_nat (ncols (abs s))) /\
  1 <= m_rows s /\ 1 <= m_cols s /\
  forall r c, mget s r c =
    if (r <? m_rows s) && (c <? m_cols s)
    then nth_error (nth (N.to_nat r) (abs s) []) (N.to_nat c) else None.
Proof. exact @observe_refines. Qed.

(* iterating: all cells read in row-major order are the rows one after the other (which is also
   the stored data), in column-major order the columns one after the other *)
Theorem C11_iteration_orders : forall (T : Type) (s : matrix T), Inv s ->
  obs_elements s = map Some (concat (abs s)) /\
  obs_column_major s = map Some (concat (spec_transpose (abs s))) /\
  m_data s = concat (abs s).
Proof. exact @iteration_orders. Qed.

(* an operation panics EXACTLY when its documented precondition fails (index beyond the allowed
   range, removing the only or a non-existent row / column, too few supplied values, a retention
   accepting no row or no column), and a panicking call leaves the matrix exactly as it was *)
Theorem C11_preconditions_panic : forall (T : Type) (s : matrix T) (o : op T),
  Inv s -> fits (abs s) ->
  (snd (impl_step s o) = false <-> precondition_fails (abs s) o)
  /\ (snd (impl_step s o) = false -> fst (impl_step s o) = s).
Proof. exact @panics_iff. Qed.

(* the constructors: a returned matrix is valid and represents its input; the documented bad
   inputs (empty, jagged, wrong element count, overflowing size) panic *)
Theorem C11_constructors : forall (T : Type),
  (forall v : T, Inv (from_scalar v) /\ abs (from_scalar v) = [[v]]) /\
  (forall vs : list T, match row_ctor vs with
                       | Ok s => vs <> [] /\ Inv s /\ abs s = [vs]
                       | _ => vs = [] end) /\
  (forall vs : list T, match column_ctor vs with
                       | Ok s => vs <> [] /\ Inv s /\ abs s = map (fun v => [v]) vs
                       | _ => vs = [] end) /\
  (forall rows : list (list T), match from_rows rows with
                       | Ok s => rect rows /\ Inv s /\ abs s = rows
                       | _ => ~ rect rows end) /\
  (forall r c (vs : list T), match from_flat_row_major (r, c) vs with
                       | Ok s => s = mkM vs r c /\ Inv s
                       | _ => ~ (r * c = nlen vs /\ 1 <= nlen vs /\ r * c <= usize_max) end).
Proof. exact @constructors_valid. Qed.

(* the generating constructors: from_fn builds the table of its function, empty the constant
   table; a zero length (or an element count beyond usize) panics *)
Theorem C11_generated_constructors : forall (T : Type),
  (forall r c (f : N -> N -> T), match from_fn (r, c) f with
                 | Ok s => 1 <= r /\ 1 <= c /\ Inv s /\ abs s = table r c f
                 | _ => r = 0 \/ c = 0 \/ usize_max < r * c end) /\
  (forall (v : T) r c, match empty_ctor v (r, c) with
                 | Ok s => 1 <= r /\ 1 <= c /\ Inv s /\ abs s = repeat (repeat v (N.to_nat c)) (N.to_nat r)
                 | _ => r = 0 \/ c = 0 end).
Proof. exact @generated_constructors. Qed.

(* ---- session 3 ---- *)
(* `all_fit` is a statement about the implementation's own states *)
Theorem C11_all_fit_iff_allocated : forall (T : Type) (ops : list (op T)) (s : matrix T), Inv s ->
  (all_fit (abs s) ops <-> impl_all_fit s ops).
Proof. exact @all_fit_iff_impl. Qed.

(* THE HISTORY THEOREM for every execution that can exist: every state passed through is a Vec
   of at most isize::MAX elements *)
Theorem C11_refines_allocated : forall (T : Type) (s : matrix T) (ops : list (op T)),
  Inv s -> Forall (fun st => nlen (m_data st) <= isize_max) (s :: map fst (impl_trace s ops)) ->
  map abs_result (impl_trace s ops) = spec_trace (abs s) ops
  /\ Forall (fun r => Inv (fst r)) (impl_trace s ops).
Proof. exact @history_refines_allocated. Qed.

(* one operation on an allocated matrix: panics exactly on a failed precondition, then
   unchanged; otherwise the specified list of rows *)
Theorem C11_step_allocated : forall (T : Type) (s : matrix T) (o : op T),
  Inv s -> nlen (m_data s) <= isize_max ->
  (snd (impl_step s o) = false <-> precondition_fails (abs s) o)
  /\ (snd (impl_step s o) = false -> fst (impl_step s o) = s)
  /\ abs (fst (impl_step s o)) = fst (spec_step (abs s) o)
  /\ snd (impl_step s o) = snd (spec_step (abs s) o).
Proof. exact @panics_iff_allocated. Qed.

(* mutation through a part of Matrix::partition: filling part k of an accepted partition with v
   is map_mut_with_index with "v inside the part's rectangle [rlo, rhi) x [clo, chi), unchanged
   outside" on the list of rows; a refused partition panics and changes nothing; k beyond the
   number of parts writes nothing *)
Theorem C11_partition_fill_step : forall (T : Type) (m : list (list T)) rp cp k (v : T), rect m ->
  partition_fill (of_rows m) rp cp k v
    = (of_rows (fst (spec_partition_fill m rp cp k v)), snd (spec_partition_fill m rp cp k v))
  /\ rect (fst (spec_partition_fill m rp cp k v)).
Proof. exact @partition_fill_refines. Qed.

(* whatever the lists are, the borrow leaves size and invariant alone *)
Theorem C11_partition_fill_frame : forall (T : Type) (s : matrix T) rp cp k (v : T), Inv s ->
  let r := partition_fill s rp cp k v in
  Inv (fst r) /\ m_rows (fst r) = m_rows s /\ m_cols (fst r) = m_cols s /\
  (snd r = false <-> partition (m_rows s) (m_cols s) rp cp = Panic) /\
  (snd r = false -> fst r = s).
Proof. exact @partition_fill_frame. Qed.

(* histories interleaving the resizing operations with mutation through partition parts *)
Theorem C11_refines_with_partitions : forall (T : Type) (ops : list (xop T)) (s : matrix T), Inv s ->
  Forall (fun st => nlen (m_data st) <= isize_max) (s :: map fst (xtrace s ops)) ->
  map abs_result (xtrace s ops) = xspec_trace (abs s) ops
  /\ Forall (fun r => Inv (fst r)) (xtrace s ops).
Proof. exact @xhistory_refines. Qed.

Example C11_nonvacuous_partitions :
  let s := mkM [1; 2; 3; 4; 5; 6] 2 3 in
  let ops := [XOp (OInsertRow 1 9); XPartitionFill [1] [2] 2 7; XPartitionFill [2; 1] [] 0 8;
              XOp (ORemoveColumn 0); XPartitionFill [1; 2; 2] [1] 1 5] in
  Inv s /\ Forall (fun st => nlen (m_data st) <= isize_max) (s :: map fst (xtrace s ops)) /\
  map snd (xtrace s ops) = [true; true; false; true; true] /\
  abs (fst (last (xtrace s ops) (s, true))) = [[2; 5]; [7; 9]; [7; 6]].
Proof.
  cbv zeta. split; [|split; [|split]].
  - unfold Inv, nlen. cbn. repeat split; discriminate.
  - apply Forall_forall; intros st Hin; vm_compute in Hin;
      repeat (destruct Hin as [<-|Hin]; [vm_compute; discriminate|]); destruct Hin.
  - vm_compute. reflexivity.
  - vm_compute. reflexivity.
Qed.

(* non-vacuity: a concrete 2 x 3 start and a history mixing returning and panicking calls
   satisfies every hypothesis above *)
Example C11_nonvacuous :
  let s := mkM [1; 2; 3; 4; 5; 6] 2 3 in
  let ops := [OInsertRow 1 9; ORemoveColumn 7; OTransposeMut;
              ORetain (mkSlice2D (SNot (SSingle 0)) SAll); OInsertColumnWith 0 [7; 8; 9; 10];
              OSet 1 1 0; OMapMutWithIndex (fun x i j => x + 10 * i + j)] in
  Inv s /\ all_fit (abs s) ops /\
  map snd (impl_trace s ops) = [true; false; true; true; true; true; true] /\
  abs (impl_run s ops) = [[7; 3; 11; 8]; [18; 11; 21; 19]] /\
  forallb non_growing [ORemoveColumn 1; OTranspose; ORetainMut (mkSlice2D SAll (SSingle 0)) : op N] = true.
Proof.
  cbv zeta. split; [|split; [|split; [|split]]].
  - unfold Inv, nlen. cbn. repeat split; discriminate.
  - unfold all_fit, fits, nlen. vm_compute. repeat split; discriminate.
  - vm_compute. reflexivity.
  - vm_compute. reflexivity.
  - reflexivity.
Qed.

Print Assumptions C11_refines.
Print Assumptions C11_invariant_unconditional.
Print Assumptions C11_all_fit_when_not_growing.
Print Assumptions C11_all_fit_bounded.
Print Assumptions C11_final_state.
Print Assumptions C11_step.
Print Assumptions C11_observations.
Print Assumptions C11_iteration_orders.
Print Assumptions C11_preconditions_panic.
Print Assumptions C11_constructors.
Print Assumptions C11_generated_constructors.
Print Assumptions C11_all_fit_iff_allocated.
Print Assumptions C11_refines_allocated.
Print Assumptions C11_step_allocated.
Print Assumptions C11_partition_fill_step.
Print Assumptions C11_partition_fill_frame.
Print Assumptions C11_refines_with_partitions.
