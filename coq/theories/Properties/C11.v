(* C11 — Matrix resizing histories keep the matrix equal to a list-of-rows model.
   This file contains only the property theorems (closed by `exact`), their assumption audit and
   the non-vacuity example.  Definitions: Model/Matrix.v (transcription of src/matrices/mod.rs and
   slices.rs: flat storage (data, rows, columns), every operation with its loops, counters and
   checks in the code's order, returning the state left behind also when the call panics);
   Proofs/C11Spec.v (the specification: a plain `list (list T)` with insert_at / remove_at /
   keep_idx / column_of, `abs`, the invariant `Inv`, `fits`); Proofs/C11Ops.v, C11Transpose.v,
   C11P.v (proofs).
   Second extension wave, C11 builder (block after the session-3 assumption audit, 16 theorems):
   the SLICE ALGEBRA — the builder methods Slice::not / and / or and both orders of the Slice2D
   builder are functions of Model/Slices.v; C11_slice_builder_laws / C11_slice_algebra_laws /
   C11_slice_atom_laws / C11_range_or_merge / C11_slice2d_builder_orders state what they must
   accept, C11_count_accepted_closed_forms / C11_retained_size the closed forms of retain_mut's sizing
   loop and that the retained size is the pair of counts,
   C11_retain_respects_accepts / C11_retain_by_methods / C11_slice_normal_form that retention
   depends on a slice only through `accepts` below the size; C11_partition_write_step / _cells / _frame: writes of
   DISTINGUISHABLE values g(i, j) through a partition part (the session-3 fill is g = const; the
   history theorem C11_refines_with_partitions now ranges over both); C11_transpose_forms_agree /
   C11_transpose_twice; C11_view_write_is_set (writes through MatrixView::from(&mut m) /
   range_mut(full) = Matrix::set).
   Second extension wave, builder GEN (appended block at the end): C11_generated_arith_matches_model ties
   Model/Matrix.v to the Rust TEXT of the mutators — the retain closures, the insertion positions
   and remove_row / remove_column / insert_row / insert_column as whole methods are re-translated
   from src/matrices/mod.rs by tools/gen_arith.py on every run (Gen/Arith.v) and proved equal to
   the model in Proofs/GenMatrixP.v (notes/GEN.md).
   Third extension wave, builder GEN (appended block at the very end): C11_generated_frames_match_model -
   retain_mut as a WHOLE method (its two counting `for` loops as folds, the two asserts before
   anything is dropped, the Vec::retain pass, the assert on the emptied storage, the new size),
   Matrix::from_flat_row_major's checked_mul / non-empty tests, and the frames of insert_row_with /
   insert_column_with (validate - take / collect / truncate - THEN insert, THEN grow: the generated
   result separates what happens before / while inserting from what happens after the loop, so a
   validation moved behind the loop is a different term) are re-translated from the source on
   every run and proved equal to Model/Matrix.v. *)
From Coq Require Import List ZArith NArith Bool Arith.
From EasyML Require Import Base.Sx Model.Matrix Proofs.C11Spec Proofs.C11Ops Proofs.C11Transpose Proofs.C11P.
From EasyML Require Import Model.MatrixViews Model.MatrixHistory Proofs.C12Partition Proofs.C11Part Proofs.C11UndoP Proofs.C11UndoWithP.
Import ListNotations.
Open Scope N_scope.

(* THE HISTORY THEOREM.  From every valid start (rows * columns = stored length, at least 1 x 1),
   for every finite sequence of operations with arbitrary arguments — valid or not —: after
   every step the abstraction (the rows of the flat storage) of the implementation state and the
   outcome of the call (returned / panicked) equal those of the list-of-rows specification run on
   the same sequence, and the representation invariant holds in every state reached, also the
   ones left behind by a panicking call (so the matrix never has zero rows or columns and its
   storage always has rows * columns elements).
   `all_fit`: before each operation the element count is at most usize::MAX.  Where it matters:
   ONLY `retain` (through Clone), `transpose` and the non-square branch of `transpose_mut` look at
   it — they rebuild the matrix with from_flat_row_major, whose checked_mul would refuse a size
   above usize::MAX (the call would panic where the specification returns).  Where it could fail:
   only after an insert_row(_with) / insert_column(_with) has grown a matrix beyond usize::MAX
   elements, which no machine can reach (a Vec holds at most isize::MAX bytes; Vec::insert itself
   panics with a capacity overflow first).  It is NOT needed for the invariant
   (C11_invariant_unconditional) and it is implied by the invariant for every history without
   insertions started from an allocated matrix (C11_all_fit_when_not_growing); C11_all_fit_bounded
   gives the general sufficient condition (the specification's element count stays <= a bound
   <= usize::MAX). *)
Theorem C11_refines : forall (T : Type) (s : matrix T) (ops : list (op T)),
  Inv s -> all_fit (abs s) ops ->
  map abs_result (impl_trace s ops) = spec_trace (abs s) ops
  /\ Forall (fun r => Inv (fst r)) (impl_trace s ops).
Proof. exact @history_refines. Qed.

(* the invariant part needs no size hypothesis at all: in every state reached — also the ones
   left behind by a panicking call — rows * columns = stored length, rows >= 1, columns >= 1 *)
Theorem C11_invariant_unconditional : forall (T : Type) (ops : list (op T)) (s : matrix T),
  Inv s -> Forall (fun r => Inv (fst r)) (impl_trace s ops).
Proof. exact @trace_inv. Qed.

(* `all_fit` is implied by the invariant when no operation of the history is an insertion and
   the start is an allocated matrix (its Vec has at most usize::MAX elements) *)
Theorem C11_all_fit_when_not_growing : forall (T : Type) (s : matrix T) (ops : list (op T)),
  Inv s -> nlen (m_data s) <= usize_max -> forallb non_growing ops = true -> all_fit (abs s) ops.
Proof. exact @all_fit_of_allocated. Qed.

(* in general it is enough that the specification's element count stays within a bound *)
Theorem C11_all_fit_bounded : forall (T : Type) (ops : list (op T)) (m : list (list T)) bound,
  bound <= usize_max ->
  (forall k, (k <= length ops)%nat -> nlen (concat (spec_run m (firstn k ops))) <= bound) ->
  all_fit m ops.
Proof. exact @all_fit_bound. Qed.

(* the same for the state after the whole history *)
Theorem C11_final_state : forall (T : Type) (s : matrix T) (ops : list (op T)),
  Inv s -> all_fit (abs s) ops ->
  abs (impl_run s ops) = spec_run (abs s) ops /\ Inv (impl_run s ops).
Proof. exact @run_refines. Qed.

(* undo laws, corollaries of the history theorem: removing the row / column that was just inserted at a
   valid position gives back exactly the original list of rows (and a valid state) - for every valid
   start, every position 0..=rows (0..=columns) and every fill value *)
Theorem C11_insert_remove_row_undo : forall (T : Type) (s : matrix T) i v, Inv s -> i <= m_rows s ->
  all_fit (abs s) [OInsertRow i v; ORemoveRow i] ->
  abs (impl_run s [OInsertRow i v; ORemoveRow i]) = abs s /\ Inv (impl_run s [OInsertRow i v; ORemoveRow i]).
Proof. exact @insert_remove_row_undo. Qed.

Theorem C11_insert_remove_column_undo : forall (T : Type) (s : matrix T) j v, Inv s -> j <= m_cols s ->
  all_fit (abs s) [OInsertColumn j v; ORemoveColumn j] ->
  abs (impl_run s [OInsertColumn j v; ORemoveColumn j]) = abs s /\
  Inv (impl_run s [OInsertColumn j v; ORemoveColumn j]).
Proof. exact @insert_remove_column_undo. Qed.

(* ... the same for the iterator-fed insertions (the iterator may offer MORE values than needed: only the
   first columns (rows) of them are consumed into the matrix) *)
Theorem C11_insert_with_remove_row_undo : forall (T : Type) (s : matrix T) i vs,
  Inv s -> i <= m_rows s -> m_cols s <= nlen vs ->
  all_fit (abs s) [OInsertRowWith i vs; ORemoveRow i] ->
  abs (impl_run s [OInsertRowWith i vs; ORemoveRow i]) = abs s /\
  Inv (impl_run s [OInsertRowWith i vs; ORemoveRow i]).
Proof. exact @insert_with_remove_row_undo. Qed.

Theorem C11_insert_with_remove_column_undo : forall (T : Type) (s : matrix T) j vs,
  Inv s -> j <= m_cols s -> m_rows s <= nlen vs ->
  all_fit (abs s) [OInsertColumnWith j vs; ORemoveColumn j] ->
  abs (impl_run s [OInsertColumnWith j vs; ORemoveColumn j]) = abs s /\
  Inv (impl_run s [OInsertColumnWith j vs; ORemoveColumn j]).
Proof. exact @insert_with_remove_column_undo. Qed.

(* one operation on the flat form of any non-empty rectangle m: the result is the flat form of
   the specified list of rows, which is again a non-empty rectangle *)
Theorem C11_step : forall (T : Type) (m : list (list T)) (o : op T), rect m -> fits m ->
  impl_step (of_rows m) o = (of_rows (fst (spec_step m o)), snd (spec_step m o))
  /\ rect (fst (spec_step m o)).
Proof. exact @step_refines. Qed.

(* what size() and get(r, c) report in a valid state is the size and the (r, c) entry of the
   list of rows; outside the size get panics (None) *)
Theorem C11_observations : forall (T : Type) (s : matrix T), Inv s ->
  (m_rows s, m_cols s) = (nlen (abs s), N.of_nat (ncols (abs s))) /\
  1 <= m_rows s /\ 1 <= m_cols s /\
  forall r c, mget s r c =
    if (r <? m_rows s) && (c <? m_cols s)
    then nth_error (nth (N.to_nat r) (abs s) []) (N.to_nat c) else None.
Proof. exact @observe_refines. Qed.

(* iterating: all cells read in row-major order are the rows one after the other (which is also
   the stored data), in column-major order the columns one after the other *)
Theorem C11_iteration_orders : forall (T : Type) (s : matrix T), Inv s ->
  obs_elements s = map Some (concat (abs s)) /\
  obs_column_major s = map Some (concat (spec_transpose (abs s))) /\
  m_data s = concat (abs s).
Proof. exact @iteration_orders. Qed.

(* an operation panics EXACTLY when its documented precondition fails (index beyond the allowed
   range, removing the only or a non-existent row / column, too few supplied values, a retention
   accepting no row or no column), and a panicking call leaves the matrix exactly as it was *)
Theorem C11_preconditions_panic : forall (T : Type) (s : matrix T) (o : op T),
  Inv s -> fits (abs s) ->
  (snd (impl_step s o) = false <-> precondition_fails (abs s) o)
  /\ (snd (impl_step s o) = false -> fst (impl_step s o) = s).
Proof. exact @panics_iff. Qed.

(* the constructors: a returned matrix is valid and represents its input; the documented bad
   inputs (empty, jagged, wrong element count, overflowing size) panic *)
Theorem C11_constructors : forall (T : Type),
  (forall v : T, Inv (from_scalar v) /\ abs (from_scalar v) = [[v]]) /\
  (forall vs : list T, match row_ctor vs with
                       | Ok s => vs <> [] /\ Inv s /\ abs s = [vs]
                       | _ => vs = [] end) /\
  (forall vs : list T, match column_ctor vs with
                       | Ok s => vs <> [] /\ Inv s /\ abs s = map (fun v => [v]) vs
                       | _ => vs = [] end) /\
  (forall rows : list (list T), match from_rows rows with
                       | Ok s => rect rows /\ Inv s /\ abs s = rows
                       | _ => ~ rect rows end) /\
  (forall r c (vs : list T), match from_flat_row_major (r, c) vs with
                       | Ok s => s = mkM vs r c /\ Inv s
                       | _ => ~ (r * c = nlen vs /\ 1 <= nlen vs /\ r * c <= usize_max) end).
Proof. exact @constructors_valid. Qed.

(* the generating constructors: from_fn builds the table of its function, empty the constant
   table; a zero length (or an element count beyond usize) panics *)
Theorem C11_generated_constructors : forall (T : Type),
  (forall r c (f : N -> N -> T), match from_fn (r, c) f with
                 | Ok s => 1 <= r /\ 1 <= c /\ Inv s /\ abs s = table r c f
                 | _ => r = 0 \/ c = 0 \/ usize_max < r * c end) /\
  (forall (v : T) r c, match empty_ctor v (r, c) with
                 | Ok s => 1 <= r /\ 1 <= c /\ Inv s /\ abs s = repeat (repeat v (N.to_nat c)) (N.to_nat r)
                 | _ => r = 0 \/ c = 0 end).
Proof. exact @generated_constructors. Qed.

(* ---- session 3 ---- *)
(* `all_fit` is a statement about the implementation's own states *)
Theorem C11_all_fit_iff_allocated : forall (T : Type) (ops : list (op T)) (s : matrix T), Inv s ->
  (all_fit (abs s) ops <-> impl_all_fit s ops).
Proof. exact @all_fit_iff_impl. Qed.

(* THE HISTORY THEOREM for every execution that can exist: every state passed through is a Vec
   of at most isize::MAX elements *)
Theorem C11_refines_allocated : forall (T : Type) (s : matrix T) (ops : list (op T)),
  Inv s -> Forall (fun st => nlen (m_data st) <= isize_max) (s :: map fst (impl_trace s ops)) ->
  map abs_result (impl_trace s ops) = spec_trace (abs s) ops
  /\ Forall (fun r => Inv (fst r)) (impl_trace s ops).
Proof. exact @history_refines_allocated. Qed.

(* one operation on an allocated matrix: panics exactly on a failed precondition, then
   unchanged; otherwise the specified list of rows *)
Theorem C11_step_allocated : forall (T : Type) (s : matrix T) (o : op T),
  Inv s -> nlen (m_data s) <= isize_max ->
  (snd (impl_step s o) = false <-> precondition_fails (abs s) o)
  /\ (snd (impl_step s o) = false -> fst (impl_step s o) = s)
  /\ abs (fst (impl_step s o)) = fst (spec_step (abs s) o)
  /\ snd (impl_step s o) = snd (spec_step (abs s) o).
Proof. exact @panics_iff_allocated. Qed.

(* mutation through a part of Matrix::partition: filling part k of an accepted partition with v
   is map_mut_with_index with "v inside the part's rectangle [rlo, rhi) x [clo, chi), unchanged
   outside" on the list of rows; a refused partition panics and changes nothing; k beyond the
   number of parts writes nothing *)
Theorem C11_partition_fill_step : forall (T : Type) (m : list (list T)) rp cp k (v : T), rect m ->
  partition_fill (of_rows m) rp cp k v
    = (of_rows (fst (spec_partition_fill m rp cp k v)), snd (spec_partition_fill m rp cp k v))
  /\ rect (fst (spec_partition_fill m rp cp k v)).
Proof. exact @partition_fill_refines. Qed.

(* whatever the lists are, the borrow leaves size and invariant alone *)
Theorem C11_partition_fill_frame : forall (T : Type) (s : matrix T) rp cp k (v : T), Inv s ->
  let r := partition_fill s rp cp k v in
  Inv (fst r) /\ m_rows (fst r) = m_rows s /\ m_cols (fst r) = m_cols s /\
  (snd r = false <-> partition (m_rows s) (m_cols s) rp cp = Panic) /\
  (snd r = false -> fst r = s).
Proof. exact @partition_fill_frame. Qed.

(* histories interleaving the resizing operations with mutation through partition parts *)
Theorem C11_refines_with_partitions : forall (T : Type) (ops : list (xop T)) (s : matrix T), Inv s ->
  Forall (fun st => nlen (m_data st) <= isize_max) (s :: map fst (xtrace s ops)) ->
  map abs_result (xtrace s ops) = xspec_trace (abs s) ops
  /\ Forall (fun r => Inv (fst r)) (xtrace s ops).
Proof. exact @xhistory_refines. Qed.

Example C11_nonvacuous_partitions :
  let s := mkM [1; 2; 3; 4; 5; 6] 2 3 in
  let ops := [XOp (OInsertRow 1 9); XPartitionFill [1] [2] 2 7; XPartitionFill [2; 1] [] 0 8;
              XOp (ORemoveColumn 0); XPartitionFill [1; 2; 2] [1] 1 5] in
  Inv s /\ Forall (fun st => nlen (m_data st) <= isize_max) (s :: map fst (xtrace s ops)) /\
  map snd (xtrace s ops) = [true; true; false; true; true] /\
  abs (fst (last (xtrace s ops) (s, true))) = [[2; 5]; [7; 9]; [7; 6]].
Proof.
  cbv zeta. split; [|split; [|split]].
  - unfold Inv, nlen. cbn. repeat split; discriminate.
  - apply Forall_forall; intros st Hin; vm_compute in Hin;
      repeat (destruct Hin as [<-|Hin]; [vm_compute; discriminate|]); destruct Hin.
  - vm_compute. reflexivity.
  - vm_compute. reflexivity.
Qed.

(* non-vacuity: a concrete 2 x 3 start and a history mixing returning and panicking calls
   satisfies every hypothesis above *)
Example C11_nonvacuous :
  let s := mkM [1; 2; 3; 4; 5; 6] 2 3 in
  let ops := [OInsertRow 1 9; ORemoveColumn 7; OTransposeMut;
              ORetain (mkSlice2D (SNot (SSingle 0)) SAll); OInsertColumnWith 0 [7; 8; 9; 10];
              OSet 1 1 0; OMapMutWithIndex (fun x i j => x + 10 * i + j)] in
  Inv s /\ all_fit (abs s) ops /\
  map snd (impl_trace s ops) = [true; false; true; true; true; true; true] /\
  abs (impl_run s ops) = [[7; 3; 11; 8]; [18; 11; 21; 19]] /\
  forallb non_growing [ORemoveColumn 1; OTranspose; ORetainMut (mkSlice2D SAll (SSingle 0)) : op N] = true.
Proof.
  cbv zeta. split; [|split; [|split; [|split]]].
  - unfold Inv, nlen. cbn. repeat split; discriminate.
  - unfold all_fit, fits, nlen. vm_compute. repeat split; discriminate.
  - vm_compute. reflexivity.
  - vm_compute. reflexivity.
  - reflexivity.
Qed.

Print Assumptions C11_refines.
Print Assumptions C11_invariant_unconditional.
Print Assumptions C11_all_fit_when_not_growing.
Print Assumptions C11_all_fit_bounded.
Print Assumptions C11_final_state.
Print Assumptions C11_insert_remove_row_undo.
Print Assumptions C11_insert_remove_column_undo.
Print Assumptions C11_insert_with_remove_row_undo.
Print Assumptions C11_insert_with_remove_column_undo.
Print Assumptions C11_step.
Print Assumptions C11_observations.
Print Assumptions C11_iteration_orders.
Print Assumptions C11_preconditions_panic.
Print Assumptions C11_constructors.
Print Assumptions C11_generated_constructors.
Print Assumptions C11_all_fit_iff_allocated.
Print Assumptions C11_refines_allocated.
Print Assumptions C11_step_allocated.
Print Assumptions C11_partition_fill_step.
Print Assumptions C11_partition_fill_frame.
Print Assumptions C11_refines_with_partitions.

(* ======================================================================================== *)
(* SECOND EXTENSION WAVE (C11 builder): the slice algebra, distinguishable writes through       *)
(* partition parts, and the API forms of transposition / element writes.                        *)
(* Definitions: Model/Slices.v (the builder methods Slice::not / and / or and the two orders    *)
(* of the Slice2D builder as FUNCTIONS, `by_methods`), Model/MatrixHistory.v (write_part,       *)
(* partition_write, XPartitionWrite); proofs: Proofs/C11Slices.v, C11Part.v, C11Forms.v.        *)
(* ======================================================================================== *)
From EasyML Require Import Model.Slices Proofs.C11Slices Proofs.C11Forms Proofs.C12P.

(* the three builder methods: what the built slice accepts is the boolean combination of what
   the arguments accept; hence an expression written with the methods accepts exactly what the
   same expression written with the enum variants accepts.  (Today the methods box their
   arguments, so the proofs are short; a builder that starts to simplify — seed C11-v2 merged
   two ranges — has to be transcribed into Model/Slices.v and then owes these statements.) *)
Theorem C11_slice_builder_laws : forall (a b : slice) (i : N),
  slice_accepts (slice_not a) i = negb (slice_accepts a i) /\
  slice_accepts (slice_and a b) i = (slice_accepts a i && slice_accepts b i)%bool /\
  slice_accepts (slice_or a b) i = (slice_accepts a i || slice_accepts b i)%bool /\
  slice_accepts (by_methods a) i = slice_accepts a i.
Proof. exact (fun a b i => conj (accepts_not a i) (conj (accepts_and a b i) (conj (accepts_or a b i) (accepts_by_methods a i)))). Qed.

(* "constructed via boolean logic operations in the same way as in predicate logic expressions":
   De Morgan, double negation, commutativity, associativity, idempotence, distributivity,
   absorption, units / zeros / complements — pointwise at every index *)
Theorem C11_slice_algebra_laws : forall (a b c : slice) (i : N),
  slice_accepts (slice_not (slice_and a b)) i = slice_accepts (slice_or (slice_not a) (slice_not b)) i /\
  slice_accepts (slice_not (slice_or a b)) i = slice_accepts (slice_and (slice_not a) (slice_not b)) i /\
  slice_accepts (slice_not (slice_not a)) i = slice_accepts a i /\
  slice_accepts (slice_and a b) i = slice_accepts (slice_and b a) i /\
  slice_accepts (slice_or a b) i = slice_accepts (slice_or b a) i /\
  slice_accepts (slice_and a (slice_and b c)) i = slice_accepts (slice_and (slice_and a b) c) i /\
  slice_accepts (slice_or a (slice_or b c)) i = slice_accepts (slice_or (slice_or a b) c) i /\
  slice_accepts (slice_and a a) i = slice_accepts a i /\
  slice_accepts (slice_or a a) i = slice_accepts a i /\
  slice_accepts (slice_and a (slice_or b c)) i = slice_accepts (slice_or (slice_and a b) (slice_and a c)) i /\
  slice_accepts (slice_or a (slice_and b c)) i = slice_accepts (slice_and (slice_or a b) (slice_or a c)) i /\
  slice_accepts (slice_or a (slice_and a b)) i = slice_accepts a i /\
  slice_accepts (slice_and a (slice_or a b)) i = slice_accepts a i /\
  slice_accepts (slice_and a SAll) i = slice_accepts a i /\
  slice_accepts (slice_or a SNone) i = slice_accepts a i /\
  slice_accepts (slice_and a SNone) i = false /\
  slice_accepts (slice_or a SAll) i = true /\
  slice_accepts (slice_and a (slice_not a)) i = false /\
  slice_accepts (slice_or a (slice_not a)) i = true /\
  slice_accepts (slice_not SAll) i = slice_accepts SNone i.
Proof. exact slice_algebra_laws. Qed.

(* the atoms: an empty or reversed range accepts nothing; Single(k) is Range(k..k+1); the and of
   two ranges is the range from the larger start to the smaller end *)
Theorem C11_slice_atom_laws : forall (a b i k : N),
  (b <= a -> slice_accepts (SRange a b) i = false) /\
  slice_accepts (SSingle k) i = slice_accepts (SRange k (k + 1)) i /\
  (forall a2 b2, slice_accepts (slice_and (SRange a b) (SRange a2 b2)) i
                 = slice_accepts (SRange (N.max a a2) (N.min b b2)) i).
Proof. exact atom_laws. Qed.

(* what an `or` that merges two overlapping or touching ranges into ONE range has to produce:
   smaller start .. LARGER end (`merged_range`); the end of the later-starting range
   (`merged_range_slip`, seed C11-v2) is refuted in C11_nonvacuous_slices below *)
Theorem C11_range_or_merge : forall a1 b1 a2 b2 : N, a1 < b1 -> a2 < b2 -> a2 <= b1 -> a1 <= b2 -> forall i,
  slice_accepts (slice_or (SRange a1 b1) (SRange a2 b2)) i = slice_accepts (merged_range a1 b1 a2 b2) i.
Proof. exact range_or_merge. Qed.

(* the Slice2D builder: both orders build the same value, which accepts (r, c) exactly when the
   row slice accepts r and the column slice accepts c *)
Theorem C11_slice2d_builder_orders : forall (rows columns : slice) (r c : N),
  slice2d_rows_then_columns rows columns = slice2d_columns_then_rows columns rows /\
  slice2d_accepts (slice2d_rows_then_columns rows columns) r c = (slice_accepts rows r && slice_accepts columns c)%bool /\
  slice2d_accepts (slice2d_columns_then_rows columns rows) r c = (slice_accepts rows r && slice_accepts columns c)%bool.
Proof. exact slice2d_builder_orders. Qed.

(* the sizing loop of retain_mut (`for i in 0..n { if slice.accepts(i) { accepted += 1 } }`) in
   closed form — what a helper that does not loop has to return (seed C10-v1 returned 1 for a
   Single outside 0..n): *)
Theorem C11_count_accepted_closed_forms : forall n : N,
  count_accepted SAll n = n /\
  count_accepted SNone n = 0 /\
  (forall i, count_accepted (SSingle i) n = if i <? n then 1 else 0) /\
  (forall a b, count_accepted (SRange a b) n = N.min b n - a) /\
  (forall s, count_accepted (slice_not s) n = n - count_accepted s n) /\
  (forall s, count_accepted s n <= n) /\
  (forall s t, count_accepted (slice_or s t) n + count_accepted (slice_and s t) n
               = count_accepted s n + count_accepted t n).
Proof. exact count_accepted_closed_forms. Qed.

(* retention sees a Slice2D only through the indexes it accepts BELOW the matrix's size: two
   slices that agree there retain the same matrix with the same outcome, in place and
   allocating, from every valid state — so a builder may rewrite an expression exactly when it
   preserves `accepts` *)
Theorem C11_retain_respects_accepts : forall (T : Type) (s : matrix T) (a b : slice2d), Inv s ->
  (forall i, i < m_rows s -> slice_accepts (s_rows a) i = slice_accepts (s_rows b) i) ->
  (forall j, j < m_cols s -> slice_accepts (s_columns a) j = slice_accepts (s_columns b) j) ->
  retain_mut s a = retain_mut s b /\ retain s a = retain s b.
Proof. exact @retain_respects_accepts. Qed.

(* in particular: method-built, columns-first = enum-built, rows-first (any state at all) *)
Theorem C11_retain_by_methods : forall (T : Type) (s : matrix T) (rows columns : slice),
  retain_mut s (slice2d_columns_then_rows (by_methods columns) (by_methods rows))
    = retain_mut s (slice2d_rows_then_columns rows columns) /\
  retain s (slice2d_columns_then_rows (by_methods columns) (by_methods rows))
    = retain s (slice2d_rows_then_columns rows columns).
Proof. exact @retain_by_methods. Qed.

(* the size a retention leaves is the pair of counts of accepted indexes, and it panics exactly
   when one of the counts is 0 (with C11_count_accepted_closed_forms: e.g. rows Range(a..b) on a
   matrix of n rows leaves min(b, n) - a rows and panics iff that is 0) *)
Theorem C11_retained_size : forall (T : Type) (s : matrix T) (a : slice2d), Inv s ->
  (snd (retain_mut s a) = false <->
     count_accepted (s_rows a) (m_rows s) = 0 \/ count_accepted (s_columns a) (m_cols s) = 0) /\
  (snd (retain_mut s a) = true ->
     m_rows (fst (retain_mut s a)) = count_accepted (s_rows a) (m_rows s) /\
     m_cols (fst (retain_mut s a)) = count_accepted (s_columns a) (m_cols s)).
Proof. exact @retained_size. Qed.

(* a slice IS the set of indexes it accepts: on an axis of length n every slice accepts below n
   exactly what the `or` of the Singles of its accepted indexes accepts, and retention by a
   Slice2D is retention by these normal forms (slice_of_indexes [i1; i2; ...] =
   Single(i1).or(Single(i2).or(... None()))) *)
Theorem C11_slice_normal_form : forall (T : Type) (s : matrix T) (a : slice2d),
  (forall sl n i, i < n -> slice_accepts (slice_of_indexes (filter (slice_accepts sl) (nrange n))) i = slice_accepts sl i) /\
  (Inv s ->
   let nf := mkSlice2D (slice_of_indexes (filter (slice_accepts (s_rows a)) (nrange (m_rows s))))
                       (slice_of_indexes (filter (slice_accepts (s_columns a)) (nrange (m_cols s)))) in
   retain_mut s a = retain_mut s nf /\ retain s a = retain s nf).
Proof. exact (fun T s a => conj slice_normal_form (retain_by_normal_form s a)). Qed.

(* mutation through a part of Matrix::partition with DISTINGUISHABLE values: writing g(i, j) to
   cell (i, j) — the part's own index — of part k of an accepted partition is
   map_mut_with_index with "g(row - rlo, column - clo) inside the part's rectangle
   [rlo, rhi) x [clo, chi), unchanged outside" on the list of rows (so the cell mapping of the
   part is pinned down, not only its extent: C11_partition_fill_step is the instance g = const) *)
Theorem C11_partition_write_step : forall (T : Type) (m : list (list T)) rp cp k (g : N -> N -> T), rect m ->
  partition_write (of_rows m) rp cp k g
    = (of_rows (fst (spec_partition_write m rp cp k g)), snd (spec_partition_write m rp cp k g))
  /\ rect (fst (spec_partition_write m rp cp k g)).
Proof. exact @partition_write_refines. Qed.

Theorem C11_partition_write_cells : forall (T : Type) (m : list (list T)) rp cp k (g : N -> N -> T) rlh clh, rect m ->
  snd (spec_partition_write m rp cp k g) = true ->
  nth_error (intervals 0 (rp ++ [nlen m])) (k / (length cp + 1)) = Some rlh ->
  nth_error (intervals 0 (cp ++ [N.of_nat (ncols m)])) (k mod (length cp + 1)) = Some clh ->
  fst (spec_partition_write m rp cp k g)
  = mapi_from (fun i row => mapi_from (fun j x => if in_rect rlh clh i j then g (i - fst rlh) (j - fst clh) else x) 0 row) 0 m.
Proof. exact @partition_write_cells. Qed.

Theorem C11_partition_write_frame : forall (T : Type) (s : matrix T) rp cp k (g : N -> N -> T), Inv s ->
  let r := partition_write s rp cp k g in
  Inv (fst r) /\ m_rows (fst r) = m_rows s /\ m_cols (fst r) = m_cols s /\
  (snd r = false <-> partition (m_rows s) (m_cols s) rp cp = Panic) /\
  (snd r = false -> fst r = s).
Proof. exact @partition_write_frame. Qed.

(* the allocating and the in-place transposition (square swap loop or non-square rebuild) agree
   from every valid state of an allocated matrix: same matrix, both return, the rows are the
   columns of before, the size is swapped; and two transpositions in any mix give the matrix back *)
Theorem C11_transpose_forms_agree : forall (T : Type) (s : matrix T), Inv s -> nlen (m_data s) <= usize_max ->
  impl_step s OTransposeMut = impl_step s OTranspose /\
  snd (impl_step s OTranspose) = true /\
  abs (fst (impl_step s OTranspose)) = spec_transpose (abs s) /\
  m_rows (fst (impl_step s OTranspose)) = m_cols s /\ m_cols (fst (impl_step s OTranspose)) = m_rows s.
Proof. exact @transpose_forms_agree. Qed.

Theorem C11_transpose_twice : forall (T : Type) (s : matrix T) (o1 o2 : op T), Inv s -> nlen (m_data s) <= usize_max ->
  (o1 = OTranspose \/ o1 = OTransposeMut) -> (o2 = OTranspose \/ o2 = OTransposeMut) ->
  impl_step (fst (impl_step s o1)) o2 = (s, true).
Proof. exact @transpose_twice. Qed.

(* element writes through view wrappers created between resizing steps: MatrixView::from(&mut m)
   and m.range_mut(0..rows, 0..columns) (the C12 model's `write` through VMatrix / the full
   VRange) change the storage exactly as Matrix::set does and refuse exactly the same indexes *)
Theorem C11_view_write_is_set : forall (T : Type) (s : matrix T) r c (v : T), Inv s -> nlen (m_data s) <= usize_max ->
  let res := match mset s r c v with Some s' => (m_data s', true) | None => (m_data s, false) end in
  write (m_data s) (VMatrix (m_rows s) (m_cols s)) r c v = res /\
  write (m_data s) (range_from (VMatrix (m_rows s) (m_cols s)) (ir_of_range 0 (m_rows s)) (ir_of_range 0 (m_cols s)))
        r c v = res.
Proof. exact @view_write_is_set. Qed.

(* non-vacuity / witnesses: the nested pair of seed C11-v2 meets the hypotheses of
   C11_range_or_merge and the slip's range differs from the `or` at index 2; a retention with a
   method-built nested-range `or`; a write of distinguishable values through part 3 of a
   partition of a 3 x 3 matrix after a resize *)
Example C11_nonvacuous_slices :
  (0 < 3 /\ 1 < 2 /\ 1 <= 3 /\ 0 <= 2) /\
  slice_accepts (slice_or (SRange 0 3) (SRange 1 2)) 2 = true /\
  slice_accepts (merged_range 0 3 1 2) 2 = true /\
  slice_accepts (merged_range_slip 0 3 1 2) 2 = false /\
  count_accepted (slice_or (SRange 0 3) (SRange 1 2)) 4 = 3 /\
  (let s := mkM [1; 2; 3; 4; 5; 6; 7; 8; 9; 10; 11; 12] 3 4 in
   Inv s /\ nlen (m_data s) <= usize_max /\
   retain_mut s (slice2d_columns_then_rows (by_methods (SOr (SRange 1 2) (SRange 0 3)))
                                           (by_methods (SOr (SRange 0 3) (SRange 1 2))))
     = (mkM [1; 2; 3; 5; 6; 7; 9; 10; 11] 3 3, true) /\
   xtrace s [XOp (ORemoveColumn 3); XPartitionWrite [1] [1] 3 (fun i j => 100 + 10 * i + j); XOp OTransposeMut]
     = [(mkM [1; 2; 3; 5; 6; 7; 9; 10; 11] 3 3, true);
        (mkM [1; 2; 3; 5; 100; 101; 9; 110; 111] 3 3, true);
        (mkM [1; 5; 9; 2; 100; 110; 3; 101; 111] 3 3, true)]).
Proof.
  cbv zeta. repeat split; try reflexivity; try (vm_compute; discriminate).
Qed.

Print Assumptions C11_slice_builder_laws.
Print Assumptions C11_slice_algebra_laws.
Print Assumptions C11_slice_atom_laws.
Print Assumptions C11_range_or_merge.
Print Assumptions C11_slice2d_builder_orders.
Print Assumptions C11_count_accepted_closed_forms.
Print Assumptions C11_retain_respects_accepts.
Print Assumptions C11_retain_by_methods.
Print Assumptions C11_slice_normal_form.
Print Assumptions C11_retained_size.
Print Assumptions C11_partition_write_step.
Print Assumptions C11_partition_write_cells.
Print Assumptions C11_partition_write_frame.
Print Assumptions C11_transpose_forms_agree.
Print Assumptions C11_transpose_twice.
Print Assumptions C11_view_write_is_set.

(* ======================================================================================== *)
(* GENERATED FROM THE SOURCE (builder GEN, second extension wave; appended block).            *)
(* On every `./check C11`, tools/gen_arith.py re-reads src/matrices/mod.rs and translates the *)
(* index arithmetic of the mutators into Gen/Arith.v (explicit machine arithmetic, both build *)
(* profiles `md`): the closure handed to Vec::retain by remove_row / remove_column /          *)
(* retain_mut as a state-passing function of the captured counters (r, c); Slice::accepts     *)
(* as a Fixpoint generated from the enum's `match self`, Slice2D::accepts; the position       *)
(* handed to Vec::insert by insert_row(_with) / insert_column(_with); and remove_row,         *)
(* remove_column, insert_row, insert_column as whole methods (asserts, loop, size update).    *)
(* Proofs/GenMatrixP.v proves them equal to the hand-written Model/Matrix.v the theorems      *)
(* above are about, for every state satisfying the invariant whose element count (after an    *)
(* insertion) fits a usize.  A source edit that changes the arithmetic breaks the lemma that  *)
(* names the function (GENERATED-EQUIVALENCE-BROKEN <lemma>); a function that leaves the      *)
(* translator's subset is not emitted, so the lemma no longer type-checks.                    *)
(* `select kept data` = the stored values at the positions whose flag is true (Vec::retain);  *)
(* `insert_each` = Vec::insert at each position in order (Model/Matrix.v).                    *)
(* ======================================================================================== *)
From EasyML Require Import Model.U64 Gen.Arith Proofs.GenMatrixP.

Theorem C11_generated_arith_matches_model : forall (T : Type) md (m : matrix T),
  Inv m ->
  (* the three retain closures: keep flag and counter update of Model/Matrix.v retain_rc *)
  (forall x r c, r < usize_max -> m_cols m <= usize_max ->
     gen_Matrix_remove_row_retain md x (m_cols m) r c = Ok (negb (r =? x), rc_next (m_cols m) r c) /\
     gen_Matrix_remove_column_retain md x (m_cols m) r c = Ok (negb (c =? x), rc_next (m_cols m) r c)) /\
  (forall s r c, r < usize_max -> m_cols m <= usize_max ->
     gen_Matrix_retain_mut_retain md s (m_cols m) r c = Ok (slice2d_accepts s r c, rc_next (m_cols m) r c)) /\
  (* Slice::accepts (generated as a Fixpoint from the enum's `match self`) and Slice2D::accepts *)
  (forall s i, gen_Slice_accepts s i = slice_accepts s i) /\
  (forall s row column, gen_Slice2D_accepts md s row column = Ok (slice2d_accepts s row column)) /\
  (* Vec::retain driven by them = retain_rc; remove_row / remove_column as whole methods *)
  (nlen (m_data m) <= usize_max ->
   (forall row,
      match gen_Matrix_remove_row md (gm_of m) row (length (m_data m)) with
      | Ok (kept, g) => remove_row m row = (mkM (select kept (m_data m)) (gm_rows g) (gm_columns g), true)
      | Panic => remove_row m row = (m, false)
      | Err _ => False
      end) /\
   (forall column,
      match gen_Matrix_remove_column md (gm_of m) column (length (m_data m)) with
      | Ok (kept, g) => remove_column m column = (mkM (select kept (m_data m)) (gm_rows g) (gm_columns g), true)
      | Panic => remove_column m column = (m, false)
      | Err _ => False
      end) /\
   (forall s, exists kept,
      gen_retain (fun st => let '(r, c) := st in gen_Matrix_retain_mut_retain md s (m_cols m) r c)
                 (0, 0) (length (m_data m)) = Ok kept /\
      retain_rc (slice2d_accepts s) (m_cols m) (m_data m) 0 0 = select kept (m_data m))) /\
  (* the insertion positions of all four insert methods are get_index(row, column) *)
  (forall row column, row * m_cols m + column <= usize_max ->
     gen_Matrix_insert_row_position md (gm_of m) row column = Ok (get_index m row column) /\
     gen_Matrix_insert_row_with_position md (gm_of m) row column = Ok (get_index m row column) /\
     gen_Matrix_insert_column_position md (gm_of m) column row = Ok (get_index m row column) /\
     gen_Matrix_insert_column_with_position md (gm_of m) column row = Ok (get_index m row column)) /\
  (* insert_row / insert_column as whole methods *)
  (forall row (value : T), (m_rows m + 1) * m_cols m <= usize_max ->
     match gen_Matrix_insert_row md (gm_of m) row with
     | Ok (ps, g) =>
         insert_row m row value =
         (let '(d, fine) := insert_each (map (fun k => (k, value)) ps) (m_data m) in
          if fine then (mkM d (gm_rows g) (gm_columns g), true) else (mkM d (m_rows m) (m_cols m), false))
     | Panic => insert_row m row value = (m, false)
     | Err _ => False
     end) /\
  (forall column (value : T), m_rows m * (m_cols m + 1) <= usize_max ->
     match gen_Matrix_insert_column md (gm_of m) column with
     | Ok (ps, g) =>
         insert_column m column value =
         (let '(d, fine) := insert_each (map (fun k => (k, value)) ps) (m_data m) in
          if fine then (mkM d (gm_rows g) (gm_columns g), true) else (mkM d (m_rows m) (m_cols m), false))
     | Panic => insert_column m column value = (m, false)
     | Err _ => False
     end).
Proof. exact @generated_matrix_arith_matches_model. Qed.

(* non-vacuity: the generated definitions evaluated by the kernel on a 2 x 3 matrix (the flags
   drop row 1 / column 1, the positions are those of a new row 1 / a new column 3), and an
   instance of every hypothesis *)
Example C11_generated_nonvacuous :
  let m := mkM [1; 2; 3; 4; 5; 6] 2 3 in
  Inv m /\ nlen (m_data m) <= usize_max /\ (m_rows m + 1) * m_cols m <= usize_max /\
  gen_Matrix_remove_row Debug (gm_of m) 1 6 = Ok ([true; true; true; false; false; false], mkGenMatrix 1 3) /\
  gen_Matrix_remove_column Release (gm_of m) 1 6 = Ok ([true; false; true; true; false; true], mkGenMatrix 2 2) /\
  gen_Matrix_remove_row Debug (gm_of m) 2 6 = Panic /\
  gen_Matrix_insert_row Debug (gm_of m) 1 = Ok ([3; 4; 5], mkGenMatrix 3 3) /\
  gen_Matrix_insert_column Debug (gm_of m) 3 = Ok ([6; 3], mkGenMatrix 2 4) /\
  gen_Matrix_insert_column Debug (gm_of m) 4 = Panic /\
  gen_Matrix_remove_row_retain Debug 0 0 0 0 = Panic /\
  gen_Slice_accepts (SAnd (SRange 1 3) (SNot (SSingle 2))) 1 = true /\
  gen_Matrix_retain_mut_retain Debug (mkSlice2D (SNot (SSingle 0)) SAll) 3 0 2 = Ok (false, (1, 0)) /\
  gen_Matrix_remove_row_retain Release 0 3 usize_max 2 = Ok (true, (0, 0)).
Proof.
  cbv zeta. split; [unfold Inv, nlen; cbn; repeat split; discriminate|].
  split; [vm_compute; discriminate|]. split; [vm_compute; discriminate|].
  vm_compute. repeat split.
Qed.

Print Assumptions C11_generated_arith_matches_model.

(* ---- third extension wave (builder GEN): whole-method frames with `for` loops as folds ----
   For every matrix state satisfying the invariant: (1) retain_mut as generated (counting loops,
   asserts, retain pass, emptiness assert, size update) returns exactly when the model does, keeps
   the same values and stores the same size; when it panics the model reports a panic, and when
   one of the two counting asserts is the reason nothing was dropped; (2) from_flat_row_major's
   validation as generated accepts exactly the (size, length) pairs the model accepts; (3) / (4)
   insert_row_with / insert_column_with as generated: a panic BEFORE the insertions leaves the model
   state untouched, otherwise the positions (in insertion order) and the final size are the
   model's and nothing panics after the loop. *)
Theorem C11_generated_frames_match_model : forall (T : Type) md (m : matrix T),
  Inv m ->
  (nlen (m_data m) <= usize_max -> forall s,
     match gen_Matrix_retain_mut md (gm_of m) s (length (m_data m)) with
     | Ok (kept, g) => retain_mut m s = (mkM (select kept (m_data m)) (gm_rows g) (gm_columns g), true)
     | Panic => snd (retain_mut m s) = false /\
                (count_accepted (s_rows s) (m_rows m) = 0 \/ count_accepted (s_columns s) (m_cols m) = 0 ->
                 retain_mut m s = (m, false))
     | Err _ => False
     end) /\
  (forall (size : N * N) (values : list T),
     gen_Matrix_from_flat_row_major md size (nlen values) =
     match from_flat_row_major size values with Ok m => Ok (gm_of m) | Panic => Panic | Err e => Err e end) /\
  (forall row (values : list T), (m_rows m + 1) * m_cols m <= usize_max ->
     match gen_Matrix_insert_row_with md (gm_of m) row (nlen values) with
     | Ok (ps, after) =>
         exists g, after = Ok g /\
         insert_row_with m row values =
         (let '(d, fine) := insert_each (combine ps (firstn (N.to_nat (m_cols m)) values)) (m_data m) in
          if fine then (mkM d (gm_rows g) (gm_columns g), true) else (mkM d (m_rows m) (m_cols m), false))
     | Panic => insert_row_with m row values = (m, false)
     | Err _ => False
     end) /\
  (forall column (values : list T), m_rows m * (m_cols m + 1) <= usize_max ->
     match gen_Matrix_insert_column_with md (gm_of m) column (nlen values) with
     | Ok (ps, after) =>
         exists g, after = Ok g /\
         insert_column_with m column values =
         (let '(d, fine) := insert_popping ps (rev (firstn (N.to_nat (m_rows m)) values)) (m_data m) in
          if fine then (mkM d (gm_rows g) (gm_columns g), true) else (mkM d (m_rows m) (m_cols m), false))
     | Panic => insert_column_with m column values = (m, false)
     | Err _ => False
     end).
Proof. exact @generated_matrix_frames_match_model. Qed.

(* non-vacuity: the generated frames evaluated by the kernel on a 2 x 3 matrix *)
Example C11_generated_frames_nonvacuous :
  let m := mkM [1; 2; 3; 4; 5; 6] 2 3 in
  Inv m /\ nlen (m_data m) <= usize_max /\ (m_rows m + 1) * m_cols m <= usize_max /\ m_rows m * (m_cols m + 1) <= usize_max /\
  gen_Matrix_retain_mut Debug (gm_of m) (mkSlice2D (SSingle 1) (SNot (SSingle 1))) 6
    = Ok ([false; false; false; true; false; true], mkGenMatrix 1 2) /\
  gen_Matrix_retain_mut Debug (gm_of m) (mkSlice2D (SSingle 2) SAll) 6 = Panic /\
  gen_Matrix_from_flat_row_major Release (2, 3) 6 = Ok (mkGenMatrix 2 3) /\
  gen_Matrix_from_flat_row_major Release (2, 3) 5 = Panic /\
  gen_Matrix_from_flat_row_major Release (usize_max, 2) (usize_max - 1) = Panic /\
  gen_Matrix_insert_row_with Debug (gm_of m) 1 5 = Ok ([3; 4; 5], Ok (mkGenMatrix 3 3)) /\
  gen_Matrix_insert_row_with Debug (gm_of m) 1 2 = Panic /\
  gen_Matrix_insert_column_with Debug (gm_of m) 3 4 = Ok ([6; 3], Ok (mkGenMatrix 2 4)) /\
  gen_Matrix_insert_column_with Debug (gm_of m) 3 1 = Panic.
Proof.
  cbv zeta. split; [unfold Inv, nlen; cbn; repeat split; discriminate|].
  split; [vm_compute; discriminate|]. split; [vm_compute; discriminate|]. split; [vm_compute; discriminate|].
  vm_compute. repeat split.
Qed.

Print Assumptions C11_generated_frames_match_model.
