(* C06 - Record containers differentiate identically to element-by-element records.
   Only the property theorems (closed by `exact`), the non-vacuity example and the assumption
   audit.  Definitions: Model/Container.v (crun: the container program as the crate runs it;
   erun: the same program performed element by element with individual Records),
   Proofs/C06P.v (simulation through forward tangents + Proofs/TapeP.sweep_is_tangent).

   FULL STATEMENT aimed at (C06_elementwise_equiv): for EVERY container program `prog` of the
   case language (declarations, unary kinds incl. *_assign, binary kinds in the four invocation
   modes, matrix multiplication, map / map_mut, from_iter, from_iters) whose container run and
   element-by-element run complete: equal shapes and values for every environment entry, and
   for every input element (x, j) and output element (o, i) the derivative on the container tape
   equals the derivative on the Record tape.
   PROVED below (C06_elementwise_equiv_partial): exactly that statement for programs built from
   declarations, all unary kinds (allocating and assign forms) and all binary kinds in all four
   invocation modes (`supported`).  MISSING from the proof (covered by the correspondence check
   only, where the harness compares the two runs on every case): OMatmul, OMap, OFromIter,
   OFromIters2; also not derived: that the element-by-element run cannot fail when the
   container run completes (it is a hypothesis), and that constant-ness agrees. *)
From Coq Require Import List ZArith Bool Arith.
From EasyML Require Import Base.Sx Model.Num Model.Tape Model.Container Proofs.TapeP Proofs.C06P.
Import ListNotations.

Theorem C06_elementwise_equiv_partial :
  forall (R : Type) (ops : numops R),
  ring_theory (nzero ops) (none_ ops) (nadd ops) (nmul ops) (nsub ops) (nneg ops) (@eq R) ->
  forall prog m m' ct cenv et eenv,
  forallb supported prog = true ->
  crun ops ([], []) 0 prog = Some (m, Ok (ct, cenv)) ->
  erun ops ([], []) 0 prog = Some (m', Ok (et, eenv)) ->
  (forall o c e, nth_error cenv o = Some c -> nth_error eenv o = Some e ->
     c_tensor c = e_tensor e /\ c_shape c = e_shape e /\
     map fst (c_data c) = map (@r_num R) (e_recs e)) /\
  (forall x j o i cx ex vx p rq c e v po ro h h',
     is_input x j 0 prog ->
     nth_error cenv x = Some cx -> nth_error eenv x = Some ex ->
     nth_error (c_data cx) j = Some (vx, p) -> nth_error (e_recs ex) j = Some rq ->
     nth_error cenv o = Some c -> nth_error eenv o = Some e ->
     nth_error (c_data c) i = Some (v, po) -> c_hist c = Some h ->
     nth_error (e_recs e) i = Some ro -> r_hist ro = Some h' ->
     nth p (sweep ops ct po) (nzero ops) = nth (r_idx rq) (sweep ops et (r_idx ro)) (nzero ops)).
Proof. exact @elementwise_equiv. Qed.

(* FULL STATEMENT aimed at (C06_constant_side_inert): with one operand constants, that operand
   influences no derivative, for binary operations AND both matrix multiplications.
   PROVED: for every binary operation (RecordTensor / RecordMatrix ::binary, hence the
   operators, elementwise_multiply / _divide and the assign forms): the index stored next to a
   constant is never read - replacing the indexes of the constants operand (on either side) by
   arbitrary numbers changes neither the tape nor the result.  MISSING: the same for
   record_scalar_product / the matrix multiplications (checked by the correspondence only:
   constants x variables pairings of every product size, compared with scalar Records). *)
Theorem C06_constant_side_inert_partial :
  forall (R : Type) (ops : numops R) t f (x y y' : cont R),
  same_numbers y y' ->
  c_binary ops t f x y' = c_binary ops t f x y /\
  (c_tensor x = c_tensor y -> c_shape x = c_shape y ->
   omap (fun p => (fst p, c_data (snd p), c_hist (snd p))) (c_binary ops t f y' x) =
   omap (fun p => (fst p, c_data (snd p), c_hist (snd p))) (c_binary ops t f y x)).
Proof. exact @constant_side_inert. Qed.

(* non-vacuity: a 2-element variables tensor, a constants tensor, their elementwise product
   (binary), the left-assign sum with the variables, and a unary kind; both runs complete and
   (0, 1) is an input element.  d(out[1]) / d(x[1]) = c[1] + 1 = 7 on both tapes. *)
Example C06_nonvacuous :
  let prog := [ODecl true true [(0, 2)] [3; 4]%Z; ODecl true false [(0, 2)] [5; 6]%Z;
               OBinary 1 2 0 1; OBinary 2 0 2 0; OUnary true 0 0%Z 3] in
  forallb supported prog = true /\ is_input 0 1 0 prog /\
  exists m ct cenv m' et eenv,
    crun Zops6 ([], []) 0 prog = Some (m, Ok (ct, cenv)) /\
    erun Zops6 ([], []) 0 prog = Some (m', Ok (et, eenv)) /\
    nth 1 (sweep Zops6 ct 5) 0%Z = 7%Z /\ nth 1 (sweep Zops6 et 5) 0%Z = 7%Z.
Proof.
  cbv zeta. split; [reflexivity|]. split; [left; split; [reflexivity|cbn; auto]|].
  do 6 eexists. vm_compute. repeat split; reflexivity.
Qed.

Print Assumptions C06_elementwise_equiv_partial.
Print Assumptions C06_constant_side_inert_partial.
