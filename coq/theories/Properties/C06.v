(* C06 - Record containers differentiate identically to element-by-element records.
   Only the property theorems (closed by `exact`), the non-vacuity examples and the assumption
   audit.  Definitions: Model/Container.v (crun: the container program as the crate runs it;
   erun: the same program performed element by element with individual Records),
   Proofs/C06P.v (simulation through forward tangents + Proofs/TapeP.sweep_is_tangent),
   Proofs/C06Q.v (the Record run completes; inert constants in products).

   C06_elementwise_equiv covers EVERY container program of the case language: declarations
   (variables / constants, tensors / matrices), all unary kinds (allocating and assign forms),
   all binary kinds in the four invocation modes (operator, binary / elementwise_*, left
   assign, right assign - every variable/constant pairing), both matrix multiplications, map /
   map_mut with scalar closures, from_iter of a mapped record iterator (row / column major,
   tensor <-> matrix), from_iters::<2>, and containers whose SOURCE is a view of another
   container (OView: the column-major interop matrix over a transposed record tensor, the
   dimension-swapped TensorAccess tensor, detached constants copies with relabelled indexes -
   model-wise a permutation / relabelling of the element list).  Whenever the container run completes, the
   element-by-element run completes as well (derived, not assumed), every element has the
   same value and the same constant-ness, and every derivative agrees.  The one hypothesis:
   the closures handed to map / from_iter / from_iters only mention the element and constants
   (`supported`: no clone of a record of ANOTHER WengertList - such streams are rejected with
   InconsistentHistory or a panic and are covered by the correspondence check).  Any
   commutative ring.
   C06_constant_side_inert: binary operations AND both matrix multiplications, either side.

   Session 3: the program language of the theorem (Container.cop) now also contains
   * OSelect f srcs - a container whose SOURCE is ANY view over one or several other containers
     of one history: the constructor carries the position map f (from the sources' kinds and
     shapes to the new kind, shape and, per element, which element of which source it is), and
     the theorem quantifies over all programs, hence over ALL such maps at once.  The view
     kinds of the case language (TensorRange, TensorMask, TensorReverse, TensorRename,
     TensorAccess, TensorTranspose, TensorIndex + TensorExpansion, TensorChain, TensorStack +
     TensorIndex, MatrixRange, MatrixReverse, the quadrants of a partitioned matrix) are the
     instances Model/ContainerViews.view_map; the older OView kinds (column-major interop
     matrix, dimension-swapped TensorAccess, detached constants) stay.
   * OCollect tensor sh colmajor take es a - from_iters::<N> for any N = length es (N = 1: also
     from_iter) into an arbitrary target kind / shape from a row- or column-major, possibly
     truncated (take) record stream; per-output errors (InconsistentHistory / Empty / Shape)
     are part of the model's outcome.
   Wave 3: C06_runs_stay_linked + C06_rejected_streams (+ _from_iters2, _from_iters): what a
   container operation with ANY closure does when it does not complete: panic iff the
   element-by-element closure evaluation panics; error value = the collect rule's verdict on
   the element-by-element stream(s) - no `supported` hypothesis; map / map_mut / from_iter /
   from_iters::<2> / from_iters::<N>; C06_rejected_run lifts them to whole runs.
   Wave 4: C06_derivative_queries_agree - the QUERY side of a derivative set (Derivatives::at /
   Index / Vec::from / at_tensor_index / at_matrix_index / at_tensor / at_matrix =
   ContainerViews.at_record / at_container_index / at_container): all forms agree in the input
   container's own view order, and the whole-container answer for a container over any view is
   the relabelling of the sources' answers by the view's position map.  The case language has an
   optional list of containers (any source kind, any tape layout) the derivatives are queried
   with respect to.
   Not in the model: Display impls; the record containers' own TensorRef / MatrixRef impls used
   as the SOURCE of a further adaptor (the views are built over copies of the elements);
   MatrixMask / MatrixMap (not MatrixMut: the assign forms do not exist for them);
   TensorRefMatrix (its dimension names are outside the model's name space). *)
From Coq Require Import List ZArith Bool Arith.
From EasyML Require Import Base.Sx Model.Num Model.Tape Model.Container Model.ContainerViews Proofs.TapeP Proofs.C06P Proofs.C06Q Proofs.C06D.
Import ListNotations.

Theorem C06_elementwise_equiv :
  forall (R : Type) (ops : numops R),
  ring_theory (nzero ops) (none_ ops) (nadd ops) (nmul ops) (nsub ops) (nneg ops) (@eq R) ->
  forall prog m ct cenv,
  forallb supported prog = true ->
  crun ops ([], []) 0 prog = Some (m, Ok (ct, cenv)) ->
  exists m' et eenv,
  erun ops ([], []) 0 prog = Some (m', Ok (et, eenv)) /\
  (forall o c e, nth_error cenv o = Some c -> nth_error eenv o = Some e ->
     c_tensor c = e_tensor e /\ c_shape c = e_shape e /\
     map fst (c_data c) = map (@r_num R) (e_recs e) /\
     Forall (fun r => r_hist r = c_hist c) (e_recs e)) /\
  (forall x j o i cx ex vx p rq c e v po ro h,
     is_input x j 0 prog ->
     nth_error cenv x = Some cx -> nth_error eenv x = Some ex ->
     nth_error (c_data cx) j = Some (vx, p) -> nth_error (e_recs ex) j = Some rq ->
     nth_error cenv o = Some c -> nth_error eenv o = Some e ->
     nth_error (c_data c) i = Some (v, po) -> c_hist c = Some h ->
     nth_error (e_recs e) i = Some ro ->
     nth p (sweep ops ct po) (nzero ops) = nth (r_idx rq) (sweep ops et (r_idx ro)) (nzero ops)).
Proof. exact @elementwise_equiv_total. Qed.

(* With one operand constants (history None), the index stored next to a constant is never
   read or recorded: replacing the indexes of the constants operand - on either side - by
   arbitrary numbers changes neither the tape nor the result, for every binary operation
   (RecordTensor / RecordMatrix ::binary, hence the operators, elementwise_multiply / _divide and
   the assign forms) and for both matrix multiplications (record_scalar_product appends a unary
   entry for the variable side only).  Together with C06_elementwise_equiv (the constant side
   is a Record::constant there) the constant side influences no derivative. *)
Theorem C06_constant_side_inert :
  forall (R : Type) (ops : numops R) t (x y y' : cont R),
  same_numbers y y' ->
  (forall f, c_binary ops t f x y' = c_binary ops t f x y /\ c_binary ops t f y' x = c_binary ops t f y x) /\
  c_matmul ops t x y' = c_matmul ops t x y /\ c_matmul ops t y' x = c_matmul ops t y x.
Proof. exact @constant_side_inert_all. Qed.

(* A container whose source is a view (OSelect) is exactly the relabelling its position map
   describes: nothing is appended to the tape, the kind / shape are the map's, the number of
   elements is that of the shape, every source has the container's history, and element i is
   the (number, tape position) pair j of source k where (k, j) = nth i pos.  Together with
   C06_elementwise_equiv (which covers every program containing such views, for every map f)
   this is the model-level content of "for every source view kind and shape". *)
Theorem C06_view_is_relabelling :
  forall (R : Type) (ops : numops R) t env f srcs t' (c : cont R),
  cstep ops (t, env) (OSelect f srcs) = Some (Ok (t', [c])) ->
  t' = t /\
  exists xs tensor sh pos,
    sequence (map (fun k => nth_error env k) srcs) = Some xs /\
    f (map (fun x => (c_tensor x, c_shape x)) xs) = Some (tensor, sh, pos) /\
    c_tensor c = tensor /\ c_shape c = sh /\ length (c_data c) = length pos /\ elements sh = length pos /\
    Forall (fun x => c_hist x = c_hist c) xs /\
    forall i k j, nth_error pos i = Some (k, j) ->
      exists x v, nth_error xs k = Some x /\ nth_error (c_data x) j = Some v /\ nth_error (c_data c) i = Some v.
Proof. exact @select_is_relabelling. Qed.

(* REJECTED STREAMS (wave 3).  C06_elementwise_equiv speaks about container runs that complete,
   under `supported`.  What happens when a container operation does NOT complete is decided
   without that hypothesis, for closures that may mention a record of ANOTHER WengertList
   (SOther).  The states of the two runs stay linked (`hl`: same kind and shape, elementwise
   the same histories) along every common program prefix ... *)
Theorem C06_runs_stay_linked :
  forall (R : Type) (ops : numops R) prog ct cenv eenv n m ct' cenv' et n',
  Forall2 hl cenv eenv -> crun ops (ct, cenv) n prog = Some (m, Ok (ct', cenv')) ->
  exists m' et' eenv', erun ops (et, eenv) n' prog = Some (m', Ok (et', eenv')) /\ Forall2 hl cenv' eenv'.
Proof. exact @e_run_completes. Qed.

(* ... and from linked states, for map / map_with_index / map_mut / map_mut_with_index (OMap) and
   from_iter of a mapped record iterator (OFromIter) with ANY closure: the container operation
   panics exactly when the element-by-element run of the same closure panics (a closure that
   combines the element with a record of another list); it returns an error value exactly when
   the element-by-element run COMPLETES and the documented collect rule (Container.c_from_iter:
   InconsistentHistory when a later record's history differs from the first one's, else Empty,
   else Shape) rejects the stream of records THAT run produced, with the same error value.
   (The element-by-element run itself has no collect stage and therefore no such error: "the
   container run errs exactly when the element-by-element run does" would be false; this is
   the true form.  Conversely, when the element-by-element run panics the container run cannot
   complete or err, by this theorem and C06_runs_stay_linked.)
   The same holds for from_iters::<2> and from_iters::<N> (the two theorems after this one).
   Not stated: the panics of the operation kinds WITHOUT closures (shape / name / length
   mismatch: decided by kinds and shapes, which `hl` equates).  Model caveat: an operator applied
   TO the foreign record alone (sin(other)) would be recorded on the single model tape; the
   case language never builds that. *)
Theorem C06_rejected_streams :
  forall (R : Type) (ops : numops R) cenv eenv ct et o r,
  Forall2 hl cenv eenv ->
  (exists mu e a, o = OMap mu e a) \/ (exists tensor sh cm e a, o = OFromIter tensor sh cm e a) ->
  cstep ops (ct, cenv) o = Some r ->
  match r with
  | Ok _ => True
  | Panic => estep ops (et, eenv) o = Some Panic
  | Err code => exists et' x, estep ops (et, eenv) o = Some (Ok (et', [x])) /\
                  c_from_iter (e_tensor x) (e_shape x) (e_recs x) = Err code
  end.
Proof. exact @rejected_streams. Qed.

(* from_iters::<2> with ANY two closures: the error value is the first output's verdict if that
   is an error, else the second output's - computed by the collect rule on the two streams of
   the element-by-element run *)
Theorem C06_rejected_streams_from_iters2 :
  forall (R : Type) (ops : numops R) cenv eenv ct et e1 e2 a r,
  Forall2 hl cenv eenv ->
  cstep ops (ct, cenv) (OFromIters2 e1 e2 a) = Some r ->
  match r with
  | Ok _ => True
  | Panic => estep ops (et, eenv) (OFromIters2 e1 e2 a) = Some Panic
  | Err code => exists et' x1 x2, estep ops (et, eenv) (OFromIters2 e1 e2 a) = Some (Ok (et', [x1; x2])) /\
      match c_from_iter (e_tensor x1) (e_shape x1) (e_recs x1), c_from_iter (e_tensor x2) (e_shape x2) (e_recs x2) with
      | Err e0, _ => e0 = code
      | Ok _, Err e0 => e0 = code
      | _, _ => False
      end
  end.
Proof. exact @rejected_streams2. Qed.

(* from_iters::<N> (any N, any target kind / shape, row or column major, truncated streams) with
   ANY closures: the error value is the list of per-output verdicts (3 = this output is fine,
   0 InconsistentHistory, 1 Empty, 2 Shape) of the collect rule on the N streams of the
   element-by-element run, at least one of which is rejected *)
Theorem C06_rejected_streams_from_iters :
  forall (R : Type) (ops : numops R) cenv eenv ct et tensor sh cm take es a r,
  Forall2 hl cenv eenv ->
  cstep ops (ct, cenv) (OCollect tensor sh cm take es a) = Some r ->
  match r with
  | Ok _ => True
  | Panic => estep ops (et, eenv) (OCollect tensor sh cm take es a) = Some Panic
  | Err code => exists et' xs, estep ops (et, eenv) (OCollect tensor sh cm take es a) = Some (Ok (et', xs)) /\
      code = SL (map (fun x => collect_code (c_from_iter (e_tensor x) (e_shape x) (e_recs x))) xs) /\
      exists x, In x xs /\ forall c, c_from_iter (e_tensor x) (e_shape x) (e_recs x) <> Ok c
  end.
Proof. exact @rejected_streamsN. Qed.

(* Run level: a container run that stops at an operation (error value or panic) has completed a
   prefix `pre` of the program; the element-by-element run completes the same prefix, the two
   states are linked there, and the operation that stopped the run is rejected by `cstep` with
   the same outcome - so the three theorems above apply to it (for any closures, no
   `supported`), in every run and not only from hand-picked linked states. *)
Theorem C06_rejected_run :
  forall (R : Type) (ops : numops R) prog ct cenv eenv n m r et n',
  Forall2 hl cenv eenv -> crun ops (ct, cenv) n prog = Some (m, r) -> (forall st, r <> Ok st) ->
  exists pre o post ct1 cenv1 m1 et1 eenv1 r1,
    prog = pre ++ o :: post /\ m = n + length pre /\
    crun ops (ct, cenv) n pre = Some (m, Ok (ct1, cenv1)) /\
    erun ops (et, eenv) n' pre = Some (m1, Ok (et1, eenv1)) /\ Forall2 hl cenv1 eenv1 /\
    cstep ops (ct1, cenv1) o = Some r1 /\
    match r, r1 with Err a, Err b => a = b | Panic, Panic => True | _, _ => False end.
Proof. exact @rejected_run. Qed.

(* non-vacuity: a 2-element variables tensor in both runs (linked states); the with_index closure
   "the element at the first index, a record of another list afterwards" is rejected with
   InconsistentHistory (error value 0); "element + record of another list" panics *)
Example C06_rejected_nonvacuous :
  let decl := ODecl true true [(0, 2)] [3; 4]%Z in
  exists ct cenv et eenv,
    cstep Zops6 ([], []) decl = Some (Ok (ct, cenv)) /\ estep Zops6 ([], []) decl = Some (Ok (et, eenv)) /\
    Forall2 hl cenv eenv /\
    cstep Zops6 (ct, cenv) (OMap false (SFirst SX SOther) 0) = Some (Err (SZ 0%Z)) /\
    cstep Zops6 (ct, cenv) (OMap true (SBin 0 SX SOther) 0) = Some Panic /\
    cstep Zops6 (ct, cenv) (OCollect true [(0, 2)] false 2 [SX; SFirst SX SOther] 0) = Some (Err (SL [SZ 3; SZ 0]%Z)) /\
    cstep Zops6 (ct, cenv) (OFromIters2 SX (SFirst SX SOther) 0) = Some (Err (SZ 0%Z)) /\
    cstep Zops6 (ct, cenv) (OFromIters2 SX (SBin 2 SOther SX) 0) = Some Panic.
Proof.
  cbv zeta. do 4 eexists. split; [vm_compute; reflexivity|]. split; [vm_compute; reflexivity|].
  split; [repeat constructor|]. repeat split; vm_compute; reflexivity.
Qed.

(* non-vacuity: a 2-element variables tensor, a constants tensor, their elementwise product
   (binary), the left-assign sum with the variables, and a unary kind; both runs complete and
   (0, 1) is an input element.  d(out[1]) / d(x[1]) = c[1] + 1 = 7 on both tapes. *)
Example C06_nonvacuous :
  let prog := [ODecl true true [(0, 2)] [3; 4]%Z; ODecl true false [(0, 2)] [5; 6]%Z;
               OBinary 1 2 0 1; OBinary 2 0 2 0; OUnary true 0 0%Z 3] in
  forallb supported prog = true /\ is_input 0 1 0 prog /\
  exists m ct cenv m' et eenv,
    crun Zops6 ([], []) 0 prog = Some (m, Ok (ct, cenv)) /\
    erun Zops6 ([], []) 0 prog = Some (m', Ok (et, eenv)) /\
    nth 1 (sweep Zops6 ct 5) 0%Z = 7%Z /\ nth 1 (sweep Zops6 et 5) 0%Z = 7%Z.
Proof.
  cbv zeta. split; [reflexivity|]. split; [left; split; [reflexivity|cbn; auto]|].
  do 6 eexists. vm_compute. repeat split; reflexivity.
Qed.

(* non-vacuity with a matrix product (variables x constants) followed by a map closure x*x *)
Example C06_nonvacuous_matmul :
  let sh := [(0, 2); (1, 2)] in
  let prog := [ODecl false true sh [1; 2; 3; 4]%Z; ODecl false false sh [5; 6; 7; 8]%Z;
               OMatmul 0 1; OMap false (SBin 2 SX SX) 2] in
  forallb supported prog = true /\ is_input 0 0 0 prog /\
  exists m ct cenv m' et eenv,
    crun Zops6 ([], []) 0 prog = Some (m, Ok (ct, cenv)) /\
    erun Zops6 ([], []) 0 prog = Some (m', Ok (et, eenv)) /\
    nth 0 (sweep Zops6 ct 16) 0%Z = 190%Z /\ nth 0 (sweep Zops6 et 16) 0%Z = 190%Z.
Proof.
  cbv zeta. split; [reflexivity|]. split; [left; split; [reflexivity|cbn; auto]|].
  do 6 eexists. vm_compute. repeat split; reflexivity.
Qed.

(* non-vacuity with generic source views and from_iters::<3>: x = a 2x3 variables tensor; its
   TensorAccess view with the dimensions swapped (3x2); the TensorRange rows 1..3 of that view;
   the TensorReverse (both dimensions) of the range = [x5 x2; x4 x1] (values 6 3 5 2); its
   elementwise square through `binary`; and from_iters::<3> of the reversed view's records with
   the closures x, 2 * x and constant(x).  Both runs complete, 8 containers; the second
   collected output is [12 6 10 4] and d(2 * x5) / d x5 = 2 on both tapes. *)
Example C06_nonvacuous_views :
  let prog := [ODecl true true [(0, 2); (1, 3)] [1; 2; 3; 4; 5; 6]%Z;
               OSelect (view_map 4 [[1; 0]]) [0];
               OSelect (view_map 0 [[1; 0]; [2; 2]]) [1];
               OSelect (view_map 2 [[1; 1]]) [2];
               OBinary 1 2 3 3;
               OCollect true [(0, 4); (1, 1)] false 4 [SX; SUn 12 2%Z SX; SDetach SX] 3] in
  forallb supported prog = true /\ is_input 0 5 0 prog /\
  exists m ct cenv m' et eenv,
    crun Zops6 ([], []) 0 prog = Some (m, Ok (ct, cenv)) /\
    erun Zops6 ([], []) 0 prog = Some (m', Ok (et, eenv)) /\ length cenv = 8 /\
    option_map (fun c => map fst (c_data c)) (nth_error cenv 3) = Some [6; 3; 5; 2]%Z /\
    option_map (fun c => map fst (c_data c)) (nth_error cenv 6) = Some [12; 6; 10; 4]%Z /\
    nth 5 (sweep Zops6 ct 10) 0%Z = 2%Z /\ nth 5 (sweep Zops6 et 10) 0%Z = 2%Z.
Proof.
  cbv zeta. split; [reflexivity|]. split; [left; split; [reflexivity|cbn; auto]|].
  do 6 eexists. vm_compute. repeat split; reflexivity.
Qed.

(* THE QUERY SIDE (wave 4).  A derivative set is read through `Derivatives::at(&record)` /
   `Index<&Record>` / `Vec::from` (at_record: the vector at the record's tape position),
   `at_tensor_index` / `at_matrix_index` (at_container_index: the element at a row-major position of
   the input container, None outside) and `at_tensor` / `at_matrix` (at_container: all at once).
   For EVERY derivative vector d and EVERY input container c (any source: c_data is the element
   list in the container's own view order): the whole-container answer has one entry per
   element; read at position k it IS the one-index answer; the one-index answer IS the
   one-record answer for the record at that position; outside the container it is None.  And
   for a container c over ANY view (OSelect f srcs, every position map f): the whole-container
   answer for c is the relabelling, by the view's position map, of the whole-container answers for
   the sources - element i of at_container d c is element j of at_container d (source k) where
   (k, j) = nth i pos.  (A fast path that pours a slice of d in memory order into the view's
   shape violates exactly this for a permuted view.) *)
Theorem C06_derivative_queries_agree :
  forall (R : Type) (ops : numops R) (d : list R),
  (forall (c : cont R), length (at_container (nzero ops) d c) = length (c_data c)) /\
  (forall (c : cont R) k, nth_error (at_container (nzero ops) d c) k = at_container_index (nzero ops) d c k) /\
  (forall (c : cont R) k v i, nth_error (c_data c) k = Some (v, i) ->
      at_container_index (nzero ops) d c k = Some (at_record (nzero ops) d i)) /\
  (forall (c : cont R) k, length (c_data c) <= k -> at_container_index (nzero ops) d c k = None) /\
  (forall t env f srcs t' (c : cont R),
      cstep ops (t, env) (OSelect f srcs) = Some (Ok (t', [c])) ->
      exists xs tensor sh pos,
        sequence (map (fun k => nth_error env k) srcs) = Some xs /\
        f (map (fun x => (c_tensor x, c_shape x)) xs) = Some (tensor, sh, pos) /\
        length (at_container (nzero ops) d c) = length pos /\
        forall i k j, nth_error pos i = Some (k, j) ->
          exists x w, nth_error xs k = Some x /\
                      nth_error (at_container (nzero ops) d x) j = Some w /\
                      nth_error (at_container (nzero ops) d c) i = Some w).
Proof. exact @derivative_queries_agree. Qed.

(* non-vacuity: the transposed view of a 2 x 3 container of variables at tape positions 0..5; the
   whole-container query of the view reads d at positions 0 3 1 4 2 5, not 0 1 2 3 4 5 *)
Example C06_queries_nonvacuous :
  let c := mkCont true [(1, 3); (0, 2)]
             [(1%Z, 0); (4%Z, 3); (2%Z, 1); (5%Z, 4); (3%Z, 2); (6%Z, 5)] (Some 0) in
  at_container 0%Z [10; 20; 30; 40; 50; 60]%Z c = [10; 40; 20; 50; 30; 60]%Z /\
  at_container_index 0%Z [10; 20; 30; 40; 50; 60]%Z c 1 = Some 40%Z /\
  at_container_index 0%Z [10; 20; 30; 40; 50; 60]%Z c 6 = None.
Proof. repeat split. Qed.

Print Assumptions C06_elementwise_equiv.
Print Assumptions C06_constant_side_inert.
Print Assumptions C06_view_is_relabelling.
Print Assumptions C06_runs_stay_linked.
Print Assumptions C06_rejected_streams.
Print Assumptions C06_rejected_streams_from_iters2.
Print Assumptions C06_rejected_streams_from_iters.
Print Assumptions C06_rejected_run.
Print Assumptions C06_derivative_queries_agree.
