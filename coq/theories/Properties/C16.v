(* C16 — Fallible APIs are total: failure value for every invalid input, never a panic.
   The theorems quantify over EVERY usize argument (all of [0, 2^64)) and over both build
   profiles (m : mode = overflow-checking dev build | wrapping release build): the transcribed
   index arithmetic (Model/Fallible.v, written with explicit machine arithmetic Model/U64.v)
   returns Ok of the ideal unbounded-arithmetic specification — it can neither panic nor wrap.
   Refuted/C16Legacy.v keeps kernel-checked witnesses that the code before the repairs did. *)
From Coq Require Import List ZArith NArith Bool Arith.
From EasyML Require Import Base.Sx Model.Shape Model.U64 Model.Fallible Model.FallibleApi
     Proofs.ShapeP Proofs.C16P Proofs.C16ApiP.
Import ListNotations.
Open Scope N_scope.

(* sub-range views (TensorRange / MatrixRange), one dimension: clip at construction, map at
   access — present exactly for the first `clipped_length` indexes, mapped to start + i *)
Theorem C16_range_get_total : forall m r len i,
  usz (r_start r) -> usz (r_length r) -> usz len -> usz i ->
  range_get m r len i = Ok (range_spec r len i).
Proof. exact range_get_total. Qed.

Theorem C16_range_len_total : forall r len, usz (r_start r) -> usz (r_length r) -> usz len ->
  range_len r len = Ok (clipped_length r len).
Proof. exact range_len_total. Qed.

Theorem C16_range_present_is_in_source : forall r len i j, range_spec r len i = Some j ->
  j < len /\ j = r_start r + i /\ i < r_length r.
Proof. exact range_spec_sound. Qed.

(* masks: never a panic, never the hidden element, for every index up to usize::MAX *)
Theorem C16_mask_get_total : forall r len i,
  usz (r_start r) -> usz (r_length r) -> usz len -> usz i ->
  mask_get r len i = Ok (mask_spec r len i).
Proof. exact mask_get_total. Qed.

Theorem C16_mask_len_total : forall m r len, usz (r_start r) -> usz (r_length r) -> usz len ->
  mask_len m r len = Ok (len - clipped_length r len).
Proof. exact mask_len_total. Qed.

Theorem C16_mask_never_exposes_hidden : forall r len i j, mask_spec r len i = Some j ->
  j < len /\ (j < r_start r \/ r_start r + clipped_length r len <= j).
Proof. exact mask_spec_sound. Qed.

(* strict mode: reports "outside the shape" exactly when start + length (unbounded) exceeds the
   dimension *)
Theorem C16_strict_bounds_test_exact : forall r len,
  usz (r_start r) -> usz (r_length r) -> usz len ->
  ir_exceeds r len = Ok (len <? r_start r + r_length r).
Proof. exact ir_exceeds_total. Qed.

(* lenient mode clips rather than fails whenever at least one index remains *)
Theorem C16_lenient_clips : forall r len,
  0 < clipped_length r len <-> r_start r < len /\ 0 < r_length r.
Proof. exact lenient_clips. Qed.

(* reversed views: absent (not a panic) for every out-of-range index, 0-length sources included *)
Theorem C16_reverse_get_total : forall m len i, usz len -> usz i ->
  reverse_get m len i = Ok (reverse_spec len i).
Proof. exact reverse_get_total. Qed.

(* element access on a validated tensor: the position arithmetic cannot overflow for ANY index
   tuple, whatever the coordinates *)
Theorem C16_get_index_direct_total : forall m sh idx,
  valid_shape sh -> elements sh <= usize_max ->
  gid_m m idx (compute_strides sh) (lens_of sh) 0 =
  Ok (get_index_direct idx (compute_strides sh) sh).
Proof. exact get_index_direct_total. Qed.

Theorem C16_matrix_try_index_total : forall m rows cols row col, rows * cols <= usize_max ->
  matrix_try_index m rows cols row col =
  Ok (if (row <? rows) && (col <? cols) then Some (row * cols + col) else None).
Proof. exact matrix_try_index_total. Qed.

(* fallible constructors: the size tests are exact over the whole domain *)
Theorem C16_tensor_validation_total : forall sh len, usz len ->
  (validate_dimensions sh len = true <-> valid_shape sh /\ elements sh = len).
Proof. exact validate_dimensions_total. Qed.

Theorem C16_matrix_size_test_total : forall rows cols len, usz len ->
  flat_size_ok rows cols len = Ok (rows * cols =? len).
Proof. exact flat_size_ok_total. Qed.

(* API level: the D-dimensional checked getter of a sub-range view over a validated tensor, for
   EVERY index tuple: never a panic, identical in both build profiles, equal to "map every
   coordinate through its clipped range, then address the source"; and whatever it maps to lies
   inside the source *)
Theorem C16_tensor_range_get_total : forall m sh cl idx,
  valid_shape sh -> elements sh <= usize_max -> ranges_ok sh cl ->
  tensor_range_get m sh cl idx = Ok (tensor_range_get_spec sh cl idx).
Proof. exact tensor_range_get_total. Qed.

Theorem C16_tensor_range_get_mode_independent : forall sh cl idx,
  valid_shape sh -> elements sh <= usize_max -> ranges_ok sh cl ->
  tensor_range_get Debug sh cl idx = tensor_range_get Release sh cl idx.
Proof. exact tensor_range_get_mode_independent. Qed.

Theorem C16_tensor_range_maps_into_source : forall cl (sh : shape) idx j,
  ranges_ok sh cl -> length idx = length cl ->
  map_by_range_spec cl idx = Some j -> in_range j (lens_of sh).
Proof. exact map_by_range_spec_in_range. Qed.

(* non-vacuity: the boundary instance that used to fail (mask over a 2-element source, index
   usize::MAX) meets the hypotheses and is absent *)
Example C16_nonvacuous :
  usz usize_max /\ mask_get (mkRange 0 1) 2 usize_max = Ok None /\
  range_get Debug (mkRange 1 usize_max) 5 3 = Ok (Some 4) /\
  reverse_get Debug 3 3 = Ok None.
Proof. split; [apply N.le_refl|]. vm_compute. repeat split. Qed.

Print Assumptions C16_range_get_total.
Print Assumptions C16_range_len_total.
Print Assumptions C16_range_present_is_in_source.
Print Assumptions C16_mask_get_total.
Print Assumptions C16_mask_len_total.
Print Assumptions C16_mask_never_exposes_hidden.
Print Assumptions C16_strict_bounds_test_exact.
Print Assumptions C16_lenient_clips.
Print Assumptions C16_reverse_get_total.
Print Assumptions C16_get_index_direct_total.
Print Assumptions C16_matrix_try_index_total.
Print Assumptions C16_tensor_validation_total.
Print Assumptions C16_matrix_size_test_total.
Print Assumptions C16_tensor_range_get_total.
Print Assumptions C16_tensor_range_get_mode_independent.
Print Assumptions C16_tensor_range_maps_into_source.
