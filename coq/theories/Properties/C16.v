(* C16 — Fallible APIs are total: failure value for every invalid input, never a panic.
   The theorems quantify over EVERY usize argument (all of [0, 2^64)) and over both build
   profiles (m : mode = overflow-checking dev build | wrapping release build): the transcribed
   index arithmetic (Model/Fallible.v, written with explicit machine arithmetic Model/U64.v)
   returns Ok of the ideal unbounded-arithmetic specification — it can neither panic nor wrap.
   Refuted/C16Legacy.v keeps kernel-checked witnesses that the code before the repairs did.
   Session 3: the C16_generated_* theorems tie Model/Fallible.v to the Rust SOURCE a second way:
   Gen/Arith.v is regenerated from /repo by tools/gen_arith.py before every proof-layer run and
   proved equal to the hand-written functions (notes/GEN.md).
   LEVELS (state after session 3).  (1) per-dimension arithmetic: the C16_range / mask / reverse /
   get_index_direct / matrix_try_index / size-test theorems below.  (2) API level, PROVED (second
   half of this file, "API LEVEL" banner): for the D-dimensional model Model/FallibleApi.v the
   constructors TensorRange / TensorMask ::from / from_strict (total for EVERY input, complete
   functional characterisation, every Err payload pinned, lenient-clips, invariant for the
   getter), the checked getters of TensorRange (C16_tensor_range_get_total), TensorMask,
   TensorReverse, MatrixRange, MatrixReverse in both arithmetic modes, with_names,
   try_into_scalar, Tensor::try_from, TensorAccess::try_from, and record-container collection
   (Model/RecordCollect.v: the history.unwrap() is unreachable).  (3) Families decided by other
   properties' models, re-exported here as an index: every view adaptor / composition as the
   receiver (C02's `option`-valued model, ideal arithmetic: C16_every_adaptor_checked_get),
   determinant / inverse / QR absence (C07 / C08: C16_linalg_absent_iff).  Those models have no
   Panic constructor: "does not panic" for them is carried by the correspondence (C16 op 12 runs
   every adaptor as the receiver with the boundary alphabet; C07 / C08 / C17 workloads), not by
   a theorem.  (4) Second extension wave (last block of this file): for the VIEW ADAPTORS that is
   no longer so - Model/ViewsM.v re-transcribes view_shape and the checked getter of every adaptor
   over any source with explicit machine arithmetic (it HAS Panic), and
   C16_view_adaptors_machine_total proves both profiles equal to C02's ideal model under
   `fits_leaves` (store sizes only).  The proof had forced one more hypothesis (for every chain the
   SUM of the chained lengths <= usize::MAX), violable through the public API: finding F16, fixed
   in /repo by f29e87d; the constructor now establishes it (C16_chain_ctor_establishes_sum) and
   C16_chain_length_sum_overflows is the refutation witness for the code before the fix.  NOT proved: Cholesky / LDL^T / Gaussian constructors on degenerate input are
   indexed only in notes/C01_C16.md (C08_cholesky_rejects, C08_ldlt_rejects, C17_mv_constructors). *)
From Coq Require Import List ZArith NArith Bool Arith.
From EasyML Require Import Base.Sx Model.Shape Model.U64 Model.Fallible Model.FallibleApi
     Proofs.ShapeP Proofs.C16P Proofs.C16ApiP Gen.Arith Proofs.GenArithP Proofs.GenArithViewsP.
From EasyML Require Model.Views Model.MatrixViews.
Import ListNotations.
Open Scope N_scope.

(* sub-range views (TensorRange / MatrixRange), one dimension: clip at construction, map at
   access — present exactly for the first `clipped_length` indexes, mapped to start + i *)
Theorem C16_range_get_total : forall m r len i,
  usz (r_start r) -> usz (r_length r) -> usz len -> usz i ->
  range_get m r len i = Ok (range_spec r len i).
Proof. exact range_get_total. Qed.

Theorem C16_range_len_total : forall r len, usz (r_start r) -> usz (r_length r) -> usz len ->
  range_len r len = Ok (clipped_length r len).
Proof. exact range_len_total. Qed.

Theorem C16_range_present_is_in_source : forall r len i j, range_spec r len i = Some j ->
  j < len /\ j = r_start r + i /\ i < r_length r.
Proof. exact range_spec_sound. Qed.

(* masks: never a panic, never the hidden element, for every index up to usize::MAX *)
Theorem C16_mask_get_total : forall r len i,
  usz (r_start r) -> usz (r_length r) -> usz len -> usz i ->
  mask_get r len i = Ok (mask_spec r len i).
Proof. exact mask_get_total. Qed.

Theorem C16_mask_len_total : forall m r len, usz (r_start r) -> usz (r_length r) -> usz len ->
  mask_len m r len = Ok (len - clipped_length r len).
Proof. exact mask_len_total. Qed.

Theorem C16_mask_never_exposes_hidden : forall r len i j, mask_spec r len i = Some j ->
  j < len /\ (j < r_start r \/ r_start r + clipped_length r len <= j).
Proof. exact mask_spec_sound. Qed.

(* strict mode: reports "outside the shape" exactly when start + length (unbounded) exceeds the
   dimension *)
Theorem C16_strict_bounds_test_exact : forall r len,
  usz (r_start r) -> usz (r_length r) -> usz len ->
  ir_exceeds r len = Ok (len <? r_start r + r_length r).
Proof. exact ir_exceeds_total. Qed.

(* lenient mode clips rather than fails whenever at least one index remains *)
Theorem C16_lenient_clips : forall r len,
  0 < clipped_length r len <-> r_start r < len /\ 0 < r_length r.
Proof. exact lenient_clips. Qed.

(* reversed views: absent (not a panic) for every out-of-range index, 0-length sources included *)
Theorem C16_reverse_get_total : forall m len i, usz len -> usz i ->
  reverse_get m len i = Ok (reverse_spec len i).
Proof. exact reverse_get_total. Qed.

(* element access on a validated tensor: the position arithmetic cannot overflow for ANY index
   tuple, whatever the coordinates *)
Theorem C16_get_index_direct_total : forall m sh idx,
  valid_shape sh -> elements sh <= usize_max ->
  gid_m m idx (compute_strides sh) (lens_of sh) 0 =
  Ok (get_index_direct idx (compute_strides sh) sh).
Proof. exact get_index_direct_total. Qed.

Theorem C16_matrix_try_index_total : forall m rows cols row col, rows * cols <= usize_max ->
  matrix_try_index m rows cols row col =
  Ok (if (row <? rows) && (col <? cols) then Some (row * cols + col) else None).
Proof. exact matrix_try_index_total. Qed.

(* fallible constructors: the size tests are exact over the whole domain *)
Theorem C16_tensor_validation_total : forall sh len, usz len ->
  (validate_dimensions sh len = true <-> valid_shape sh /\ elements sh = len).
Proof. exact validate_dimensions_total. Qed.

Theorem C16_matrix_size_test_total : forall rows cols len, usz len ->
  flat_size_ok rows cols len = Ok (rows * cols =? len).
Proof. exact flat_size_ok_total. Qed.

(* API level: the D-dimensional checked getter of a sub-range view over a validated tensor, for
   EVERY index tuple: never a panic, identical in both build profiles, equal to "map every
   coordinate through its clipped range, then address the source"; and whatever it maps to lies
   inside the source *)
Theorem C16_tensor_range_get_total : forall m sh cl idx,
  valid_shape sh -> elements sh <= usize_max -> ranges_ok sh cl ->
  tensor_range_get m sh cl idx = Ok (tensor_range_get_spec sh cl idx).
Proof. exact tensor_range_get_total. Qed.

Theorem C16_tensor_range_get_mode_independent : forall sh cl idx,
  valid_shape sh -> elements sh <= usize_max -> ranges_ok sh cl ->
  tensor_range_get Debug sh cl idx = tensor_range_get Release sh cl idx.
Proof. exact tensor_range_get_mode_independent. Qed.

Theorem C16_tensor_range_maps_into_source : forall cl (sh : shape) idx j,
  ranges_ok sh cl -> length idx = length cl ->
  map_by_range_spec cl idx = Some j -> in_range j (lens_of sh).
Proof. exact map_by_range_spec_in_range. Qed.

(* ---- second tie between model and code (besides the differential correspondence) ----
   Gen/Arith.v is REGENERATED from /repo's Rust source by tools/gen_arith.py before the proof
   layer runs (tools/props/c16.py pre_proof); these theorems re-prove, on every run, that the
   translated bodies equal the hand-written model functions the theorems above are about.
   A source change that alters one of the functions breaks the lemma that names it
   (GENERATED-EQUIVALENCE-BROKEN <lemma> in the proof-layer log). *)
Theorem C16_generated_arith_matches_model : forall md,
  (forall s l, gen_IndexRange_new md s l = Ok (mkRange s l)) /\
  (forall r i, gen_IndexRange_map md r i = ir_map md r i) /\
  (forall r i, gen_IndexRange_mask md r i = ir_mask r i) /\
  (forall r mx, gen_IndexRange_clip md r mx = ir_clip r mx) /\
  (forall s e, gen_IndexRange_from_range md (s, e) = Ok (range_of_start_end s e)) /\
  (forall nm len r,
     gen_range_exceeds_bounds_body md (nm, len) (Some r) = omap exceeds_flow (ir_exceeds r len) /\
     gen_range_exceeds_bounds_body md (nm, len) None = Ok (Next tt)) /\
  (forall i nm len,
     gen_reverse_indexes_elem md i (nm, len) true = rev_index md len i /\
     gen_reverse_indexes_elem md i (nm, len) false = Ok i) /\
  (forall rows cols row col,
     gen_Matrix_try_get_reference md (mkGenMatrix rows cols) row col = matrix_try_index md rows cols row col /\
     gen_Matrix_try_get_reference_mut md (mkGenMatrix rows cols) row col = matrix_try_index md rows cols row col) /\
  (forall acc i s nm l,
     gen_get_index_direct_body md acc i s (nm, l) =
     if l <=? i then Ok (Return None) else obind (u_mul md i s) (fun p => omap Next (u_add md acc p))).
Proof.
  intros md.
  split; [intros; apply gen_IndexRange_new_eq|]. split; [intros; apply gen_IndexRange_map_eq|].
  split; [intros; apply gen_IndexRange_mask_eq|]. split; [intros; apply gen_IndexRange_clip_eq|].
  split; [intros; apply gen_IndexRange_from_range_eq|].
  split; [intros; apply gen_range_exceeds_bounds_body_eq|].
  split; [intros; apply gen_reverse_indexes_elem_eq|].
  split; [intros; split; [apply gen_Matrix_try_get_reference_eq|apply gen_Matrix_try_get_reference_mut_eq]|].
  intros; apply gen_get_index_direct_body_eq.
Qed.

(* the two translated LOOPS (body + frame: initial state, early return, what follows the loop),
   over the arrays traversed in lockstep: get_index_direct is the model's gid_m, and
   range_exceeds_bounds is "the first dimension that exceeds decides" *)
Theorem C16_generated_loops_match_model : forall md,
  (forall idx st (sh : list (N * N)), length idx = length sh -> length st = length sh ->
     gen_get_index_direct md (zip3 idx st sh) = gid_m md idx st (map snd sh) 0) /\
  (forall sh rs, gen_range_exceeds_bounds md (combine sh rs) = Ok (exceeds_any sh rs)).
Proof.
  intros md. split; intros.
  - apply gen_get_index_direct_eq; assumption.
  - apply gen_range_exceeds_bounds_eq.
Qed.

(* InvalidShapeError::checked_elements (the overflow-checked element count of the validating
   constructors, fix F7): closure body and try_fold frame, against Shape.checked_elements *)
Theorem C16_generated_checked_elements_matches_model : forall md,
  (forall acc nm l, gen_checked_elements_step md acc (nm, l) = Ok (checked_mul acc l)) /\
  (forall sh : list (N * N), gen_checked_elements md sh = Ok (checked_prod_from 1 (map snd sh))) /\
  (forall sh : shape, gen_checked_elements md (shN sh) = Ok (checked_elements sh)).
Proof.
  intros md. split; [intros; apply gen_checked_elements_step_eq|].
  split; [intros; apply gen_checked_elements_eq|intros; apply gen_checked_elements_shape].
Qed.

(* the same generated definitions against the IDEAL-arithmetic hand models of these functions
   used by C12 (Model/MatrixViews.v), C02 (Model/Views.v) and C01 (Model/Shape.v) *)
Theorem C16_generated_arith_matches_view_models : forall md,
  (forall r mx, omap to_mv (gen_IndexRange_clip md r mx) = Ok (MatrixViews.ir_clip (to_mv r) mx) /\
                omap to_v (gen_IndexRange_clip md r mx) = Ok (Views.r_clip (to_v r) mx)) /\
  (forall r i, gen_IndexRange_mask md r i = Ok (Views.r_mask (to_v r) i)) /\
  (forall r i, i + r_start r <= usize_max ->
     gen_IndexRange_map md r i = Ok (MatrixViews.ir_map (to_mv r) i) /\
     gen_IndexRange_map md r i = Ok (Views.r_map (to_v r) i)) /\
  (forall s e, omap to_mv (gen_IndexRange_from_range md (s, e)) = Ok (MatrixViews.ir_of_range s e)) /\
  (forall b i nm len, 0 < len ->
     gen_reverse_indexes_elem md i (nm, len) b = Ok (MatrixViews.reverse_index b len i)) /\
  (forall (sh : shape) rs,
     gen_range_exceeds_bounds md (combine (shN sh) rs) =
     Ok (Views.range_exceeds_bounds sh (map (option_map to_v) rs))) /\
  (forall (sh : shape) idx, valid_shape sh -> elements sh <= usize_max -> length idx = length sh ->
     gen_get_index_direct md (zip3 idx (compute_strides sh) (shN sh)) =
     Ok (get_index_direct idx (compute_strides sh) sh)).
Proof.
  intros md.
  split; [intros; apply gen_clip_views|]. split; [intros; apply gen_mask_views|].
  split; [intros; apply gen_map_views; assumption|]. split; [intros; apply gen_from_range_views|].
  split; [intros; apply gen_reverse_views; assumption|].
  split; [intros; apply gen_range_exceeds_bounds_views|].
  intros; apply gen_get_index_direct_shape; assumption.
Qed.

(* non-vacuity of the generated side: the translated mask / clip / reverse compute the boundary
   instances (kernel-evaluated on the generated definitions themselves) *)
Example C16_generated_nonvacuous :
  gen_IndexRange_mask Debug (mkRange 0 1) usize_max = Ok usize_max /\
  gen_IndexRange_clip Release (mkRange 1 usize_max) 5 = Ok (mkRange 1 4) /\
  gen_reverse_indexes_elem Debug 3 (0, 3) true = Ok 3 /\
  gen_get_index_direct Debug (zip3 [1; 2] [3; 1] [(0, 2); (1, 3)]) = Ok (Some 5) /\
  gen_range_exceeds_bounds Debug (combine [(0, 3)] [Some (mkRange 1 usize_max)]) = Ok true.
Proof. vm_compute. repeat split. Qed.

(* non-vacuity: the boundary instance that used to fail (mask over a 2-element source, index
   usize::MAX) meets the hypotheses and is absent *)
Example C16_nonvacuous :
  usz usize_max /\ mask_get (mkRange 0 1) 2 usize_max = Ok None /\
  range_get Debug (mkRange 1 usize_max) 5 3 = Ok (Some 4) /\
  reverse_get Debug 3 3 = Ok None.
Proof. split; [apply N.le_refl|]. vm_compute. repeat split. Qed.

Print Assumptions C16_range_get_total.
Print Assumptions C16_range_len_total.
Print Assumptions C16_range_present_is_in_source.
Print Assumptions C16_mask_get_total.
Print Assumptions C16_mask_len_total.
Print Assumptions C16_mask_never_exposes_hidden.
Print Assumptions C16_strict_bounds_test_exact.
Print Assumptions C16_lenient_clips.
Print Assumptions C16_reverse_get_total.
Print Assumptions C16_get_index_direct_total.
Print Assumptions C16_matrix_try_index_total.
Print Assumptions C16_tensor_validation_total.
Print Assumptions C16_matrix_size_test_total.
Print Assumptions C16_tensor_range_get_total.
Print Assumptions C16_tensor_range_get_mode_independent.
Print Assumptions C16_tensor_range_maps_into_source.
Print Assumptions C16_generated_arith_matches_model.
Print Assumptions C16_generated_loops_match_model.
Print Assumptions C16_generated_arith_matches_view_models.
Print Assumptions C16_generated_checked_elements_matches_model.

(* ======================================================================================== *)
(* API LEVEL (builder C01_C16, session 3; appended block — keep when regenerating this file) *)
(* For each fallible API family of the property: the totality theorem (outcome <> Panic for   *)
(* every input of the argument types' domain, both arithmetic modes where the code computes   *)
(* with usize) and the exact characterisation of success and of every error payload.          *)
(* Model: Model/FallibleApi.v (D-dimensional constructors and checked getters),               *)
(* Model/RecordCollect.v, Model/Tensor.v.  Proofs: Proofs/C16CtorP.v, C16GetP.v,              *)
(* C16CollectP.v, C16ConvP.v, C16IndexP.v.                                                    *)
(* ======================================================================================== *)
From Coq Require Import Permutation.
From EasyML Require Import Model.Tensor Model.RecordCollect Proofs.C01P Proofs.C16CtorP
     Proofs.C16GetP Proofs.C16CollectP Proofs.C16ConvP.
From EasyML Require Model.Views Model.Num Model.LinAlg Model.Decomp Proofs.C02P Proofs.C16IndexP.

(* ---- range and mask construction, lenient and strict ---- *)

(* from_named_to_all: never a panic; Ok exactly for distinct names that all occur in the shape;
   the error is InvalidDimensions { provided names, valid names } *)
Theorem C16_from_named_to_all_total : forall sh rs,
  from_named_to_all sh rs <> Panic /\
  ((exists all, from_named_to_all sh rs = Ok all) <-> names_ok sh rs) /\
  (forall e, from_named_to_all sh rs = Err e -> e = invalid_dimensions sh rs).
Proof.
  intros sh rs. split; [exact (from_named_to_all_total sh rs)|].
  split; [exact (from_named_to_all_ok_iff sh rs)|exact (from_named_to_all_err sh rs)].
Qed.

(* TensorRange::from / from_strict and TensorMask::from / from_strict: NO input whatsoever
   (duplicate / unknown names, starts and lengths up to usize::MAX and beyond, any shape) makes
   them panic, in either build profile *)
Theorem C16_tensor_range_ctor_total : forall strict sh rs, tensor_range strict sh rs <> Panic.
Proof. exact tensor_range_total. Qed.

Theorem C16_tensor_mask_ctor_total : forall m strict sh rs, tensor_mask m strict sh rs <> Panic.
Proof. exact tensor_mask_total. Qed.

(* ... and over a source whose names are unique and whose lengths are usizes the result is
   determined completely: strict mode reports OutsideShape { shape, requests } exactly when some
   requested start + length (unbounded) exceeds its dimension; otherwise every dimension is
   clipped to [start, min(start + length, len)) and the view exists exactly when every
   dimension keeps at least one index (else InvalidShape of the clipped shape) *)
Theorem C16_tensor_range_ctor_spec : forall strict sh rs,
  NoDup (names_of sh) -> Forall (fun d => snd d <= usize_max) sh -> names_ok sh rs ->
  tensor_range strict sh rs =
    if strict && strict_outside sh rs then Err (outside_shape sh (all_of sh rs))
    else if forallb (fun d => 0 <? snd d) (range_shape sh rs)
         then Ok (range_shape sh rs, range_clipped sh rs)
         else Err (SL [SZ 1; sshape (range_shape sh rs)]).
Proof. exact tensor_range_spec. Qed.

Theorem C16_tensor_mask_ctor_spec : forall m strict sh rs,
  NoDup (names_of sh) -> Forall (fun d => snd d <= usize_max) sh -> names_ok sh rs ->
  tensor_mask m strict sh rs =
    if strict && strict_outside sh rs then Err (outside_shape sh (all_of sh rs))
    else if forallb (fun d => 0 <? snd d) (mask_shape sh rs)
         then Ok (mask_shape sh rs, mask_clipped sh rs)
         else Err (SL [SZ 1; sshape (mask_shape sh rs)]).
Proof. exact tensor_mask_spec. Qed.

(* every error value, for ANY input: InvalidDimensions carries provided + valid names (and is
   returned only for a bad name list); OutsideShape (strict only) carries the source shape and
   the per-dimension requests; InvalidShape carries a shape that is indeed invalid *)
Theorem C16_tensor_range_ctor_errors : forall strict sh rs e, tensor_range strict sh rs = Err e ->
  (e = invalid_dimensions sh rs /\ ~ names_ok sh rs) \/
  (strict = true /\ exists all, from_named_to_all sh rs = Ok all /\ e = outside_shape sh all) \/
  (exists sh', e = SL [SZ 1; sshape sh'] /\ valid_shape_b sh' = false).
Proof. exact tensor_range_errors. Qed.

Theorem C16_tensor_mask_ctor_errors : forall m strict sh rs e, tensor_mask m strict sh rs = Err e ->
  (e = invalid_dimensions sh rs /\ ~ names_ok sh rs) \/
  (strict = true /\ exists all, from_named_to_all sh rs = Ok all /\ e = outside_shape sh all) \/
  (exists sh', e = SL [SZ 1; sshape sh'] /\ valid_shape_b sh' = false).
Proof. exact tensor_mask_errors. Qed.

(* lenient construction clips rather than fails whenever at least one index remains (D-dim) *)
Theorem C16_tensor_range_lenient_clips : forall sh rs,
  NoDup (names_of sh) -> Forall (fun d => snd d <= usize_max) sh -> names_ok sh rs ->
  ((exists v, tensor_range false sh rs = Ok v) <->
   Forall (fun d => r_start (range_req rs d) < snd d /\ 0 < r_length (range_req rs d)) sh).
Proof. exact tensor_range_lenient_clips. Qed.

Theorem C16_tensor_mask_lenient_clips : forall m sh rs,
  NoDup (names_of sh) -> Forall (fun d => snd d <= usize_max) sh -> names_ok sh rs ->
  ((exists v, tensor_mask m false sh rs = Ok v) <->
   Forall (fun d => clipped_length (mask_req rs d) (snd d) < snd d) sh).
Proof. exact tensor_mask_lenient_clips. Qed.

(* the constructor establishes exactly the invariant C16_tensor_range_get_total assumes *)
Theorem C16_tensor_range_ctor_establishes_invariant : forall strict sh rs sh' cl,
  NoDup (names_of sh) -> Forall (fun d => snd d <= usize_max) sh -> names_ok sh rs ->
  tensor_range strict sh rs = Ok (sh', cl) ->
  ranges_ok sh cl /\ names_of sh' = names_of sh /\ lens_of sh' = map r_length cl /\ valid_shape sh'.
Proof. exact tensor_range_establishes_ranges_ok. Qed.

(* ---- fallible element access on the view adaptors modelled with machine arithmetic ---- *)

Theorem C16_tensor_mask_get_total : forall m sh cl idx,
  valid_shape sh -> elements sh <= usize_max ->
  tensor_mask_get m sh cl idx =
  Ok (get_index_direct (map (fun p => mask_index (fst p) (snd p)) (combine cl idx))
                       (compute_strides sh) sh).
Proof. exact tensor_mask_get_total. Qed.

Theorem C16_tensor_reverse_get_total : forall m sh reversed idx,
  valid_shape sh -> elements sh <= usize_max ->
  tensor_reverse_get m sh reversed idx =
  Ok (get_index_direct (map reverse_map (combine (lens_of sh) (combine reversed idx)))
                       (compute_strides sh) sh).
Proof. exact tensor_reverse_get_total. Qed.

Theorem C16_matrix_range_get_total : forall m rows cols rr cr row col,
  rows * cols <= usize_max -> 0 < rows -> 0 < cols ->
  matrix_range_get m rows cols rr cr row col =
  Ok (clipped_length rr rows, clipped_length cr cols,
      if (row <? clipped_length rr rows) && (col <? clipped_length cr cols)
      then Some ((r_start rr + row) * cols + (r_start cr + col)) else None).
Proof. exact matrix_range_get_total. Qed.

Theorem C16_matrix_reverse_get_total : forall m rows cols rr cr rrev crev row col,
  rows * cols <= usize_max -> 0 < rows -> 0 < cols ->
  exists r, matrix_reverse_get m rows cols rr cr rrev crev row col = Ok r /\
    (r <> None <-> row < clipped_length rr rows /\ col < clipped_length cr cols).
Proof. exact matrix_reverse_get_total. Qed.

(* EVERY view adaptor and composition as the receiver (C02's model: ideal arithmetic, `option`
   results): absent exactly outside the reported shape *)
Theorem C16_every_adaptor_checked_get : forall v c idx,
  Views.v_ctor v = Ok c -> C02P.usize_view c -> length idx = length (Views.c_shape c) ->
  (Views.c_get c idx = None <-> ~ in_range idx (lens_of (Views.c_shape c))).
Proof. exact C16IndexP.every_adaptor_checked_get. Qed.

(* ---- fallible constructors and conversions, dimension-order access, scalar conversion ---- *)

Theorem C16_tensor_try_from_total : forall A sh (data : list A),
  tensor_try_from sh data <> Panic /\
  ((exists t, tensor_try_from sh data = Ok t) <->
   valid_shape sh /\ elements sh = N.of_nat (length data) /\ elements sh <= usize_max) /\
  (forall e, tensor_try_from sh data = Err e -> e = sshape sh).
Proof. exact @tensor_try_from_total. Qed.

Theorem C16_dimension_order_access_total : forall A (t : tensor A) req,
  access_try_from t req <> Panic /\
  (NoDup (names_of (t_shape t)) -> length req = length (t_shape t) ->
   ((exists a, access_try_from t req = Ok a) <-> Permutation (names_of (t_shape t)) req)) /\
  (forall e, access_try_from t req = Err e -> e = SL [sshape (t_shape t); snames req]).
Proof. exact @access_try_from_total. Qed.

Theorem C16_with_names_total : forall rows cols rr cr n0 n1, rows <= usize_max -> cols <= usize_max ->
  let sh := [(n0, clipped_length rr rows); (n1, clipped_length cr cols)] in
  with_names rows cols rr cr n0 n1 =
  if negb (Nat.eqb n0 n1) && (0 <? clipped_length rr rows) && (0 <? clipped_length cr cols)
  then Ok sh else Err (sshape sh).
Proof. exact with_names_total. Qed.

Theorem C16_try_into_scalar_total : forall rows cols,
  try_into_scalar rows cols <> Panic /\
  ((exists x, try_into_scalar rows cols = Ok x) <-> rows = 1 /\ cols = 1).
Proof. exact try_into_scalar_total. Qed.

(* ---- record-container collection ---- *)

(* collect_into_components on ANY stream of records (given by their histories): the
   `history.unwrap()` is never reached with None; Ok exactly for a non-empty stream with one
   history; otherwise Empty, or InconsistentHistory { first, later } with the stream's first
   history and the LAST one differing from it *)
Theorem C16_collect_total : forall tags,
  collect_components tags <> Panic /\
  collect_components tags =
    match tags with
    | [] => Err e_empty
    | f :: l => match last_differing f l with
                | Some x => Err (e_inconsistent f x)
                | None => Ok f
                end
    end /\
  (forall h, collect_components tags = Ok h <-> tags <> [] /\ Forall (eq h) tags).
Proof.
  intros tags. split; [exact (collect_components_total tags)|].
  split; [exact (collect_components_spec tags)|exact (collect_components_ok_iff tags)].
Qed.

Theorem C16_record_tensor_from_iter_total : forall sh tags,
  record_tensor_from_iter sh tags <> Panic /\
  (forall r, record_tensor_from_iter sh tags = Ok r <->
     tags <> [] /\ Forall (eq (snd r)) tags /\ fst r = sh /\
     valid_shape sh /\ elements sh = N.of_nat (length tags) /\ elements sh <= usize_max) /\
  (forall e, record_tensor_from_iter sh tags = Err e ->
     (tags = [] /\ e = e_empty) \/
     (exists f l x, tags = f :: l /\ e = e_inconsistent f x /\ In x l /\ x <> f) \/
     (e = e_shape_len sh (N.of_nat (length tags)) /\
      ~ (valid_shape sh /\ elements sh = N.of_nat (length tags) /\ elements sh <= usize_max))).
Proof.
  intros sh tags. split; [exact (record_tensor_from_iter_total sh tags)|].
  split; [exact (record_tensor_from_iter_ok_iff sh tags)|exact (record_tensor_from_iter_err sh tags)].
Qed.

Theorem C16_record_matrix_from_iter_total : forall rows cols tags,
  record_matrix_from_iter rows cols tags <> Panic /\
  (forall r, record_matrix_from_iter rows cols tags = Ok r <->
     tags <> [] /\ Forall (eq (snd r)) tags /\ fst r = [(0%nat, rows); (1%nat, cols)] /\
     rows * cols = N.of_nat (length tags) /\ rows * cols <= usize_max) /\
  (forall e, record_matrix_from_iter rows cols tags = Err e ->
     (tags = [] /\ e = e_empty) \/
     (exists f l x, tags = f :: l /\ e = e_inconsistent f x /\ In x l /\ x <> f) \/
     (e = e_shape_len [(0%nat, rows); (1%nat, cols)] (N.of_nat (length tags)) /\
      ~ (rows * cols = N.of_nat (length tags) /\ rows * cols <= usize_max))).
Proof.
  intros rows cols tags. split; [exact (record_matrix_from_iter_total rows cols tags)|].
  split; [exact (record_matrix_from_iter_ok_iff rows cols tags)|exact (record_matrix_from_iter_err rows cols tags)].
Qed.

Theorem C16_from_iters_streams_independent : forall sh rows cols streams,
  record_tensor_from_iters sh streams = map (record_tensor_from_iter sh) streams /\
  record_matrix_from_iters rows cols streams = map (record_matrix_from_iter rows cols) streams /\
  Forall (fun o => o <> Panic) (record_tensor_from_iters sh streams) /\
  Forall (fun o => o <> Panic) (record_matrix_from_iters rows cols streams).
Proof. exact from_iters_pointwise. Qed.

(* ---- determinant / inverse / decompositions on degenerate input (decided by C07 / C08; the
   models are `option`-valued total functions: absence characterised, no Panic constructor) ---- *)
Theorem C16_linalg_absent_iff : forall R (ops : Num.numops R) (m : list (list R)),
  ((1 <= LinAlg.mrows m)%nat -> (LinAlg.det_tensor ops m = None <-> LinAlg.mrows m <> LinAlg.mcols m)) /\
  (LinAlg.mrows m <> LinAlg.mcols m -> LinAlg.inverse_tensor ops m = None) /\
  (Decomp.qr ops m = None <-> (LinAlg.mrows m < LinAlg.mcols m)%nat).
Proof. exact @C16IndexP.linalg_absent_iff. Qed.

(* non-vacuity of the API-level hypotheses: a 2 x 3 source, a lenient range request that is
   clipped, a strict one that is reported outside, a mask that would hide everything, and a
   mixed-history stream *)
Example C16_api_nonvacuous :
  let sh := [(0%nat, 2); (1%nat, 3)] in
  names_ok sh [(1%nat, mkRange 1 usize_max)] /\
  tensor_range false sh [(1%nat, mkRange 1 usize_max)] =
    Ok ([(0%nat, 2); (1%nat, 2)], [mkRange 0 2; mkRange 1 2]) /\
  tensor_range true sh [(1%nat, mkRange 1 usize_max)] =
    Err (outside_shape sh [None; Some (mkRange 1 usize_max)]) /\
  tensor_mask Debug false sh [(0%nat, mkRange 0 usize_max)] = Err (SL [SZ 1; sshape [(0%nat, 0); (1%nat, 3)]]) /\
  tensor_range false sh [(7%nat, mkRange 0 1)] = Err (invalid_dimensions sh [(7%nat, mkRange 0 1)]) /\
  collect_components [0; 0; 1; 2] = Err (e_inconsistent 0 2) /\
  record_tensor_from_iter [(0%nat, 2)] [1; 1] = Ok ([(0%nat, 2)], 1).
Proof.
  cbv zeta. split.
  - split; [repeat constructor; intros []|]. intros x [<-|[]]. right. left. reflexivity.
  - vm_compute. repeat split.
Qed.

Print Assumptions C16_from_named_to_all_total.
Print Assumptions C16_tensor_range_ctor_total.
Print Assumptions C16_tensor_mask_ctor_total.
Print Assumptions C16_tensor_range_ctor_spec.
Print Assumptions C16_tensor_mask_ctor_spec.
Print Assumptions C16_tensor_range_ctor_errors.
Print Assumptions C16_tensor_mask_ctor_errors.
Print Assumptions C16_tensor_range_lenient_clips.
Print Assumptions C16_tensor_mask_lenient_clips.
Print Assumptions C16_tensor_range_ctor_establishes_invariant.
Print Assumptions C16_tensor_mask_get_total.
Print Assumptions C16_tensor_reverse_get_total.
Print Assumptions C16_matrix_range_get_total.
Print Assumptions C16_matrix_reverse_get_total.
Print Assumptions C16_every_adaptor_checked_get.
Print Assumptions C16_tensor_try_from_total.
Print Assumptions C16_dimension_order_access_total.
Print Assumptions C16_with_names_total.
Print Assumptions C16_try_into_scalar_total.
Print Assumptions C16_collect_total.
Print Assumptions C16_record_tensor_from_iter_total.
Print Assumptions C16_record_matrix_from_iter_total.
Print Assumptions C16_from_iters_streams_independent.
Print Assumptions C16_linalg_absent_iff.

(* ======================================================================================== *)
(* VIEW ADAPTORS WITH MACHINE ARITHMETIC (second extension wave; appended block)            *)
(* Model/ViewsM.v: view_shape and the checked getter of EVERY adaptor (range, mask, index,  *)
(* expansion, rename, reversal, access, transposition, stack, chain, wrappers, tensor and   *)
(* matrix-backed leaves) over ANY source view, every usize operation explicit (u_add /      *)
(* u_sub / u_mul in mode m; the TensorIndex `.unwrap()` and `sources[0]` as Panic).         *)
(* Proofs/C16ViewsMP.v.  `fits_leaves c`: every leaf stores <= usize::MAX elements and a    *)
(* stack has <= usize::MAX sources (sizes of a Vec / an array: typing facts in Rust).       *)
(* The proof first FORCED one more hypothesis: for every chain the sum of the chained       *)
(* lengths <= usize::MAX, which TensorChain::from did not check and the public API could    *)
(* violate (finding F16, notes/C01_C16.md).  Since fix f29e87d the constructor checks it    *)
(* (Views.chain_ctor), `v_ctor v = Ok c` establishes it (C16ViewsMP.ctor_chain_sums) and    *)
(* the hypothesis is gone.  C16_chain_length_sum_overflows stays as the refutation witness  *)
(* for the constructor before the fix (Views.chain_ctor_legacy).                            *)
(* ======================================================================================== *)
From EasyML Require Model.ViewsM Proofs.C16ViewsMP.

(* no usize computation of view_shape / get_reference overflows, in either build profile, for
   ANY index tuple (all of N, in particular all of [0, 2^64)): the machine result is Ok of C02's
   ideal-arithmetic model - no Panic, no wrapped value *)
Theorem C16_view_adaptors_machine_total : forall m v c,
  Views.v_ctor v = Ok c -> C16ViewsMP.fits_leaves c ->
  ViewsM.c_shape_m m c = Ok (Views.c_shape c) /\
  forall idx, length idx = length (Views.c_shape c) ->
    ViewsM.c_get_m m c idx = Ok (Views.c_get c idx).
Proof.
  intros m v c Hc Hf. pose proof (C02P.ctor_wf v c Hc) as Hw.
  apply (C16ViewsMP.machine_agrees m c Hw (C16ViewsMP.ctor_fits v c Hc Hf)).
Qed.

(* ... hence the two build profiles agree, and with C16_every_adaptor_checked_get the machine
   getter is absent exactly outside the reported shape *)
Theorem C16_view_adaptors_mode_independent : forall v c,
  Views.v_ctor v = Ok c -> C16ViewsMP.fits_leaves c ->
  ViewsM.c_shape_m Debug c = ViewsM.c_shape_m Release c /\
  forall idx, length idx = length (Views.c_shape c) ->
    ViewsM.c_get_m Debug c idx = ViewsM.c_get_m Release c idx.
Proof.
  intros v c Hc Hf. pose proof (C02P.ctor_wf v c Hc) as Hw.
  apply (C16ViewsMP.machine_mode_independent c Hw (C16ViewsMP.ctor_fits v c Hc Hf)).
Qed.

Theorem C16_view_adaptors_machine_absent_iff : forall m v c idx,
  Views.v_ctor v = Ok c -> C16ViewsMP.fits_leaves c -> length idx = length (Views.c_shape c) ->
  exists r, ViewsM.c_get_m m c idx = Ok r /\
    (r = None <-> ~ in_range idx (lens_of (Views.c_shape c))).
Proof.
  intros m v c idx Hc Hf Hl. pose proof (C02P.ctor_wf v c Hc) as Hw.
  destruct (C16ViewsMP.machine_agrees m c Hw (C16ViewsMP.ctor_fits v c Hc Hf)) as [Hu [_ Hg]].
  exists (Views.c_get c idx). split; [apply Hg; exact Hl|].
  apply (C16IndexP.every_adaptor_checked_get v c idx Hc Hu Hl).
Qed.

(* the constructor establishes what the arithmetic needs: every constructed chain of two or more
   sources has a total length <= usize::MAX (TensorChain::from panics otherwise, C02_chain_ctor_panics_iff) *)
Theorem C16_chain_ctor_establishes_sum : forall v c,
  Views.v_ctor v = Ok c -> C16ViewsMP.chain_sums_ok c.
Proof. exact C16ViewsMP.ctor_chain_sums. Qed.

(* the one subtraction a constructor performs (clip_masked_shape: *length -= mask.length after
   IndexRange::clip) cannot underflow for ANY source shape and ANY masks; everything else the
   adaptor constructors compute is saturating_add / checked_add / min or a source's view_shape *)
Theorem C16_view_ctor_mask_subtraction_total : forall m (sh : shape) ms, length ms = length sh ->
  ViewsM.mask_shape_m m sh (Views.clip_all sh ms) =
  Ok (Views.zipwith (fun d k => (fst d, snd d - Views.r_len k)) sh (Views.clip_all sh ms)).
Proof. exact C16ViewsMP.clip_masked_shape_total. Qed.

(* REFUTATION WITNESS for the constructor BEFORE fix f29e87d (Views.chain_ctor_legacy, finding F16):
   two chained sources of 2^63 indexes each (every source fits) were accepted; view_shape of the
   chain panics in a dev build and reports length ZERO in a release build although index 0 is
   present; the Option-returning getters of a reversal of the chain and of a chain of two such
   chains panic in a dev build.  The code now: the same term is a constructor Panic. *)
Theorem C16_chain_length_sum_overflows :
  exists c l1 l2, Views.v_ctor (C16ViewsMP.big_leaf 1) = Ok l1 /\
    Views.v_ctor (C16ViewsMP.big_leaf 2) = Ok l2 /\
    Views.chain_ctor_legacy [l1; l2] 0%nat = Ok c /\ c = Views.CChain [l1; l2] 0 /\
    C16ViewsMP.fits l1 /\ C16ViewsMP.fits l2 /\
    Views.c_shape c = [(0%nat, 18446744073709551616)] /\
    ViewsM.c_shape_m Debug c = Panic /\
    ViewsM.c_shape_m Release c = Ok [(0%nat, 0)] /\
    ViewsM.c_get_m Release c [0] = Ok (Some (1, 0)) /\
    ViewsM.c_get_m Debug c [0] = Ok (Some (1, 0)) /\
    ViewsM.c_get_m Debug (Views.CReverse c [true]) [0] = Panic /\
    ViewsM.c_get_m Debug (Views.CChain [c; c] 0) [1] = Panic /\
    Views.v_ctor C16ViewsMP.big_chain = Panic.
Proof. exact C16ViewsMP.chain_sum_overflow. Qed.

(* non-vacuity: the composition of C02's example (reversal over a mask over a chain of a range and
   an expansion of a selection, transposed) satisfies fits_min; both profiles resolve [0; 2] *)
Example C16_view_adaptors_nonvacuous :
  let v := Views.VTranspose
    (Views.VReverse
       (Views.VMask
          (Views.VChain [ Views.VRange (Views.VTensor 1 [(0%nat, 3); (1%nat, 4)])
                            (Views.PNamed false [(1%nat, Views.mkR 1 9)]);
                          Views.VExpand (Views.VIndex (Views.VTensor 2 [(0%nat, 2); (1%nat, 3); (2%nat, 5)])
                                                      [(2%nat, 4)]) [] ]
                        0%nat)
          (Views.PAll true [Some (Views.mkR 1 2); None]))
       [1%nat])
    [1; 0]%nat in
  exists c, Views.v_ctor v = Ok c /\ C16ViewsMP.fits_leaves c /\
    ViewsM.c_get_m Debug c [0; 2] = Ok (Some (2, 29)) /\
    ViewsM.c_get_m Release c [0; 18446744073709551615] = Ok None.
Proof.
  cbv zeta. eexists. split; [vm_compute; reflexivity|]. split; [|split; vm_compute; reflexivity].
  cbn. repeat split; vm_compute; discriminate.
Qed.

Print Assumptions C16_view_adaptors_machine_total.
Print Assumptions C16_view_adaptors_mode_independent.
Print Assumptions C16_view_adaptors_machine_absent_iff.
Print Assumptions C16_chain_ctor_establishes_sum.
Print Assumptions C16_view_ctor_mask_subtraction_total.
Print Assumptions C16_chain_length_sum_overflows.

(* ======================================================================================== *)
(* GENERATED FROM THE SOURCE, second wave (builder GEN; appended block): iterator chains      *)
(* (`iter().map().product()`, `skip`), the std::array::from_fn frames and the unchecked       *)
(* position loop, regenerated by tools/gen_arith.py from /repo's Rust text on every run       *)
(* (Gen/Arith.v), equal to the hand-written model functions: dimensions::elements and         *)
(* compute_strides of Model/Shape.v (the functions under C01's and C10's theorems),           *)
(* Fallible.prod_legacy / rev_index, Views.reverse_indexes (C02).  Proofs: GenArithP.v,       *)
(* GenArithViewsP.v.                                                                          *)
(* ======================================================================================== *)
From EasyML Require Model.ShapeIter Proofs.ShapeP.

Theorem C16_generated_iterator_chains_match_model : forall md,
  (* machine level, unconditional *)
  (forall sh : list (N * N), gen_elements md sh = prod_legacy md (map snd sh) 1) /\
  (forall (sh : list (N * N)) d,
     gen_compute_strides_elem md sh d =
     obind (u_add md d 1) (fun d1 => prod_legacy md (skipn (N.to_nat d1) (map snd sh)) 1)) /\
  (forall sh : list (N * N),
     gen_compute_strides md sh =
     gen_map_m (strides_elem_m md (map snd sh)) (map N.of_nat (seq 0 (length sh)))) /\
  (forall xs, gen_reverse_indexes md xs =
     gen_map_m (fun x => let '(i, d, b) := x in if (b : bool) then rev_index md (snd d) i else Ok i) xs) /\
  (forall idx st, gen_get_index_direct_unchecked md (combine idx st) = gidu_m md idx st 0) /\
  (* against the ideal-arithmetic models, for every shape a validating constructor accepts *)
  (forall sh : shape, valid_shape sh -> elements sh <= usize_max ->
     gen_elements md (shN sh) = Ok (elements sh)) /\
  (forall sh : shape, valid_shape sh -> elements sh <= usize_max -> N.of_nat (length sh) <= usize_max ->
     gen_compute_strides md (shN sh) = Ok (compute_strides sh)) /\
  (forall idx (sh : shape) rv, Forall (fun l => 0 < l) (lens_of sh) ->
     gen_reverse_indexes md (zip3r idx (shN sh) rv) = Ok (Views.reverse_indexes idx sh rv)).
Proof.
  intros md.
  split; [intros; apply gen_elements_eq|].
  split; [intros; apply gen_compute_strides_elem_eq|].
  split; [intros; apply gen_compute_strides_eq|].
  split; [intros; apply gen_reverse_indexes_eq|].
  split; [intros; apply gen_get_index_direct_unchecked_eq|].
  split; [intros; apply gen_elements_shape; assumption|].
  split; [intros; apply gen_compute_strides_shape; assumption|].
  intros; apply gen_reverse_indexes_views; assumption.
Qed.

(* non-vacuity: kernel-evaluated on the generated definitions themselves, incl. the overflow
   that distinguishes the two build profiles *)
Example C16_generated_iterator_chains_nonvacuous :
  gen_elements Debug [(0, 2); (1, 3); (2, 4)] = Ok 24 /\
  gen_elements Debug [(0, usize_max); (1, 2)] = Panic /\
  gen_elements Release [(0, usize_max); (1, 2)] = Ok (usize_max - 1) /\
  gen_compute_strides Debug [(0, 2); (1, 3); (2, 4)] = Ok [12; 4; 1] /\
  gen_reverse_indexes Debug (zip3r [0; 1; 5] [(0, 3); (1, 3); (2, 3)] [true; false; true]) = Ok [2; 1; 5] /\
  gen_get_index_direct_unchecked Debug (combine [1; 2; 3] [12; 4; 1]) = Ok 23.
Proof. vm_compute. repeat split. Qed.

(* the loops that WRITE arrays: clip_range_shape / clip_masked_shape (the shapes of TensorRange /
   TensorMask), one iteration and the whole loop over the arrays in lockstep; the subtraction
   `*length -= mask.length` cannot underflow in either build profile *)
Theorem C16_generated_array_writing_loops_match_model : forall md,
  (forall nm len r,
     gen_clip_range_shape_body md (nm, len) r = omap (fun c => ((nm, r_length c), c)) (ir_clip r len)) /\
  (forall nm len r,
     gen_clip_masked_shape_body md (nm, len) r =
     obind (ir_clip r len) (fun c => omap (fun l => ((nm, l), c)) (u_sub md len (r_length c)))) /\
  (forall xs, gen_clip_range_shape md xs =
     gen_map_m (fun x => omap (fun c => ((fst (fst x), r_length c), c)) (ir_clip (snd x) (snd (fst x)))) xs) /\
  (forall xs, gen_clip_masked_shape md xs =
     gen_map_m (fun x => obind (ir_clip (snd x) (snd (fst x)))
                               (fun c => omap (fun l => ((fst (fst x), l), c)) (u_sub md (snd (fst x)) (r_length c)))) xs) /\
  (forall nm len r,
     gen_clip_range_shape_body md (nm, len) r =
     Ok ((nm, Views.r_len (Views.r_clip (to_v r) len)), mkRange (r_start r) (Views.r_len (Views.r_clip (to_v r) len))) /\
     gen_clip_masked_shape_body md (nm, len) r =
     Ok ((nm, len - Views.r_len (Views.r_clip (to_v r) len)), mkRange (r_start r) (Views.r_len (Views.r_clip (to_v r) len)))).
Proof.
  intros md.
  split; [intros; apply gen_clip_range_shape_body_eq|].
  split; [intros; apply gen_clip_masked_shape_body_eq|].
  split; [intros; apply gen_clip_range_shape_eq|].
  split; [intros; apply gen_clip_masked_shape_eq|].
  intros; split; [apply gen_clip_range_shape_body_views|apply gen_clip_masked_shape_body_views].
Qed.

Example C16_generated_array_writing_loops_nonvacuous :
  gen_clip_range_shape Debug [((0, 5), mkRange 1 usize_max); ((1, 3), mkRange 7 2)] =
    Ok [((0, 4), mkRange 1 4); ((1, 0), mkRange 7 0)] /\
  gen_clip_masked_shape Release [((0, 5), mkRange 1 usize_max); ((1, 3), mkRange 0 0)] =
    Ok [((0, 1), mkRange 1 4); ((1, 3), mkRange 0 0)].
Proof. vm_compute. split; reflexivity. Qed.

(* a translated function that CALLS other translated functions: ShapeIterator's size_hint
   (src/tensors/indexing.rs; the exact remaining length of every tensor iterator, C09) =
   elements - get_index_direct_unchecked(indexes, compute_strides), equal to Model/ShapeIter.v
   iter_len for an iterator over a valid shape whose indexes are in range while unfinished *)
Theorem C16_generated_size_hint_matches_model : forall md (it : ShapeIter.shape_iter),
  let sh := ShapeIter.si_shape it in
  valid_shape sh -> elements sh <= usize_max -> N.of_nat (length sh) <= usize_max ->
  length (ShapeIter.si_indexes it) = length sh ->
  (ShapeIter.si_finished it = false -> ShapeP.in_range (ShapeIter.si_indexes it) (lens_of sh)) ->
  gen_size_hint md (ShapeIter.si_finished it) (ShapeIter.si_indexes it) (shN sh) =
  Ok (ShapeIter.iter_len it, Some (ShapeIter.iter_len it)).
Proof. exact gen_size_hint_iter_len. Qed.

Example C16_generated_size_hint_nonvacuous :
  let it := ShapeIter.mkSI [(0%nat, 2); (1%nat, 3)] [1; 1] false in
  valid_shape (ShapeIter.si_shape it) /\ ShapeP.in_range (ShapeIter.si_indexes it) (lens_of (ShapeIter.si_shape it)) /\
  gen_size_hint Debug false [1; 1] [(0, 2); (1, 3)] = Ok (2, Some 2) /\
  gen_size_hint Release true [1; 1] [(0, 2); (1, 3)] = Ok (0, Some 0) /\
  gen_size_hint Debug false [] [] = Ok (1, Some 1).
Proof.
  cbv zeta. split; [split; [repeat constructor; cbn; intuition discriminate|repeat constructor; reflexivity]|].
  split; [cbn; repeat split; reflexivity|]. vm_compute. repeat split.
Qed.

Print Assumptions C16_generated_iterator_chains_match_model.
Print Assumptions C16_generated_array_writing_loops_match_model.
Print Assumptions C16_generated_size_hint_matches_model.
