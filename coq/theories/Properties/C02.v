(* C02 — Every tensor view and composition exposes exactly its documented index mapping.
   Only the property theorems (closed by `exact`), their assumption audit and the non-vacuity
   example.  Definitions: Model/Views.v (transcription: `view` = constructor calls, `v_ctor` =
   constructor validation yielding the stored fields `cview`, `c_shape` / `c_get` / `c_layout` =
   view_shape / get_reference / data_layout; `c_get` yields the ONE source element (leaf, offset)).
   Specifications: Proofs/C02Lemmas.v (range_spec, mask_spec, reverse_spec), Proofs/C01P.v
   (coords_by_name, shape_by_name), Proofs/ShapeP.v (in_range, valid_shape).
   All theorems are by structural induction on the view term, hence hold for every composition at
   any depth, every dimensionality and all parameters.
   `usize_view c`: the lengths of every mask's source are <= usize::MAX (a typing fact in Rust).
   Nothing is `_partial` any more: wf, presence, in-bounds resolution, the mappings, the
   constructor rules, injectivity / write exactness (all adaptors incl. stack and chain) and the
   linear-layout statement are proved for every term.  Not modelled: see notes/C02.md.
   Shared / mutable / unchecked access are ONE function in the model (`c_get`); that the three
   Rust accessors resolve to the same address is cross-checked by the harness on every probe.
   Session 3 additions (Model/ViewsConv.v, Proofs/C02Conv.v, Proofs/C02Lay.v):
   `ceq c c'` = observational equality of two constructed views (same view_shape, same source
   element at every index, same data_layout, same leaves); `orel ceq o o'` = two constructor
   outcomes of the same kind (Ok related by ceq / the same Err payload / both Panic).
   - reference wrappers (Box<S>, &S, &mut S, erased boxes, RecordTensor) ANYWHERE in a composition
     change nothing observable (C02_wrappers_transparent, C02_same_modulo_wrappers);
   - the convenience constructors of Tensor / TensorView agree with the adaptor constructors
     (C02_convenience_ctor_agrees);
   - the two panic paths guarding contract clause 5 (TensorRename::data_layout,
     TensorAccess::from_memory_order) fire exactly for a SOURCE that breaks the clause
     (C02_contract_violation_panics_rename, .._memory_order), and no constructed view ever reaches them
     (C02_layout_total);
   - a 2-D view through MatrixRefTensor and TensorRefMatrix is its rename (C02_matrix_trip_is_rename). *)
From Coq Require Import List ZArith NArith Bool Arith Permutation.
From EasyML Require Import Base.Sx Model.Shape Model.Views Model.ViewsMut Model.ViewsConv Proofs.ShapeP
  Proofs.C01P Proofs.C02Lemmas Proofs.C02P Proofs.C02Q Proofs.C02Inj Proofs.C02W Proofs.C02Lin
  Proofs.C02Mut Proofs.C02Conv Proofs.C02Lay.
Import ListNotations.
Open Scope N_scope.

(* TensorRef clauses 3 and 4: unique names, non-zero lengths, for every constructible view *)
Theorem C02_wf : forall v c, v_ctor v = Ok c -> usize_view c -> valid_shape (c_shape c).
Proof. exact view_shape_valid. Qed.

(* an index is present exactly when it lies inside the view's shape *)
Theorem C02_present_iff : forall v c idx, v_ctor v = Ok c -> usize_view c ->
  length idx = length (c_shape c) ->
  (c_get c idx <> None <-> in_range idx (lens_of (c_shape c))).
Proof. exact view_present_iff. Qed.

(* in particular any coordinate at or beyond its length (usize::MAX included) is absent: no alias *)
Theorem C02_out_of_range_absent : forall v c idx d, v_ctor v = Ok c -> usize_view c ->
  length idx = length (c_shape c) -> (d < length idx)%nat ->
  nth d (lens_of (c_shape c)) 0 <= nth d idx 0 -> c_get c idx = None.
Proof. exact view_oob_absent. Qed.

(* every index a view reports present resolves to a storage position inside the stored data of
   one of its leaves: `c_leaves c` lists (leaf id, element count) and a leaf's store holds exactly
   that many elements (tensor / matrix invariant), so `off < n` is "inside the stored data";
   used by C10 *)
Theorem C02_resolves_in_bounds : forall v c idx l off, v_ctor v = Ok c ->
  c_get c idx = Some (l, off) -> exists n, In (l, n) (c_leaves c) /\ off < n.
Proof. exact resolves_in_bounds. Qed.

(* every successful constructor establishes the invariants of its stored fields (clipped ranges
   inside the source, provided indexes in range, extra dimensions sorted / fresh / in position,
   unique names, mapping tables of a permutation, equal / similar source shapes) *)
Theorem C02_ctor_invariants : forall v c, v_ctor v = Ok c -> cwf c.
Proof. exact ctor_wf. Qed.

(* ---- the documented mappings, over ANY source view ---- *)
(* sub-range: i |-> start + i *)
Theorem C02_mapping_range : forall c rs idx, cwf (CRange c rs) -> length idx = length (c_shape c) ->
  in_range idx (lens_of (c_shape (CRange c rs))) ->
  c_get (CRange c rs) idx = c_get c (range_spec rs idx).
Proof. exact mapping_range. Qed.

(* mask: i |-> i before the hidden block, i + len after it *)
Theorem C02_mapping_mask : forall c ms idx, cwf (CMask c ms) ->
  Forall (fun d => snd d <= usize_max) (c_shape c) -> length idx = length (c_shape c) ->
  in_range idx (lens_of (c_shape (CMask c ms))) ->
  c_get (CMask c ms) idx = c_get c (mask_spec ms idx).
Proof. exact mapping_mask. Qed.

(* reversal: i |-> len - 1 - i on the reversed dimensions *)
Theorem C02_mapping_reverse : forall c rev idx, cwf (CReverse c rev) -> valid_shape (c_shape c) ->
  length idx = length (c_shape c) -> in_range idx (lens_of (c_shape c)) ->
  c_get (CReverse c rev) idx = c_get c (reverse_spec idx (c_shape c) rev).
Proof. exact mapping_reverse. Qed.

(* rename and Box / & / &mut sources do not touch indexes *)
Theorem C02_mapping_rename : forall c ns idx, c_get (CRename c ns) idx = c_get c idx.
Proof. exact mapping_rename. Qed.
Theorem C02_mapping_wrap : forall c idx, c_get (CWrap c) idx = c_get c idx.
Proof. exact mapping_wrap. Qed.

(* reordering and transposition index the source by NAME; an access reports the shape by name *)
Theorem C02_mapping_access_transpose : forall c req tbl idx,
  NoDup (names_of (c_shape c)) -> length req = length (c_shape c) ->
  dm_new (names_of (c_shape c)) req = Some tbl ->
  c_get (CAccess c tbl) idx = c_get c (coords_by_name (c_shape c) req idx) /\
  c_get (CTranspose c tbl) idx = c_get c (coords_by_name (c_shape c) req idx) /\
  c_shape (CAccess c tbl) = shape_by_name (c_shape c) req.
Proof. exact mapping_access. Qed.

(* stacking: the coordinate at `along` picks the source, the remaining coordinates index it *)
Theorem C02_mapping_stack : forall cs along n idx,
  c_get (CStack cs along n) idx =
  match nth_error cs (N.to_nat (nth along idx 0)) with
  | Some ck => c_get ck (remove_at 0 along idx)
  | None => None
  end.
Proof. exact mapping_stack. Qed.

(* chaining: source k owns the indexes [sum of the lengths before it, + its own length) *)
Theorem C02_mapping_chain : forall cs along idx k ck,
  let lens := map (fun c0 => len_at (c_shape c0) along) cs in
  nth_error cs k = Some ck ->
  sum (firstn k lens) <= nth along idx 0 < sum (firstn k lens) + nth k lens 0 ->
  c_get (CChain cs along) idx = c_get ck (list_upd idx along (nth along idx 0 - sum (firstn k lens))).
Proof. exact mapping_chain. Qed.

(* ---- constructor rules ---- *)
(* the lenient constructor clips, and succeeds exactly when >= 1 index remains in every dimension *)
Theorem C02_ctor_lenient_clips : forall c rs, valid_shape (c_shape c) ->
  Forall (fun d => snd d <= usize_max) (c_shape c) -> length rs = length (c_shape c) ->
  ((exists c', ranged_ctor range_clip_from c (PAll false rs) = Ok c') <->
   Forall2 keeps_one (c_shape c) rs).
Proof. exact range_lenient_rule. Qed.

(* the strict constructors (ranges and masks) report OutsideShape with the shape and the given
   ranges exactly when some range ends beyond its dimension, and otherwise agree with the lenient ones *)
Theorem C02_ctor_strict_outside : forall clip_from c rs, length rs = length (c_shape c) ->
  Forall (fun d => snd d <= usize_max) (c_shape c) ->
  (Exists (fun p => ends_outside (fst p) (snd p)) (combine (c_shape c) rs) ->
     ranged_ctor clip_from c (PAll true rs) = Err (e_outside (c_shape c) rs)) /\
  (~ Exists (fun p => ends_outside (fst p) (snd p)) (combine (c_shape c) rs) ->
     forall c', (ranged_ctor clip_from c (PAll true rs) = Ok c' <->
                 ranged_ctor clip_from c (PAll false rs) = Ok c')).
Proof. exact strict_rule. Qed.

(* ---- injectivity: writes land on the designated element only ----
   for EVERY view term (all adaptors incl. stack and chain, any depth), given pairwise distinct
   leaf ids (distinct leaf tensors / matrices): two different in-shape indexes never resolve to the
   same (leaf, offset).  A write through the view at idx stores into exactly c_get c idx
   (Run/RunC02.v `do_writes`, validated against the real `get_reference_mut` /
   `get_reference_unchecked_mut` by the correspondence check), so every other in-shape index
   still reads its old element. *)
Theorem C02_injective : forall v c, v_ctor v = Ok c -> usize_view c -> NoDup (leaf_ids c) ->
  forall i1 i2, in_range i1 (lens_of (c_shape c)) -> in_range i2 (lens_of (c_shape c)) ->
    c_get c i1 = c_get c i2 -> i1 = i2.
Proof. exact (fun v c H U N => view_injective c (ctor_wf v c H) U N). Qed.

Theorem C02_write_exact : forall v c, v_ctor v = Ok c -> usize_view c -> NoDup (leaf_ids c) ->
  forall i1 i2, in_range i1 (lens_of (c_shape c)) -> in_range i2 (lens_of (c_shape c)) ->
    i1 <> i2 -> c_get c i1 <> c_get c i2.
Proof. exact (fun v c H U N => view_write_exact c (ctor_wf v c H) U N). Qed.

(* ---- mutating the source through source_ref_mut() ----
   TensorReverse / TensorRename (and TensorView) hand out `&mut` to their source.  If the tensor
   reached that way is reshaped (`reshape_mut`: other lengths and names, same element count), the
   SAME view object (stored fields unchanged, Model/ViewsMut.v `c_reshape`) still satisfies the
   whole contract against the NEW shape: valid shape, presence exactly inside it, injectivity,
   in-bounds resolution, and the leaf keeps its element count. *)
Theorem C02_source_mutation_keeps_contract : forall v c sh' c', v_ctor v = Ok c ->
  reshape_mut c sh' = Some (Ok c') ->
  (valid_shape (c_shape c') /\
   forall idx, length idx = length (c_shape c') ->
     (c_get c' idx <> None <-> in_range idx (lens_of (c_shape c')))) /\
  (forall i1 i2, in_range i1 (lens_of (c_shape c')) -> in_range i2 (lens_of (c_shape c')) ->
     c_get c' i1 = c_get c' i2 -> i1 = i2) /\
  (forall idx l off, c_get c' idx = Some (l, off) -> exists n, In (l, n) (c_leaves c') /\ off < n) /\
  map snd (c_leaves c') = map snd (c_leaves c).
Proof. exact reshape_contract. Qed.

(* ---- linear layout ----
   Whenever a constructed view (ANY term, any depth) claims DataLayout::Linear(order):
   `order` is a permutation of the view's dimension names, TensorAccess::from_memory_order
   succeeds, the view spans ONE whole leaf (its element count is the leaf's), and walking the view
   in the claimed order visits that leaf's offsets 0, 1, 2, ... : strictly increasing and
   contiguous.  By structural induction: Linear survives exactly through rename / access /
   transposition / wrappers over tensor and matrix-backed leaves (every other adaptor reports
   NonLinear or Other), and for those the invariant "indexing the view by name in the claimed
   order is row-major addressing of the leaf" (Proofs/C02Lin.v `lin_inv`) is preserved. *)
Theorem C02_linear_layout : forall v c order, v_ctor v = Ok c -> usize_view c ->
  c_layout c = Ok (Linear order) ->
  Permutation order (names_of (c_shape c)) /\
  exists id tbl,
    access_tbl c order = Ok tbl /\
    c_leaves c = [(id, elements (c_shape c))] /\
    map (c_get (CAccess c tbl)) (all_indexes (lens_of (c_shape (CAccess c tbl)))) =
    map (fun k => Some (id, N.of_nat k)) (seq 0 (N.to_nat (elements (c_shape c)))).
Proof. exact linear_layout. Qed.

(* the same, re-checked by kernel evaluation on ~19 000 concrete layout-preserving terms (an
   independent executable cross-check of the statement above, kept as an extra) *)
Theorem C02_linear_layout_enumerated :
  forallb walk_ok (layout_terms 3 (VTensor 0 [(0%nat, 2); (1%nat, 3); (2%nat, 2)]) [0; 1; 2]%nat) = true /\
  forallb walk_ok (layout_terms 3 (VMatrix 0 2 3 0%nat 1%nat) [0; 1]%nat) = true /\
  forallb walk_ok (layout_terms 2 (VTensor 0 [(3%nat, 2); (1%nat, 1); (0%nat, 2); (2%nat, 3)]) [3; 1; 0; 2]%nat) = true.
Proof. exact linear_layout_bounded. Qed.

(* regression fact about the code BEFORE fix 6660492 (finding F13, found by this check): the
   as-written transposition layout claimed Linear(d1,d0,d2) and the walk in that order is 0,2,1,3;
   the code now claims Linear(d2,d1,d0) and walks 0,1,2,3 *)
Theorem C02_transpose_layout_as_written_refuted :
  exists c, v_ctor f13_view = Ok c /\
    c_layout_gen true c = Ok (Linear [1; 0; 2]%nat) /\
    memory_walk true c = Some [Some (0, 0); Some (0, 2); Some (0, 1); Some (0, 3)] /\
    c_layout c = Ok (Linear [2; 1; 0]%nat) /\
    memory_walk false c = Some [Some (0, 0); Some (0, 1); Some (0, 2); Some (0, 3)].
Proof. exact transpose_layout_as_written_refuted. Qed.

(* ---- reference wrappers and convenience constructors (session 3) ----
   Removing every Box<S> / &S / &mut S / erased / RecordTensor wrapper anywhere in a term changes no
   constructor outcome (same error payload, same panic) and no observable of the constructed view. *)
Theorem C02_wrappers_transparent : forall v, orel ceq (v_ctor v) (v_ctor (strip_wraps v)).
Proof. exact wraps_transparent. Qed.

Theorem C02_same_modulo_wrappers : forall v w, strip_wraps v = strip_wraps w ->
  orel ceq (v_ctor v) (v_ctor w).
Proof. exact same_modulo_wraps. Qed.

(* Tensor / TensorView::{range, mask, select, expand, reverse, index_by}(_mut / _owned),
   rename_view, transpose_view = the adaptor constructor over the source, whatever the receiver form *)
Theorem C02_convenience_ctor_agrees : forall f src,
  (forall named, orel ceq (v_ctor (conv_range f src named)) (v_ctor (VRange src (PNamed false named)))) /\
  (forall named, orel ceq (v_ctor (conv_mask f src named)) (v_ctor (VMask src (PNamed false named)))) /\
  (forall p, orel ceq (v_ctor (conv_select f src p)) (v_ctor (VIndex src [p]))) /\
  (forall e, orel ceq (v_ctor (conv_expand f src e)) (v_ctor (VExpand src [e]))) /\
  (forall ns, orel ceq (v_ctor (conv_reverse f src ns)) (v_ctor (VReverse src ns))) /\
  (forall ns, orel ceq (v_ctor (conv_rename_view src ns)) (v_ctor (VRename src ns))) /\
  (forall ns, orel ceq (v_ctor (conv_transpose_view src ns)) (v_ctor (VTranspose src ns))) /\
  (forall ns, orel ceq (v_ctor (conv_index_by f src ns)) (v_ctor (VAccess src ns))).
Proof. exact convenience_agrees. Qed.

(* ---- the panic paths guarding TensorRef contract clause 5 (session 3) ----
   data_layout of a rename / transposition is a function of the SOURCE's (view_shape, data_layout): *)
Theorem C02_layout_of_source : forall c ns tbl,
  c_layout (CRename c ns) = obind (c_layout c) (rename_layout (c_shape c) ns) /\
  c_layout (CTranspose c tbl) = omap (transposed_layout (c_shape c) tbl) (c_layout c).
Proof. exact (fun c ns tbl => conj (rename_layout_is c ns false) (transposed_layout_is c tbl)). Qed.

(* TensorRename::data_layout panics exactly when the source claims a Linear order with a name that
   is not in its view_shape; every other layout passes through *)
Theorem C02_contract_violation_panics_rename : forall sh ns order,
  rename_layout sh ns (Linear order) = Panic <-> ~ incl order (names_of sh).
Proof. exact rename_layout_panic_iff. Qed.

(* TensorAccess::from_memory_order panics exactly when the claimed order is not a permutation of
   the view_shape's names *)
Theorem C02_contract_violation_panics_memory_order : forall sh order,
  NoDup (names_of sh) -> length order = length sh ->
  (memory_order_tbl sh (Linear order) = Panic <-> ~ Permutation (names_of sh) order).
Proof. exact memory_order_panic_iff. Qed.

(* no constructed view (any term, any depth) reaches those paths: its layout is reported, the
   memory-order access exists exactly when the layout is Linear, and any rename of it reports too *)
Theorem C02_layout_total : forall v c, v_ctor v = Ok c -> usize_view c ->
  exists lay o, c_layout c = Ok lay /\ memory_order_tbl (c_shape c) lay = Ok o /\
    (forall order, lay = Linear order -> o <> None) /\
    forall ns c', rename_ctor c ns = Ok c' -> exists lay', c_layout c' = Ok lay'.
Proof. exact ctor_layout_total. Qed.

(* ---- interop (session 3): view -> MatrixRefTensor -> TensorRefMatrix::with_names ----
   the trip exposes exactly the rename of the view to [n0; n1] (same shape rule, same element at
   every index); equal names are an InvalidShapeError (not a panic); the layout is the rename's
   whenever the view's Linear order is one of the two orders of its names, and Other otherwise *)
Theorem C02_matrix_trip_is_rename : forall c r0 k0 rows cols n0 n1,
  c_shape c = [(r0, rows); (k0, cols)] -> r0 <> k0 -> 0 < rows -> 0 < cols ->
  (n0 = n1 -> matrix_trip c n0 n1 = Err (e_shape [(n0, rows); (n1, cols)])) /\
  (n0 <> n1 -> forall lay, c_layout c = Ok lay ->
     exists lay', matrix_trip c n0 n1 = Ok (c_shape (CRename c [n0; n1]), lay', c_get (CRename c [n0; n1])) /\
       match lay with
       | Linear order =>
           (order = [r0; k0] \/ order = [k0; r0]) -> c_layout (CRename c [n0; n1]) = Ok lay'
       | NonLinear => lay' = Other
       | Other => lay' = Other
       end).
Proof. exact matrix_trip_is_rename. Qed.

(* non-vacuity: reversal over a mask over a chain of a range and an expansion-of-a-selection, then
   transposed: constructible, usize, with a present index resolving into the second chained
   source and an absent one *)
Definition c02_example : view :=
  VTranspose
    (VReverse
       (VMask
          (VChain [ VRange (VTensor 1 [(0%nat, 3); (1%nat, 4)]) (PNamed false [(1%nat, mkR 1 9)]);
                    VExpand (VIndex (VTensor 2 [(0%nat, 2); (1%nat, 3); (2%nat, 5)]) [(2%nat, 4)])
                            [] ]
                  0%nat)
          (PAll true [Some (mkR 1 2); None]))
       [1%nat])
    [1; 0]%nat.

Example C02_nonvacuous :
  exists c, v_ctor c02_example = Ok c /\ usize_view c /\
    c_shape c = [(0%nat, 3); (1%nat, 3)] /\
    c_get c [0; 2] = Some (2, 29) /\ c_get c [3; 0] = None /\ c_get c [0; 18446744073709551615] = None.
Proof.
  eexists. split; [vm_compute; reflexivity|]. split; [|vm_compute; repeat split].
  cbn. repeat constructor; vm_compute; discriminate.
Qed.

(* non-vacuity of the session-3 statements: Tensor::reverse(&self) then TensorView::range_mut over a
   boxed leaf is observationally the plain composition; a transposed access of a 2x3 leaf is
   column major as a matrix and Linear[n1; n0] after the trip; a foreign layout panics the rename *)
Example C02_nonvacuous_conv :
  let leaf := VTensor 1 [(0%nat, 2); (1%nat, 3)] in
  (exists c c', v_ctor (conv_range ByMut (conv_reverse ByRef (VWrap leaf) [1%nat]) [(1%nat, mkR 1 2)]) = Ok c /\
     v_ctor (VRange (VReverse leaf [1%nat]) (PNamed false [(1%nat, mkR 1 2)])) = Ok c' /\
     ceq c c' /\ c_get c [1; 0] = Some (1, 4)) /\
  (exists c, v_ctor (VAccess leaf [1; 0]%nat) = Ok c /\
     matrix_ref_tensor_layout (c_shape c) (Linear [0; 1]%nat) = ColumnMajor /\
     exists g, matrix_trip c 5%nat 6%nat = Ok ([(5%nat, 3); (6%nat, 2)], Linear [6; 5]%nat, g)) /\
  rename_layout [(0%nat, 2); (1%nat, 3)] [5; 6]%nat (Linear [0; 9]%nat) = Panic /\
  memory_order_tbl [(0%nat, 2); (1%nat, 3)] (Linear [0; 0]%nat) = Panic.
Proof.
  cbv zeta. split; [|split; [|split; reflexivity]].
  - pose proof (C02_same_modulo_wrappers
      (conv_range ByMut (conv_reverse ByRef (VWrap (VTensor 1 [(0%nat, 2); (1%nat, 3)])) [1%nat]) [(1%nat, mkR 1 2)])
      (VRange (VReverse (VTensor 1 [(0%nat, 2); (1%nat, 3)]) [1%nat]) (PNamed false [(1%nat, mkR 1 2)]))
      eq_refl) as H.
    destruct (v_ctor (conv_range _ _ _)) as [c| |] eqn:E1; try (vm_compute in E1; discriminate).
    destruct (v_ctor (VRange _ _)) as [c'| |] eqn:E2; try (vm_compute in E2; discriminate).
    exists c, c'. repeat split; try apply H.
    vm_compute in E1. injection E1 as <-. vm_compute. reflexivity.
  - eexists. split; [vm_compute; reflexivity|]. split; [vm_compute; reflexivity|].
    eexists. vm_compute. reflexivity.
Qed.

Print Assumptions C02_wf.
Print Assumptions C02_present_iff.
Print Assumptions C02_out_of_range_absent.
Print Assumptions C02_resolves_in_bounds.
Print Assumptions C02_ctor_invariants.
Print Assumptions C02_mapping_range.
Print Assumptions C02_mapping_mask.
Print Assumptions C02_mapping_reverse.
Print Assumptions C02_mapping_rename.
Print Assumptions C02_mapping_wrap.
Print Assumptions C02_mapping_access_transpose.
Print Assumptions C02_mapping_stack.
Print Assumptions C02_mapping_chain.
Print Assumptions C02_ctor_lenient_clips.
Print Assumptions C02_ctor_strict_outside.
Print Assumptions C02_injective.
Print Assumptions C02_write_exact.
Print Assumptions C02_source_mutation_keeps_contract.
Print Assumptions C02_linear_layout.
Print Assumptions C02_wrappers_transparent.
Print Assumptions C02_same_modulo_wrappers.
Print Assumptions C02_convenience_ctor_agrees.
Print Assumptions C02_layout_of_source.
Print Assumptions C02_contract_violation_panics_rename.
Print Assumptions C02_contract_violation_panics_memory_order.
Print Assumptions C02_layout_total.
Print Assumptions C02_matrix_trip_is_rename.
Print Assumptions C02_linear_layout_enumerated.
Print Assumptions C02_transpose_layout_as_written_refuted.
