(* C02 — Every tensor view and composition exposes exactly its documented index mapping.
   Only the property theorems (closed by `exact`), their assumption audit and the non-vacuity
   example.  Definitions: Model/Views.v (transcription: `view` = constructor calls, `v_ctor` =
   constructor validation yielding the stored fields `cview`, `c_shape` / `c_get` / `c_layout` =
   view_shape / get_reference / data_layout; `c_get` yields the ONE source element (leaf, offset)).
   Specifications: Proofs/C02Lemmas.v (range_spec, mask_spec, reverse_spec), Proofs/C01P.v
   (coords_by_name, shape_by_name), Proofs/ShapeP.v (in_range, valid_shape).
   All theorems are by structural induction on the view term, hence hold for every composition at
   any depth, every dimensionality and all parameters.
   `usize_view c`: the lengths of every mask's source are <= usize::MAX (a typing fact in Rust).
   Nothing is `_partial` any more: wf, presence, in-bounds resolution, the mappings, the
   constructor rules, injectivity / write exactness (all adaptors incl. stack and chain) and the
   linear-layout statement are proved for every term.  Not modelled: see notes/C02.md.
   Shared / mutable / unchecked access are ONE function in the model (`c_get`); that the three
   Rust accessors resolve to the same address is cross-checked by the harness on every probe.
   Session 3 additions (Model/ViewsConv.v, Proofs/C02Conv.v, Proofs/C02Lay.v):
   `ceq c c'` = observational equality of two constructed views (same view_shape, same source
   element at every index, same data_layout, same leaves); `orel ceq o o'` = two constructor
   outcomes of the same kind (Ok related by ceq / the same Err payload / both Panic).
   - reference wrappers (Box<S>, &S, &mut S, erased boxes, RecordTensor) ANYWHERE in a composition
     change nothing observable (C02_wrappers_transparent, C02_same_modulo_wrappers);
   - the convenience constructors of Tensor / TensorView agree with the adaptor constructors
     (C02_convenience_ctor_agrees);
   - the two panic paths guarding contract clause 5 (TensorRename::data_layout,
     TensorAccess::from_memory_order) fire exactly for a SOURCE that breaks the clause
     (C02_contract_violation_panics_rename, .._memory_order), and no constructed view ever reaches them
     (C02_layout_total);
   - a 2-D view through MatrixRefTensor and TensorRefMatrix is its rename (C02_matrix_trip_is_rename).
   Second extension wave (Proofs/C02Spec.v): the shape rules and the select / expansion / stack index
   mappings now have SHORT specifications independent of the transcribed loops, proved equal to
   them over any source view (C02_clip_spec, C02_shape_range_mask_rename, C02_shape_index,
   C02_mapping_index, C02_mapping_expand, C02_stack_spec, C02_shape_chain, C02_chain_beyond_absent):
   select = pointwise "fixed coordinate, else the supplied coordinate number #unfixed-before-d";
   expansion shape = "before source dimension i come the extras requested at position i, length 1",
   expansion index = "the index is the source index with a 0 inserted at every extra dimension"
   (compute_expansion_indexes_* returns j only if idx = insert_zeros j; with C02_present_iff this
   pins the mapping); stack = insert at `along` / delete coordinate `along`; chain = first
   source's names and lengths, the SUM at `along`.  And every constructor has its "Panic iff
   <documented misuse>" / "Err payload iff" theorem in the code's check order
   (the C02_*_ctor_panics_iff theorems, C02_access_ctor_err_iff, C02_named_ranges_err_iff,
   C02_ranged_ctor_panics_iff). *)
From Coq Require Import List ZArith NArith Bool Arith Permutation Lia.
From EasyML Require Import Base.Sx Model.Shape Model.Views Model.ViewsMut Model.ViewsConv Proofs.ShapeP
  Proofs.C01P Proofs.C02Lemmas Proofs.C02P Proofs.C02Q Proofs.C02Inj Proofs.C02W Proofs.C02Lin
  Proofs.C02Mut Proofs.C02Conv Proofs.C02Lay Proofs.C02Spec Proofs.C02ExpandConv Proofs.C02IndexByName.
Import ListNotations.
Open Scope N_scope.

(* TensorRef clauses 3 and 4: unique names, non-zero lengths, for every constructible view *)
Theorem C02_wf : forall v c, v_ctor v = Ok c -> usize_view c -> valid_shape (c_shape c).
Proof. exact view_shape_valid. Qed.

(* an index is present exactly when it lies inside the view's shape *)
Theorem C02_present_iff : forall v c idx, v_ctor v = Ok c -> usize_view c ->
  length idx = length (c_shape c) ->
  (c_get c idx <> None <-> in_range idx (lens_of (c_shape c))).
Proof. exact view_present_iff. Qed.

(* in particular any coordinate at or beyond its length (usize::MAX included) is absent: no alias *)
Theorem C02_out_of_range_absent : forall v c idx d, v_ctor v = Ok c -> usize_view c ->
  length idx = length (c_shape c) -> (d < length idx)%nat ->
  nth d (lens_of (c_shape c)) 0 <= nth d idx 0 -> c_get c idx = None.
Proof. exact view_oob_absent. Qed.

(* every index a view reports present resolves to a storage position inside the stored data of
   one of its leaves: `c_leaves c` lists (leaf id, element count) and a leaf's store holds exactly
   that many elements (tensor / matrix invariant), so `off < n` is "inside the stored data";
   used by C10 *)
Theorem C02_resolves_in_bounds : forall v c idx l off, v_ctor v = Ok c ->
  c_get c idx = Some (l, off) -> exists n, In (l, n) (c_leaves c) /\ off < n.
Proof. exact resolves_in_bounds. Qed.

(* every successful constructor establishes the invariants of its stored fields (clipped ranges
   inside the source, provided indexes in range, extra dimensions sorted / fresh / in position,
   unique names, mapping tables of a permutation, equal / similar source shapes) *)
Theorem C02_ctor_invariants : forall v c, v_ctor v = Ok c -> cwf c.
Proof. exact ctor_wf. Qed.

(* ---- the documented mappings, over ANY source view ---- *)
(* sub-range: i |-> start + i *)
Theorem C02_mapping_range : forall c rs idx, cwf (CRange c rs) -> length idx = length (c_shape c) ->
  in_range idx (lens_of (c_shape (CRange c rs))) ->
  c_get (CRange c rs) idx = c_get c (range_spec rs idx).
Proof. exact mapping_range. Qed.

(* mask: i |-> i before the hidden block, i + len after it *)
Theorem C02_mapping_mask : forall c ms idx, cwf (CMask c ms) ->
  Forall (fun d => snd d <= usize_max) (c_shape c) -> length idx = length (c_shape c) ->
  in_range idx (lens_of (c_shape (CMask c ms))) ->
  c_get (CMask c ms) idx = c_get c (mask_spec ms idx).
Proof. exact mapping_mask. Qed.

(* reversal: i |-> len - 1 - i on the reversed dimensions *)
Theorem C02_mapping_reverse : forall c rev idx, cwf (CReverse c rev) -> valid_shape (c_shape c) ->
  length idx = length (c_shape c) -> in_range idx (lens_of (c_shape c)) ->
  c_get (CReverse c rev) idx = c_get c (reverse_spec idx (c_shape c) rev).
Proof. exact mapping_reverse. Qed.

(* rename and Box / & / &mut sources do not touch indexes *)
Theorem C02_mapping_rename : forall c ns idx, c_get (CRename c ns) idx = c_get c idx.
Proof. exact mapping_rename. Qed.
Theorem C02_mapping_wrap : forall c idx, c_get (CWrap c) idx = c_get c idx.
Proof. exact mapping_wrap. Qed.

(* reordering and transposition index the source by NAME; an access reports the shape by name *)
Theorem C02_mapping_access_transpose : forall c req tbl idx,
  NoDup (names_of (c_shape c)) -> length req = length (c_shape c) ->
  dm_new (names_of (c_shape c)) req = Some tbl ->
  c_get (CAccess c tbl) idx = c_get c (coords_by_name (c_shape c) req idx) /\
  c_get (CTranspose c tbl) idx = c_get c (coords_by_name (c_shape c) req idx) /\
  c_shape (CAccess c tbl) = shape_by_name (c_shape c) req.
Proof. exact mapping_access. Qed.

(* stacking: the coordinate at `along` picks the source, the remaining coordinates index it *)
Theorem C02_mapping_stack : forall cs along n idx,
  c_get (CStack cs along n) idx =
  match nth_error cs (N.to_nat (nth along idx 0)) with
  | Some ck => c_get ck (remove_at 0 along idx)
  | None => None
  end.
Proof. exact mapping_stack. Qed.

(* chaining: source k owns the indexes [sum of the lengths before it, + its own length) *)
Theorem C02_mapping_chain : forall cs along idx k ck,
  let lens := map (fun c0 => len_at (c_shape c0) along) cs in
  nth_error cs k = Some ck ->
  sum (firstn k lens) <= nth along idx 0 < sum (firstn k lens) + nth k lens 0 ->
  c_get (CChain cs along) idx = c_get ck (list_upd idx along (nth along idx 0 - sum (firstn k lens))).
Proof. exact mapping_chain. Qed.

(* ---- constructor rules ---- *)
(* the lenient constructor clips, and succeeds exactly when >= 1 index remains in every dimension *)
Theorem C02_ctor_lenient_clips : forall c rs, valid_shape (c_shape c) ->
  Forall (fun d => snd d <= usize_max) (c_shape c) -> length rs = length (c_shape c) ->
  ((exists c', ranged_ctor range_clip_from c (PAll false rs) = Ok c') <->
   Forall2 keeps_one (c_shape c) rs).
Proof. exact range_lenient_rule. Qed.

(* the strict constructors (ranges and masks) report OutsideShape with the shape and the given
   ranges exactly when some range ends beyond its dimension, and otherwise agree with the lenient ones *)
Theorem C02_ctor_strict_outside : forall clip_from c rs, length rs = length (c_shape c) ->
  Forall (fun d => snd d <= usize_max) (c_shape c) ->
  (Exists (fun p => ends_outside (fst p) (snd p)) (combine (c_shape c) rs) ->
     ranged_ctor clip_from c (PAll true rs) = Err (e_outside (c_shape c) rs)) /\
  (~ Exists (fun p => ends_outside (fst p) (snd p)) (combine (c_shape c) rs) ->
     forall c', (ranged_ctor clip_from c (PAll true rs) = Ok c' <->
                 ranged_ctor clip_from c (PAll false rs) = Ok c')).
Proof. exact strict_rule. Qed.

(* ---- injectivity: writes land on the designated element only ----
   for EVERY view term (all adaptors incl. stack and chain, any depth), given pairwise distinct
   leaf ids (distinct leaf tensors / matrices): two different in-shape indexes never resolve to the
   same (leaf, offset).  A write through the view at idx stores into exactly c_get c idx
   (Run/RunC02.v `do_writes`, validated against the real `get_reference_mut` /
   `get_reference_unchecked_mut` by the correspondence check), so every other in-shape index
   still reads its old element. *)
Theorem C02_injective : forall v c, v_ctor v = Ok c -> usize_view c -> NoDup (leaf_ids c) ->
  forall i1 i2, in_range i1 (lens_of (c_shape c)) -> in_range i2 (lens_of (c_shape c)) ->
    c_get c i1 = c_get c i2 -> i1 = i2.
Proof. exact (fun v c H U N => view_injective c (ctor_wf v c H) U N). Qed.

Theorem C02_write_exact : forall v c, v_ctor v = Ok c -> usize_view c -> NoDup (leaf_ids c) ->
  forall i1 i2, in_range i1 (lens_of (c_shape c)) -> in_range i2 (lens_of (c_shape c)) ->
    i1 <> i2 -> c_get c i1 <> c_get c i2.
Proof. exact (fun v c H U N => view_write_exact c (ctor_wf v c H) U N). Qed.

(* ---- mutating the source through source_ref_mut() ----
   TensorReverse / TensorRename (and TensorView) hand out `&mut` to their source.  If the tensor
   reached that way is reshaped (`reshape_mut`: other lengths and names, same element count), the
   SAME view object (stored fields unchanged, Model/ViewsMut.v `c_reshape`) still satisfies the
   whole contract against the NEW shape: valid shape, presence exactly inside it, injectivity,
   in-bounds resolution, and the leaf keeps its element count. *)
Theorem C02_source_mutation_keeps_contract : forall v c sh' c', v_ctor v = Ok c ->
  reshape_mut c sh' = Some (Ok c') ->
  (valid_shape (c_shape c') /\
   forall idx, length idx = length (c_shape c') ->
     (c_get c' idx <> None <-> in_range idx (lens_of (c_shape c')))) /\
  (forall i1 i2, in_range i1 (lens_of (c_shape c')) -> in_range i2 (lens_of (c_shape c')) ->
     c_get c' i1 = c_get c' i2 -> i1 = i2) /\
  (forall idx l off, c_get c' idx = Some (l, off) -> exists n, In (l, n) (c_leaves c') /\ off < n) /\
  map snd (c_leaves c') = map snd (c_leaves c).
Proof. exact reshape_contract. Qed.

(* ---- linear layout ----
   Whenever a constructed view (ANY term, any depth) claims DataLayout::Linear(order):
   `order` is a permutation of the view's dimension names, TensorAccess::from_memory_order
   succeeds, the view spans ONE whole leaf (its element count is the leaf's), and walking the view
   in the claimed order visits that leaf's offsets 0, 1, 2, ... : strictly increasing and
   contiguous.  By structural induction: Linear survives exactly through rename / access /
   transposition / wrappers over tensor and matrix-backed leaves (every other adaptor reports
   NonLinear or Other), and for those the invariant "indexing the view by name in the claimed
   order is row-major addressing of the leaf" (Proofs/C02Lin.v `lin_inv`) is preserved. *)
Theorem C02_linear_layout : forall v c order, v_ctor v = Ok c -> usize_view c ->
  c_layout c = Ok (Linear order) ->
  Permutation order (names_of (c_shape c)) /\
  exists id tbl,
    access_tbl c order = Ok tbl /\
    c_leaves c = [(id, elements (c_shape c))] /\
    map (c_get (CAccess c tbl)) (all_indexes (lens_of (c_shape (CAccess c tbl)))) =
    map (fun k => Some (id, N.of_nat k)) (seq 0 (N.to_nat (elements (c_shape c)))).
Proof. exact linear_layout. Qed.

(* the same, re-checked by kernel evaluation on ~19 000 concrete layout-preserving terms (an
   independent executable cross-check of the statement above, kept as an extra) *)
Theorem C02_linear_layout_enumerated :
  forallb walk_ok (layout_terms 3 (VTensor 0 [(0%nat, 2); (1%nat, 3); (2%nat, 2)]) [0; 1; 2]%nat) = true /\
  forallb walk_ok (layout_terms 3 (VMatrix 0 2 3 0%nat 1%nat) [0; 1]%nat) = true /\
  forallb walk_ok (layout_terms 2 (VTensor 0 [(3%nat, 2); (1%nat, 1); (0%nat, 2); (2%nat, 3)]) [3; 1; 0; 2]%nat) = true.
Proof. exact linear_layout_bounded. Qed.

(* regression fact about the code BEFORE fix 6660492 (finding F13, found by this check): the
   as-written transposition layout claimed Linear(d1,d0,d2) and the walk in that order is 0,2,1,3;
   the code now claims Linear(d2,d1,d0) and walks 0,1,2,3 *)
Theorem C02_transpose_layout_as_written_refuted :
  exists c, v_ctor f13_view = Ok c /\
    c_layout_gen true c = Ok (Linear [1; 0; 2]%nat) /\
    memory_walk true c = Some [Some (0, 0); Some (0, 2); Some (0, 1); Some (0, 3)] /\
    c_layout c = Ok (Linear [2; 1; 0]%nat) /\
    memory_walk false c = Some [Some (0, 0); Some (0, 1); Some (0, 2); Some (0, 3)].
Proof. exact transpose_layout_as_written_refuted. Qed.

(* ---- reference wrappers and convenience constructors (session 3) ----
   Removing every Box<S> / &S / &mut S / erased / RecordTensor wrapper anywhere in a term changes no
   constructor outcome (same error payload, same panic) and no observable of the constructed view. *)
Theorem C02_wrappers_transparent : forall v, orel ceq (v_ctor v) (v_ctor (strip_wraps v)).
Proof. exact wraps_transparent. Qed.

Theorem C02_same_modulo_wrappers : forall v w, strip_wraps v = strip_wraps w ->
  orel ceq (v_ctor v) (v_ctor w).
Proof. exact same_modulo_wraps. Qed.

(* Tensor / TensorView::{range, mask, select, expand, reverse, index_by}(_mut / _owned),
   rename_view, transpose_view = the adaptor constructor over the source, whatever the receiver form *)
Theorem C02_convenience_ctor_agrees : forall f src,
  (forall named, orel ceq (v_ctor (conv_range f src named)) (v_ctor (VRange src (PNamed false named)))) /\
  (forall named, orel ceq (v_ctor (conv_mask f src named)) (v_ctor (VMask src (PNamed false named)))) /\
  (forall p, orel ceq (v_ctor (conv_select f src p)) (v_ctor (VIndex src [p]))) /\
  (forall e, orel ceq (v_ctor (conv_expand f src e)) (v_ctor (VExpand src [e]))) /\
  (forall ns, orel ceq (v_ctor (conv_reverse f src ns)) (v_ctor (VReverse src ns))) /\
  (forall ns, orel ceq (v_ctor (conv_rename_view src ns)) (v_ctor (VRename src ns))) /\
  (forall ns, orel ceq (v_ctor (conv_transpose_view src ns)) (v_ctor (VTranspose src ns))) /\
  (forall ns, orel ceq (v_ctor (conv_index_by f src ns)) (v_ctor (VAccess src ns))).
Proof. exact convenience_agrees. Qed.

(* ---- the panic paths guarding TensorRef contract clause 5 (session 3) ----
   data_layout of a rename / transposition is a function of the SOURCE's (view_shape, data_layout): *)
Theorem C02_layout_of_source : forall c ns tbl,
  c_layout (CRename c ns) = obind (c_layout c) (rename_layout (c_shape c) ns) /\
  c_layout (CTranspose c tbl) = omap (transposed_layout (c_shape c) tbl) (c_layout c).
Proof. exact (fun c ns tbl => conj (rename_layout_is c ns false) (transposed_layout_is c tbl)). Qed.

(* TensorRename::data_layout panics exactly when the source claims a Linear order with a name that
   is not in its view_shape; every other layout passes through *)
Theorem C02_contract_violation_panics_rename : forall sh ns order,
  rename_layout sh ns (Linear order) = Panic <-> ~ incl order (names_of sh).
Proof. exact rename_layout_panic_iff. Qed.

(* TensorAccess::from_memory_order panics exactly when the claimed order is not a permutation of
   the view_shape's names *)
Theorem C02_contract_violation_panics_memory_order : forall sh order,
  NoDup (names_of sh) -> length order = length sh ->
  (memory_order_tbl sh (Linear order) = Panic <-> ~ Permutation (names_of sh) order).
Proof. exact memory_order_panic_iff. Qed.

(* no constructed view (any term, any depth) reaches those paths: its layout is reported, the
   memory-order access exists exactly when the layout is Linear, and any rename of it reports too *)
Theorem C02_layout_total : forall v c, v_ctor v = Ok c -> usize_view c ->
  exists lay o, c_layout c = Ok lay /\ memory_order_tbl (c_shape c) lay = Ok o /\
    (forall order, lay = Linear order -> o <> None) /\
    forall ns c', rename_ctor c ns = Ok c' -> exists lay', c_layout c' = Ok lay'.
Proof. exact ctor_layout_total. Qed.

(* ---- interop (session 3): view -> MatrixRefTensor -> TensorRefMatrix::with_names ----
   the trip exposes exactly the rename of the view to [n0; n1] (same shape rule, same element at
   every index); equal names are an InvalidShapeError (not a panic); the layout is the rename's
   whenever the view's Linear order is one of the two orders of its names, and Other otherwise *)
Theorem C02_matrix_trip_is_rename : forall c r0 k0 rows cols n0 n1,
  c_shape c = [(r0, rows); (k0, cols)] -> r0 <> k0 -> 0 < rows -> 0 < cols ->
  (n0 = n1 -> matrix_trip c n0 n1 = Err (e_shape [(n0, rows); (n1, cols)])) /\
  (n0 <> n1 -> forall lay, c_layout c = Ok lay ->
     exists lay', matrix_trip c n0 n1 = Ok (c_shape (CRename c [n0; n1]), lay', c_get (CRename c [n0; n1])) /\
       match lay with
       | Linear order =>
           (order = [r0; k0] \/ order = [k0; r0]) -> c_layout (CRename c [n0; n1]) = Ok lay'
       | NonLinear => lay' = Other
       | Other => lay' = Other
       end).
Proof. exact matrix_trip_is_rename. Qed.

(* ================= second extension wave: specifications of shapes, mappings, misuse ========= *)
(* IndexRange::clip keeps index i exactly when i is in the range and start + i is in the dimension *)
Theorem C02_clip_spec : forall r l, l <= usize_max ->
  forall i, i < r_len (r_clip r l) <-> i < r_len r /\ r_start r + i < l.
Proof. exact clip_spec. Qed.

(* shape rules of range / mask / rename: names and lengths pointwise *)
Theorem C02_shape_range_mask_rename : forall c,
  (forall rs, length rs = length (c_shape c) ->
     names_of (c_shape (CRange c rs)) = names_of (c_shape c) /\
     lens_of (c_shape (CRange c rs)) = map r_len rs) /\
  (forall ms, length ms = length (c_shape c) ->
     names_of (c_shape (CMask c ms)) = names_of (c_shape c) /\
     lens_of (c_shape (CMask c ms)) = zipwith (fun d m => snd d - r_len m) (c_shape c) ms) /\
  (forall ns, length ns = length (c_shape c) ->
     names_of (c_shape (CRename c ns)) = ns /\
     lens_of (c_shape (CRename c ns)) = lens_of (c_shape c)).
Proof. exact range_mask_rename_shape_spec. Qed.

(* selection: the shape keeps exactly the unfixed dimensions, in order *)
Theorem C02_shape_index : forall c pr, length pr = length (c_shape c) ->
  c_shape (CIndex c pr) = map fst (filter (fun p => is_none (snd p)) (combine (c_shape c) pr)).
Proof. exact (fun c pr => unprovided_spec (c_shape c) pr). Qed.

(* selection: coordinate d of the source index is the fixed index of dimension d, or the supplied
   coordinate whose number is the count of unfixed dimensions before d (the compute_select_indexes_D_I helpers) *)
Theorem C02_mapping_index : forall c pr idx j, select_idx pr idx = Some j ->
  c_get (CIndex c pr) idx = c_get c j /\ length j = length pr /\
  forall d, (d < length pr)%nat -> nth d j 0 = select_spec pr idx d.
Proof. exact mapping_index. Qed.

(* expansion: the extras requested at position i sit before source dimension i (after the last
   one for i = D), each of length 1; compute_expansion_indexes_* yields the source index j only
   for the index "j with a 0 inserted at every extra dimension" (and None otherwise: absent) *)
Theorem C02_mapping_expand : forall c ex idx, cwf (CExpand c ex) ->
  length idx = (length (c_shape c) + length ex)%nat ->
  c_shape (CExpand c ex) = spec_expand_shape (c_shape c) 0 ex /\
  match expand_idx idx 0 ex with
  | Some j => c_get (CExpand c ex) idx = c_get c j /\ idx = insert_zeros j 0 ex /\
              length j = length (c_shape c)
  | None => c_get (CExpand c ex) idx = None
  end.
Proof. exact mapping_expand. Qed.

(* ... and the CONVERSE: every source index j (of the source's dimensionality) is reached, through exactly
   the index "j with a 0 inserted at every extra dimension", which has the expansion's dimensionality.
   With C02_mapping_expand (only such indexes resolve) the expansion's index mapping is a bijection
   between the indexes it resolves and the source's indexes: no source element is hidden by an expansion *)
Theorem C02_mapping_expand_converse : forall c ex j, cwf (CExpand c ex) -> length j = length (c_shape c) ->
  expand_idx (insert_zeros j 0 ex) 0 ex = Some j /\
  c_get (CExpand c ex) (insert_zeros j 0 ex) = c_get c j /\
  length (insert_zeros j 0 ex) = (length (c_shape c) + length ex)%nat.
Proof. exact mapping_expand_converse. Qed.

(* ... and in terms of the RAW argument of TensorExpansion::from: the extras requested at position i
   appear before source dimension i IN THE ORDER THE CALLER GAVE THEM (the sort by position is
   stable) - whatever order the pairs were listed in *)
Theorem C02_expand_ctor_shape : forall c es c', expand_ctor c es = Ok c' ->
  c_shape c' = spec_expand_shape (c_shape c) 0 es.
Proof. exact expand_ctor_shape_spec. Qed.

(* stack: the new dimension (name, number of sources) is inserted at position `along`; the
   coordinate at `along` (C02_mapping_stack) is deleted from the index given to the source *)
Theorem C02_stack_spec : forall cs along n idx, (along <= length (first_shape cs))%nat ->
  c_shape (CStack cs along n) =
    firstn along (first_shape cs) ++ (n, N.of_nat (length cs)) :: skipn along (first_shape cs) /\
  remove_at 0 along idx = firstn along idx ++ skipn (S along) idx.
Proof. exact stack_spec. Qed.

(* chain: names and every other length are the first source's, the chained dimension has the SUM
   of the sources' lengths; at or beyond the sum nothing is present (below it: C02_mapping_chain) *)
Theorem C02_shape_chain : forall cs along, (along < length (first_shape cs))%nat ->
  let lens := map (fun c0 => len_at (c_shape c0) along) cs in
  names_of (c_shape (CChain cs along)) = names_of (first_shape cs) /\
  length (c_shape (CChain cs along)) = length (first_shape cs) /\
  forall d, nth d (lens_of (c_shape (CChain cs along))) 0 =
            if Nat.eqb d along then sum lens else nth d (lens_of (first_shape cs)) 0.
Proof. exact chain_shape_spec. Qed.

Theorem C02_chain_beyond_absent : forall cs along idx,
  sum (map (fun c0 => len_at (c_shape c0) along) cs) <= nth along idx 0 ->
  c_get (CChain cs along) idx = None.
Proof. exact chain_beyond_absent. Qed.

(* ---- constructor misuse: "Panic iff <documented condition>", disjuncts in the code's check
   order; never an Err; the stored fields on success ---- *)
(* TensorIndex::from: more indexes than dimensions, a repeated name, or an index that is not
   (a dimension of the source, inside its length) *)
Theorem C02_index_ctor_panics_iff : forall c ps,
  (index_ctor c ps = Panic <->
     (length (c_shape c) < length ps)%nat \/ ~ NoDup (map fst ps) \/
     Exists (fun p => ~ selectable (c_shape c) p) ps) /\
  (forall e, index_ctor c ps <> Err e) /\
  (forall c', index_ctor c ps = Ok c' -> exists pr, c' = CIndex c pr /\
     place_provided (c_shape c) ps (repeat None (length (c_shape c))) = Some pr).
Proof. exact index_ctor_panics_iff. Qed.

(* ... and the stored array in terms of the RAW argument, by NAME: one slot per source dimension, slot d
   holds Some i exactly when the caller's list contains (name of dimension d, i) - whatever order the pairs
   were given in; with C02_mapping_index / C02_shape_index this fixes which dimensions a selection removes
   and at which index, for every source view a constructor produced *)
Theorem C02_index_ctor_by_name : forall c ps c', cwf c -> usize_view c -> index_ctor c ps = Ok c' ->
  exists pr, c' = CIndex c pr /\ length pr = length (c_shape c) /\
    forall d i, (d < length (c_shape c))%nat ->
      (nth d pr None = Some i <-> In (fst (nth d (c_shape c) (0%nat, 0)), i) ps).
Proof. exact index_ctor_by_name_constructed. Qed.

(* TensorExpansion::from: a repeated extra name, a position beyond D, or a name already in use *)
Theorem C02_expand_ctor_panics_iff : forall c es,
  (expand_ctor c es = Panic <->
     ~ NoDup (map snd es) \/
     Exists (fun e => (length (c_shape c) < fst e)%nat \/ In (snd e) (names_of (c_shape c))) es) /\
  (forall e, expand_ctor c es <> Err e) /\
  (forall c', expand_ctor c es = Ok c' -> c' = CExpand c (stable_sort es)).
Proof. exact expand_ctor_panics_iff. Qed.

Theorem C02_rename_ctor_panics_iff : forall c ns,
  (rename_ctor c ns = Panic <-> length ns <> length (c_shape c) \/ ~ NoDup ns) /\
  (forall e, rename_ctor c ns <> Err e) /\
  (forall c', rename_ctor c ns = Ok c' -> c' = CRename c ns).
Proof. exact rename_ctor_panics_iff. Qed.

(* TensorReverse::from: a repeated name or a name that is not in the source's shape *)
Theorem C02_reverse_ctor_panics_iff : forall c ns,
  (reverse_ctor c ns = Panic <->
     ~ NoDup ns \/ Exists (fun n => ~ In n (names_of (c_shape c))) ns) /\
  (forall e, reverse_ctor c ns <> Err e) /\
  (forall c', reverse_ctor c ns = Ok c' ->
     c' = CReverse c (map (fun d => existsb (Nat.eqb (fst d)) ns) (c_shape c))).
Proof. exact reverse_ctor_panics_iff. Qed.

(* TensorAccess / TensorTranspose ::try_from: never a panic; Err (actual shape, requested names)
   exactly when the requested names are not a permutation of the shape's names *)
Theorem C02_access_ctor_err_iff : forall c ns,
  NoDup (names_of (c_shape c)) -> length ns = length (c_shape c) ->
  access_tbl c ns <> Panic /\
  (access_tbl c ns = Err (e_access (c_shape c) ns) <-> ~ Permutation (names_of (c_shape c)) ns) /\
  (forall e, access_tbl c ns = Err e -> e = e_access (c_shape c) ns) /\
  (forall tbl, access_tbl c ns = Ok tbl <-> dm_new (names_of (c_shape c)) ns = Some tbl).
Proof. exact access_tbl_err_iff. Qed.

(* TensorStack::from: no sources, position beyond D, name already in the shape, or a source whose
   shape differs from the first source's *)
Theorem C02_stack_ctor_panics_iff : forall cs pos n,
  (stack_ctor cs pos n = Panic <->
     cs = [] \/ (length (first_shape cs) < pos)%nat \/ In n (names_of (first_shape cs)) \/
     Exists (fun c => c_shape c <> first_shape cs) cs) /\
  (forall e, stack_ctor cs pos n <> Err e) /\
  (forall c', stack_ctor cs pos n = Ok c' -> c' = CStack cs pos n).
Proof. exact stack_ctor_panics_iff. Qed.

(* TensorChain::from: no sources, 0-dimensional sources, the name is not in the first shape, a
   source that is not `similar` (same names in order, same lengths except along the chained one),
   or (since fix f29e87d of finding F16) a total length along the chained dimension beyond
   usize::MAX; a constructed chain of >= 2 sources therefore has a usize total length *)
Theorem C02_chain_ctor_panics_iff : forall cs n,
  (chain_ctor cs n = Panic <->
     cs = [] \/ first_shape cs = [] \/ ~ In n (names_of (first_shape cs)) \/
     exists along, position_of (first_shape cs) n = Some along /\
       (Exists (fun c => ~ similar along (c_shape c) (first_shape cs)) cs \/
        ((1 < length cs)%nat /\
         usize_max < sum (map (fun c => len_at (c_shape c) along) cs)))) /\
  (forall e, chain_ctor cs n <> Err e) /\
  (forall c', chain_ctor cs n = Ok c' ->
     exists along, position_of (first_shape cs) n = Some along /\ c' = CChain cs along /\
       ((1 < length cs)%nat -> sum (map (fun c => len_at (c_shape c) along) cs) <= usize_max)).
Proof. exact chain_ctor_panics_iff. Qed.

(* named ranges / masks: InvalidDimensions { provided, valid } exactly for a repeated or unknown name *)
Theorem C02_named_ranges_err_iff : forall sh named,
  from_named_to_all sh named <> Panic /\
  ((exists e, from_named_to_all sh named = Err e) <->
     ~ NoDup (map fst named) \/ Exists (fun p => ~ In (fst p) (names_of sh)) named) /\
  (forall e, from_named_to_all sh named = Err e ->
     e = e_irv_dims (e_dims (map fst named) (names_of sh))).
Proof. exact named_ranges_err_iff. Qed.

(* the eight range / mask constructors never panic (a wrong array length is a compile-time error) *)
Theorem C02_ranged_ctor_panics_iff : forall clip_from c p,
  clip_from = range_clip_from \/ clip_from = mask_clip_from ->
  (ranged_ctor clip_from c p = Panic <->
   match p with PAll _ rs => length rs <> length (c_shape c) | PNamed _ _ => False end).
Proof. exact ranged_ctor_panics_iff. Qed.

(* non-vacuity of the specification theorems: two extras at position 1 and one at 0 over a 2 x 3
   leaf; a selection of the middle dimension; misuse that panics *)
Example C02_nonvacuous_spec :
  let leaf := CTensor 1 [(0%nat, 2); (1%nat, 3)] [3; 1] in
  (exists c, expand_ctor leaf [(1%nat, 7%nat); (0%nat, 8%nat); (1%nat, 9%nat)] = Ok c /\ cwf c /\
     c_shape c = [(8%nat, 1); (0%nat, 2); (7%nat, 1); (9%nat, 1); (1%nat, 3)] /\
     insert_zeros [1; 2] 0 [(0%nat, 8%nat); (1%nat, 7%nat); (1%nat, 9%nat)] = [0; 1; 0; 0; 2] /\
     c_get c [0; 1; 0; 0; 2] = Some (1, 5) /\ c_get c [0; 1; 1; 0; 2] = None) /\
  select_spec [None; Some 4; None] [6; 7] 2 = 7 /\
  index_ctor leaf [(1%nat, 3)] = Panic /\ ~ selectable [(0%nat, 2); (1%nat, 3)] (1%nat, 3) /\
  chain_ctor [leaf; CTensor 2 [(0%nat, 2); (1%nat, 4)] [4; 1]] 0%nat = Panic.
Proof.
  cbv zeta. split; [|repeat split; try (vm_compute; reflexivity)].
  - eexists. split; [vm_compute; reflexivity|]. split; [|repeat split; vm_compute; reflexivity].
    cbn [cwf c_shape]. split; [split; [|reflexivity]; split; [|repeat constructor; vm_compute; reflexivity]|].
    + repeat constructor; cbn; intuition discriminate.
    + split; [cbn; lia|]. split; [repeat constructor; cbn; intuition discriminate|].
      repeat constructor; cbn; intuition discriminate.
  - intros [d [[<-|[<-|[]]] [E L]]]; cbn in *; try discriminate; lia.
Qed.

(* non-vacuity: reversal over a mask over a chain of a range and an expansion-of-a-selection, then
   transposed: constructible, usize, with a present index resolving into the second chained
   source and an absent one *)
Definition c02_example : view :=
  VTranspose
    (VReverse
       (VMask
          (VChain [ VRange (VTensor 1 [(0%nat, 3); (1%nat, 4)]) (PNamed false [(1%nat, mkR 1 9)]);
                    VExpand (VIndex (VTensor 2 [(0%nat, 2); (1%nat, 3); (2%nat, 5)]) [(2%nat, 4)])
                            [] ]
                  0%nat)
          (PAll true [Some (mkR 1 2); None]))
       [1%nat])
    [1; 0]%nat.

Example C02_nonvacuous :
  exists c, v_ctor c02_example = Ok c /\ usize_view c /\
    c_shape c = [(0%nat, 3); (1%nat, 3)] /\
    c_get c [0; 2] = Some (2, 29) /\ c_get c [3; 0] = None /\ c_get c [0; 18446744073709551615] = None.
Proof.
  eexists. split; [vm_compute; reflexivity|]. split; [|vm_compute; repeat split].
  cbn. repeat constructor; vm_compute; discriminate.
Qed.

(* non-vacuity of the session-3 statements: Tensor::reverse(&self) then TensorView::range_mut over a
   boxed leaf is observationally the plain composition; a transposed access of a 2x3 leaf is
   column major as a matrix and Linear[n1; n0] after the trip; a foreign layout panics the rename *)
Example C02_nonvacuous_conv :
  let leaf := VTensor 1 [(0%nat, 2); (1%nat, 3)] in
  (exists c c', v_ctor (conv_range ByMut (conv_reverse ByRef (VWrap leaf) [1%nat]) [(1%nat, mkR 1 2)]) = Ok c /\
     v_ctor (VRange (VReverse leaf [1%nat]) (PNamed false [(1%nat, mkR 1 2)])) = Ok c' /\
     ceq c c' /\ c_get c [1; 0] = Some (1, 4)) /\
  (exists c, v_ctor (VAccess leaf [1; 0]%nat) = Ok c /\
     matrix_ref_tensor_layout (c_shape c) (Linear [0; 1]%nat) = ColumnMajor /\
     exists g, matrix_trip c 5%nat 6%nat = Ok ([(5%nat, 3); (6%nat, 2)], Linear [6; 5]%nat, g)) /\
  rename_layout [(0%nat, 2); (1%nat, 3)] [5; 6]%nat (Linear [0; 9]%nat) = Panic /\
  memory_order_tbl [(0%nat, 2); (1%nat, 3)] (Linear [0; 0]%nat) = Panic.
Proof.
  cbv zeta. split; [|split; [|split; reflexivity]].
  - pose proof (C02_same_modulo_wrappers
      (conv_range ByMut (conv_reverse ByRef (VWrap (VTensor 1 [(0%nat, 2); (1%nat, 3)])) [1%nat]) [(1%nat, mkR 1 2)])
      (VRange (VReverse (VTensor 1 [(0%nat, 2); (1%nat, 3)]) [1%nat]) (PNamed false [(1%nat, mkR 1 2)]))
      eq_refl) as H.
    destruct (v_ctor (conv_range _ _ _)) as [c| |] eqn:E1; try (vm_compute in E1; discriminate).
    destruct (v_ctor (VRange _ _)) as [c'| |] eqn:E2; try (vm_compute in E2; discriminate).
    exists c, c'. repeat split; try apply H.
    vm_compute in E1. injection E1 as <-. vm_compute. reflexivity.
  - eexists. split; [vm_compute; reflexivity|]. split; [vm_compute; reflexivity|].
    eexists. vm_compute. reflexivity.
Qed.

Print Assumptions C02_wf.
Print Assumptions C02_present_iff.
Print Assumptions C02_out_of_range_absent.
Print Assumptions C02_resolves_in_bounds.
Print Assumptions C02_ctor_invariants.
Print Assumptions C02_mapping_range.
Print Assumptions C02_mapping_mask.
Print Assumptions C02_mapping_reverse.
Print Assumptions C02_mapping_rename.
Print Assumptions C02_mapping_wrap.
Print Assumptions C02_mapping_access_transpose.
Print Assumptions C02_mapping_stack.
Print Assumptions C02_mapping_chain.
Print Assumptions C02_ctor_lenient_clips.
Print Assumptions C02_ctor_strict_outside.
Print Assumptions C02_injective.
Print Assumptions C02_write_exact.
Print Assumptions C02_source_mutation_keeps_contract.
Print Assumptions C02_linear_layout.
Print Assumptions C02_wrappers_transparent.
Print Assumptions C02_same_modulo_wrappers.
Print Assumptions C02_convenience_ctor_agrees.
Print Assumptions C02_layout_of_source.
Print Assumptions C02_contract_violation_panics_rename.
Print Assumptions C02_contract_violation_panics_memory_order.
Print Assumptions C02_layout_total.
Print Assumptions C02_matrix_trip_is_rename.
Print Assumptions C02_linear_layout_enumerated.
Print Assumptions C02_transpose_layout_as_written_refuted.
Print Assumptions C02_clip_spec.
Print Assumptions C02_shape_range_mask_rename.
Print Assumptions C02_shape_index.
Print Assumptions C02_mapping_index.
Print Assumptions C02_mapping_expand.
Print Assumptions C02_mapping_expand_converse.
Print Assumptions C02_expand_ctor_shape.
Print Assumptions C02_stack_spec.
Print Assumptions C02_shape_chain.
Print Assumptions C02_chain_beyond_absent.
Print Assumptions C02_index_ctor_panics_iff.
Print Assumptions C02_index_ctor_by_name.
Print Assumptions C02_expand_ctor_panics_iff.
Print Assumptions C02_rename_ctor_panics_iff.
Print Assumptions C02_reverse_ctor_panics_iff.
Print Assumptions C02_access_ctor_err_iff.
Print Assumptions C02_stack_ctor_panics_iff.
Print Assumptions C02_chain_ctor_panics_iff.
Print Assumptions C02_named_ranges_err_iff.
Print Assumptions C02_ranged_ctor_panics_iff.
