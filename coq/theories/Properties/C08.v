(* C08 — Cholesky, LDL^T and QR factors satisfy their defining identities.
   Only the property theorems (closed by `exact`), the assumption audit and the non-vacuity
   examples.  Transcription of the code: Model/Decomp.v (cholesky, ldlt, householder, qr).
   Specifications (Proofs/C08P5.v, C08P3.v, C08P4.v):
   * `ordered_sqrt_field ops lt` — the dictionary `ops` is an ordered field with a square-root
     oracle: ring laws, (1/x)*x = 1 for x <> 0, == decides equality, lt irreflexive, the test
     `x <= y` fails exactly when y < x, and for 0 < x: sqrt x * sqrt x = x, 0 < sqrt x.
     (satisfiable: Coq's reals, C08_nonvacuous_field)
   * `cholesky_factor ops lt a L` — with n = rows of a: a is n x n, L is n rows of n entries,
     L[i][j] = 0 for i < j, 0 < L[i][i], sum_{k<n} L[i][k] L[j][k] = a[i][j] for j <= i, and for
     all i, j when a is symmetric.
   * `ldlt_factors ops a l d` — l unit lower triangular, d diagonal with non-zero diagonal,
     sum_{k<n} l[i][k] l[j][k] d[k][k] = a[i][j] on the lower triangle / everywhere if symmetric.
   * `wf2 r c m` — m is r rows of c entries; `mxo sq r c m` — the r x c mathcomp matrix of m over
     the dictionary `rops sq` of a real field F with oracle sq; `qr_regular sq rows cs m` — in the
     run over the columns cs no reflected vector u = x + a e is zero and the oracle returned a
     square root of its squared length.
   NOT proved (delivered as `_partial`, see the comments at those theorems):
   Cholesky completeness (SPD -> present) and upper-triangularity of R. *)
From Coq Require Import PeanoNat List.
From mathcomp Require Import all_ssreflect all_algebra.
From EasyML Require Import Base.Sx Model.Num Model.LinAlg Model.Decomp
     Proofs.C07P1 Proofs.C08P1 Proofs.C08P2 Proofs.C08P3 Proofs.C08P5 Proofs.C08P4 Proofs.C08P6 Proofs.C08Ex.
Import GRing.Theory Num.Theory.
Local Open Scope ring_scope.

(* a returned Cholesky factor is lower triangular with positive diagonal and L * L^T = A *)
Theorem C08_cholesky_sound : forall (R : Type) (ops : numops R) (lt : R -> R -> Prop)
  (a L : list (list R)),
  ordered_sqrt_field ops lt -> cholesky ops a = Some L -> cholesky_factor ops lt a L.
Proof. exact @cholesky_sound_b. Qed.

(* an input with no such factor (in particular: not positive definite), or not square: absent *)
Theorem C08_cholesky_rejects : forall (R : Type) (ops : numops R) (lt : R -> R -> Prop)
  (a : list (list R)),
  ordered_sqrt_field ops lt ->
  (~ exists L, cholesky_factor ops lt a L) \/ mrows a <> mcols a -> cholesky ops a = None.
Proof. exact @cholesky_rejects_b. Qed.

Theorem C08_cholesky_rejects_first_pivot : forall (R : Type) (ops : numops R)
  (lt : R -> R -> Prop) (a : list (list R)),
  ordered_sqrt_field ops lt -> (1 <= mrows a)%coq_nat -> ~ lt (nzero ops) (mget ops a 0 0) ->
  cholesky ops a = None.
Proof. exact @cholesky_first_pivot. Qed.

(* over any real closed field with sqrt = Num.sqrt (posdef B: 0 < x^T B x for every x <> 0): a
   symmetric input with a present result is positive definite, i.e. a symmetric input that is not
   positive definite is rejected — a wrong factor is impossible *)
Theorem C08_cholesky_rejects_not_posdef : forall (F : rcfType) (a : list (list F)),
  C08P1.symmetric (rops (@Num.sqrt F)) a (mrows a) ->
  ~ posdef (mxo (@Num.sqrt F) (mrows a) (mrows a) a) ->
  cholesky (rops (@Num.sqrt F)) a = None.
Proof. exact @cholesky_rejects_not_posdef. Qed.

(* FULL STATEMENT NOT PROVED (C08_cholesky_complete): for every symmetric positive definite a,
   exists L, cholesky ops a = Some L.
   Proved instead — the mathematical core: if the leading block has been factored as L L^T with L
   invertible, the new row's off-diagonal part l solves L l = c and the bordered matrix
   [[L L^T, L l], [(L l)^T, a]] is positive definite, then the next pivot a - l^T l is positive
   (so the `<= 0 -> None` exit is not taken).  MISSING: the lemma connecting the partial-row state
   (L, cur) of Model/Decomp.chol_rows to this block decomposition, and the induction over rows. *)
Theorem C08_cholesky_complete_partial : forall (F : realFieldType) (n : nat) (L : 'M[F]_n)
  (l : 'cV[F]_n) (a : F), L \in unitmx ->
  posdef (bordered L l a) -> 0 < a - (l^T *m l) 0 0.
Proof. exact @next_pivot_positive. Qed.

(* returned LDL^T factors: L unit lower triangular, D diagonal (non-zero pivots), L D L^T = A *)
Theorem C08_ldlt_sound : forall (R : Type) (ops : numops R) (lt : R -> R -> Prop)
  (a l d : list (list R)),
  ordered_sqrt_field ops lt -> ldlt ops a = Some (l, d) -> ldlt_factors ops a l d.
Proof. exact @ldlt_sound_b. Qed.

(* not square, a zero leading pivot, or no such factors: absent *)
Theorem C08_ldlt_rejects : forall (R : Type) (ops : numops R) (lt : R -> R -> Prop)
  (a : list (list R)),
  ordered_sqrt_field ops lt ->
  mrows a <> mcols a \/ ((1 <= mrows a)%coq_nat /\ mget ops a 0 0 = nzero ops) \/
  (~ exists l d, ldlt_factors ops a l d) -> ldlt ops a = None.
Proof. exact @ldlt_rejects_b. Qed.

(* QR, any dictionary: absent exactly when there are more columns than rows; otherwise Q is
   rows x rows and R is rows x columns; a 1 x 1 input gives Q = 1, R = the input *)
Theorem C08_qr_absent_iff : forall (R : Type) (ops : numops R) (m : list (list R)),
  qr ops m = None <-> (mrows m < mcols m)%coq_nat.
Proof. exact @qr_absent_iff. Qed.

Theorem C08_qr_shapes : forall (R : Type) (ops : numops R) (rows cols : nat)
  (m q r : list (list R)), wf2 rows cols m -> (1 <= rows)%coq_nat ->
  qr ops m = Some (q, r) -> (cols <= rows)%coq_nat /\ wf2 rows rows q /\ wf2 rows cols r.
Proof. exact @qr_shapes. Qed.

Theorem C08_qr_1x1 : forall (R : Type) (ops : numops R) (x : R),
  qr ops [:: [:: x]] = Some ([:: [:: none_ ops]], [:: [:: x]]).
Proof. exact @qr_1x1. Qed.

(* every reflection of the loop (the Householder matrix of the sub-column x, inset by c into the
   rows x rows identity) is symmetric and an involution *)
Theorem C08_householder_sym_invol : forall (F : realFieldType) (sq : F -> F) (rows c : nat)
  (x : list F), (c + length x)%N = rows ->
  sumsq (rops sq) (householder_u (rops sq) x) != 0 ->
  sq (sumsq (rops sq) (householder_u (rops sq) x)) * sq (sumsq (rops sq) (householder_u (rops sq) x))
    = sumsq (rops sq) (householder_u (rops sq) x) ->
  let H := mxo sq rows rows (pad_h (rops sq) (householder (rops sq) x) c rows) in
  H^T = H /\ H *m H = 1%:M.
Proof. exact @householder_sym_invol. Qed.

(* for every M x N input with M >= N (Nx1 and 1x1 included) and every regular run:
   Q^T Q = 1 and Q R = A *)
Theorem C08_qr : forall (F : realFieldType) (sq : F -> F) (rows cols : nat)
  (m q r : list (list F)), wf2 rows cols m -> (1 <= rows)%N ->
  qr (rops sq) m = Some (q, r) ->
  qr_regular sq rows (List.seq 0 (Nat.min (rows - 1) cols)) m ->
  (mxo sq rows rows q)^T *m mxo sq rows rows q = 1%:M /\
  mxo sq rows rows q *m mxo sq rows cols r = mxo sq rows cols m.
Proof. exact @qr_sound. Qed.

(* FULL STATEMENT NOT PROVED (R upper triangular): under the hypotheses of C08_qr and a correct
   oracle on the column lengths, mget r i j = 0 for j < i.
   Proved instead — the reflection lemma: with u = x + a e, a^2 = x^T x (x0 = e^T x) and
   t = a^2 + a x0 <> 0, the matrix I - (2 / (2 t)) u u^T (2 t = u^T u when e^T e = 1: C08P4.uu)
   maps x to -a e, i.e. annihilates every
   entry of the column below the first.  MISSING: instantiating it with the model's u and a
   (a = +-sq(x^T x), the sign choice gives a^2 + a x0 <> 0 for x <> 0), identifying
   2 / u^T u with the model's division by sq(u^T u) twice, and the padding induction showing that
   later reflections keep the zeroed columns. *)
Theorem C08_qr_triangular_partial : forall (F : fieldType) (n : nat) (x e : 'cV[F]_n) (a x0 : F),
  e^T *m x = x0%:M -> x^T *m x = (a * a)%:M ->
  tval a x0 != 0 -> (2%:R : F) != 0 ->
  Hmx x e a x0 *m x = - (a *: e).
Proof. exact @reflect. Qed.

(* non-vacuity: Coq's reals are an ordered field with a square-root oracle, on which the
   transcribed Cholesky runs; and a regular QR run over the rationals (Proofs/C08Ex.v): the 2 x 1
   input m_example = (1, 0) with the oracle sq_example that knows sqrt 1 = 1 and sqrt 4 = 2 *)
Example C08_nonvacuous_field : ordered_sqrt_field Rops Rdefinitions.Rlt.
Proof. exact Rops_ordered_sqrt_field. Qed.

Example C08_nonvacuous_cholesky : exists L, cholesky Rops ex_1x1 = Some L.
Proof. eexists. exact Rops_run_1x1. Qed.

Example C08_nonvacuous :
  wf2 2 1 m_example /\ (exists q r, qr (rops sq_example) m_example = Some (q, r)) /\
  qr_regular sq_example 2 (List.seq 0 (Nat.min (2 - 1) 1)) m_example.
Proof. exact qr_example. Qed.

Print Assumptions C08_cholesky_sound.
Print Assumptions C08_cholesky_rejects.
Print Assumptions C08_cholesky_rejects_first_pivot.
Print Assumptions C08_cholesky_rejects_not_posdef.
Print Assumptions C08_cholesky_complete_partial.
Print Assumptions C08_ldlt_sound.
Print Assumptions C08_ldlt_rejects.
Print Assumptions C08_qr_absent_iff.
Print Assumptions C08_qr_shapes.
Print Assumptions C08_qr_1x1.
Print Assumptions C08_householder_sym_invol.
Print Assumptions C08_qr.
Print Assumptions C08_qr_triangular_partial.
