(* C08 — Cholesky, LDL^T and QR factors satisfy their defining identities.
   Only the property theorems (closed by `exact`), the assumption audit and the non-vacuity
   examples.  Transcription of the code: Model/Decomp.v (cholesky, ldlt, householder, qr).
   Specifications (Proofs/C08P5.v, C08P3.v, C08P4.v):
   * `ordered_sqrt_field ops lt` — the dictionary `ops` is an ordered field with a square-root
     oracle: ring laws, (1/x)*x = 1 for x <> 0, == decides equality, lt irreflexive, the test
     `x <= y` fails exactly when y < x, and for 0 < x: sqrt x * sqrt x = x, 0 < sqrt x.
     (satisfiable: Coq's reals, C08_nonvacuous_field)
   * `cholesky_factor ops lt a L` — with n = rows of a: a is n x n, L is n rows of n entries,
     L[i][j] = 0 for i < j, 0 < L[i][i], sum_{k<n} L[i][k] L[j][k] = a[i][j] for j <= i, and for
     all i, j when a is symmetric.
   * `ldlt_factors ops a l d` — l unit lower triangular, d diagonal with non-zero diagonal,
     sum_{k<n} l[i][k] l[j][k] d[k][k] = a[i][j] on the lower triangle / everywhere if symmetric.
   * `wf2 r c m` — m is r rows of c entries; `mxo sq r c m` — the r x c mathcomp matrix of m over
     the dictionary `rops sq` of a real field F with oracle sq; `qr_regular sq rows cs m` — in the
     run over the columns cs no reflected vector u = x + a e is zero and the oracle returned a
     square root of its squared length.
   * `qr_lengths_ok sq rows cs m` — the oracle also returned a square root of the squared length
     of every reflected sub-column; `posdef B` — 0 < x^T B x for every x <> 0.
   * `ldlt_zero_pivot_at ops a j` (Proofs/C08P11.v) — the routine's run over the first j columns
     succeeds with partial factors (j columns of L, pivots d_0 .. d_{j-1}) that satisfy the LDL^T
     recurrences `cols_ok` (every d_k <> 0, d_k = a_kk - sum_{m<k} l_km^2 d_m, l_ik = (a_ik -
     sum_{m<k} l_im l_km d_m) * (1/d_k)), and the NEXT pivot a_jj - sum_{k<j} l_jk^2 d_k is zero.
   Session 3: LDL^T absence is now characterised in BOTH directions (C08_ldlt_absent_iff_zero_pivot,
   C08_ldlt_present_iff_no_zero_pivot; only hypothesis: `==` decides equality) and LDL^T is
   COMPLETE: every square symmetric positive definite input over any real field has a present
   result (C08_ldlt_complete; Proofs/C08P12.v, C08P13.v: a zero pivot at column j would make the
   leading (j+1) x (j+1) block W D W^T with W of only j columns, hence singular).
   DIVISION SAFETY (second extension wave; "never a panic" is now a theorem as far as division
   is concerned): Model/DecompDiv.v holds the SAME transcriptions with every `/` of the source made
   through a partial division `pd : R -> R -> option R` (None = the element type's `/` panics;
   outcome Panic) at the place and in the order of the source.  C08_instrumented_erase ties them
   to Model/Decomp.v (every theorem above transfers).  `strict_div ops` is None exactly on a
   divisor `== zero`.  LDL^T: C08_ldlt_never_divides_by_zero (NO hypothesis: the only divisor is
   the pivot just tested non-zero — the reordering of seed C08-u2 breaks exactly this);
   Cholesky: C08_cholesky_never_divides_by_zero (ordered_sqrt_field; the only divisors are
   sqrt(pivot) with pivot tested positive: C08_cholesky_divides_only_by_sqrt_of_positive);
   QR: the only divisor of a reflection is the euclidean length of u
   (C08_householder_divides_only_by_length); C08_qr_panics_exactly is the exact three-way
   prediction absence / value / panic; over a real closed field a reflection divides by zero
   exactly when its input sub-column is entirely zero, and then it is 0 / 0
   (C08_qr_reflection_safe_iff_nonzero); inside the property's hypothesis (independent columns)
   never (C08_qr_never_divides_by_zero_full_rank).  OUTSIDE it the code can hit a zero divisor:
   exactly when, for some c < min(M-1, N), column c of the current R is zero from row c down
   (e.g. a zero first column, or two proportional leading columns); f64 then returns Some factors
   full of NaN, a type whose `/` panics panics (examples: C08_nonvacuous_division).  A
   rank-deficient input whose dependent column is never reflected (the last column of a square
   input) is processed without any division by zero.
   The correspondence runs the instrumented models for element types 2 (StrictRat) and 3
   (StrictRat0, sqrt stand-in zero at zero) and compares value / absence / panic.
   Everything else the property asks is proved: soundness, rejection and COMPLETENESS of Cholesky
   (present <-> positive definite, for symmetric square inputs over a real closed field),
   LDL^T soundness / rejection, and for QR: shapes, absence <-> N > M, Q^T Q = 1, Q R = A and R
   UPPER TRIANGULAR, both for regular runs over any real field with any oracle and — over a real
   closed field with sqrt = Num.sqrt — for every M x N input, M >= N, with linearly independent
   columns (\rank A = N), 1 x 1 and N x 1 included (C08_qr_full_rank).
   The theorems over `rcfType` quantify over every real closed field; no instance is constructed
   here (none is installed), the oracle-parametric versions have concrete instances (examples). *)
From Coq Require Import PeanoNat List.
From mathcomp Require Import all_ssreflect all_algebra.
From EasyML Require Import Base.Sx Model.Num Model.LinAlg Model.Decomp
     Proofs.C07P1 Proofs.C08P1 Proofs.C08P2 Proofs.C08P3 Proofs.C08P5 Proofs.C08P7 Proofs.C08P4 Proofs.C08P6 Proofs.C08P8 Proofs.C08P9
     Proofs.C08P10 Proofs.C08Ex Proofs.C08P11 Proofs.C08P12 Proofs.C08P13
     Model.DivOutcome Model.DecompDiv Proofs.C07Div Proofs.C08Div Proofs.C08Div2 Proofs.C08Div3.
Import GRing.Theory Num.Theory.
Local Open Scope ring_scope.

(* a returned Cholesky factor is lower triangular with positive diagonal and L * L^T = A *)
Theorem C08_cholesky_sound : forall (R : Type) (ops : numops R) (lt : R -> R -> Prop)
  (a L : list (list R)),
  ordered_sqrt_field ops lt -> cholesky ops a = Some L -> cholesky_factor ops lt a L.
Proof. exact @cholesky_sound_b. Qed.

(* an input with no such factor (in particular: not positive definite), or not square: absent *)
Theorem C08_cholesky_rejects : forall (R : Type) (ops : numops R) (lt : R -> R -> Prop)
  (a : list (list R)),
  ordered_sqrt_field ops lt ->
  (~ exists L, cholesky_factor ops lt a L) \/ mrows a <> mcols a -> cholesky ops a = None.
Proof. exact @cholesky_rejects_b. Qed.

Theorem C08_cholesky_rejects_first_pivot : forall (R : Type) (ops : numops R)
  (lt : R -> R -> Prop) (a : list (list R)),
  ordered_sqrt_field ops lt -> (1 <= mrows a)%coq_nat -> ~ lt (nzero ops) (mget ops a 0 0) ->
  cholesky ops a = None.
Proof. exact @cholesky_first_pivot. Qed.

(* over any real closed field with sqrt = Num.sqrt (posdef B: 0 < x^T B x for every x <> 0): a
   symmetric input with a present result is positive definite, i.e. a symmetric input that is not
   positive definite is rejected — a wrong factor is impossible *)
Theorem C08_cholesky_rejects_not_posdef : forall (F : rcfType) (a : list (list F)),
  C08P1.symmetric (rops (@Num.sqrt F)) a (mrows a) ->
  ~ posdef (mxo (@Num.sqrt F) (mrows a) (mrows a) a) ->
  cholesky (rops (@Num.sqrt F)) a = None.
Proof. exact @cholesky_rejects_not_posdef. Qed.

(* COMPLETENESS.  Any real field with an oracle making the dictionary an ordered field with
   square roots: a square, symmetric, positive definite input is accepted *)
Theorem C08_cholesky_complete_any_oracle : forall (F : realFieldType) (sq : F -> F)
  (a : list (list F)),
  ordered_sqrt_field (rops sq) (fun x y : F => x < y) -> mrows a = mcols a ->
  C08P1.symmetric (rops sq) a (mrows a) -> posdef (mxo sq (mrows a) (mrows a) a) ->
  exists L, cholesky (rops sq) a = Some L.
Proof. exact @cholesky_complete_gen. Qed.

(* real closed field, sqrt = Num.sqrt: SPD -> Some; and present <-> positive definite *)
Theorem C08_cholesky_complete : forall (F : rcfType) (a : list (list F)),
  mrows a = mcols a -> C08P1.symmetric (rops (@Num.sqrt F)) a (mrows a) ->
  posdef (mxo (@Num.sqrt F) (mrows a) (mrows a) a) ->
  exists L, cholesky (rops (@Num.sqrt F)) a = Some L.
Proof. exact @cholesky_complete. Qed.

Theorem C08_cholesky_present_iff_posdef : forall (F : rcfType) (a : list (list F)),
  mrows a = mcols a -> C08P1.symmetric (rops (@Num.sqrt F)) a (mrows a) ->
  ((exists L, cholesky (rops (@Num.sqrt F)) a = Some L) <->
   posdef (mxo (@Num.sqrt F) (mrows a) (mrows a) a)).
Proof. exact @cholesky_present_iff_posdef. Qed.

(* the step behind completeness: with the finished rows L (invertible) and any candidate
   off-diagonal part l of the next row, the bordered block matrix being positive definite makes
   the next pivot positive; Proofs/C08P9.pivot_from_posdef links the routine's partial-row state
   to this block decomposition (the bordered matrix is the leading block of A) *)
Theorem C08_cholesky_next_pivot_positive : forall (F : realFieldType) (n : nat) (L : 'M[F]_n)
  (l : 'cV[F]_n) (a : F), L \in unitmx ->
  posdef (bordered L l a) -> 0 < a - (l^T *m l) 0 0.
Proof. exact @next_pivot_positive. Qed.

(* returned LDL^T factors: L unit lower triangular, D diagonal (non-zero pivots), L D L^T = A *)
Theorem C08_ldlt_sound : forall (R : Type) (ops : numops R) (lt : R -> R -> Prop)
  (a l d : list (list R)),
  ordered_sqrt_field ops lt -> ldlt ops a = Some (l, d) -> ldlt_factors ops a l d.
Proof. exact @ldlt_sound_b. Qed.

(* not square, a zero leading pivot, or no such factors: absent *)
Theorem C08_ldlt_rejects : forall (R : Type) (ops : numops R) (lt : R -> R -> Prop)
  (a : list (list R)),
  ordered_sqrt_field ops lt ->
  mrows a <> mcols a \/ ((1 <= mrows a)%coq_nat /\ mget ops a 0 0 = nzero ops) \/
  (~ exists l d, ldlt_factors ops a l d) -> ldlt ops a = None.
Proof. exact @ldlt_rejects_b. Qed.

(* LDL^T is absent EXACTLY when the input is not square or a zero pivot is met at some column j
   (after j successful columns) — both directions; hence present exactly when the input is square
   and no column meets a zero pivot.  Only hypothesis: the dictionary's == decides equality. *)
Theorem C08_ldlt_absent_iff_zero_pivot : forall (R : Type) (ops : numops R),
  (forall x y : R, neqb ops x y = true <-> x = y) -> forall a : list (list R),
  ldlt ops a = None <->
  (mrows a <> mcols a \/ exists j, (j < mrows a)%coq_nat /\ ldlt_zero_pivot_at ops a j).
Proof. exact @ldlt_absent_iff_zero_pivot. Qed.

Theorem C08_ldlt_present_iff_no_zero_pivot : forall (R : Type) (ops : numops R),
  (forall x y : R, neqb ops x y = true <-> x = y) -> forall a : list (list R),
  (exists l d, ldlt ops a = Some (l, d)) <->
  (mrows a = mcols a /\ forall j, (j < mrows a)%coq_nat -> ~ ldlt_zero_pivot_at ops a j).
Proof. exact @ldlt_present_iff_no_zero_pivot. Qed.

(* LDL^T COMPLETENESS, any real field (the square-root oracle sq of the dictionary is not used by
   LDL^T): a square, symmetric, positive definite input has a present result — with
   C08_ldlt_sound: unit lower triangular L, diagonal D with non-zero pivots, L D L^T = A *)
Theorem C08_ldlt_complete : forall (F : realFieldType) (sq : F -> F) (a : list (list F)),
  mrows a = mcols a -> C08P1.symmetric (rops sq) a (mrows a) ->
  posdef (mxo sq (mrows a) (mrows a) a) -> exists l d, ldlt (rops sq) a = Some (l, d).
Proof. exact @ldlt_complete. Qed.

(* QR, any dictionary: absent exactly when there are more columns than rows; otherwise Q is
   rows x rows and R is rows x columns; a 1 x 1 input gives Q = 1, R = the input *)
Theorem C08_qr_absent_iff : forall (R : Type) (ops : numops R) (m : list (list R)),
  qr ops m = None <-> (mrows m < mcols m)%coq_nat.
Proof. exact @qr_absent_iff. Qed.

Theorem C08_qr_shapes : forall (R : Type) (ops : numops R) (rows cols : nat)
  (m q r : list (list R)), wf2 rows cols m -> (1 <= rows)%coq_nat ->
  qr ops m = Some (q, r) -> (cols <= rows)%coq_nat /\ wf2 rows rows q /\ wf2 rows cols r.
Proof. exact @qr_shapes. Qed.

Theorem C08_qr_1x1 : forall (R : Type) (ops : numops R) (x : R),
  qr ops [:: [:: x]] = Some ([:: [:: none_ ops]], [:: [:: x]]).
Proof. exact @qr_1x1. Qed.

(* every reflection of the loop (the Householder matrix of the sub-column x, inset by c into the
   rows x rows identity) is symmetric and an involution *)
Theorem C08_householder_sym_invol : forall (F : realFieldType) (sq : F -> F) (rows c : nat)
  (x : list F), (c + length x)%N = rows ->
  sumsq (rops sq) (householder_u (rops sq) x) != 0 ->
  sq (sumsq (rops sq) (householder_u (rops sq) x)) * sq (sumsq (rops sq) (householder_u (rops sq) x))
    = sumsq (rops sq) (householder_u (rops sq) x) ->
  let H := mxo sq rows rows (pad_h (rops sq) (householder (rops sq) x) c rows) in
  H^T = H /\ H *m H = 1%:M.
Proof. exact @householder_sym_invol. Qed.

(* for every M x N input with M >= N (Nx1 and 1x1 included) and every regular run:
   Q^T Q = 1 and Q R = A *)
Theorem C08_qr : forall (F : realFieldType) (sq : F -> F) (rows cols : nat)
  (m q r : list (list F)), wf2 rows cols m -> (1 <= rows)%N ->
  qr (rops sq) m = Some (q, r) ->
  qr_regular sq rows (List.seq 0 (Nat.min (rows - 1) cols)) m ->
  (mxo sq rows rows q)^T *m mxo sq rows rows q = 1%:M /\
  mxo sq rows rows q *m mxo sq rows cols r = mxo sq rows cols m.
Proof. exact @qr_sound. Qed.

(* R is upper triangular for every regular run on whose sub-column lengths the oracle was right *)
Theorem C08_qr_triangular : forall (F : realFieldType) (sq : F -> F) (rows cols : nat)
  (m q r : list (list F)), wf2 rows cols m -> (1 <= rows)%N ->
  qr (rops sq) m = Some (q, r) ->
  qr_regular sq rows (List.seq 0 (Nat.min (rows - 1) cols)) m ->
  qr_lengths_ok sq rows (List.seq 0 (Nat.min (rows - 1) cols)) m ->
  forall i j, (j < i)%N -> (i < rows)%N -> (j < cols)%N -> mget (rops sq) r i j = 0.
Proof. exact @qr_upper_triangular. Qed.

(* real closed field, sqrt = Num.sqrt: linearly independent columns make the run regular *)
Theorem C08_qr_regular_of_full_rank : forall (F : rcfType) (rows cols k c0 : nat)
  (r : list (list F)),
  wf2 rows cols r -> (c0 + k <= rows)%N -> (c0 + k <= cols)%N ->
  \rank (mxo (@Num.sqrt F) rows cols r) = cols -> tri_upto (@Num.sqrt F) rows cols c0 r ->
  qr_regular (@Num.sqrt F) rows (List.seq c0 k) r /\
  qr_lengths_ok (@Num.sqrt F) rows (List.seq c0 k) r.
Proof. exact @regular_of_rank. Qed.

(* THE PROPERTY'S QR STATEMENT: every M x N input with M >= N (N x 1, 1 x 1 included) and
   linearly independent columns has a present result with Q (M x M) orthogonal, R (M x N) upper
   triangular and Q R = A *)
Theorem C08_qr_full_rank : forall (F : rcfType) (rows cols : nat) (m : list (list F)),
  wf2 rows cols m -> (1 <= rows)%N -> (cols <= rows)%N ->
  \rank (mxo (@Num.sqrt F) rows cols m) = cols ->
  exists q r, qr (rops (@Num.sqrt F)) m = Some (q, r) /\
    wf2 rows rows q /\ wf2 rows cols r /\
    (mxo (@Num.sqrt F) rows rows q)^T *m mxo (@Num.sqrt F) rows rows q = 1%:M /\
    mxo (@Num.sqrt F) rows rows q *m mxo (@Num.sqrt F) rows cols r = mxo (@Num.sqrt F) rows cols m /\
    (forall i j, (j < i)%N -> (i < rows)%N -> (j < cols)%N -> mget (rops (@Num.sqrt F)) r i j = 0).
Proof. exact @qr_full_rank. Qed.

(* the reflection lemma in matrix form (not needed by the proofs above, kept as documentation of
   what one step does): with u = x + a e, a^2 = x^T x, t = a^2 + a x0 <> 0, the matrix
   I - (2 / (2 t)) u u^T maps x to -a e *)
Theorem C08_qr_reflection : forall (F : fieldType) (n : nat) (x e : 'cV[F]_n) (a x0 : F),
  e^T *m x = x0%:M -> x^T *m x = (a * a)%:M ->
  tval a x0 != 0 -> (2%:R : F) != 0 ->
  Hmx x e a x0 *m x = - (a *: e).
Proof. exact @reflect. Qed.

(* non-vacuity: Coq's reals are an ordered field with a square-root oracle, on which the
   transcribed Cholesky runs; and a regular QR run over the rationals (Proofs/C08Ex.v): the 2 x 1
   input m_example = (1, 0) with the oracle sq_example that knows sqrt 1 = 1 and sqrt 4 = 2 *)
Example C08_nonvacuous_field : ordered_sqrt_field Rops Rdefinitions.Rlt.
Proof. exact Rops_ordered_sqrt_field. Qed.

Example C08_nonvacuous_cholesky : exists L, cholesky Rops ex_1x1 = Some L.
Proof. eexists. exact Rops_run_1x1. Qed.

Example C08_nonvacuous :
  wf2 2 1 m_example /\ (exists q r, qr (rops sq_example) m_example = Some (q, r)) /\
  qr_regular sq_example 2 (List.seq 0 (Nat.min (2 - 1) 1)) m_example.
Proof. exact qr_example. Qed.

Example C08_nonvacuous_triangular :
  qr_lengths_ok sq_example 2 (List.seq 0 (Nat.min (2 - 1) 1)) m_example.
Proof. exact qr_example_lengths. Qed.

(* the prime-field dictionary satisfies the hypothesis of the two LDL^T iff theorems, and the rank-1
   input zero_pivot_example = [[1,1],[1,1]] meets a zero pivot at its LAST column *)
Example C08_nonvacuous_zero_pivot :
  (forall x y : BinNums.Z, neqb Fpops x y = true <-> x = y) /\
  ldlt_zero_pivot_at Fpops zero_pivot_example 1 /\ ldlt Fpops zero_pivot_example = None.
Proof. split; [exact Fpops_eqb_spec|exact ldlt_zero_pivot_example]. Qed.

(* the hypotheses of C08_ldlt_complete over the rationals: spd_example = [[1]] *)
Example C08_nonvacuous_ldlt_complete : forall sq : rat -> rat,
  mrows spd_example = mcols spd_example /\
  C08P1.symmetric (rops sq) spd_example (mrows spd_example) /\
  posdef (mxo sq (mrows spd_example) (mrows spd_example) spd_example).
Proof. exact spd_example_ok. Qed.

(* ================================================================== division safety *)
(* the instrumented routines are the same routines: whenever one returns a value (no division
   panicked) it is the result of the model above, for every partial division that agrees with
   the dictionary's where defined; with the total division they never panic *)
Theorem C08_instrumented_erase : forall (R : Type) (ops : numops R) (pd : R -> R -> option R)
  (a : list (list R)),
  sound_div ops pd ->
  (forall r, cholesky_i ops pd a = Ok r -> cholesky ops a = r) /\
  (forall r, ldlt_i ops pd a = Ok r -> ldlt ops a = r) /\
  (forall r, qr_i ops pd a = Ok r -> qr ops a = r) /\
  cholesky_i ops (total_div ops) a = Ok (cholesky ops a) /\
  ldlt_i ops (total_div ops) a = Ok (ldlt ops a) /\
  qr_i ops (total_div ops) a = Ok (qr ops a).
Proof.
  move=> R ops pd a Hs.
  split; first by move=> r; exact: cholesky_i_erase.
  split; first by move=> r; exact: ldlt_i_erase.
  split; first by move=> r; exact: qr_i_erase.
  split; [exact: cholesky_i_total|split; [exact: ldlt_i_total|exact: qr_i_total]].
Qed.

(* LDL^T divides only one by a value it has just tested `== zero` = false (the pivot D_jj of the
   current column): a partial division defined on those pairs only is enough *)
Theorem C08_ldlt_divides_only_by_tested_pivot : forall (R : Type) (ops : numops R)
  (pd : R -> R -> option R) (a : list (list R)),
  (forall y, neqb ops y (nzero ops) = false -> pd (none_ ops) y = Some (ndiv ops (none_ ops) y)) ->
  ldlt_i ops pd a = Ok (ldlt ops a).
Proof. move=> R ops pd a H. exact: ldlt_i_only. Qed.

(* LDL^T NEVER divides by zero: any dictionary, any input, no hypothesis — a zero pivot is
   answered with absence before any division by it *)
Theorem C08_ldlt_never_divides_by_zero : forall (R : Type) (ops : numops R) (a : list (list R)),
  ldlt_i ops (strict_div ops) a = Ok (ldlt ops a).
Proof. exact @ldlt_i_strict. Qed.

(* Cholesky divides only one by L_jj = sqrt e for an e it has tested `e <= zero` = false *)
Theorem C08_cholesky_divides_only_by_sqrt_of_positive : forall (R : Type) (ops : numops R)
  (pd : R -> R -> option R) (a : list (list R)),
  (forall y, (exists e, nleb ops e (nzero ops) = false /\ y = nsqrt ops e) ->
             pd (none_ ops) y = Some (ndiv ops (none_ ops) y)) ->
  cholesky_i ops pd a = Ok (cholesky ops a).
Proof. move=> R ops pd a H. exact: cholesky_i_only. Qed.

(* Cholesky never divides by zero when the sqrt oracle has no zero on arguments tested positive
   (first form), in particular over every ordered field with a sqrt oracle (0 < x -> 0 < sqrt x) *)
Theorem C08_cholesky_never_divides_by_zero_oracle : forall (R : Type) (ops : numops R)
  (a : list (list R)),
  (forall e, nleb ops e (nzero ops) = false -> neqb ops (nsqrt ops e) (nzero ops) = false) ->
  cholesky_i ops (strict_div ops) a = Ok (cholesky ops a).
Proof. exact @cholesky_i_strict. Qed.

Theorem C08_cholesky_never_divides_by_zero : forall (R : Type) (ops : numops R)
  (lt : R -> R -> Prop) (a : list (list R)),
  ordered_sqrt_field ops lt -> cholesky_i ops (strict_div ops) a = Ok (cholesky ops a).
Proof. exact @cholesky_i_strict_osf. Qed.

(* a Householder reflection divides the elements of u = x + a e (first to last) by the euclidean
   length of u and by nothing else *)
Theorem C08_householder_divides_only_by_length : forall (R : Type) (ops : numops R)
  (pd : R -> R -> option R) (x : list R),
  (forall e, List.In e (hh_u ops x) ->
     pd e (euclidean_length ops (hh_u ops x)) = Some (ndiv ops e (euclidean_length ops (hh_u ops x)))) ->
  householder_i ops pd x = Ok (householder ops x).
Proof. exact @householder_i_only. Qed.

(* QR, the exact three-way prediction for a type whose division panics on zero: absence exactly
   when N > M; otherwise the value of the model when `qr_div_safe` (every reflection of the run
   has an empty u or a length that is not `== zero`), and a panic otherwise.  Any dictionary. *)
Theorem C08_qr_panics_exactly : forall (R : Type) (ops : numops R) (m : list (list R)),
  qr_i ops (strict_div ops) m =
  if Nat.ltb (mrows m) (mcols m) then Ok None
  else if qr_div_safe ops m then Ok (qr ops m) else Panic.
Proof. exact @qr_i_strict. Qed.

(* real closed field, sqrt = Num.sqrt: ONE reflection is division-safe exactly when its input
   (the part of column c of the current R from row c down) is empty or not the zero vector *)
Theorem C08_qr_reflection_safe_iff_nonzero : forall (F : rcfType) (x : list F),
  hh_safe (rops (@Num.sqrt F)) x = (x == [::] :> seq F) || (sumsq (rops (@Num.sqrt F)) x != 0).
Proof. exact @hh_safe_rcf. Qed.

(* any real field, any oracle: a regular run (no reflected u zero, oracle right on |u|^2) meets
   no zero divisor *)
Theorem C08_qr_regular_never_divides_by_zero : forall (F : realFieldType) (sq : F -> F)
  (rows : nat) (cs : list nat) (r : list (list F)),
  qr_regular sq rows cs r -> qr_loop_safe (rops sq) rows cs r.
Proof. exact @regular_safe. Qed.

(* inside the property's hypothesis — M >= N, linearly independent columns — QR never divides by
   zero (real closed field, sqrt = Num.sqrt) *)
Theorem C08_qr_never_divides_by_zero_full_rank : forall (F : rcfType) (rows cols : nat)
  (m : list (list F)),
  wf2 rows cols m -> (1 <= rows)%N -> (cols <= rows)%N ->
  \rank (mxo (@Num.sqrt F) rows cols m) = cols ->
  qr_i (rops (@Num.sqrt F)) (strict_div (rops (@Num.sqrt F))) m = Ok (qr (rops (@Num.sqrt F)) m).
Proof. exact @qr_i_full_rank. Qed.

(* non-vacuity of the division theorems (kernel evaluation; Proofs/C08Div3.v).  Over Qops0 (the
   rationals with a sqrt stand-in that is zero at zero): a zero first column panics, a second
   column that is a multiple of e_0 panics in the SECOND reflection, a rank-deficient square
   input whose dependent column is the last one does not, a full-rank input does not; over Qops
   (stand-in 23 at zero) the zero column does not panic.  On a type that cannot divide at all the
   three routines panic at their first quotient and still answer absence where the source decides
   absence before dividing. *)
Example C08_nonvacuous_division :
  (qr_i Qops0 (strict_div Qops0) ex_zero_col = Panic /\
   qr_div_safe Qops0 ex_zero_col = false /\
   qr_i Qops0 (strict_div Qops0) ex_second_step = Panic /\
   qr_i Qops0 (strict_div Qops0) ex_rank_deficient_safe = Ok (qr Qops0 ex_rank_deficient_safe) /\
   qr_i Qops0 (strict_div Qops0) ex_full_rank = Ok (qr Qops0 ex_full_rank) /\
   qr_i Qops (strict_div Qops) ex_zero_col = Ok (qr Qops ex_zero_col)).
Proof. exact qr_examples. Qed.

(* no_div = a division that is never defined; ex_spd2 = [[4,2],[2,3]], ex_col34 = [[3],[4]],
   ex_zero_first_pivot = [[0,2],[2,3]], ex_anti = [[0,1],[1,0]], ex_row = [[1,2,3]] *)
Example C08_nonvacuous_division_evaluated :
  cholesky_i Qops no_div ex_spd2 = Panic /\
  ldlt_i Qops no_div ex_spd2 = Panic /\
  qr_i Qops no_div ex_col34 = Panic /\
  cholesky_i Qops no_div ex_zero_first_pivot = Ok None /\
  ldlt_i Qops no_div ex_anti = Ok None /\
  ldlt_i Qops no_div ex_row = Ok None /\
  qr_i Qops no_div ex_row = Ok None.
Proof. exact divisions_evaluated. Qed.

Print Assumptions C08_cholesky_sound.
Print Assumptions C08_cholesky_rejects.
Print Assumptions C08_cholesky_rejects_first_pivot.
Print Assumptions C08_cholesky_rejects_not_posdef.
Print Assumptions C08_cholesky_complete_any_oracle.
Print Assumptions C08_cholesky_complete.
Print Assumptions C08_cholesky_present_iff_posdef.
Print Assumptions C08_cholesky_next_pivot_positive.
Print Assumptions C08_ldlt_sound.
Print Assumptions C08_ldlt_rejects.
Print Assumptions C08_ldlt_absent_iff_zero_pivot.
Print Assumptions C08_ldlt_present_iff_no_zero_pivot.
Print Assumptions C08_ldlt_complete.
Print Assumptions C08_qr_absent_iff.
Print Assumptions C08_qr_shapes.
Print Assumptions C08_qr_1x1.
Print Assumptions C08_householder_sym_invol.
Print Assumptions C08_qr.
Print Assumptions C08_qr_triangular.
Print Assumptions C08_qr_regular_of_full_rank.
Print Assumptions C08_qr_full_rank.
Print Assumptions C08_qr_reflection.
Print Assumptions C08_instrumented_erase.
Print Assumptions C08_ldlt_divides_only_by_tested_pivot.
Print Assumptions C08_ldlt_never_divides_by_zero.
Print Assumptions C08_cholesky_divides_only_by_sqrt_of_positive.
Print Assumptions C08_cholesky_never_divides_by_zero_oracle.
Print Assumptions C08_cholesky_never_divides_by_zero.
Print Assumptions C08_householder_divides_only_by_length.
Print Assumptions C08_qr_panics_exactly.
Print Assumptions C08_qr_reflection_safe_iff_nonzero.
Print Assumptions C08_qr_regular_never_divides_by_zero.
Print Assumptions C08_qr_never_divides_by_zero_full_rank.
