(* C10 — No safe API call sequence reaches an out-of-bounds unchecked element access.
   At the level a model can carry it, the property is the conjunction of (i) representation
   invariants established by every constructor and preserved by every mutator, and (ii) every
   index handed to an unchecked accessor lies inside the accessed container's shape and resolves
   to a storage position inside the stored data.  This file states the tensor / matrix core;
   the clauses about matrix histories (C11_refines carries Inv_matrix through every reached
   state, panicking steps included), iterators (C09: only in-shape indexes are issued) and view
   compositions (C02_present_iff) are theorems of those properties' files.  At run time the
   verif-hooks assertions inside the three leaf unchecked accessors monitor every workload of
   every property (tools/props/c10.py).
   Session 3 additions (inventory of every unsafe site: notes/C10.md):
   * tensors as a state machine over their safe mutators (Model/TensorOps.v: reshape_mut, rename,
     reorder_mut, transpose_mut, map_mut / map_mut_with_index with a closure that panics at any
     call, get_reference_mut writes, writes through any adaptor stack built over &mut tensor): the
     representation invariant holds in EVERY reached state, rejected calls leave the tensor
     untouched (the validation precedes every access), the in-place swap loop cannot panic;
   * the 21 `unsafe { .. }` blocks of the crate (all inside iterator next() functions) only ever
     hand over indexes inside the source's shape — for any source, any prefix, empty sources —
     and for every source built by the adaptor constructors such an index is routed down to a
     storage offset inside the stored data of the tensor at the bottom.
   Wave 2 (end of this file; Proofs/C10RouteP.v, Model/RecordFwd.v) closes the forwarding sites
   that had no theorem of their own:
   * the routing theorem over ARBITRARY view terms of the C02 algebra — TensorIndex,
     TensorExpansion, TensorStack, TensorChain, wrappers, matrix-backed leaves, any depth — as a
     corollary of C02_present_iff / C02_resolves_in_bounds: every in-shape index, hence every index
     the tensor iterators hand to get_reference_unchecked(_mut), ends at an in-bounds offset of one
     leaf; outside the shape nothing is accessed (the C10_any_view_.. theorems);
   * RecordTensor / RecordMatrix as sources: identity forwarding onto `numbers`
     (C10_record_.._forwarding_in_bounds, over adaptor stacks, matrix sources and any view term);
   * MatrixPart: both get_unchecked calls in bounds for every part of partition /
     partition_quadrants, parts never share a storage position (C10_partition_parts_in_bounds, ..).
   Own correspondence (Run/RunC10.v): closure / iterator panic injection, tensor mutation
   histories (10 7), matrix mutation histories under hooks (10 8), stack / chain constructor
   walks (10 9), also under one outer TensorIndex / TensorExpansion (nested views).
   Wave 4 (end of this file; Proofs/C10EmptyP.v): a source WITHOUT rows or WITHOUT columns is never
   touched - the row-/column-major iterators (shared, mutable and owning; every constructor builds
   the same counters) over ANY source hand out nothing at any call and report length 0
   (C10_empty_source_iterators_touch_nothing, C10_empty_source_owned_iterators_touch_nothing).
   Own correspondence added: (10 10 . c09-case) EVERY public iterator constructor / API form over
   empty and degenerate sources (C09's language and harness inside C10's own cases), (10 11) /
   (10 12) RecordMatrix / RecordTensor constants / variables / from_existing over such sources, an
   access-counting source proving that a rejected (empty) argument was never read. *)
From Coq Require Import List ZArith NArith Bool Arith.
From EasyML Require Import Base.Sx Model.Shape Model.Tensor Model.U64 Model.Fallible
     Proofs.ShapeP Proofs.C01P Proofs.C16P Proofs.C10P.
From EasyML Require Model.Matrix Model.MatrixViews Model.Views Model.Transform Proofs.C10Matrix
     Proofs.C12P Proofs.C12Partition Proofs.C02W Proofs.OdometerP.
From EasyML Require Model.TSource Model.ShapeIter Model.MatrixIter Model.TensorOps Proofs.SrcWfP
     Proofs.C09MatOwnedP Proofs.C10TensorP Proofs.C10IterP.
Import ListNotations.
Open Scope N_scope.

Theorem C10_ctor_establishes_invariant : forall A sh (data : list A) t,
  tensor_try_from sh data = Ok t \/ tensor_from sh data = Ok t -> tensor_inv t.
Proof. exact @ctor_inv. Qed.

Theorem C10_write_preserves_invariant : forall A (t : tensor A) req a idx v a',
  tensor_inv t -> length req = length (t_shape t) -> length idx = length (t_shape t) ->
  access_try_from t req = Ok a -> access_set a idx v = Some a' -> tensor_inv (a_src a').
Proof. exact @set_preserves_inv. Qed.

Theorem C10_position_in_bounds : forall A (t : tensor A) idx,
  tensor_inv t -> length idx = length (t_shape t) ->
  match get_index_direct idx (t_strides t) (t_shape t) with
  | Some p => in_range idx (lens_of (t_shape t)) /\ (N.to_nat p < length (t_data t))%nat
  | None => ~ in_range idx (lens_of (t_shape t))
  end.
Proof. exact @position_in_bounds. Qed.

Theorem C10_position_no_overflow : forall A (t : tensor A) m idx, tensor_inv t ->
  elements (t_shape t) <= usize_max ->
  gid_m m idx (t_strides t) (lens_of (t_shape t)) 0 =
  Ok (get_index_direct idx (t_strides t) (t_shape t)).
Proof. exact @position_no_overflow. Qed.

Theorem C10_matrix_position_in_bounds : forall rows cols row col,
  row < rows -> col < cols -> row * cols + col < rows * cols.
Proof. exact matrix_index_in_bounds. Qed.

(* ---- matrices: the invariant in EVERY state reached by ANY mutation history, including states
   left behind by a caught panic (imported from the C11 development) ---- *)
Theorem C10_matrix_invariant_every_reached_state :
  forall (T : Type) (s : Matrix.matrix T) (ops : list (Matrix.op T)),
  C10Matrix.matrix_invariant s ->
  Forall (fun r : Matrix.matrix T * bool => C10Matrix.matrix_invariant (fst r)) (Matrix.impl_trace s ops).
Proof. exact C10Matrix.matrix_invariant_every_reached_state. Qed.

(* ---- matrix views, any API-buildable stack (ranges, reversals, maps, partition parts,
   quadrants, tensor round trips): every index reported present resolves, for the shared, mutable
   and unchecked accessors alike, to a storage position inside the stored data; other indexes are
   absent; nothing panics (imported from the C12 development) ---- *)
Theorem C10_matrix_view_resolves_in_bounds :
  forall (T : Type) (s : Matrix.matrix T) (v : MatrixViews.mview),
  C10Matrix.matrix_invariant s -> C12Partition.stack (Matrix.m_rows s) (Matrix.m_cols s) v ->
  forall row column,
    (C12P.inside v row column = true ->
       exists p, MatrixViews.try_get v row column = MatrixViews.Cell p /\
                 C10Matrix.root_cell (Matrix.m_rows s) (Matrix.m_cols s) p /\
                 p < N.of_nat (length (Matrix.m_data s)) /\
                 exists x, nth_error (Matrix.m_data s) (N.to_nat p) = Some x) /\
    (C12P.inside v row column = false -> MatrixViews.try_get v row column = MatrixViews.Absent) /\
    MatrixViews.try_get v row column <> MatrixViews.AccessPanic.
Proof. exact C10Matrix.matrix_view_resolves_in_bounds. Qed.

(* ---- tensor views, any composition at any depth (all 13 adaptors incl. stack / chain / boxed /
   matrix-backed): an index reported present resolves to an offset inside the stored data of
   exactly one leaf (imported from the C02 development) ---- *)
Theorem C10_tensor_view_resolves_in_bounds : forall v c idx l off, Views.v_ctor v = Ok c ->
  Views.c_get c idx = Some (l, off) -> exists n, In (l, n) (Views.c_leaves c) /\ off < n.
Proof. exact C02W.resolves_in_bounds. Qed.

(* ---- iterators: the bare shape iterator (which drives every tensor iterator, from_fn, and the
   mutable / owning iterators' unchecked accesses) only ever yields index tuples inside the
   shape (imported from the C09 development) ---- *)
Theorem C10_iterator_indexes_in_range : forall lens k x,
  nth_error (Transform.all_indexes lens) k = Some x -> in_range x lens /\ flat x lens = N.of_nat k.
Proof. exact OdometerP.all_indexes_nth. Qed.

Example C10_nonvacuous : exists t : tensor Z,
  tensor_from [(0%nat, 2); (1%nat, 3)] (map Z.of_nat (seq 0 6)) = Ok t /\
  get_index_direct [1; 2] (t_strides t) (t_shape t) = Some 5 /\
  get_index_direct [1; 3] (t_strides t) (t_shape t) = None.
Proof. eexists. vm_compute. repeat split. Qed.

Print Assumptions C10_ctor_establishes_invariant.
Print Assumptions C10_write_preserves_invariant.
Print Assumptions C10_position_in_bounds.
Print Assumptions C10_position_no_overflow.
Print Assumptions C10_matrix_position_in_bounds.
Print Assumptions C10_matrix_invariant_every_reached_state.
Print Assumptions C10_matrix_view_resolves_in_bounds.
Print Assumptions C10_tensor_view_resolves_in_bounds.
Print Assumptions C10_iterator_indexes_in_range.

(* ================= session 3 ================= *)

(* ---- tensors: the representation invariant in EVERY state reached by ANY history of safe
   mutators (Model/TensorOps.v), whatever the arguments, including the states left behind by
   calls that panic (invalid shapes / names, closures panicking at their k-th call) ---- *)
Theorem C10_tensor_ctor_rep : forall A sh (data : list A) t,
  tensor_try_from sh data = Ok t \/ tensor_from sh data = Ok t -> C10TensorP.tensor_rep t.
Proof. exact @C10TensorP.tensor_from_rep. Qed.

Theorem C10_tensor_invariant_every_reached_state :
  forall A (ops : list (TensorOps.top A)) (t : tensor A), C10TensorP.tensor_rep t ->
  Forall (fun st => C10TensorP.tensor_rep (fst st)) (TensorOps.ttrace t ops).
Proof. exact @C10TensorP.ttrace_rep. Qed.

Theorem C10_tensor_invariant_step : forall A (t : tensor A) (o : TensorOps.top A),
  C10TensorP.tensor_rep t -> C10TensorP.tensor_rep (fst (TensorOps.tstep t o)).
Proof. exact @C10TensorP.tstep_rep. Qed.

(* reshape_owned (= Tensor::from on the stored data) and reshape_mut re-validate *)
Theorem C10_reshape_rep : forall A (t t' : tensor A) sh,
  Transform.reshape_mut t sh = Ok t' \/ Transform.reshape_owned t sh = Ok t' -> C10TensorP.tensor_rep t'.
Proof. exact @C10TensorP.reshape_rep. Qed.

(* a write through ANY adaptor term (no well-formedness hypothesis) replaces one stored element of
   the tensor at the bottom: shape, strides and stored length are untouched *)
Theorem C10_write_through_any_adaptor_keeps_frame : forall A (s s' : TSource.tsrc A) idx v,
  TSource.src_set s idx v = Some s' ->
  C10TensorP.same_frame (TSource.src_base s) (TSource.src_base s').
Proof. exact @C10TensorP.src_set_frame. Qed.

(* panics / errors / absent indexes are decided BEFORE anything is written: such a step leaves the
   tensor exactly as it was (the two map operations panic only through the user's closure) *)
Theorem C10_tensor_step_rejection_before_access : forall A (t : tensor A) (o : TensorOps.top A),
  match o with TensorOps.TMapMut _ _ | TensorOps.TMapMutWithIndex _ _ => False | _ => True end ->
  snd (TensorOps.tstep t o) <> 0%nat -> fst (TensorOps.tstep t o) = t.
Proof. exact @C10TensorP.tstep_rejection_before_access. Qed.

(* reorder_mut / transpose_mut: the only panic is the rejected dimension list, before the swap
   loop; the unwraps inside the in-place loop never fire *)
Theorem C10_reorder_mut_panics_only_on_names : forall A (t : tensor A) dims,
  C10TensorP.tensor_rep t -> length dims = length (t_shape t) ->
  (Transform.reorder_mut t dims = Panic <-> dm_new (names_of (t_shape t)) dims = None) /\
  (Transform.transpose_mut t dims = Panic <-> dm_new (names_of (t_shape t)) dims = None).
Proof. exact @C10TensorP.reorder_mut_panics_only_on_names. Qed.

(* ---- the unsafe blocks of the tensor iterators (src/tensors/indexing.rs:919, 1101, 1219, 1385):
   every index handed to get_reference_unchecked(_mut) is inside the source's view_shape, for
   ANY source and any number of calls ---- *)
Theorem C10_tensor_iter_places_in_shape : forall A (s : TSource.tsrc A) k,
  Forall (fun idx => in_range idx (lens_of (TSource.src_shape s)))
    (map fst (Transform.somes (map fst (fst
       (ShapeIter.drive ShapeIter.ti_next ShapeIter.ti_len k (ShapeIter.tensor_iter_from s)))))).
Proof. exact @C10IterP.tensor_iter_places_in_shape. Qed.

Theorem C10_tensor_owned_iter_places_in_shape : forall A dflt (s : TSource.tsrc A) k,
  Forall (fun idx => in_range idx (lens_of (TSource.src_shape s)))
    (map fst (Transform.somes (map fst (fst
       (ShapeIter.drive (ShapeIter.ti_next_owned dflt) ShapeIter.ti_len k (ShapeIter.tensor_iter_from s)))))).
Proof. exact @C10IterP.tensor_owned_iter_places_in_shape. Qed.

(* ... and for every source the adaptor constructors can build, an index inside the view's shape
   is routed adaptor by adaptor to an index inside the shape of the tensor at the bottom whose
   storage offset lies inside the stored data: what unwrap_unchecked + get_unchecked rely on *)
Theorem C10_constructed_route_in_bounds : forall A (s : TSource.tsrc A) idx, SrcWfP.constructed s ->
  in_range idx (lens_of (TSource.src_shape s)) ->
  exists b p x, C10IterP.src_route s idx = Some b /\
    in_range b (lens_of (t_shape (TSource.src_base s))) /\
    get_index_direct b (t_strides (TSource.src_base s)) (t_shape (TSource.src_base s)) = Some p /\
    (N.to_nat p < length (t_data (TSource.src_base s)))%nat /\
    nth_error (t_data (TSource.src_base s)) (N.to_nat p) = Some x /\ TSource.src_get s idx = Some x.
Proof. exact @C10IterP.constructed_route_in_bounds. Qed.

Theorem C10_route_is_get : forall A (s : TSource.tsrc A) idx,
  TSource.src_get s idx = match C10IterP.src_route s idx with
                          | Some b => t_get (TSource.src_base s) b
                          | None => None
                          end.
Proof. exact @C10IterP.src_get_route. Qed.

Theorem C10_constructed_iter_accesses_present : forall A (s : TSource.tsrc A) k, SrcWfP.constructed s ->
  Forall (fun item : list N * option A => exists x, snd item = Some x)
    (Transform.somes (map fst (fst
       (ShapeIter.drive ShapeIter.ti_next ShapeIter.ti_len k (ShapeIter.tensor_iter_from s))))).
Proof. exact @C10IterP.constructed_iter_accesses_present. Qed.

(* ---- the 17 unsafe blocks of the matrix iterators (src/matrices/iterators.rs): every
   (row, column) handed to get_reference_unchecked(_mut) is inside the source's size; an empty
   (0xN / Nx0) source issues no access ---- *)
Theorem C10_major_iter_places_in_size : forall A rm (s : MatrixIter.msrc A) k,
  Forall (C10IterP.in_size s)
    (map fst (Transform.somes (map fst (fst
       (ShapeIter.drive MatrixIter.mi_next MatrixIter.mi_len k (MatrixIter.major_iter_from rm s)))))).
Proof. exact @C10IterP.major_iter_places_in_size. Qed.

Theorem C10_major_owned_iter_places_in_size : forall A dflt rm (s : MatrixIter.msrc A) k,
  Forall (C10IterP.in_size s)
    (map fst (Transform.somes (map fst (fst
       (ShapeIter.drive (MatrixIter.mi_next_owned dflt) MatrixIter.mi_len k (MatrixIter.major_iter_from rm s)))))).
Proof. exact @C10IterP.major_owned_iter_places_in_size. Qed.

Theorem C10_column_iter_places_in_size : forall A (s : MatrixIter.msrc A) column it k,
  MatrixIter.column_iter_from s column = Ok it ->
  Forall (C10IterP.in_size s)
    (map fst (Transform.somes (map fst (fst (ShapeIter.drive MatrixIter.li_next MatrixIter.li_len k it))))).
Proof. exact @C10IterP.column_iter_places_in_size. Qed.

Theorem C10_row_iter_places_in_size : forall A (s : MatrixIter.msrc A) row it k,
  MatrixIter.row_iter_from s row = Ok it ->
  Forall (C10IterP.in_size s)
    (map fst (Transform.somes (map fst (fst (ShapeIter.drive MatrixIter.li_next MatrixIter.li_len k it))))).
Proof. exact @C10IterP.row_iter_places_in_size. Qed.

Theorem C10_diagonal_iter_places_in_size : forall A (s : MatrixIter.msrc A) k,
  Forall (C10IterP.in_size s)
    (map fst (Transform.somes (map fst (fst
       (ShapeIter.drive MatrixIter.li_next MatrixIter.li_len k (MatrixIter.diagonal_iter_from s)))))).
Proof. exact @C10IterP.diagonal_iter_places_in_size. Qed.

(* inside the size of a well-formed matrix source (Matrix, MatrixRange incl. empty, MatrixReverse)
   every element exists *)
Theorem C10_wf_matrix_place_present : forall A (s : MatrixIter.msrc A) p,
  C09MatOwnedP.msrc_wf s -> C10IterP.in_size s p -> exists x, MatrixIter.ms_get s (fst p) (snd p) = Some x.
Proof. exact @C10IterP.wf_matrix_place_present. Qed.

(* non-vacuity of the session-3 statements: a 2x2 tensor driven through a history with a rejected
   reshape, an in-place transposition, a closure panicking at its 3rd call and a write through
   Reverse-then-Range; a constructed Range-over-Transpose source and the route of one index *)
Example C10_nonvacuous_history :
  exists t : tensor Z, tensor_from [(0%nat, 2); (1%nat, 2)] [1; 2; 3; 4]%Z = Ok t /\ C10TensorP.tensor_rep t /\
  map (fun st => (snd st, t_data (fst st)))
      (TensorOps.ttrace t [TensorOps.TReshapeMut [(0%nat, 3); (1%nat, 2)];
                           TensorOps.TTransposeMut [1%nat; 0%nat];
                           TensorOps.TMapMut (fun x => x + 10)%Z 2;
                           TensorOps.TWriteVia [TensorOps.VRev [0%nat]; TensorOps.VRange [(1, 1); (0, 2)]] [0; 1] 99%Z])
  = [(2%nat, [1; 2; 3; 4]%Z); (0%nat, [1; 3; 2; 4]%Z); (2%nat, [11; 13; 2; 4]%Z); (0%nat, [11; 99; 2; 4]%Z)].
Proof.
  eexists. split; [reflexivity|]. split; [|vm_compute; reflexivity].
  apply (C10TensorP.tensor_from_rep [(0%nat, 2); (1%nat, 2)] [1; 2; 3; 4]%Z). right. vm_compute. reflexivity.
Qed.

Print Assumptions C10_tensor_ctor_rep.
Print Assumptions C10_tensor_invariant_every_reached_state.
Print Assumptions C10_tensor_invariant_step.
Print Assumptions C10_reshape_rep.
Print Assumptions C10_write_through_any_adaptor_keeps_frame.
Print Assumptions C10_tensor_step_rejection_before_access.
Print Assumptions C10_reorder_mut_panics_only_on_names.
Print Assumptions C10_tensor_iter_places_in_shape.
Print Assumptions C10_tensor_owned_iter_places_in_shape.
Print Assumptions C10_constructed_route_in_bounds.
Print Assumptions C10_route_is_get.
Print Assumptions C10_constructed_iter_accesses_present.
Print Assumptions C10_major_iter_places_in_size.
Print Assumptions C10_major_owned_iter_places_in_size.
Print Assumptions C10_column_iter_places_in_size.
Print Assumptions C10_row_iter_places_in_size.
Print Assumptions C10_diagonal_iter_places_in_size.
Print Assumptions C10_wf_matrix_place_present.

(* ================= wave 2 (session 3) ================= *)
From EasyML Require Model.RecordFwd Proofs.C02P Proofs.C11P Proofs.C10RouteP.

(* ---- the routing theorem over ARBITRARY view terms (all 13 adaptors: TensorIndex, TensorExpansion,
   TensorStack, TensorChain, wrappers and matrix-backed leaves included; any depth): every index
   inside the view's shape -- hence every index a tensor iterator hands to
   get_reference_unchecked(_mut) of the view -- resolves to an offset inside the stored data of one
   leaf tensor / matrix (`c_leaves c` lists (leaf id, stored element count)); an index of the right
   dimensionality outside the shape resolves to nothing.  `usize_view c`: the lengths of every
   mask's source fit a usize (a typing fact in Rust).  Corollaries of C02_present_iff /
   C02_resolves_in_bounds and of C09's shape iterator theorem. ---- *)
Theorem C10_any_view_route_in_bounds : forall v c idx, Views.v_ctor v = Ok c -> C02P.usize_view c ->
  in_range idx (lens_of (Views.c_shape c)) ->
  exists l off n, Views.c_get c idx = Some (l, off) /\ In (l, n) (Views.c_leaves c) /\ off < n.
Proof. exact C10RouteP.any_view_route_in_bounds. Qed.

Theorem C10_any_view_outside_no_access : forall v c idx, Views.v_ctor v = Ok c -> C02P.usize_view c ->
  length idx = length (Views.c_shape c) -> ~ in_range idx (lens_of (Views.c_shape c)) ->
  Views.c_get c idx = None.
Proof. exact C10RouteP.any_view_outside_no_access. Qed.

(* `C10RouteP.view_iter_places c k` = the indexes yielded by the first k calls of the ShapeIterator
   over the view's shape (the engine of the four tensor iterators with an unsafe block) *)
Theorem C10_any_view_iter_places_in_shape : forall c k,
  Forall (fun idx => in_range idx (lens_of (Views.c_shape c)))
    (Transform.somes (map fst (fst
       (ShapeIter.drive ShapeIter.iter_next ShapeIter.iter_len k (ShapeIter.shape_iter_from (Views.c_shape c)))))).
Proof. exact C10RouteP.any_view_iter_places_in_shape. Qed.

Theorem C10_any_view_iter_accesses_in_bounds : forall v c k, Views.v_ctor v = Ok c -> C02P.usize_view c ->
  Forall (fun idx => exists l off n,
            Views.c_get c idx = Some (l, off) /\ In (l, n) (Views.c_leaves c) /\ off < n)
    (Transform.somes (map fst (fst
       (ShapeIter.drive ShapeIter.iter_next ShapeIter.iter_len k (ShapeIter.shape_iter_from (Views.c_shape c)))))).
Proof. exact C10RouteP.any_view_iter_accesses_in_bounds. Qed.

(* ---- RecordTensor / RecordMatrix as sources (Model/RecordFwd.v; container_record/mod.rs:2512-2635):
   every accessor hands the SAME index to the wrapped container, whose shape is reported as the
   record container's; so an index inside the record container's shape is inside the source's and
   lands in bounds: over a constructed adaptor stack (tensor at the bottom) at a storage offset
   < data.len(); over a well-formed matrix source at an existing element (over a Matrix at
   column + row * columns < data.len()); over ANY view term of the C02 algebra (RecordTensor is
   its index-transparent wrapper) at an in-bounds offset of one leaf. ---- *)
Theorem C10_record_tensor_forwarding_in_bounds : forall T (r : RecordFwd.record_tensor (T := T)) idx,
  SrcWfP.constructed (RecordFwd.rt_numbers r) -> in_range idx (lens_of (RecordFwd.rt_view_shape r)) ->
  RecordFwd.rt_forward idx = idx /\
  in_range (RecordFwd.rt_forward idx) (lens_of (TSource.src_shape (RecordFwd.rt_numbers r))) /\
  exists b p x, C10IterP.src_route (RecordFwd.rt_numbers r) (RecordFwd.rt_forward idx) = Some b /\
    in_range b (lens_of (t_shape (TSource.src_base (RecordFwd.rt_numbers r)))) /\
    get_index_direct b (t_strides (TSource.src_base (RecordFwd.rt_numbers r)))
                       (t_shape (TSource.src_base (RecordFwd.rt_numbers r))) = Some p /\
    (N.to_nat p < length (t_data (TSource.src_base (RecordFwd.rt_numbers r))))%nat /\
    RecordFwd.rt_get_reference r idx = Some x.
Proof. exact @C10RouteP.record_tensor_forwarding_in_bounds. Qed.

Theorem C10_record_tensor_write_forwarded : forall T (r r' : RecordFwd.record_tensor (T := T)) idx v,
  RecordFwd.rt_set r idx v = Some r' ->
  TSource.src_set (RecordFwd.rt_numbers r) idx v = Some (RecordFwd.rt_numbers r') /\
  RecordFwd.rt_history r' = RecordFwd.rt_history r.
Proof. exact @C10RouteP.record_tensor_write_keeps_frame. Qed.

Theorem C10_record_matrix_forwarding_in_bounds : forall T (r : RecordFwd.record_matrix (T := T)) row column,
  C09MatOwnedP.msrc_wf (RecordFwd.rm_numbers r) ->
  row < RecordFwd.rm_view_rows r -> column < RecordFwd.rm_view_columns r ->
  RecordFwd.rm_forward row column = (row, column) /\
  C10IterP.in_size (RecordFwd.rm_numbers r) (RecordFwd.rm_forward row column) /\
  (exists x, RecordFwd.rm_try_get_reference r row column = Some x) /\
  (forall m, RecordFwd.rm_numbers r = MatrixIter.MBase m ->
     (N.to_nat (column + row * MatrixIter.m_cols m) < length (MatrixIter.m_data m))%nat).
Proof. exact @C10RouteP.record_matrix_forwarding_in_bounds. Qed.

Theorem C10_record_view_forwarding_in_bounds : forall v c',
  Views.v_ctor (RecordFwd.record_view v) = Ok c' -> C02P.usize_view c' ->
  exists c, Views.v_ctor v = Ok c /\ c' = RecordFwd.record_cview c /\ Views.c_shape c' = Views.c_shape c /\
    (forall idx, Views.c_get c' idx = Views.c_get c idx) /\
    forall idx, in_range idx (lens_of (Views.c_shape c')) ->
      exists l off n, Views.c_get c idx = Some (l, off) /\ In (l, n) (Views.c_leaves c) /\ off < n.
Proof. exact C10RouteP.record_view_forwarding_in_bounds. Qed.

(* ---- MatrixPart (matrices/views/partitions.rs:70-80, 103-113:
   `data.get_unchecked(row).get_unchecked(column)`), for every part handed out by Matrix::partition
   over a matrix satisfying the invariant: for (row, column) inside the part's size, `row` is inside
   `data` (one (offset, length) slice per row), `column` inside that slice, the cell inside the
   matrix's storage; the part's size agrees with its slices (what the verif-hook asserts); and no
   two different (part, row, column) resolve to the same storage position -- what makes handing
   out several mutable parts sound.  Corollary of C12's partition theorems. ---- *)
Theorem C10_partition_parts_in_bounds : forall (T : Type) (s : Matrix.matrix T) rp cp parts,
  C10Matrix.matrix_invariant s ->
  MatrixViews.partition (Matrix.m_rows s) (Matrix.m_cols s) rp cp = Ok parts ->
  (forall p, In p parts -> forall row column,
     row < MatrixViews.p_rows p -> column < MatrixViews.p_cols p ->
     N.of_nat (length (MatrixViews.p_slices p)) = MatrixViews.p_rows p /\
     Forall (fun sl => snd sl = MatrixViews.p_cols p) (MatrixViews.p_slices p) /\
     exists offset len,
       nth_error (MatrixViews.p_slices p) (N.to_nat row) = Some (offset, len) /\ column < len /\
       MatrixViews.try_get (MatrixViews.VPart p) row column = MatrixViews.Cell (offset + column) /\
       offset + column < N.of_nat (length (Matrix.m_data s))) /\
  (forall k k' p p' i j i' j' a,
     nth_error parts k = Some p -> nth_error parts k' = Some p' ->
     MatrixViews.try_get (MatrixViews.VPart p) i j = MatrixViews.Cell a ->
     MatrixViews.try_get (MatrixViews.VPart p') i' j' = MatrixViews.Cell a ->
     k = k' /\ i = i' /\ j = j').
Proof. exact C10RouteP.partition_parts_in_bounds. Qed.

Theorem C10_quadrants_parts_in_bounds : forall (T : Type) (s : Matrix.matrix T) qr qc parts,
  C10Matrix.matrix_invariant s ->
  MatrixViews.partition_quadrants (Matrix.m_rows s) (Matrix.m_cols s) qr qc = Ok parts ->
  forall p, In p parts -> forall row column,
    row < MatrixViews.p_rows p -> column < MatrixViews.p_cols p ->
    exists offset len,
      nth_error (MatrixViews.p_slices p) (N.to_nat row) = Some (offset, len) /\ column < len /\
      offset + column < N.of_nat (length (Matrix.m_data s)).
Proof. exact C10RouteP.quadrants_parts_in_bounds. Qed.

(* the part-level statement C12 proved for C10 (present exactly inside the size, root cell in
   bounds, disjointness), and the same after ANY resizing history of the matrix *)
Theorem C10_matrix_part_resolves_in_bounds : forall (T : Type) (s : Matrix.matrix T) rp cp parts,
  C10Matrix.matrix_invariant s ->
  MatrixViews.partition (Matrix.m_rows s) (Matrix.m_cols s) rp cp = Ok parts ->
  (forall p, In p parts -> forall row column,
     (C12P.inside (MatrixViews.VPart p) row column = true ->
        exists a, MatrixViews.try_get (MatrixViews.VPart p) row column = MatrixViews.Cell a /\
                  C10Matrix.root_cell (Matrix.m_rows s) (Matrix.m_cols s) a /\
                  a < N.of_nat (length (Matrix.m_data s))) /\
     (C12P.inside (MatrixViews.VPart p) row column = false ->
        MatrixViews.try_get (MatrixViews.VPart p) row column = MatrixViews.Absent)) /\
  (forall k k' p p' i j i' j' a,
     nth_error parts k = Some p -> nth_error parts k' = Some p' ->
     MatrixViews.try_get (MatrixViews.VPart p) i j = MatrixViews.Cell a ->
     MatrixViews.try_get (MatrixViews.VPart p') i' j' = MatrixViews.Cell a ->
     k = k' /\ i = i' /\ j = j').
Proof. exact C10Matrix.matrix_part_resolves_in_bounds. Qed.

Theorem C10_matrix_part_after_history_in_bounds :
  forall (T : Type) (s : Matrix.matrix T) (ops : list (Matrix.op T)) rp cp parts,
  C10Matrix.matrix_invariant s ->
  let s' := C11P.impl_run s ops in
  MatrixViews.partition (Matrix.m_rows s') (Matrix.m_cols s') rp cp = Ok parts ->
  forall p, In p parts -> forall row column,
    (C12P.inside (MatrixViews.VPart p) row column = true ->
       exists a, MatrixViews.try_get (MatrixViews.VPart p) row column = MatrixViews.Cell a /\
                 C10Matrix.root_cell (Matrix.m_rows s') (Matrix.m_cols s') a /\
                 a < N.of_nat (length (Matrix.m_data s'))) /\
    (C12P.inside (MatrixViews.VPart p) row column = false ->
       MatrixViews.try_get (MatrixViews.VPart p) row column = MatrixViews.Absent).
Proof. exact C10Matrix.matrix_part_after_history_in_bounds. Qed.

(* non-vacuity: a selection (TensorIndex) of an expansion (TensorExpansion) of a stack (TensorStack)
   of [a chain (TensorChain) of a 2x3 and a 1x3 tensor; a selection of a 3x3x4 tensor]: constructible,
   usize; the six indexes the iterator yields route to offsets 0,1,2 of leaf 2 (3 elements) and
   25,29,33 of leaf 3 (36 elements); an index outside is absent *)
Definition c10_example_view : Views.view :=
  Views.VIndex
    (Views.VExpand
       (Views.VStack
          [ Views.VChain [Views.VTensor 1 [(0%nat, 2); (1%nat, 3)]; Views.VTensor 2 [(0%nat, 1); (1%nat, 3)]] 0%nat;
            Views.VIndex (Views.VTensor 3 [(0%nat, 3); (1%nat, 3); (2%nat, 4)]) [(2%nat, 1)] ]
          0%nat 7%nat)
       [(1%nat, 8%nat)])
    [(0%nat, 2)].

Example C10_nonvacuous_any_view :
  exists c, Views.v_ctor c10_example_view = Ok c /\ C02P.usize_view c /\
    Views.c_shape c = [(7%nat, 2); (8%nat, 1); (1%nat, 3)] /\
    Views.c_leaves c = [(1, 6); (2, 3); (3, 36)] /\
    C10RouteP.view_iter_places c 7 = [[0; 0; 0]; [0; 0; 1]; [0; 0; 2]; [1; 0; 0]; [1; 0; 1]; [1; 0; 2]] /\
    map (Views.c_get c) (C10RouteP.view_iter_places c 7) =
      [Some (2, 0); Some (2, 1); Some (2, 2); Some (3, 25); Some (3, 29); Some (3, 33)] /\
    Views.c_get c [2; 0; 0] = None /\ Views.c_get c [1; 0; 3] = None.
Proof.
  eexists. split; [vm_compute; reflexivity|]. split; [cbn; tauto|]. vm_compute. repeat split.
Qed.

(* non-vacuity of the record / partition statements: a record matrix over rows 1.. of a 3x2 matrix of
   (value, index) pairs forwards (1, 1) to the element stored at position 5; a 3x4 matrix split
   at row 1 / column 3 hands out four parts whose slices are inside the 12 stored elements *)
Example C10_nonvacuous_record_partition :
  (exists m, MatrixIter.matrix_from_flat 3 2 [(10%Z, 0); (11%Z, 1); (12%Z, 2); (13%Z, 3); (14%Z, 4); (15%Z, 5)] = Ok m /\
     let r := RecordFwd.mkRM (MatrixIter.mrange_from (MatrixIter.MBase m) (1, 2) (0, 2)) None in
     C09MatOwnedP.msrc_wf (RecordFwd.rm_numbers r) /\ RecordFwd.rm_view_rows r = 2 /\
     RecordFwd.rm_try_get_reference r 1 1 = Some (15%Z, 5)) /\
  MatrixViews.partition 3 4 [1] [3] =
    Ok [MatrixViews.mkPart [(0, 3)] 1 3; MatrixViews.mkPart [(3, 1)] 1 1;
        MatrixViews.mkPart [(4, 3); (8, 3)] 2 3; MatrixViews.mkPart [(7, 1); (11, 1)] 2 1].
Proof.
  split; [|vm_compute; reflexivity].
  eexists. split; [vm_compute; reflexivity|]. cbv zeta. split; [|split; vm_compute; reflexivity].
  apply C09MatOwnedP.mrange_from_wf. vm_compute. reflexivity.
Qed.

Print Assumptions C10_any_view_route_in_bounds.
Print Assumptions C10_any_view_outside_no_access.
Print Assumptions C10_any_view_iter_places_in_shape.
Print Assumptions C10_any_view_iter_accesses_in_bounds.
Print Assumptions C10_record_tensor_forwarding_in_bounds.
Print Assumptions C10_record_tensor_write_forwarded.
Print Assumptions C10_record_matrix_forwarding_in_bounds.
Print Assumptions C10_record_view_forwarding_in_bounds.
Print Assumptions C10_partition_parts_in_bounds.
Print Assumptions C10_quadrants_parts_in_bounds.
Print Assumptions C10_matrix_part_resolves_in_bounds.
Print Assumptions C10_matrix_part_after_history_in_bounds.

(* ---- Wave 4: empty sources (Proofs/C10EmptyP.v) ---- *)
From EasyML Require Model.IterG Proofs.C10EmptyP.

(* Row-/column-major iteration (RowMajor / ColumnMajor {,Reference,ReferenceMut}Iterator, through
   any constructor) over ANY source whose view has rows * columns = 0: every one of k calls of
   next() returns None with length 0 - no place is handed to get_reference_unchecked(_mut). *)
Theorem C10_empty_source_iterators_touch_nothing :
  forall St A (o : IterG.msource St A) (row_major : bool) (s : St) (k : nat),
  (IterG.mo_rows o s * IterG.mo_cols o s = 0)%N ->
  fst (ShapeIter.drive (IterG.gmi_next o) IterG.gmi_len k (IterG.gmi_from o row_major s))
    = repeat (None, 0%N) k /\
  IterG.gmi_len (IterG.gmi_from o row_major s) = 0%N.
Proof. exact @C10EmptyP.empty_source_yields_nothing. Qed.

(* The owning iterators (RowMajorOwnedIterator / ColumnMajorOwnedIterator, `from` and
   `from_numeric`: mem::replace through get_reference_unchecked_mut) likewise. *)
Theorem C10_empty_source_owned_iterators_touch_nothing :
  forall St A (o : IterG.msource St A) (dflt : A) (row_major : bool) (s : St) (k : nat),
  (IterG.mo_rows o s * IterG.mo_cols o s = 0)%N ->
  fst (ShapeIter.drive (IterG.gmi_next_owned o dflt) IterG.gmi_len k (IterG.gmi_from o row_major s))
    = repeat (None, 0%N) k.
Proof. exact @C10EmptyP.empty_source_owned_yields_nothing. Qed.

(* non-vacuous: a 0x0 partition part of a 2x3 matrix (partition(&[0], &[0]), part 0) *)
Example C10_nonvacuous_empty_source :
  exists v, obind (MatrixViews.partition 2 3 [0%N] [0%N])
                  (fun parts => match nth_error parts 0 with Some p => Ok (MatrixViews.VPart p) | None => Panic end) = Ok v /\
  (IterG.mo_rows (IterG.mview_source (T := Z) v) [1;2;3;4;5;6]%Z
   * IterG.mo_cols (IterG.mview_source (T := Z) v) [1;2;3;4;5;6]%Z = 0)%N.
Proof. eexists. split; vm_compute; reflexivity. Qed.

Print Assumptions C10_empty_source_iterators_touch_nothing.
Print Assumptions C10_empty_source_owned_iterators_touch_nothing.
