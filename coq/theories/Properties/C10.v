(* C10 — No safe API call sequence reaches an out-of-bounds unchecked element access.
   At the level a model can carry it, the property is the conjunction of (i) representation
   invariants established by every constructor and preserved by every mutator, and (ii) every
   index handed to an unchecked accessor lies inside the accessed container's shape and resolves
   to a storage position inside the stored data.  This file states the tensor / matrix core;
   the clauses about matrix histories (C11_refines carries Inv_matrix through every reached
   state, panicking steps included), iterators (C09: only in-shape indexes are issued) and view
   compositions (C02_present_iff) are theorems of those properties' files.  At run time the
   verif-hooks assertions inside the three leaf unchecked accessors monitor every workload of
   every property (tools/props/c10.py). *)
From Coq Require Import List ZArith NArith Bool Arith.
From EasyML Require Import Base.Sx Model.Shape Model.Tensor Model.U64 Model.Fallible
     Proofs.ShapeP Proofs.C01P Proofs.C16P Proofs.C10P.
From EasyML Require Model.Matrix Model.MatrixViews Model.Views Model.Transform Proofs.C10Matrix
     Proofs.C12P Proofs.C12Partition Proofs.C02W Proofs.OdometerP.
Import ListNotations.
Open Scope N_scope.

Theorem C10_ctor_establishes_invariant : forall A sh (data : list A) t,
  tensor_try_from sh data = Ok t \/ tensor_from sh data = Ok t -> tensor_inv t.
Proof. exact @ctor_inv. Qed.

Theorem C10_write_preserves_invariant : forall A (t : tensor A) req a idx v a',
  tensor_inv t -> length req = length (t_shape t) -> length idx = length (t_shape t) ->
  access_try_from t req = Ok a -> access_set a idx v = Some a' -> tensor_inv (a_src a').
Proof. exact @set_preserves_inv. Qed.

Theorem C10_position_in_bounds : forall A (t : tensor A) idx,
  tensor_inv t -> length idx = length (t_shape t) ->
  match get_index_direct idx (t_strides t) (t_shape t) with
  | Some p => in_range idx (lens_of (t_shape t)) /\ (N.to_nat p < length (t_data t))%nat
  | None => ~ in_range idx (lens_of (t_shape t))
  end.
Proof. exact @position_in_bounds. Qed.

Theorem C10_position_no_overflow : forall A (t : tensor A) m idx, tensor_inv t ->
  elements (t_shape t) <= usize_max ->
  gid_m m idx (t_strides t) (lens_of (t_shape t)) 0 =
  Ok (get_index_direct idx (t_strides t) (t_shape t)).
Proof. exact @position_no_overflow. Qed.

Theorem C10_matrix_position_in_bounds : forall rows cols row col,
  row < rows -> col < cols -> row * cols + col < rows * cols.
Proof. exact matrix_index_in_bounds. Qed.

(* ---- matrices: the invariant in EVERY state reached by ANY mutation history, including states
   left behind by a caught panic (imported from the C11 development) ---- *)
Theorem C10_matrix_invariant_every_reached_state :
  forall (T : Type) (s : Matrix.matrix T) (ops : list (Matrix.op T)),
  C10Matrix.matrix_invariant s ->
  Forall (fun r : Matrix.matrix T * bool => C10Matrix.matrix_invariant (fst r)) (Matrix.impl_trace s ops).
Proof. exact C10Matrix.matrix_invariant_every_reached_state. Qed.

(* ---- matrix views, any API-buildable stack (ranges, reversals, maps, partition parts,
   quadrants, tensor round trips): every index reported present resolves, for the shared, mutable
   and unchecked accessors alike, to a storage position inside the stored data; other indexes are
   absent; nothing panics (imported from the C12 development) ---- *)
Theorem C10_matrix_view_resolves_in_bounds :
  forall (T : Type) (s : Matrix.matrix T) (v : MatrixViews.mview),
  C10Matrix.matrix_invariant s -> C12Partition.stack (Matrix.m_rows s) (Matrix.m_cols s) v ->
  forall row column,
    (C12P.inside v row column = true ->
       exists p, MatrixViews.try_get v row column = MatrixViews.Cell p /\
                 C10Matrix.root_cell (Matrix.m_rows s) (Matrix.m_cols s) p /\
                 p < N.of_nat (length (Matrix.m_data s)) /\
                 exists x, nth_error (Matrix.m_data s) (N.to_nat p) = Some x) /\
    (C12P.inside v row column = false -> MatrixViews.try_get v row column = MatrixViews.Absent) /\
    MatrixViews.try_get v row column <> MatrixViews.AccessPanic.
Proof. exact C10Matrix.matrix_view_resolves_in_bounds. Qed.

(* ---- tensor views, any composition at any depth (all 13 adaptors incl. stack / chain / boxed /
   matrix-backed): an index reported present resolves to an offset inside the stored data of
   exactly one leaf (imported from the C02 development) ---- *)
Theorem C10_tensor_view_resolves_in_bounds : forall v c idx l off, Views.v_ctor v = Ok c ->
  Views.c_get c idx = Some (l, off) -> exists n, In (l, n) (Views.c_leaves c) /\ off < n.
Proof. exact C02W.resolves_in_bounds. Qed.

(* ---- iterators: the bare shape iterator (which drives every tensor iterator, from_fn, and the
   mutable / owning iterators' unchecked accesses) only ever yields index tuples inside the
   shape (imported from the C09 development) ---- *)
Theorem C10_iterator_indexes_in_range : forall lens k x,
  nth_error (Transform.all_indexes lens) k = Some x -> in_range x lens /\ flat x lens = N.of_nat k.
Proof. exact OdometerP.all_indexes_nth. Qed.

Example C10_nonvacuous : exists t : tensor Z,
  tensor_from [(0%nat, 2); (1%nat, 3)] (map Z.of_nat (seq 0 6)) = Ok t /\
  get_index_direct [1; 2] (t_strides t) (t_shape t) = Some 5 /\
  get_index_direct [1; 3] (t_strides t) (t_shape t) = None.
Proof. eexists. vm_compute. repeat split. Qed.

Print Assumptions C10_ctor_establishes_invariant.
Print Assumptions C10_write_preserves_invariant.
Print Assumptions C10_position_in_bounds.
Print Assumptions C10_position_no_overflow.
Print Assumptions C10_matrix_position_in_bounds.
Print Assumptions C10_matrix_invariant_every_reached_state.
Print Assumptions C10_matrix_view_resolves_in_bounds.
Print Assumptions C10_tensor_view_resolves_in_bounds.
Print Assumptions C10_iterator_indexes_in_range.
