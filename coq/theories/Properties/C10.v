(* C10 — No safe API call sequence reaches an out-of-bounds unchecked element access.
   At the level a model can carry it, the property is the conjunction of (i) representation
   invariants established by every constructor and preserved by every mutator, and (ii) every
   index handed to an unchecked accessor lies inside the accessed container's shape and resolves
   to a storage position inside the stored data.  This file states the tensor / matrix core;
   the clauses about matrix histories (C11_refines carries Inv_matrix through every reached
   state, panicking steps included), iterators (C09: only in-shape indexes are issued) and view
   compositions (C02_present_iff) are theorems of those properties' files.  At run time the
   verif-hooks assertions inside the three leaf unchecked accessors monitor every workload of
   every property (tools/props/c10.py). *)
From Coq Require Import List ZArith NArith Bool Arith.
From EasyML Require Import Base.Sx Model.Shape Model.Tensor Model.U64 Model.Fallible
     Proofs.ShapeP Proofs.C01P Proofs.C16P Proofs.C10P.
Import ListNotations.
Open Scope N_scope.

Theorem C10_ctor_establishes_invariant : forall A sh (data : list A) t,
  tensor_try_from sh data = Ok t \/ tensor_from sh data = Ok t -> tensor_inv t.
Proof. exact @ctor_inv. Qed.

Theorem C10_write_preserves_invariant : forall A (t : tensor A) req a idx v a',
  tensor_inv t -> length req = length (t_shape t) -> length idx = length (t_shape t) ->
  access_try_from t req = Ok a -> access_set a idx v = Some a' -> tensor_inv (a_src a').
Proof. exact @set_preserves_inv. Qed.

Theorem C10_position_in_bounds : forall A (t : tensor A) idx,
  tensor_inv t -> length idx = length (t_shape t) ->
  match get_index_direct idx (t_strides t) (t_shape t) with
  | Some p => in_range idx (lens_of (t_shape t)) /\ (N.to_nat p < length (t_data t))%nat
  | None => ~ in_range idx (lens_of (t_shape t))
  end.
Proof. exact @position_in_bounds. Qed.

Theorem C10_position_no_overflow : forall A (t : tensor A) m idx, tensor_inv t ->
  elements (t_shape t) <= usize_max ->
  gid_m m idx (t_strides t) (lens_of (t_shape t)) 0 =
  Ok (get_index_direct idx (t_strides t) (t_shape t)).
Proof. exact @position_no_overflow. Qed.

Theorem C10_matrix_position_in_bounds : forall rows cols row col,
  row < rows -> col < cols -> row * cols + col < rows * cols.
Proof. exact matrix_index_in_bounds. Qed.

Example C10_nonvacuous : exists t : tensor Z,
  tensor_from [(0%nat, 2); (1%nat, 3)] (map Z.of_nat (seq 0 6)) = Ok t /\
  get_index_direct [1; 2] (t_strides t) (t_shape t) = Some 5 /\
  get_index_direct [1; 3] (t_strides t) (t_shape t) = None.
Proof. eexists. vm_compute. repeat split. Qed.

Print Assumptions C10_ctor_establishes_invariant.
Print Assumptions C10_write_preserves_invariant.
Print Assumptions C10_position_in_bounds.
Print Assumptions C10_position_no_overflow.
Print Assumptions C10_matrix_position_in_bounds.
