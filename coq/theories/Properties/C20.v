(* C20 — Tape thread-safety and lifetime contracts are enforced at compile time.
   Property theorems only.  They are statements about `decls`, `aliases`, `traits`, `modules`,
   `reexports`, `marker_impls` of Gen/Types.v, which tools/gen_types.py REGENERATES from the
   Rust sources on every run of ./check C20 — so an edit of a struct declaration, an added
   `unsafe impl Send/Sync`, a dropped lifetime parameter, a raw pointer field, a `pub mod private`
   or a marker trait that loses `unsafe` makes one of these proofs fail.
   Definitions: Model/AutoTraits.v (declaration embedding + rustc's auto-trait rules as an
   evaluator), Proofs/C20P.v (the expectation tables = the specification, and the proofs).
   `asm tr n` = "the n-th type parameter implements tr" (rustc's parameter environment); a
   statement for all `asm` covers every instantiation of the element / source types.
   Session 3 additions: std cells as field types are evaluated with their std auto-trait rules
   (OnceCell as Cell; RwLock / OnceLock; atomics; maps and sets) instead of being reported as
   unreadable -- so e.g. a OnceCell cache field breaks C20_send_sync_iff / C20_expectations_met on the
   Sync half only; C20_adaptors_store_source, C20_adaptors_carry_argument_borrow,
   C20_lifetime_types_store_ref (which concrete types store a borrow: the model side of the
   outlive-type / conflict-type probes); C20_all_seals_closed (every use of the sealing pattern the
   translator finds, not only Similar). *)
From Coq Require Import List Arith Bool.
From EasyML Require Import Model.AutoTraits Gen.Types Proofs.C20P.
Import ListNotations.
Open Scope str_scope.

(* a tape can never be shared between threads (RefCell inside), whatever its element type ... *)
Theorem C20_tape_not_sync : forall asm,
  holds decls asm Sync (G "differentiation::WengertList") = false.
Proof. exact tape_not_sync. Qed.

(* ... but may be moved to another thread as a whole exactly when its element type may *)
Theorem C20_tape_send_iff : forall asm,
  holds decls asm Send (G "differentiation::WengertList") = asm Send 0.
Proof. exact tape_send_iff. Qed.

(* a record can be neither sent nor shared, for every element type (it holds Option<&'a WengertList<T>>) *)
Theorem C20_record_not_send_nor_sync : forall asm tr,
  holds decls asm tr (G "differentiation::Record") = false.
Proof. exact record_never. Qed.

(* the same for record containers, the RecordMatrix / RecordTensor aliases (for every source
   type), the AsRecords iterator and the error types that carry a tape reference *)
Theorem C20_record_containers_not_send_nor_sync : forall asm tr,
  holds decls asm tr (G "differentiation::container_record::RecordContainer") = false /\
  holds decls asm tr (alias_body "differentiation::container_record::RecordMatrix") = false /\
  holds decls asm tr (alias_body "differentiation::container_record::RecordTensor") = false /\
  Forall (fun e => holds decls asm tr (G (ename e)) = false) tape_holders.
Proof. exact containers_never. Qed.

Theorem C20_record_aliases_are_containers :
  (exists s, alias_body RM = TApp RC [LParam 0] [TParam 0; TApp "matrices::views::MatrixView" [] [s; TParam 1]]) /\
  (exists s, alias_body RT = TApp RC [LParam 0] [TParam 0; TApp "tensors::views::TensorView" [] [s; TParam 1]]).
Proof. exact aliases_are_containers. Qed.

(* tensors, matrices, every view adaptor, traces, derivative sets, decompositions, distributions,
   error types and iterators: sendable / shareable EXACTLY under the tabulated conditions on their
   element and source types (C20P.data_types: all parameters; C20P.iterator_types: a shared borrow
   of the source needs S: Sync, an owned iterator only needs S) *)
Theorem C20_send_sync_iff : forall asm tr e, In e (data_types ++ iterator_types) ->
  holds decls asm tr (G (ename e)) = meets asm (match tr with Send => esend e | Sync => esync e end).
Proof. exact send_sync_iff. Qed.

(* the whole table at once, including the number of type parameters of each declaration *)
Theorem C20_expectations_met : forall asm, Forall (met asm) expectations.
Proof. exact met_all. Qed.

(* the parametric statements agree with plain evaluation on concrete argument types: every table
   entry, instantiated with the pairs (X, X), (X, f64), (f64, X) of 11 representative element / source types X (f64, Cell<f64>,
   Rc<f64>, &f64, &Cell<f64>, &mut Cell<f64>, Tensor<Cell<f64>>, WengertList<f64>, Record<f64>,
   dyn Trait + Send, (f64, Arc<Mutex<Cell<f64>>>)) and evaluated without assumptions, is Send / Sync
   exactly when the table says so with `asm tr n` := "the n-th argument implements tr" *)
Theorem C20_concrete_instantiations :
  forallb (fun e => forallb (fun p => instance_ok e (fst p) (snd p)) representative_pairs) expectations = true.
Proof. exact concrete_instantiations. Qed.

(* every PUBLIC struct / enum declared in the crate is covered by the table: a new public type must
   be classified.  (Until session 3 this demanded every declaration, so that a behaviour-preserving
   refactoring which introduced a private helper enum broke the proof layer: a false alarm.) *)
Theorem C20_all_types_classified :
  forallb (fun d => negb (dpub d) || mem (dname d) (map ename expectations)) decls = true.
Proof. exact all_classified. Qed.

(* every iterator / view / record type documented to pin its source stores &'a S / &'a mut S
   (possibly inside Option / Vec) whose lifetime is the type's own first parameter *)
Theorem C20_borrow_carried : Forall carried borrow_table.
Proof. exact borrow_carried. Qed.

Theorem C20_quadrants_carry_source_lifetime :
  Forall (fun f => field_ty decls "matrices::views::partitions::MatrixQuadrants" f = Some quadrant_ty)
         quadrant_fields
  /\ pins decls "matrices::views::partitions::MatrixQuadrants" = true.
Proof. exact quadrants_carry. Qed.

(* owning types have no lifetime parameter at all *)
Theorem C20_owning_types_lifetime_free :
  Forall (fun n => exists d, lookup decls n = Some d /\ dlts d = 0) lifetime_free.
Proof. exact owned_lifetime_free. Qed.

(* no declaration of the crate stores a raw pointer, NonNull, Rc or a type the translator could
   not read; every lifetime in a field is 'static or a declared parameter; the translator reported
   no error *)
Theorem C20_translation_closed :
  forallb (decl_ok decls) decls = true /\ translator_errors = [] /\ translator_unresolved = [].
Proof. exact translation_closed. Qed.

(* there is no explicit (unsafe or negative) impl of Send / Sync anywhere in the crate *)
Theorem C20_no_marker_impls :
  marker_impls = [] /\
  forallb (fun d => match dsend d, dsync d with Auto, Auto => true | _, _ => false end) decls = true.
Proof. exact no_marker_impls. Qed.

(* Similar is sealed: its supertrait lives in a private module that nothing re-exports *)
Theorem C20_sealed :
  sealed traits modules reexports "tensors::operations" "Similar" "private" "Sealed" = true.
Proof. exact sealed_similar. Qed.

(* ... and the seal covers the trait's Rhs parameter too (the supertrait is written
   private::Sealed<Rhs>, not private::Sealed = Sealed<Self>): `impl Similar<Mine> for Tensor<..>` in a
   client crate is rejected as well (finding F14, repaired by /repo dc5faf4) *)
Theorem C20_seal_covers_rhs :
  seal_covers_params traits "tensors::operations" "Similar" "private" "Sealed" = true.
Proof. exact seal_covers_rhs. Qed.

(* the sealing trait is implemented (in its private module) for a closed set of (Self, Rhs) pairs of
   crate types only -- every impl's Self and Rhs is an application of a struct / enum of this crate,
   never a bare type parameter that a downstream type could inhabit through a public bound such as
   `TensorView<..>: PartialEq<Rhs>` *)
Theorem C20_seal_impls_closed :
  seal_impls_closed sealed_impls "tensors::operations" "private" "Sealed" = true.
Proof. exact seal_impls_closed_ok. Qed.

(* EVERY trait of the crate that names a supertrait living in a private inline module (the list is
   regenerated by the translator; Similar is one of them) is sealed in the full sense: private module
   that nothing re-exports, the supertrait is written with every type parameter of the sealed trait,
   the sealing trait's impls are for a closed set of crate types and live in the sealing module *)
Theorem C20_all_seals_closed :
  forallb seal_ok seal_uses = true /\
  existsb (seal_use_eqb ("tensors::operations", "Similar", "private", "Sealed")) seal_uses = true.
Proof. exact all_seals_closed. Qed.

(* the by-value view adaptors / wrappers / owned iterators / record containers store their source
   parameter S itself as a field (C20P.source_table: type, field, index of S) ... *)
Theorem C20_adaptors_store_source :
  forallb (fun e => let '(n, fld, k) := e in stores_param decls n fld k) source_table = true.
Proof. exact adaptors_store_source. Qed.

(* ... so instantiated at S = &Tensor<f64> and at S = &mut Tensor<f64> a value stores a reference
   (it cannot outlive the tensor and excludes conflicting uses of it), at S = Tensor<f64> it does not
   (it owns its source): for the 21 entries of the table without a lifetime parameter of their own and
   for TensorTranspose *)
Theorem C20_adaptors_carry_argument_borrow :
  List.length borrowing_adaptors = 22 /\
  forallb (fun e => stores_ref decls (instance_at (fst e) (snd e) (TRef LAnon false tensor_f64)) &&
                    stores_ref decls (instance_at (fst e) (snd e) (TRef LAnon true tensor_f64)) &&
                    negb (stores_ref decls (instance_at (fst e) (snd e) tensor_f64)))
          borrowing_adaptors = true.
Proof. exact adaptors_carry_argument_borrow. Qed.

(* for EVERY declaration of the crate, instantiated at plain data: it stores a (non-'static)
   reference exactly when it has a lifetime parameter of its own *)
Theorem C20_lifetime_types_store_ref :
  forallb (fun d => Bool.eqb (stores_ref decls (TApp (dname d) (map (fun _ => LAnon) (seq 0 (dlts d)))
                                                     (map (fun _ => TPrim "f64") (seq 0 (dtys d)))))
                             (Nat.ltb 0 (dlts d))) decls = true.
Proof. exact lifetime_types_store_ref. Qed.

(* the five marker traits are `unsafe trait`s: implementing them needs `unsafe impl` *)
Theorem C20_unsafe_markers : forallb (is_unsafe_trait traits) unsafe_markers = true.
Proof. exact markers_unsafe. Qed.

(* the evaluator's fuel bound decides nothing *)
Theorem C20_fuel_stable : forall asm tr,
  Forall (fun e => holds_in (FUEL + FUEL) decls asm [] tr (G (ename e)) = holds decls asm tr (G (ename e)))
         expectations.
Proof. exact fuel_stable. Qed.

(* non-vacuity: the evaluator is not constantly false / true on the real declarations, and each of
   the unsound edits the property is about flips it *)
Example C20_nonvacuous :
  holds decls all_true Send (G "tensors::Tensor") = true /\
  holds decls (fun tr _ => match tr with Send => true | Sync => false end) Send
        (G "tensors::indexing::TensorIterator") = false /\
  holds decls all_true Send (G "differentiation::Record") = false /\
  (let ds := with_marker WL Sync (Explicit []) decls in
   holds ds all_true Sync (G WL) = true /\ holds ds all_true Send (G REC) = true) /\
  (let ds := with_fields WL [("operations", TVec (TApp "differentiation::Operation" [] [TParam 0]))] decls in
   holds ds all_true Sync (G WL) = true /\ holds ds all_true Sync (G REC) = true) /\
  (let ds := with_fields REC [("number", TParam 0); ("history", TRaw false (tapeof 0)); ("index", TPrim "usize")] decls in
   carries ds REC "history" = None /\ forallb (decl_ok ds) ds = false).
Proof.
  split; [vm_compute; reflexivity|]. split; [vm_compute; reflexivity|].
  split; [vm_compute; reflexivity|]. split; [exact mutant_unsafe_sync|].
  split; [exact mutant_no_refcell | exact mutant_raw_pointer].
Qed.

(* non-vacuity of the std-cell rules: a `OnceCell<DataLayout>` cache field in interop::MatrixRefTensor
   keeps it Send and makes it (and a MatrixView over it) lose Sync; a OnceLock would not *)
Example C20_nonvacuous_once_cell :
  let ds := with_fields MRT [("source", TParam 1); ("layout", TCell (TApp "matrices::views::DataLayout" [] []));
                             ("_type", TPhantom (TParam 0))] decls in
  holds ds all_true Send (G MRT) = true /\ holds ds all_true Sync (G MRT) = false /\
  holds ds all_true Sync (TApp "matrices::views::MatrixView" [] [TPrim "f64"; TApp MRT [] [TPrim "f64"; tensor_f64]]) = false /\
  holds decls all_true Sync (TApp "matrices::views::MatrixView" [] [TPrim "f64"; TApp MRT [] [TPrim "f64"; tensor_f64]]) = true /\
  (let ds' := with_fields MRT [("source", TParam 1); ("layout", TRwLock (TApp "matrices::views::DataLayout" [] []));
                               ("_type", TPhantom (TParam 0))] decls in
   holds ds' all_true Sync (G MRT) = true).
Proof. exact mutant_once_cell_cache. Qed.

Print Assumptions C20_tape_not_sync.
Print Assumptions C20_tape_send_iff.
Print Assumptions C20_record_not_send_nor_sync.
Print Assumptions C20_record_containers_not_send_nor_sync.
Print Assumptions C20_record_aliases_are_containers.
Print Assumptions C20_send_sync_iff.
Print Assumptions C20_expectations_met.
Print Assumptions C20_concrete_instantiations.
Print Assumptions C20_all_types_classified.
Print Assumptions C20_borrow_carried.
Print Assumptions C20_quadrants_carry_source_lifetime.
Print Assumptions C20_owning_types_lifetime_free.
Print Assumptions C20_translation_closed.
Print Assumptions C20_no_marker_impls.
Print Assumptions C20_sealed.
Print Assumptions C20_seal_covers_rhs.
Print Assumptions C20_seal_impls_closed.
Print Assumptions C20_unsafe_markers.
Print Assumptions C20_fuel_stable.
Print Assumptions C20_all_seals_closed.
Print Assumptions C20_adaptors_store_source.
Print Assumptions C20_adaptors_carry_argument_borrow.
Print Assumptions C20_lifetime_types_store_ref.
