(* C15 - Tape clear/reset cycles and cross-tape misuse behave as documented.
   Only the property theorems (closed by `exact`), the non-vacuity example and the assumption
   audit.  Definitions: Model/TapeMachine.v (scripts over several WengertLists, registers),
   Model/Container.v (the operations), Proofs/C15P.v, Proofs/C15Q.v.  No theorem of this file
   is partial any more: next_unused covers every machine operation (incl. the three binary
   batch loops and both matrix multiplications), cycle_equiv includes the frame property. *)
From Coq Require Import List ZArith Bool Arith.
From EasyML Require Import Base.Sx Model.Num Model.Tape Model.Container Model.TapeMachine
  Proofs.TapeP Proofs.C15P Proofs.C15Q Proofs.C06P.
Import ListNotations.

(* Every binary operator kind (the six function kinds) between two scalar records, or two
   containers of the same kind (in the four invocation modes: operator, binary /
   elementwise_*, left assign, right assign) that live on two DIFFERENT lists panics and
   leaves the machine unchanged *)
Theorem C15_cross_tape_rejected :
  forall (R : Type) (ops : numops R) (st : @state R) dst mode code a b t1 t2 r,
  obj_hist (get st a) = Some t1 -> obj_hist (get st b) = Some t2 -> t1 <> t2 ->
  same_kind (get st a) (get st b) ->
  step ops st (TBin dst mode code a b) = Some r -> r = (st, Panic).
Proof. exact @cross_tape_binary. Qed.

(* ... and so do both matrix multiplications (RecordTensor and RecordMatrix) *)
Theorem C15_cross_tape_matmul_rejected :
  forall (R : Type) (ops : numops R) (st : @state R) dst a b (x y : cont R) t1 t2 r,
  get st a = OCont x -> get st b = OCont y -> c_tensor x = c_tensor y ->
  c_hist x = Some t1 -> c_hist y = Some t2 -> t1 <> t2 ->
  step ops st (TMatmul dst a b) = Some r -> r = (st, Panic).
Proof. exact @cross_tape_matmul. Qed.

(* every derivative set (try_derivatives of a record, derivatives_for of a container element)
   has exactly one entry per tape entry *)
Theorem C15_derivs_length :
  forall (R : Type) (ops : numops R) (st st' : @state R) a elem d,
  step ops st (TDerivs a elem) = Some (st', Ok (VDerivs (Some d))) ->
  exists t tp, obj_hist (get st a) = Some t /\ tape_of st t = Some tp /\ length d = length tp.
Proof. exact @derivs_length. Qed.

(* After ANY machine step other than clear: the old tape of every list is a prefix of the new
   one (`grows`), and every newly created object occupies the next unused positions of its list
   (`val_fresh`): a record sits at the old length, one entry appended; the elements of a
   container made by a constructor or an elementwise operation (all unary kinds, all binary
   kinds in the four invocation modes) are exactly old length, old length + 1, ... in iteration
   order, as many as entries were appended; the cells of either matrix product are strictly
   increasing positions inside [old length, new length) (each cell is the last of the entries
   appended for it, so they are not contiguous); reset / reset-all hand out strictly
   increasing positions inside [old length, new length).  Positions therefore strictly increase
   between clears. *)
Theorem C15_next_unused :
  forall (R : Type) (ops : numops R) (st : @state R) op st' v,
  step ops st op = Some (st', v) -> (forall t, op <> TClear t) ->
  grows st st' /\ val_fresh (negb (is_matmul op)) st st' v.
Proof. exact @next_unused. Qed.

(* Clear/reset cycles.  From ANY machine state st (any earlier history on any number of lists,
   any number of earlier cycles, stale objects in other registers): after "clear list t; reset
   the inputs (any order)", a script P that is local to the inputs and list t (`local_run`: it
   only reads the inputs or registers written by its own earlier successful operations, names no
   other list, and contains no reset-all / new-list operation) returns step by step - values,
   positions, derivative vectors, panics - exactly the results it returns on a brand-new machine
   (t + 1 empty lists, no registers) on which the inputs are created as new variables /
   variables containers with the same numbers.  P may itself contain further clears and resets
   of its registers, so any number of cycles is covered. *)
Theorem C15_cycle_equiv :
  forall (R : Type) (ops : numops R) (st : @state R) t ins P st1 vs1 stf res,
  NoDup ins -> (forall a, In a ins -> input_ok t (get st a)) ->
  tm_run ops st (TClear t :: map TReset ins) = Some (st1, vs1) ->
  local_run ops (mem ins) t st1 P ->
  tm_run ops st1 P = Some (stf, res) ->
  exists st2 vs2 stf2,
    tm_run ops (init (S t)) (map (fun a => recreate ops t a (get st a)) ins) = Some (st2, vs2) /\
    tm_run ops st2 P = Some (stf2, res).
Proof. exact @cycle_equiv. Qed.

(* non-vacuity: two lists; x on list 0, y on list 1, a 2x2 variables matrix on each.
   x * y and the matrix product across lists panic; after some work on list 0, clear + reset of
   x reaches a state where x sits at position 0 again and a derivative vector of the rebuilt
   expression has as many entries as the tape. *)
Example C15_nonvacuous :
  let sh := [(0, 2); (1, 2)] in
  let script := [TVar 0 0 3%Z; TVar 1 1 5%Z; TBin 2 0 2 0 1;
                 TCVar 3 0 false sh [1; 2; 3; 4]%Z; TCVar 4 1 false sh [5; 6; 7; 8]%Z; TMatmul 5 3 4;
                 TBin 6 0 2 0 0; TClear 0; TReset 0; TBin 7 0 2 0 0; TDerivs 7 0] in
  exists st vs, tm_run Zops6 (init 2) script = Some (st, vs) /\
    nth 2 vs (Ok VUnit) = Panic /\ nth 5 vs (Ok VUnit) = Panic /\
    nth 8 vs Panic = Ok (VIdx [0]) /\ nth 10 vs Panic = Ok (VDerivs (Some [6; 1]%Z)) /\
    input_ok 0 (get st 0).
Proof. cbv zeta. do 2 eexists. vm_compute. repeat split; reflexivity. Qed.

(* non-vacuity of C15_cycle_equiv: a machine with history on two lists and a stale product in
   register 6; inputs: the record in register 0 and the 2x2 variables matrix in register 3; the
   script P squares x, multiplies the matrix by itself, takes derivatives, clears and resets x
   again and recomputes *)
Example C15_cycle_nonvacuous :
  let sh := [(0, 2); (1, 2)] in
  let history := [TVar 0 0 3%Z; TVar 1 1 5%Z; TCVar 3 0 false sh [1; 2; 3; 4]%Z; TBin 6 0 2 0 0; TMatmul 8 3 3] in
  let P := [TBin 7 0 2 0 0; TMatmul 9 3 3; TDerivs 7 0; TDerivs 9 3; TClear 0; TReset 0; TBin 7 0 0 0 0; TDerivs 7 0] in
  exists st0 vs0 st1 vs1 stf res,
    tm_run Zops6 (init 2) history = Some (st0, vs0) /\
    NoDup [3; 0] /\ (forall a, In a [3; 0] -> input_ok 0 (get st0 a)) /\
    tm_run Zops6 st0 (TClear 0 :: map TReset [3; 0]) = Some (st1, vs1) /\
    local_run Zops6 (mem [3; 0]) 0 st1 P /\
    tm_run Zops6 st1 P = Some (stf, res) /\
    nth 2 res Panic = Ok (VDerivs (Some [0; 0; 0; 0; 6; 1; 0; 0; 0; 0; 0; 0; 0; 0; 0; 0; 0; 0]%Z)).
Proof.
  cbv zeta. do 6 eexists. split; [vm_compute; reflexivity|].
  split; [repeat constructor; cbn; intuition discriminate|].
  split; [intros a [<-|[<-|[]]]; vm_compute; repeat split; reflexivity|].
  split; [vm_compute; reflexivity|]. split; [vm_compute; repeat split; reflexivity|].
  split; vm_compute; reflexivity.
Qed.

Print Assumptions C15_cross_tape_rejected.
Print Assumptions C15_cross_tape_matmul_rejected.
Print Assumptions C15_derivs_length.
Print Assumptions C15_next_unused.
Print Assumptions C15_cycle_equiv.
