(* C15 - Tape clear/reset cycles and cross-tape misuse behave as documented.
   Only the property theorems (closed by `exact`), the non-vacuity examples and the assumption
   audit.  Definitions: Model/TapeMachine.v (scripts over several WengertLists, registers),
   Model/Container.v (the operations), Proofs/C15P.v, Proofs/C15Q.v, Proofs/C15R.v.
   No theorem of this file is partial.  State after the extension round (session 3, wave 3):
     - `impl Sum for Record` is an OPERATION of the machine (TSum dst regs: left fold from
       Record::zero() with the four-arm match; a sum that panics at its k-th record keeps the
       partial sums of the first k - 1 on the list - the one operation of the machine whose
       panic changes the state).  C15_next_unused is restated so that it covers Sum results
       (a record result sits at the LAST entry appended by its operation; for every operation
       but Sum exactly one entry was appended: the previous statement is kept verbatim as
       C15_next_unused_single_entry); C15_cross_tape_sum_rejected / _sum_never_completes: a sum
       over records of two lists panics, writes no register, and leaves exactly the documented
       partial appends; C15_sum_appends (what one Sum does to the machine);
       C15_sum_is_the_container_fold (a completed Sum is Container.each_sum, i.e. C04's Sum
       node by Proofs/C04S.v); C15_sum_derivs_length (the derivative set of a Sum result).
       Every other theorem below is unchanged in statement and now also quantifies over
       scripts containing TSum (cycle, frame, derivative-length, reachable-state theorems).
     - C15_cross_tape_rejected / _matmul_rejected : per step, from ANY state.  `same_kind`
       only excludes operand pairs for which the crate has no operator at all (record x
       container, RecordTensor x RecordMatrix: the machine reports them as skipped);
       C15_cross_tape_never_mixes drops that hypothesis (panic or skipped, state unchanged).
     - C15_derivs_length (per step, any state, records and container elements) and its
       run-level form C15_derivs_length_run (any script, any interleaving, any state).
     - C15_next_unused : every operation except clear, Sum included (clear is the one operation that
       shrinks a list: C15_clear_restarts_positions - exactly that list becomes empty,
       nothing else changes, so positions start again at 0).
     - C15_cycle_equiv : scripts local to ONE list against a brand-new machine, and
       C15_cycle_equiv_wide : scripts over ANY number of lists (new lists, clears and
       reset-all of any list, variables on any list, cross-list panics) against the machine
       with list t emptied and no stale register; C15_local_run_is_wide: the second class of
       scripts contains the first.
   Remaining hypotheses: `input_ok` (an input container is well shaped) is an invariant of
   reachable states (C15_reachable_input_ok; C15_cycle_equiv_reachable states the wide theorem
   with "the inputs live on list t" only); it stays in the two theorems that start from an
   ARBITRARY state.  `op_ok` asks that matrices are declared with the dimension names 0, 1 (as
   the case language and the harness do).  `wide_run` asks that a script only reads registers
   the comparison machine has, and that a reset-all of list t' is not issued while a register
   the script does not own holds an object of t' (such an object is reset on the real machine
   but does not exist on the fresh one, so the positions handed out would differ). *)
From Coq Require Import List ZArith Bool Arith.
From EasyML Require Import Base.Sx Model.Num Model.Tape Model.Container Model.TapeMachine
  Proofs.TapeP Proofs.C15P Proofs.C15Q Proofs.C15R Proofs.C06P.
Import ListNotations.

(* Every binary operator kind (the six function kinds) between two scalar records, or two
   containers of the same kind (in the four invocation modes: operator, binary /
   elementwise_*, left assign, right assign) that live on two DIFFERENT lists panics and
   leaves the machine unchanged *)
Theorem C15_cross_tape_rejected :
  forall (R : Type) (ops : numops R) (st : @state R) dst mode code a b t1 t2 r,
  obj_hist (get st a) = Some t1 -> obj_hist (get st b) = Some t2 -> t1 <> t2 ->
  same_kind (get st a) (get st b) ->
  step ops st (TBin dst mode code a b) = Some r -> r = (st, Panic).
Proof. exact @cross_tape_binary. Qed.

(* ... and so do both matrix multiplications (RecordTensor and RecordMatrix) *)
Theorem C15_cross_tape_matmul_rejected :
  forall (R : Type) (ops : numops R) (st : @state R) dst a b (x y : cont R) t1 t2 r,
  get st a = OCont x -> get st b = OCont y -> c_tensor x = c_tensor y ->
  c_hist x = Some t1 -> c_hist y = Some t2 -> t1 <> t2 ->
  step ops st (TMatmul dst a b) = Some r -> r = (st, Panic).
Proof. exact @cross_tape_matmul. Qed.

(* ... and WITHOUT any hypothesis on the kinds of the two operands: whatever two registers hold,
   if their objects live on two different lists, a binary operation (any kind, any mode) or a
   matrix multiplication never succeeds and never changes the machine - no list grows, no
   register is written, so no positions of two lists are ever mixed.  The outcome is a panic,
   or (`Err 9`, only for operand pairs the crate has no operator for: record x container,
   RecordTensor x RecordMatrix) "skipped". *)
Theorem C15_cross_tape_never_mixes :
  forall (R : Type) (ops : numops R) (st : @state R) o dst mode code a b t1 t2 st' v,
  o = TBin dst mode code a b \/ o = TMatmul dst a b ->
  obj_hist (get st a) = Some t1 -> obj_hist (get st b) = Some t2 -> t1 <> t2 ->
  step ops st o = Some (st', v) -> st' = st /\ (v = Panic \/ v = Err (SZ 9%Z)).
Proof. exact @cross_tape_inert. Qed.

(* every derivative set (try_derivatives of a record, derivatives_for of a container element)
   has exactly one entry per tape entry *)
Theorem C15_derivs_length :
  forall (R : Type) (ops : numops R) (st st' : @state R) a elem d,
  step ops st (TDerivs a elem) = Some (st', Ok (VDerivs (Some d))) ->
  exists t tp, obj_hist (get st a) = Some t /\ tape_of st t = Some tp /\ length d = length tp.
Proof. exact @derivs_length. Qed.

(* After ANY machine step other than clear: the old tape of every list is a prefix of the new
   one (`grows`), and every newly created object occupies the next unused positions of its list
   (`val_fresh`): a record result sits at the LAST entry its operation appended - position
   old length + length pre, the list having grown by pre ++ [e] - where pre = [] (one entry
   appended, the record sits at the old length) for every operation except `impl Sum`
   (`single` flag = negb (is_sum op)); a Sum over n records appends the partial sums, between 1
   and n entries, and its result is the last of them (C15_sum_appends bounds the number); the
   elements of a container made by a constructor or an elementwise operation (all unary
   kinds, all binary kinds in the four invocation modes) are exactly old length, old length + 1,
   ... in iteration order, as many as entries were appended; the cells of either matrix product
   are strictly increasing positions inside [old length, new length) (each cell is the last of
   the entries appended for it, so they are not contiguous); reset / reset-all hand out strictly
   increasing positions inside [old length, new length).  Positions therefore strictly increase
   between clears.  (A panicking Sum keeps its partial appends: `grows` covers that too.) *)
Theorem C15_next_unused :
  forall (R : Type) (ops : numops R) (st : @state R) op st' v,
  step ops st op = Some (st', v) -> (forall t, op <> TClear t) ->
  grows st st' /\ val_fresh (negb (is_matmul op)) (negb (is_sum op)) st st' v.
Proof. exact @next_unused. Qed.

(* the statement C15_next_unused had before `impl Sum` became an operation of the machine, kept
   verbatim (`val_fresh_single`: a record result appended exactly ONE entry and sits at the
   old length): it holds for every operation other than clear and Sum *)
Theorem C15_next_unused_single_entry :
  forall (R : Type) (ops : numops R) (st : @state R) op st' v,
  step ops st op = Some (st', v) -> (forall t, op <> TClear t) -> (forall dst rs, op <> TSum dst rs) ->
  grows st st' /\ val_fresh_single (negb (is_matmul op)) st st' v.
Proof. exact @next_unused_single. Qed.

(* `impl Sum for Record`.  The transcribed loop body (the four-arm match of
   record_operations.rs) is the `+` of two records ... *)
Theorem C15_sum_step_is_record_addition :
  forall (R : Type) (ops : numops R) tp (total next : rec R),
  sum_step ops tp total next = rec_binary ops tp (Addition ops) total next.
Proof. exact @sum_step_is_add. Qed.

(* ... hence a COMPLETED Sum over registers holding the records xs is the container model's fold
   `each_sum` from Record::zero() (the fold Proofs/C04S.v proves equal to C04's Sum node, entry
   for entry), run on the list of the first non-constant record through the same finish /
   on_tape path as every other operation *)
Theorem C15_sum_is_the_container_fold :
  forall (R : Type) (ops : numops R) (st : @state R) dst rs xs st' z,
  get_recs st rs = Some xs ->
  step ops st (TSum dst rs) = Some (st', Ok (VRec z)) ->
  finish st dst (on_tape st (sum_hist xs)
                   (fun tp => as_rec (each_sum ops tp (rec_constant (nzero ops)) xs))) = Some (st', Ok (VRec z)).
Proof. exact @sum_ok_is_each_sum. Qed.

(* What one Sum does to the machine (any state, any registers holding records xs): there is an
   intermediate state st1 = st with ONLY the list of the first non-constant summed record
   extended, by at most one entry per summed record (nothing at all when every record is a
   constant); the outcome is a panic with st' = st1 (no register written, the partial appends
   stay), or a record z written to dst whose history is that list, sitting at the LAST appended
   entry (a constant z: nothing was appended). *)
Theorem C15_sum_appends :
  forall (R : Type) (ops : numops R) (st : @state R) dst rs xs st' v,
  get_recs st rs = Some xs ->
  step ops st (TSum dst rs) = Some (st', v) ->
  exists st1, grows st st1 /\ regs st1 = regs st /\
    (forall t, sum_hist xs <> Some t -> tape_of st1 t = tape_of st t) /\
    (forall t tp, sum_hist xs = Some t -> tape_of st t = Some tp ->
       exists suf, tape_of st1 t = Some (tp ++ suf) /\ length suf <= length rs /\
         (forall z, v = Ok (VRec z) -> r_hist z = Some t /\
            exists pre e, suf = pre ++ [e] /\ r_idx z = length tp + length pre)) /\
    (sum_hist xs = None -> st1 = st /\ forall z, v = Ok (VRec z) -> r_hist z = None) /\
    ((v = Panic /\ st' = st1) \/
     (exists z, v = Ok (VRec z) /\ st' = put st1 dst (ORec z) /\ r_hist z = sum_hist xs)).
Proof. exact @sum_step_spec. Qed.

(* C15_cross_tape_rejected for Sum.  The summed registers are pre ++ b :: post where the
   registers of `pre` hold records xs that are constants or live on list t1 (at least one on
   t1), register b holds a record of ANOTHER list t2, `post` holds any records.  The call
   panics, writes no register, and the lists are exactly those after summing `pre` alone: the
   partial sums appended before the same-list assertion failed stay on list t1 (unlike every
   other rejected operation, which leaves the machine unchanged), no other list changes. *)
Theorem C15_cross_tape_sum_rejected :
  forall (R : Type) (ops : numops R) (st : @state R) dst pre b post xs y ys t1 t2 r,
  get_recs st pre = Some xs -> get st b = ORec y -> get_recs st post = Some ys ->
  sum_hist xs = Some t1 -> Forall (fun x => r_hist x = None \/ r_hist x = Some t1) xs ->
  r_hist y = Some t2 -> t1 <> t2 ->
  step ops st (TSum dst (pre ++ b :: post)) = Some r ->
  exists stp z, step ops st (TSum dst pre) = Some (stp, Ok (VRec z)) /\ r_hist z = Some t1 /\
    r = (mkState (tapes stp) (regs st), Panic).
Proof. exact @cross_tape_sum. Qed.

(* ... and without any assumption on the order or the kinds: if two of the summed registers hold
   objects of two different lists, the Sum never completes and never writes a register (panic,
   or `Err 9` = skipped when a register holds a container / nothing) *)
Theorem C15_cross_tape_sum_never_completes :
  forall (R : Type) (ops : numops R) (st : @state R) dst rs a b t1 t2 st' v,
  In a rs -> In b rs -> obj_hist (get st a) = Some t1 -> obj_hist (get st b) = Some t2 -> t1 <> t2 ->
  step ops st (TSum dst rs) = Some (st', v) -> regs st' = regs st /\ (v = Panic \/ v = Err (SZ 9%Z)).
Proof. exact @cross_tape_sum_never_ok. Qed.

(* "every derivative set has exactly one entry per tape entry" for a Sum result: the derivative
   set taken right after the Sum has one entry per entry of the list INCLUDING the entries the
   Sum appended (old length + length pre + 1), and the Sum result is its last entry.
   (C15_derivs_length / C15_derivs_length_run cover a Sum result at any later point: they
   speak about whatever record a register holds.) *)
Theorem C15_sum_derivs_length :
  forall (R : Type) (ops : numops R) (st : @state R) dst rs st1 z st2 el d,
  step ops st (TSum dst rs) = Some (st1, Ok (VRec z)) ->
  step ops st1 (TDerivs dst el) = Some (st2, Ok (VDerivs (Some d))) ->
  exists t tp pre en, r_hist z = Some t /\ tape_of st t = Some tp /\ tape_of st1 t = Some (tp ++ pre ++ [en]) /\
    length d = length tp + length pre + 1 /\ r_idx z + 1 = length d /\ length pre < length rs.
Proof. exact @sum_derivs_length. Qed.

(* clear, the one operation C15_next_unused excludes: it empties exactly the named list and
   touches no other list and no register (objects of the list become stale, they are not
   removed); by C15_next_unused the next object created on that list sits at position 0. *)
Theorem C15_clear_restarts_positions :
  forall (R : Type) (ops : numops R) (st : @state R) t st' v,
  step ops st (TClear t) = Some (st', v) ->
  v = Ok VUnit /\ tape_of st' t = Some [] /\ (forall t2, t2 <> t -> tape_of st' t2 = tape_of st t2) /\
  regs st' = regs st.
Proof. exact @clear_spec. Qed.

(* Clear/reset cycles.  From ANY machine state st (any earlier history on any number of lists,
   any number of earlier cycles, stale objects in other registers): after "clear list t; reset
   the inputs (any order)", a script P that is local to the inputs and list t (`local_run`: it
   only reads the inputs or registers written by its own earlier successful operations, names no
   other list, and contains no reset-all / new-list operation) returns step by step - values,
   positions, derivative vectors, panics - exactly the results it returns on a brand-new machine
   (t + 1 empty lists, no registers) on which the inputs are created as new variables /
   variables containers with the same numbers.  P may itself contain further clears and resets
   of its registers, so any number of cycles is covered. *)
Theorem C15_cycle_equiv :
  forall (R : Type) (ops : numops R) (st : @state R) t ins P st1 vs1 stf res,
  NoDup ins -> (forall a, In a ins -> input_ok t (get st a)) ->
  tm_run ops st (TClear t :: map TReset ins) = Some (st1, vs1) ->
  local_run ops (mem ins) t st1 P ->
  tm_run ops st1 P = Some (stf, res) ->
  exists st2 vs2 stf2,
    tm_run ops (init (S t)) (map (fun a => recreate ops t a (get st a)) ins) = Some (st2, vs2) /\
    tm_run ops st2 P = Some (stf2, res).
Proof. exact @cycle_equiv. Qed.

(* The WIDE form of the cycle theorem: the script between / after the cycle may use ANY number
   of lists.  From ANY machine state st: after "clear list t; reset the inputs (any order)", let
   P be a script such that (`wide_run`, checked along the run) every operation only READS
   registers that are inputs, registers of the arbitrary set `keep`, or registers written by an
   earlier successful operation of P, and every reset-all of a list t' is issued in a state in
   which no OTHER register holds an object of t'.  Nothing else is required: P may create
   variables and containers on any list, clear any list, add lists, reset any of its registers,
   reset-all any list, combine objects of different lists (and panic), overwrite registers.
   Then P returns step by step - values, positions, derivative vectors, panics - exactly the
   results it returns on the machine `fresh_start keep t st` (every list as in st except list
   t, which is EMPTY like a new WengertList; only the registers of `keep` exist: no stale
   object) on which the inputs are created as new variables / variables containers with the
   same numbers; and both runs end with identical lists.  With `keep` = nothing this is "a
   fresh tape running the same computation"; `keep` lets the computation use constants and
   variables of other lists created before the cycle. *)
Theorem C15_cycle_equiv_wide :
  forall (R : Type) (ops : numops R) (st : @state R) t ins keep P st1 vs1 stf res,
  NoDup ins -> (forall a, In a ins -> input_ok t (get st a)) ->
  tm_run ops st (TClear t :: map TReset ins) = Some (st1, vs1) ->
  wide_run ops (fun r => mem ins r || keep r) st1 P ->
  tm_run ops st1 P = Some (stf, res) ->
  exists st2 vs2 stf2,
    tm_run ops (fresh_start keep t st) (map (fun a => recreate ops t a (get st a)) ins) = Some (st2, vs2) /\
    tm_run ops st2 P = Some (stf2, res) /\ tapes stf2 = tapes stf.
Proof. exact @cycle_equiv_wide. Qed.

(* `input_ok` is an invariant of the machine: in any state reached from the initial machine by
   a script that declares matrices the way the case language does (dimension names 0 and 1:
   `op_ok`; nothing is asked of any other operation), every container is well shaped, so an
   object is a valid input of a cycle of list t as soon as it lives on t ... *)
Theorem C15_reachable_input_ok :
  forall (R : Type) (ops : numops R) n script (st : @state R) vs t a,
  Forall (@op_ok R) script -> tm_run ops (init n) script = Some (st, vs) ->
  obj_hist (get st a) = Some t -> input_ok t (get st a).
Proof. exact @reachable_input_ok. Qed.

(* ... hence the wide cycle theorem for every history h from the initial machine, with the
   plain hypothesis "the inputs live on list t" *)
Theorem C15_cycle_equiv_reachable :
  forall (R : Type) (ops : numops R) n h (st : @state R) vs0 t ins keep P st1 vs1 stf res,
  Forall (@op_ok R) h -> tm_run ops (init n) h = Some (st, vs0) ->
  NoDup ins -> (forall a, In a ins -> obj_hist (get st a) = Some t) ->
  tm_run ops st (TClear t :: map TReset ins) = Some (st1, vs1) ->
  wide_run ops (fun r => mem ins r || keep r) st1 P ->
  tm_run ops st1 P = Some (stf, res) ->
  exists st2 vs2 stf2,
    tm_run ops (fresh_start keep t st) (map (fun a => recreate ops t a (get st a)) ins) = Some (st2, vs2) /\
    tm_run ops st2 P = Some (stf2, res) /\ tapes stf2 = tapes stf.
Proof. exact @cycle_equiv_reachable. Qed.

(* every script accepted by C15_cycle_equiv is accepted by C15_cycle_equiv_wide *)
Theorem C15_local_run_is_wide :
  forall (R : Type) (ops : numops R) t script Q (st : @state R),
  local_run ops Q t st script -> wide_run ops Q st script.
Proof. exact @local_run_is_wide. Qed.

(* Run-level form of C15_derivs_length.  Along ANY script (any interleaving of creations,
   operations, clears, resets, on any lists) from ANY state: a result `Ok (VDerivs (Some d))`
   at step k only comes from a derivatives operation (of a record or of a container element)
   whose object has a list, and d has exactly one entry per entry of that list in the state
   the operation ran in (the state reached by the first k operations) - in particular after
   clears and after clear + reset. *)
Theorem C15_derivs_length_run :
  forall (R : Type) (ops : numops R) script (st stf : @state R) vs,
  tm_run ops st script = Some (stf, vs) ->
  forall k d, nth_error vs k = Some (Ok (VDerivs (Some d))) ->
  exists a elem stk vsk t tp, nth_error script k = Some (TDerivs a elem) /\
    tm_run ops st (firstn k script) = Some (stk, vsk) /\
    obj_hist (get stk a) = Some t /\ tape_of stk t = Some tp /\ length d = length tp.
Proof. exact @derivs_length_run. Qed.

(* non-vacuity: two lists; x on list 0, y on list 1, a 2x2 variables matrix on each.
   x * y and the matrix product across lists panic; after some work on list 0, clear + reset of
   x reaches a state where x sits at position 0 again and a derivative vector of the rebuilt
   expression has as many entries as the tape. *)
Example C15_nonvacuous :
  let sh := [(0, 2); (1, 2)] in
  let script := [TVar 0 0 3%Z; TVar 1 1 5%Z; TBin 2 0 2 0 1;
                 TCVar 3 0 false sh [1; 2; 3; 4]%Z; TCVar 4 1 false sh [5; 6; 7; 8]%Z; TMatmul 5 3 4;
                 TBin 6 0 2 0 0; TClear 0; TReset 0; TBin 7 0 2 0 0; TDerivs 7 0] in
  exists st vs, tm_run Zops6 (init 2) script = Some (st, vs) /\
    nth 2 vs (Ok VUnit) = Panic /\ nth 5 vs (Ok VUnit) = Panic /\
    nth 8 vs Panic = Ok (VIdx [0]) /\ nth 10 vs Panic = Ok (VDerivs (Some [6; 1]%Z)) /\
    input_ok 0 (get st 0).
Proof. cbv zeta. do 2 eexists. vm_compute. repeat split; reflexivity. Qed.

(* non-vacuity of the Sum theorems: x0, x1 on list 0, a constant, y on list 1.  sum(x0, c, x1)
   appends THREE entries (0 + x0, + c, + x1) and sits at the last one (position 4), its
   derivative set has 5 entries; sum(x0, x1, y, x0) panics at y, keeps the two partial sums
   (list 0 now has 7 entries: the derivative set of x0 shows it), writes no register; the
   empty sum and a sum of constants are constants; summing one variable appends one entry. *)
Example C15_sum_nonvacuous :
  let script := [TVar 0 0 3%Z; TVar 1 0 4%Z; TConst 2 10%Z; TVar 3 1 5%Z; TSum 4 [0; 2; 1]; TDerivs 4 0;
                 TSum 5 [0; 1; 3; 0]; TDerivs 0 0; TSum 6 []; TSum 7 [2; 2]; TSum 8 [3]; TDerivs 8 0] in
  exists st vs, tm_run Zops6 (init 2) script = Some (st, vs) /\
    nth 4 vs Panic = Ok (VRec (mkRec 17%Z (Some 0) 4)) /\
    nth 5 vs Panic = Ok (VDerivs (Some [1; 1; 1; 1; 1]%Z)) /\
    nth 6 vs (Ok VUnit) = Panic /\ get st 5 = ODead /\
    nth 7 vs Panic = Ok (VDerivs (Some [1; 0; 0; 0; 0; 0; 0]%Z)) /\
    nth 8 vs Panic = Ok (VRec (mkRec 0%Z None 0)) /\ nth 9 vs Panic = Ok (VRec (mkRec 20%Z None 0)) /\
    nth 10 vs Panic = Ok (VRec (mkRec 5%Z (Some 1) 1)) /\
    map (@length _) (tapes st) = [7; 2] /\
    (* the hypotheses of C15_cross_tape_sum_rejected hold for pre = [0; 1], b = 3, post = [0] *)
    sum_hist [mkRec 3%Z (Some 0) 0; mkRec 4%Z (Some 0) 1] = Some 0.
Proof. cbv zeta. do 2 eexists. vm_compute. repeat split; reflexivity. Qed.

(* non-vacuity of the cycle theorems on scripts that contain Sum: history with a stale sum in
   register 5; inputs x0, x1 on list 0; the script sums (x0, c, x1), takes the derivative set,
   clears, resets both inputs and sums again in the other order.  It is local to list 0 (hence
   also wide), so C15_cycle_equiv applies: same results on a brand-new machine. *)
Example C15_cycle_sum_nonvacuous :
  let history := [TVar 0 0 3%Z; TVar 1 0 4%Z; TSum 5 [0; 1; 0]; TVar 6 1 9%Z] in
  let P := [TConst 2 7%Z; TSum 3 [0; 2; 1]; TDerivs 3 0; TClear 0; TReset 0; TReset 1; TSum 3 [1; 0]; TDerivs 3 0] in
  exists st0 vs0 st1 vs1 stf res,
    tm_run Zops6 (init 2) history = Some (st0, vs0) /\
    NoDup [1; 0] /\ (forall a, In a [1; 0] -> input_ok 0 (get st0 a)) /\
    tm_run Zops6 st0 (TClear 0 :: map TReset [1; 0]) = Some (st1, vs1) /\
    local_run Zops6 (mem [1; 0]) 0 st1 P /\
    tm_run Zops6 st1 P = Some (stf, res) /\
    nth 1 res Panic = Ok (VRec (mkRec 14%Z (Some 0) 4)) /\
    nth 2 res Panic = Ok (VDerivs (Some [1; 1; 1; 1; 1]%Z)) /\
    nth 6 res Panic = Ok (VRec (mkRec 7%Z (Some 0) 3)).
Proof.
  cbv zeta. do 6 eexists. split; [vm_compute; reflexivity|].
  split; [repeat constructor; cbn; intuition discriminate|].
  split; [intros a [<-|[<-|[]]]; vm_compute; repeat split; reflexivity|].
  split; [vm_compute; reflexivity|]. split; [vm_compute; repeat split; reflexivity|].
  repeat split; vm_compute; reflexivity.
Qed.

(* non-vacuity of C15_cycle_equiv: a machine with history on two lists and a stale product in
   register 6; inputs: the record in register 0 and the 2x2 variables matrix in register 3; the
   script P squares x, multiplies the matrix by itself, takes derivatives, clears and resets x
   again and recomputes *)
Example C15_cycle_nonvacuous :
  let sh := [(0, 2); (1, 2)] in
  let history := [TVar 0 0 3%Z; TVar 1 1 5%Z; TCVar 3 0 false sh [1; 2; 3; 4]%Z; TBin 6 0 2 0 0; TMatmul 8 3 3] in
  let P := [TBin 7 0 2 0 0; TMatmul 9 3 3; TDerivs 7 0; TDerivs 9 3; TClear 0; TReset 0; TBin 7 0 0 0 0; TDerivs 7 0] in
  exists st0 vs0 st1 vs1 stf res,
    tm_run Zops6 (init 2) history = Some (st0, vs0) /\
    NoDup [3; 0] /\ (forall a, In a [3; 0] -> input_ok 0 (get st0 a)) /\
    tm_run Zops6 st0 (TClear 0 :: map TReset [3; 0]) = Some (st1, vs1) /\
    local_run Zops6 (mem [3; 0]) 0 st1 P /\
    tm_run Zops6 st1 P = Some (stf, res) /\
    nth 2 res Panic = Ok (VDerivs (Some [0; 0; 0; 0; 6; 1; 0; 0; 0; 0; 0; 0; 0; 0; 0; 0; 0; 0]%Z)).
Proof.
  cbv zeta. do 6 eexists. split; [vm_compute; reflexivity|].
  split; [repeat constructor; cbn; intuition discriminate|].
  split; [intros a [<-|[<-|[]]]; vm_compute; repeat split; reflexivity|].
  split; [vm_compute; reflexivity|]. split; [vm_compute; repeat split; reflexivity|].
  split; vm_compute; reflexivity.
Qed.

(* non-vacuity of C15_cycle_equiv_wide: history on two lists; x (register 0) and a 2x2 matrix
   (register 3) on list 0 are the inputs, y on list 1 (register 1) and a constant (register 2)
   are kept, register 6 holds a stale product of list 0.  The script P works on BOTH lists:
   squares x, creates a variable on list 1 and multiplies it with y, adds x and y across lists
   (panic), makes a third list and a variable on it, takes derivatives on list 1, clears
   list 1 and resets all its objects (allowed: the only register outside the set, 6, is on
   list 0), takes derivatives on list 0, multiplies the matrix by itself, multiplies x by the
   kept constant. *)
Example C15_cycle_wide_nonvacuous :
  let sh := [(0, 2); (1, 2)] in
  let history := [TVar 0 0 3%Z; TVar 1 1 5%Z; TCVar 3 0 false sh [1; 2; 3; 4]%Z; TBin 6 0 2 0 0; TConst 2 7%Z] in
  let P := [TBin 7 0 2 0 0; TVar 4 1 2%Z; TBin 5 0 2 1 4; TBin 8 0 0 0 1; TNewTape; TVar 9 2 11%Z;
            TDerivs 5 0; TClear 1; TResetAll 1; TDerivs 7 0; TMatmul 10 3 3; TBin 11 0 2 0 2] in
  exists st0 vs0 st1 vs1 stf res,
    tm_run Zops6 (init 2) history = Some (st0, vs0) /\
    NoDup [3; 0] /\ (forall a, In a [3; 0] -> input_ok 0 (get st0 a)) /\
    tm_run Zops6 st0 (TClear 0 :: map TReset [3; 0]) = Some (st1, vs1) /\
    wide_run Zops6 (fun r => mem [3; 0] r || mem [1; 2] r) st1 P /\
    tm_run Zops6 st1 P = Some (stf, res) /\
    nth 3 res (Ok VUnit) = Panic /\
    nth 6 res Panic = Ok (VDerivs (Some [2; 5; 1]%Z)) /\
    nth 8 res Panic = Ok (VIdx [0; 1; 2]) /\
    nth 9 res Panic = Ok (VDerivs (Some [0; 0; 0; 0; 6; 1]%Z)).
Proof.
  cbv zeta. do 6 eexists. split; [vm_compute; reflexivity|].
  split; [repeat constructor; cbn; intuition discriminate|].
  split; [intros a [<-|[<-|[]]]; vm_compute; repeat split; reflexivity|].
  split; [vm_compute; reflexivity|].
  split.
  { vm_compute. repeat split.
    intros r Hq. do 12 (destruct r as [|r]; [try discriminate Hq; discriminate|]).
    destruct r; discriminate. }
  split; [vm_compute; reflexivity|]. vm_compute. repeat split; reflexivity.
Qed.

(* non-vacuity of C15_reachable_input_ok / C15_cycle_equiv_reachable: the history of the
   example above satisfies op_ok and reaches a state with a matrix on list 0 in register 3 *)
Example C15_reachable_nonvacuous :
  let sh := [(0, 2); (1, 2)] in
  let history := [TVar 0 0 3%Z; TVar 1 1 5%Z; TCVar 3 0 false sh [1; 2; 3; 4]%Z; TBin 6 0 2 0 0; TConst 2 7%Z] in
  Forall (@op_ok Z) history /\
  exists st vs, tm_run Zops6 (init 2) history = Some (st, vs) /\ obj_hist (get st 3) = Some 0.
Proof. cbv zeta. split; [repeat constructor|]. do 2 eexists. split; vm_compute; reflexivity. Qed.

Print Assumptions C15_cross_tape_rejected.
Print Assumptions C15_cross_tape_matmul_rejected.
Print Assumptions C15_derivs_length.
Print Assumptions C15_next_unused.
Print Assumptions C15_next_unused_single_entry.
Print Assumptions C15_sum_step_is_record_addition.
Print Assumptions C15_sum_is_the_container_fold.
Print Assumptions C15_sum_appends.
Print Assumptions C15_cross_tape_sum_rejected.
Print Assumptions C15_cross_tape_sum_never_completes.
Print Assumptions C15_sum_derivs_length.
Print Assumptions C15_clear_restarts_positions.
Print Assumptions C15_cycle_equiv.
Print Assumptions C15_cross_tape_never_mixes.
Print Assumptions C15_cycle_equiv_wide.
Print Assumptions C15_local_run_is_wide.
Print Assumptions C15_derivs_length_run.
Print Assumptions C15_reachable_input_ok.
Print Assumptions C15_cycle_equiv_reachable.
