(* C15 - Tape clear/reset cycles and cross-tape misuse behave as documented.
   Only the property theorems (closed by `exact`), the non-vacuity example and the assumption
   audit.  Definitions: Model/TapeMachine.v (scripts over several WengertLists, registers),
   Model/Container.v (the operations), Proofs/C15P.v.  Where a theorem is `_partial`, the full
   statement and what is missing are spelled out in Proofs/C15P.v next to the proof and
   repeated here. *)
From Coq Require Import List ZArith Bool Arith.
From EasyML Require Import Base.Sx Model.Num Model.Tape Model.Container Model.TapeMachine
  Proofs.TapeP Proofs.C15P Proofs.C06P.
Import ListNotations.

(* Every binary operator kind (the six function kinds) between two scalar records, or two
   containers of the same kind (in the four invocation modes: operator, binary /
   elementwise_*, left assign, right assign) that live on two DIFFERENT lists panics and
   leaves the machine unchanged *)
Theorem C15_cross_tape_rejected :
  forall (R : Type) (ops : numops R) (st : @state R) dst mode code a b t1 t2 r,
  obj_hist (get st a) = Some t1 -> obj_hist (get st b) = Some t2 -> t1 <> t2 ->
  same_kind (get st a) (get st b) ->
  step ops st (TBin dst mode code a b) = Some r -> r = (st, Panic).
Proof. exact @cross_tape_binary. Qed.

(* ... and so do both matrix multiplications (RecordTensor and RecordMatrix) *)
Theorem C15_cross_tape_matmul_rejected :
  forall (R : Type) (ops : numops R) (st : @state R) dst a b (x y : cont R) t1 t2 r,
  get st a = OCont x -> get st b = OCont y -> c_tensor x = c_tensor y ->
  c_hist x = Some t1 -> c_hist y = Some t2 -> t1 <> t2 ->
  step ops st (TMatmul dst a b) = Some r -> r = (st, Panic).
Proof. exact @cross_tape_matmul. Qed.

(* every derivative set (try_derivatives of a record, derivatives_for of a container element)
   has exactly one entry per tape entry *)
Theorem C15_derivs_length :
  forall (R : Type) (ops : numops R) (st st' : @state R) a elem d,
  step ops st (TDerivs a elem) = Some (st', Ok (VDerivs (Some d))) ->
  exists t tp, obj_hist (get st a) = Some t /\ tape_of st t = Some tp /\ length d = length tp.
Proof. exact @derivs_length. Qed.

(* FULL STATEMENT (C15_next_unused): every append of every machine operation returns the
   current length and positions strictly increase between clears.  PROVED: for every appending
   primitive of the model (scalar record operations; batch constructors / resets; see also
   unary_loop_positions, binary_*_positions in Proofs/C15P.v for the four batch helpers of the
   elementwise container operations): the old tape is a prefix, the positions are old length,
   old length + 1, ...  MISSING: record_scalar_product / matrix multiplication and the lifting
   through `step` (both compared position by position in the correspondence check). *)
Theorem C15_next_unused_partial :
  forall (R : Type) (ops : numops R),
  (forall (t : tape R) h x, rec_variable ops t h x =
     (t ++ [mkEntry (length t) (length t) (nzero ops) (nzero ops)], mkRec x (Some h) (length t))) /\
  (forall (t : tape R) (x : rec R) h, r_hist x = Some h -> exists e,
     rec_reset ops t x = (t ++ [e], mkRec (r_num x) (Some h) (length t))) /\
  (forall (t : tape R) f (x : rec R) h, r_hist x = Some h -> exists e v,
     rec_unary ops t f x = (t ++ [e], mkRec v (Some h) (length t))) /\
  (forall (t : tape R) f (x y : rec R) t' z h, rec_binary ops t f x y = Ok (t', z) -> r_hist z = Some h ->
     exists e, t' = t ++ [e] /\ r_idx z = length t) /\
  (forall (t : tape R) h tensor sh data, length data = elements sh ->
     exists suf, fst (c_variables ops t h tensor sh data) = t ++ suf /\ length suf = elements sh /\
       map snd (c_data (snd (c_variables ops t h tensor sh data))) = seq (length t) (elements sh)) /\
  (forall (t : tape R) (x : cont R) h, c_hist x = Some h -> length (c_data x) = elements (c_shape x) ->
     exists suf, fst (c_reset ops t x) = t ++ suf /\ length suf = elements (c_shape x) /\
       map snd (c_data (snd (c_reset ops t x))) = seq (length t) (elements (c_shape x)) /\
       map fst (c_data (snd (c_reset ops t x))) = map fst (c_data x)).
Proof. exact @next_unused_primitives. Qed.

Theorem C15_next_unused_elementwise_partial :
  forall (R : Type) (ops : numops R) f records (t : tape R) t' ys,
  unary_loop ops t f records = (t', ys) ->
  (exists suf, t' = t ++ suf) /\ length t' = length t + length records /\
  map snd ys = seq (length t) (length records).
Proof. exact @unary_loop_positions. Qed.

(* FULL STATEMENT (C15_cycle_equiv): running P after "clear; reset all live inputs" gives the
   same values and derivatives as on a fresh tape, any number of cycles.  PROVED: from ANY
   machine state (any history, any number of earlier cycles) "clear list t; reset the inputs"
   reaches EXACTLY the state reached by "clear list t; create every input again as new
   variable(s) with the same numbers", so every script P run afterwards returns identical
   results.  MISSING: the frame property (registers / lists P does not touch cannot influence
   it), i.e. the comparison with a machine that holds nothing but the new variables. *)
Theorem C15_cycle_equiv_partial :
  forall (R : Type) (ops : numops R) (st : @state R) t ins stf vs P,
  NoDup ins -> (forall a, In a ins -> input_ok t (get st a)) ->
  tm_run ops st (TClear t :: map TReset ins) = Some (stf, vs) ->
  exists stf' vs',
    tm_run ops st (TClear t :: map (fun a => recreate ops t a (get st a)) ins) = Some (stf', vs') /\
    tm_run ops stf' P = tm_run ops stf P.
Proof. exact @run_after_cycle. Qed.

(* non-vacuity: two lists; x on list 0, y on list 1, a 2x2 variables matrix on each.
   x * y and the matrix product across lists panic; after some work on list 0, clear + reset of
   x reaches a state where x sits at position 0 again and a derivative vector of the rebuilt
   expression has as many entries as the tape. *)
Example C15_nonvacuous :
  let sh := [(0, 2); (1, 2)] in
  let script := [TVar 0 0 3%Z; TVar 1 1 5%Z; TBin 2 0 2 0 1;
                 TCVar 3 0 false sh [1; 2; 3; 4]%Z; TCVar 4 1 false sh [5; 6; 7; 8]%Z; TMatmul 5 3 4;
                 TBin 6 0 2 0 0; TClear 0; TReset 0; TBin 7 0 2 0 0; TDerivs 7 0] in
  exists st vs, tm_run Zops6 (init 2) script = Some (st, vs) /\
    nth 2 vs (Ok VUnit) = Panic /\ nth 5 vs (Ok VUnit) = Panic /\
    nth 8 vs Panic = Ok (VIdx [0]) /\ nth 10 vs Panic = Ok (VDerivs (Some [6; 1]%Z)) /\
    input_ok 0 (get st 0).
Proof. cbv zeta. do 2 eexists. vm_compute. repeat split; reflexivity. Qed.

Print Assumptions C15_cross_tape_rejected.
Print Assumptions C15_cross_tape_matmul_rejected.
Print Assumptions C15_derivs_length.
Print Assumptions C15_next_unused_partial.
Print Assumptions C15_next_unused_elementwise_partial.
Print Assumptions C15_cycle_equiv_partial.
