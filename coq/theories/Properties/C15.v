(* C15 - Tape clear/reset cycles and cross-tape misuse behave as documented.
   Only the property theorems (closed by `exact`), the non-vacuity examples and the assumption
   audit.  Definitions: Model/TapeMachine.v (scripts over several WengertLists, registers),
   Model/Container.v (the operations), Proofs/C15P.v, Proofs/C15Q.v, Proofs/C15R.v.
   No theorem of this file is partial.  State after the extension round (session 3):
     - C15_cross_tape_rejected / _matmul_rejected : per step, from ANY state.  `same_kind`
       only excludes operand pairs for which the crate has no operator at all (record x
       container, RecordTensor x RecordMatrix: the machine reports them as skipped);
       C15_cross_tape_never_mixes drops that hypothesis (panic or skipped, state unchanged).
     - C15_derivs_length (per step, any state, records and container elements) and its
       run-level form C15_derivs_length_run (any script, any interleaving, any state).
     - C15_next_unused : every operation except clear (clear is the one operation that
       shrinks a list: C15_clear_restarts_positions - exactly that list becomes empty,
       nothing else changes, so positions start again at 0).
     - C15_cycle_equiv : scripts local to ONE list against a brand-new machine, and
       C15_cycle_equiv_wide : scripts over ANY number of lists (new lists, clears and
       reset-all of any list, variables on any list, cross-list panics) against the machine
       with list t emptied and no stale register; C15_local_run_is_wide: the second class of
       scripts contains the first.
   Remaining hypotheses: `input_ok` (an input container is well shaped) is an invariant of
   reachable states (C15_reachable_input_ok; C15_cycle_equiv_reachable states the wide theorem
   with "the inputs live on list t" only); it stays in the two theorems that start from an
   ARBITRARY state.  `op_ok` asks that matrices are declared with the dimension names 0, 1 (as
   the case language and the harness do).  `wide_run` asks that a script only reads registers
   the comparison machine has, and that a reset-all of list t' is not issued while a register
   the script does not own holds an object of t' (such an object is reset on the real machine
   but does not exist on the fresh one, so the positions handed out would differ). *)
From Coq Require Import List ZArith Bool Arith.
From EasyML Require Import Base.Sx Model.Num Model.Tape Model.Container Model.TapeMachine
  Proofs.TapeP Proofs.C15P Proofs.C15Q Proofs.C15R Proofs.C06P.
Import ListNotations.

(* Every binary operator kind (the six function kinds) between two scalar records, or two
   containers of the same kind (in the four invocation modes: operator, binary /
   elementwise_*, left assign, right assign) that live on two DIFFERENT lists panics and
   leaves the machine unchanged *)
Theorem C15_cross_tape_rejected :
  forall (R : Type) (ops : numops R) (st : @state R) dst mode code a b t1 t2 r,
  obj_hist (get st a) = Some t1 -> obj_hist (get st b) = Some t2 -> t1 <> t2 ->
  same_kind (get st a) (get st b) ->
  step ops st (TBin dst mode code a b) = Some r -> r = (st, Panic).
Proof. exact @cross_tape_binary. Qed.

(* ... and so do both matrix multiplications (RecordTensor and RecordMatrix) *)
Theorem C15_cross_tape_matmul_rejected :
  forall (R : Type) (ops : numops R) (st : @state R) dst a b (x y : cont R) t1 t2 r,
  get st a = OCont x -> get st b = OCont y -> c_tensor x = c_tensor y ->
  c_hist x = Some t1 -> c_hist y = Some t2 -> t1 <> t2 ->
  step ops st (TMatmul dst a b) = Some r -> r = (st, Panic).
Proof. exact @cross_tape_matmul. Qed.

(* ... and WITHOUT any hypothesis on the kinds of the two operands: whatever two registers hold,
   if their objects live on two different lists, a binary operation (any kind, any mode) or a
   matrix multiplication never succeeds and never changes the machine - no list grows, no
   register is written, so no positions of two lists are ever mixed.  The outcome is a panic,
   or (`Err 9`, only for operand pairs the crate has no operator for: record x container,
   RecordTensor x RecordMatrix) "skipped". *)
Theorem C15_cross_tape_never_mixes :
  forall (R : Type) (ops : numops R) (st : @state R) o dst mode code a b t1 t2 st' v,
  o = TBin dst mode code a b \/ o = TMatmul dst a b ->
  obj_hist (get st a) = Some t1 -> obj_hist (get st b) = Some t2 -> t1 <> t2 ->
  step ops st o = Some (st', v) -> st' = st /\ (v = Panic \/ v = Err (SZ 9%Z)).
Proof. exact @cross_tape_inert. Qed.

(* every derivative set (try_derivatives of a record, derivatives_for of a container element)
   has exactly one entry per tape entry *)
Theorem C15_derivs_length :
  forall (R : Type) (ops : numops R) (st st' : @state R) a elem d,
  step ops st (TDerivs a elem) = Some (st', Ok (VDerivs (Some d))) ->
  exists t tp, obj_hist (get st a) = Some t /\ tape_of st t = Some tp /\ length d = length tp.
Proof. exact @derivs_length. Qed.

(* After ANY machine step other than clear: the old tape of every list is a prefix of the new
   one (`grows`), and every newly created object occupies the next unused positions of its list
   (`val_fresh`): a record sits at the old length, one entry appended; the elements of a
   container made by a constructor or an elementwise operation (all unary kinds, all binary
   kinds in the four invocation modes) are exactly old length, old length + 1, ... in iteration
   order, as many as entries were appended; the cells of either matrix product are strictly
   increasing positions inside [old length, new length) (each cell is the last of the entries
   appended for it, so they are not contiguous); reset / reset-all hand out strictly
   increasing positions inside [old length, new length).  Positions therefore strictly increase
   between clears. *)
Theorem C15_next_unused :
  forall (R : Type) (ops : numops R) (st : @state R) op st' v,
  step ops st op = Some (st', v) -> (forall t, op <> TClear t) ->
  grows st st' /\ val_fresh (negb (is_matmul op)) st st' v.
Proof. exact @next_unused. Qed.

(* clear, the one operation C15_next_unused excludes: it empties exactly the named list and
   touches no other list and no register (objects of the list become stale, they are not
   removed); by C15_next_unused the next object created on that list sits at position 0. *)
Theorem C15_clear_restarts_positions :
  forall (R : Type) (ops : numops R) (st : @state R) t st' v,
  step ops st (TClear t) = Some (st', v) ->
  v = Ok VUnit /\ tape_of st' t = Some [] /\ (forall t2, t2 <> t -> tape_of st' t2 = tape_of st t2) /\
  regs st' = regs st.
Proof. exact @clear_spec. Qed.

(* Clear/reset cycles.  From ANY machine state st (any earlier history on any number of lists,
   any number of earlier cycles, stale objects in other registers): after "clear list t; reset
   the inputs (any order)", a script P that is local to the inputs and list t (`local_run`: it
   only reads the inputs or registers written by its own earlier successful operations, names no
   other list, and contains no reset-all / new-list operation) returns step by step - values,
   positions, derivative vectors, panics - exactly the results it returns on a brand-new machine
   (t + 1 empty lists, no registers) on which the inputs are created as new variables /
   variables containers with the same numbers.  P may itself contain further clears and resets
   of its registers, so any number of cycles is covered. *)
Theorem C15_cycle_equiv :
  forall (R : Type) (ops : numops R) (st : @state R) t ins P st1 vs1 stf res,
  NoDup ins -> (forall a, In a ins -> input_ok t (get st a)) ->
  tm_run ops st (TClear t :: map TReset ins) = Some (st1, vs1) ->
  local_run ops (mem ins) t st1 P ->
  tm_run ops st1 P = Some (stf, res) ->
  exists st2 vs2 stf2,
    tm_run ops (init (S t)) (map (fun a => recreate ops t a (get st a)) ins) = Some (st2, vs2) /\
    tm_run ops st2 P = Some (stf2, res).
Proof. exact @cycle_equiv. Qed.

(* The WIDE form of the cycle theorem: the script between / after the cycle may use ANY number
   of lists.  From ANY machine state st: after "clear list t; reset the inputs (any order)", let
   P be a script such that (`wide_run`, checked along the run) every operation only READS
   registers that are inputs, registers of the arbitrary set `keep`, or registers written by an
   earlier successful operation of P, and every reset-all of a list t' is issued in a state in
   which no OTHER register holds an object of t'.  Nothing else is required: P may create
   variables and containers on any list, clear any list, add lists, reset any of its registers,
   reset-all any list, combine objects of different lists (and panic), overwrite registers.
   Then P returns step by step - values, positions, derivative vectors, panics - exactly the
   results it returns on the machine `fresh_start keep t st` (every list as in st except list
   t, which is EMPTY like a new WengertList; only the registers of `keep` exist: no stale
   object) on which the inputs are created as new variables / variables containers with the
   same numbers; and both runs end with identical lists.  With `keep` = nothing this is "a
   fresh tape running the same computation"; `keep` lets the computation use constants and
   variables of other lists created before the cycle. *)
Theorem C15_cycle_equiv_wide :
  forall (R : Type) (ops : numops R) (st : @state R) t ins keep P st1 vs1 stf res,
  NoDup ins -> (forall a, In a ins -> input_ok t (get st a)) ->
  tm_run ops st (TClear t :: map TReset ins) = Some (st1, vs1) ->
  wide_run ops (fun r => mem ins r || keep r) st1 P ->
  tm_run ops st1 P = Some (stf, res) ->
  exists st2 vs2 stf2,
    tm_run ops (fresh_start keep t st) (map (fun a => recreate ops t a (get st a)) ins) = Some (st2, vs2) /\
    tm_run ops st2 P = Some (stf2, res) /\ tapes stf2 = tapes stf.
Proof. exact @cycle_equiv_wide. Qed.

(* `input_ok` is an invariant of the machine: in any state reached from the initial machine by
   a script that declares matrices the way the case language does (dimension names 0 and 1:
   `op_ok`; nothing is asked of any other operation), every container is well shaped, so an
   object is a valid input of a cycle of list t as soon as it lives on t ... *)
Theorem C15_reachable_input_ok :
  forall (R : Type) (ops : numops R) n script (st : @state R) vs t a,
  Forall (@op_ok R) script -> tm_run ops (init n) script = Some (st, vs) ->
  obj_hist (get st a) = Some t -> input_ok t (get st a).
Proof. exact @reachable_input_ok. Qed.

(* ... hence the wide cycle theorem for every history h from the initial machine, with the
   plain hypothesis "the inputs live on list t" *)
Theorem C15_cycle_equiv_reachable :
  forall (R : Type) (ops : numops R) n h (st : @state R) vs0 t ins keep P st1 vs1 stf res,
  Forall (@op_ok R) h -> tm_run ops (init n) h = Some (st, vs0) ->
  NoDup ins -> (forall a, In a ins -> obj_hist (get st a) = Some t) ->
  tm_run ops st (TClear t :: map TReset ins) = Some (st1, vs1) ->
  wide_run ops (fun r => mem ins r || keep r) st1 P ->
  tm_run ops st1 P = Some (stf, res) ->
  exists st2 vs2 stf2,
    tm_run ops (fresh_start keep t st) (map (fun a => recreate ops t a (get st a)) ins) = Some (st2, vs2) /\
    tm_run ops st2 P = Some (stf2, res) /\ tapes stf2 = tapes stf.
Proof. exact @cycle_equiv_reachable. Qed.

(* every script accepted by C15_cycle_equiv is accepted by C15_cycle_equiv_wide *)
Theorem C15_local_run_is_wide :
  forall (R : Type) (ops : numops R) t script Q (st : @state R),
  local_run ops Q t st script -> wide_run ops Q st script.
Proof. exact @local_run_is_wide. Qed.

(* Run-level form of C15_derivs_length.  Along ANY script (any interleaving of creations,
   operations, clears, resets, on any lists) from ANY state: a result `Ok (VDerivs (Some d))`
   at step k only comes from a derivatives operation (of a record or of a container element)
   whose object has a list, and d has exactly one entry per entry of that list in the state
   the operation ran in (the state reached by the first k operations) - in particular after
   clears and after clear + reset. *)
Theorem C15_derivs_length_run :
  forall (R : Type) (ops : numops R) script (st stf : @state R) vs,
  tm_run ops st script = Some (stf, vs) ->
  forall k d, nth_error vs k = Some (Ok (VDerivs (Some d))) ->
  exists a elem stk vsk t tp, nth_error script k = Some (TDerivs a elem) /\
    tm_run ops st (firstn k script) = Some (stk, vsk) /\
    obj_hist (get stk a) = Some t /\ tape_of stk t = Some tp /\ length d = length tp.
Proof. exact @derivs_length_run. Qed.

(* non-vacuity: two lists; x on list 0, y on list 1, a 2x2 variables matrix on each.
   x * y and the matrix product across lists panic; after some work on list 0, clear + reset of
   x reaches a state where x sits at position 0 again and a derivative vector of the rebuilt
   expression has as many entries as the tape. *)
Example C15_nonvacuous :
  let sh := [(0, 2); (1, 2)] in
  let script := [TVar 0 0 3%Z; TVar 1 1 5%Z; TBin 2 0 2 0 1;
                 TCVar 3 0 false sh [1; 2; 3; 4]%Z; TCVar 4 1 false sh [5; 6; 7; 8]%Z; TMatmul 5 3 4;
                 TBin 6 0 2 0 0; TClear 0; TReset 0; TBin 7 0 2 0 0; TDerivs 7 0] in
  exists st vs, tm_run Zops6 (init 2) script = Some (st, vs) /\
    nth 2 vs (Ok VUnit) = Panic /\ nth 5 vs (Ok VUnit) = Panic /\
    nth 8 vs Panic = Ok (VIdx [0]) /\ nth 10 vs Panic = Ok (VDerivs (Some [6; 1]%Z)) /\
    input_ok 0 (get st 0).
Proof. cbv zeta. do 2 eexists. vm_compute. repeat split; reflexivity. Qed.

(* non-vacuity of C15_cycle_equiv: a machine with history on two lists and a stale product in
   register 6; inputs: the record in register 0 and the 2x2 variables matrix in register 3; the
   script P squares x, multiplies the matrix by itself, takes derivatives, clears and resets x
   again and recomputes *)
Example C15_cycle_nonvacuous :
  let sh := [(0, 2); (1, 2)] in
  let history := [TVar 0 0 3%Z; TVar 1 1 5%Z; TCVar 3 0 false sh [1; 2; 3; 4]%Z; TBin 6 0 2 0 0; TMatmul 8 3 3] in
  let P := [TBin 7 0 2 0 0; TMatmul 9 3 3; TDerivs 7 0; TDerivs 9 3; TClear 0; TReset 0; TBin 7 0 0 0 0; TDerivs 7 0] in
  exists st0 vs0 st1 vs1 stf res,
    tm_run Zops6 (init 2) history = Some (st0, vs0) /\
    NoDup [3; 0] /\ (forall a, In a [3; 0] -> input_ok 0 (get st0 a)) /\
    tm_run Zops6 st0 (TClear 0 :: map TReset [3; 0]) = Some (st1, vs1) /\
    local_run Zops6 (mem [3; 0]) 0 st1 P /\
    tm_run Zops6 st1 P = Some (stf, res) /\
    nth 2 res Panic = Ok (VDerivs (Some [0; 0; 0; 0; 6; 1; 0; 0; 0; 0; 0; 0; 0; 0; 0; 0; 0; 0]%Z)).
Proof.
  cbv zeta. do 6 eexists. split; [vm_compute; reflexivity|].
  split; [repeat constructor; cbn; intuition discriminate|].
  split; [intros a [<-|[<-|[]]]; vm_compute; repeat split; reflexivity|].
  split; [vm_compute; reflexivity|]. split; [vm_compute; repeat split; reflexivity|].
  split; vm_compute; reflexivity.
Qed.

(* non-vacuity of C15_cycle_equiv_wide: history on two lists; x (register 0) and a 2x2 matrix
   (register 3) on list 0 are the inputs, y on list 1 (register 1) and a constant (register 2)
   are kept, register 6 holds a stale product of list 0.  The script P works on BOTH lists:
   squares x, creates a variable on list 1 and multiplies it with y, adds x and y across lists
   (panic), makes a third list and a variable on it, takes derivatives on list 1, clears
   list 1 and resets all its objects (allowed: the only register outside the set, 6, is on
   list 0), takes derivatives on list 0, multiplies the matrix by itself, multiplies x by the
   kept constant. *)
Example C15_cycle_wide_nonvacuous :
  let sh := [(0, 2); (1, 2)] in
  let history := [TVar 0 0 3%Z; TVar 1 1 5%Z; TCVar 3 0 false sh [1; 2; 3; 4]%Z; TBin 6 0 2 0 0; TConst 2 7%Z] in
  let P := [TBin 7 0 2 0 0; TVar 4 1 2%Z; TBin 5 0 2 1 4; TBin 8 0 0 0 1; TNewTape; TVar 9 2 11%Z;
            TDerivs 5 0; TClear 1; TResetAll 1; TDerivs 7 0; TMatmul 10 3 3; TBin 11 0 2 0 2] in
  exists st0 vs0 st1 vs1 stf res,
    tm_run Zops6 (init 2) history = Some (st0, vs0) /\
    NoDup [3; 0] /\ (forall a, In a [3; 0] -> input_ok 0 (get st0 a)) /\
    tm_run Zops6 st0 (TClear 0 :: map TReset [3; 0]) = Some (st1, vs1) /\
    wide_run Zops6 (fun r => mem [3; 0] r || mem [1; 2] r) st1 P /\
    tm_run Zops6 st1 P = Some (stf, res) /\
    nth 3 res (Ok VUnit) = Panic /\
    nth 6 res Panic = Ok (VDerivs (Some [2; 5; 1]%Z)) /\
    nth 8 res Panic = Ok (VIdx [0; 1; 2]) /\
    nth 9 res Panic = Ok (VDerivs (Some [0; 0; 0; 0; 6; 1]%Z)).
Proof.
  cbv zeta. do 6 eexists. split; [vm_compute; reflexivity|].
  split; [repeat constructor; cbn; intuition discriminate|].
  split; [intros a [<-|[<-|[]]]; vm_compute; repeat split; reflexivity|].
  split; [vm_compute; reflexivity|].
  split.
  { vm_compute. repeat split.
    intros r Hq. do 12 (destruct r as [|r]; [try discriminate Hq; discriminate|]).
    destruct r; discriminate. }
  split; [vm_compute; reflexivity|]. vm_compute. repeat split; reflexivity.
Qed.

(* non-vacuity of C15_reachable_input_ok / C15_cycle_equiv_reachable: the history of the
   example above satisfies op_ok and reaches a state with a matrix on list 0 in register 3 *)
Example C15_reachable_nonvacuous :
  let sh := [(0, 2); (1, 2)] in
  let history := [TVar 0 0 3%Z; TVar 1 1 5%Z; TCVar 3 0 false sh [1; 2; 3; 4]%Z; TBin 6 0 2 0 0; TConst 2 7%Z] in
  Forall (@op_ok Z) history /\
  exists st vs, tm_run Zops6 (init 2) history = Some (st, vs) /\ obj_hist (get st 3) = Some 0.
Proof. cbv zeta. split; [repeat constructor|]. do 2 eexists. split; vm_compute; reflexivity. Qed.

Print Assumptions C15_cross_tape_rejected.
Print Assumptions C15_cross_tape_matmul_rejected.
Print Assumptions C15_derivs_length.
Print Assumptions C15_next_unused.
Print Assumptions C15_clear_restarts_positions.
Print Assumptions C15_cycle_equiv.
Print Assumptions C15_cross_tape_never_mixes.
Print Assumptions C15_cycle_equiv_wide.
Print Assumptions C15_local_run_is_wide.
Print Assumptions C15_derivs_length_run.
Print Assumptions C15_reachable_input_ok.
Print Assumptions C15_cycle_equiv_reachable.
