(* C03 — Tensor and matrix arithmetic equals the textbook result for every operand form.
   Only the property theorems (closed by `exact`), the assumption audit and the non-vacuity
   example.  Definitions: Model/Arith.v (transcription of the operator impls: a `Tensor` operand
   `OT t` is read through direct_iter_reference(), a `TensorView` operand `OV v` through the
   row-major walk of its view_shape), Proofs/C03P.v (view_wf: the view answers every in-range
   index; op_at: the operand's element at an index; sum_list: the textbook sum). *)
From Coq Require Import List ZArith NArith Bool Arith Ring_theory.
From EasyML Require Import Base.Sx Model.Shape Model.Tensor Model.Num Model.Arith
     Proofs.ShapeP Proofs.C01P Proofs.C03P.
Import ListNotations.
Open Scope N_scope.

(* a view operand is iterated in VIEW order: the k'th item is the element at the k'th
   row-major index of the view's shape, whatever the storage order of its source *)
Theorem C03_view_order : forall A (v : tview A) l idx, view_elems v = Some l ->
  in_range idx (lens_of (v_shape v)) ->
  nth_error l (N.to_nat (flat idx (lens_of (v_shape v)))) = v_get v idx.
Proof. exact @view_elems_nth. Qed.

(* why the direct_iter_reference shortcut is sound for a Tensor operand (and only there): a
   tensor's storage order is its view order *)
Theorem C03_direct_iter_is_view_order : forall A (t : tensor A), tensor_inv t ->
  view_elems (view_of_tensor t) = Some (t_data t).
Proof. exact @direct_iter_is_view_order. Qed.

(* elementwise + and -: equal shapes give a tensor of that shape whose element at every index
   is x[idx] (+/-) y[idx], for every container / view combination of operands *)
Theorem C03_elementwise : forall A (f : A -> A -> A) x y, operand_wf x -> operand_wf y ->
  op_shape x = op_shape y ->
  exists t, t_zip_with f x y = Ok t /\ t_shape t = op_shape x /\ tensor_inv t /\
    forall idx, in_range idx (lens_of (op_shape x)) ->
      exists a b, op_at x idx = Some a /\ op_at y idx = Some b /\ t_get t idx = Some (f a b).
Proof. exact @zip_with_ok. Qed.

Theorem C03_add_sub_are_elementwise : forall R (ops : numops R),
  t_add ops = t_zip_with (nadd ops) /\ t_sub ops = t_zip_with (nsub ops) /\
  m_add ops = m_zip_with (nadd ops) /\ m_sub ops = m_zip_with (nsub ops).
Proof. intros R ops. repeat split. Qed.

(* a value is produced only for equal shapes (names, order and lengths) *)
Theorem C03_elementwise_only_equal_shapes : forall A (f : A -> A -> A) x y t,
  t_zip_with f x y = Ok t -> op_shape x = op_shape y.
Proof. exact @zip_with_value_shapes. Qed.

(* scalar operators and negation: map over the operand, same shape *)
Theorem C03_scalar_ops : forall A (f : A -> A) x, operand_wf x ->
  exists t, t_map f x = Ok t /\ t_shape t = op_shape x /\ tensor_inv t /\
    forall idx, in_range idx (lens_of (op_shape x)) ->
      exists a, op_at x idx = Some a /\ t_get t idx = Some (f a).
Proof. exact @map_ok. Qed.

Theorem C03_scalar_ops_are_maps : forall R (ops : numops R) k x s,
  t_scalar ops k x s = t_map (fun e => scalar_fn ops k e s) x /\ t_neg ops x = t_map (nneg ops) x /\
  (forall mx, m_scalar ops k mx s = m_map (fun e => scalar_fn ops k e s) mx /\
              m_neg ops mx = m_map (nneg ops) mx) /\
  scalar_fn ops 0 = nadd ops /\ scalar_fn ops 1 = nsub ops /\ scalar_fn ops 2 = nmul ops /\
  scalar_fn ops 3 = ndiv ops.
Proof. intros R ops k x s. repeat split. Qed.

(* scalar product: the products of the paired elements reduced from the left, in the code's
   order; over a commutative ring that is the sum of the products *)
Theorem C03_scalar_product : forall R (ops : numops R) x y nm len, operand_wf x -> operand_wf y ->
  op_shape x = [(nm, len)] -> op_shape y = [(nm, len)] ->
  exists lx ly r, op_iter x = Some lx /\ op_iter y = Some ly /\
    length lx = N.to_nat len /\ length ly = N.to_nat len /\
    (forall i, i < len -> nth_error lx (N.to_nat i) = op_at x [i] /\
                          nth_error ly (N.to_nat i) = op_at y [i]) /\
    reduce (nadd ops) (map2 (nmul ops) lx ly) = Some r /\ t_dot ops x y = Ok r.
Proof. exact @dot_ok. Qed.

Theorem C03_scalar_product_textbook : forall R (ops : numops R),
  ring_theory (nzero ops) (none_ ops) (nadd ops) (nmul ops) (nsub ops) (nneg ops) eq ->
  forall x y nm len, operand_wf x -> operand_wf y ->
  op_shape x = [(nm, len)] -> op_shape y = [(nm, len)] ->
  exists lx ly, op_iter x = Some lx /\ op_iter y = Some ly /\
    (forall i, i < len -> nth_error lx (N.to_nat i) = op_at x [i] /\
                          nth_error ly (N.to_nat i) = op_at y [i]) /\
    t_dot ops x y = Ok (sum_list ops (map2 (nmul ops) lx ly)).
Proof. exact @dot_textbook. Qed.

(* matrix product, MxN times NxL: shape [(row name of A, M); (column name of B, L)] and
   (A.B)[i,j] = the left reduce of the products of row i of A and column j of B ... *)
Theorem C03_matmul : forall R (ops : numops R) x y ln0 ln1 rn0 rn1 m n k,
  view_wf (op_view x) -> view_wf (op_view y) ->
  v_shape (op_view x) = [(ln0, m); (ln1, n)] -> v_shape (op_view y) = [(rn0, n); (rn1, k)] ->
  ln0 <> rn1 -> m * k <= usize_max ->
  exists t, t_matmul ops x y = Ok t /\ t_shape t = [(ln0, m); (rn1, k)] /\ tensor_inv t /\
    forall i j, i < m -> j < k ->
      exists row col,
        select_row (op_view x) i n = Some row /\ select_column (op_view y) j n = Some col /\
        length row = N.to_nat n /\ length col = N.to_nat n /\
        (forall kk, kk < n -> nth_error row (N.to_nat kk) = v_get (op_view x) [i; kk] /\
                              nth_error col (N.to_nat kk) = v_get (op_view y) [kk; j]) /\
        t_get t [i; j] = reduce (nadd ops) (map2 (nmul ops) row col).
Proof. exact @matmul_ok. Qed.

(* ... which over a commutative ring is sum_k A[i,k] * B[k,j] *)
Theorem C03_matmul_textbook : forall R (ops : numops R),
  ring_theory (nzero ops) (none_ ops) (nadd ops) (nmul ops) (nsub ops) (nneg ops) eq ->
  forall x y ln0 ln1 rn0 rn1 m n k,
  view_wf (op_view x) -> view_wf (op_view y) ->
  v_shape (op_view x) = [(ln0, m); (ln1, n)] -> v_shape (op_view y) = [(rn0, n); (rn1, k)] ->
  ln0 <> rn1 -> m * k <= usize_max ->
  exists t, t_matmul ops x y = Ok t /\ t_shape t = [(ln0, m); (rn1, k)] /\
    forall i j, i < m -> j < k ->
      exists row col,
        map Some row = map (fun kk => v_get (op_view x) [i; kk]) (nrange n) /\
        map Some col = map (fun kk => v_get (op_view y) [kk; j]) (nrange n) /\
        t_get t [i; j] = Some (sum_list ops (map2 (nmul ops) row col)).
Proof. exact @matmul_textbook. Qed.

(* every violated rule is a panic, never a value: different names / order / lengths for the
   elementwise operators and the scalar product; unequal inner lengths and colliding result
   names for the matrix product; different sizes / inner lengths for matrices *)
Theorem C03_reject : forall R (ops : numops R),
  (forall (f : R -> R -> R) x y, op_shape x <> op_shape y -> t_zip_with f x y = Panic) /\
  (forall x y, op_shape x <> op_shape y -> t_dot ops x y = Panic) /\
  (forall x y ln0 ln1 rn0 rn1 m n n' k,
     v_shape (op_view x) = [(ln0, m); (ln1, n)] -> v_shape (op_view y) = [(rn0, n'); (rn1, k)] ->
     n <> n' -> t_matmul ops x y = Panic) /\
  (forall x y ln0 ln1 rn0 rn1 m n n' k,
     v_shape (op_view x) = [(ln0, m); (ln1, n)] -> v_shape (op_view y) = [(rn0, n'); (rn1, k)] ->
     ln0 = rn1 -> t_matmul ops x y = Panic) /\
  (forall (f : R -> R -> R) x y, mop_size x <> mop_size y -> m_zip_with f x y = Panic) /\
  (forall x y, mv_cols (mop_view x) <> mv_rows (mop_view y) -> m_matmul ops x y = Panic).
Proof.
  intros R ops. split; [exact (@zip_with_reject R)|]. split; [exact (dot_reject ops)|].
  split; [exact (matmul_reject_inner ops)|]. split; [exact (matmul_reject_names ops)|].
  split; [exact (@m_zip_with_reject R)|exact (m_matmul_reject ops)].
Qed.

(* the matrix API and the 2-dimensional tensor API compute the same flat data (rows, columns,
   row-major elements, or both panic) on the same operands, containers and views alike *)
Theorem C03_tensor_matrix_agree_elementwise : forall A (f : A -> A -> A) x y n0 n1, n0 <> n1 ->
  omap flat_of_matrix (m_zip_with f x y) =
  omap flat_of_tensor (t_zip_with f (toperand x n0 n1) (toperand y n0 n1)).
Proof. exact @zip_agree. Qed.

Theorem C03_tensor_matrix_agree_map : forall A (f : A -> A) x n0 n1, n0 <> n1 ->
  (match x with OM m => N.of_nat (length (m_data m)) = m_rows m * m_cols m /\
                        0 < m_rows m * m_cols m <= usize_max | OMV _ => True end) ->
  omap flat_of_matrix (m_map f x) = omap flat_of_tensor (t_map f (toperand x n0 n1)).
Proof. exact @map_agree. Qed.

Theorem C03_tensor_matrix_agree_matmul : forall R (ops : numops R) (x y : moperand R) n0 n1 n2 n3,
  n0 <> n3 -> mv_rows (mop_view x) * mv_cols (mop_view y) <= usize_max ->
  omap flat_of_matrix (m_matmul ops x y) =
  omap flat_of_tensor (t_matmul ops (toperand x n0 n1) (toperand y n2 n3)).
Proof. exact @matmul_agree. Qed.

(* a container holding a view's elements in view order is indistinguishable from the view, so
   every container / view combination of the same operands computes the same result *)
Theorem C03_forms_agree_elementwise : forall R (f : R -> R -> R) (vx vy : tview R) lx ly mx my,
  view_wf vx -> view_wf vy -> view_elems vx = Some lx -> view_elems vy = Some ly ->
  tensor_from (v_shape vx) lx = Ok mx -> tensor_from (v_shape vy) ly = Ok my ->
  t_zip_with f (OT mx) (OT my) = t_zip_with f (OV vx) (OV vy) /\
  t_zip_with f (OT mx) (OV vy) = t_zip_with f (OV vx) (OV vy) /\
  t_zip_with f (OV vx) (OT my) = t_zip_with f (OV vx) (OV vy).
Proof. exact @forms_agree_zip. Qed.

Theorem C03_forms_agree_matmul : forall R (ops : numops R) (vx vy : tview R) lx ly mx my,
  view_wf vx -> view_wf vy -> view_elems vx = Some lx -> view_elems vy = Some ly ->
  tensor_from (v_shape vx) lx = Ok mx -> tensor_from (v_shape vy) ly = Ok my ->
  t_matmul ops (OT mx) (OT my) = t_matmul ops (OV vx) (OV vy) /\
  t_matmul ops (OT mx) (OV vy) = t_matmul ops (OV vx) (OV vy) /\
  t_matmul ops (OV vx) (OT my) = t_matmul ops (OV vx) (OV vy).
Proof. exact @forms_agree_matmul. Qed.

(* the hypotheses `view_wf` above are met by non-row-major operands: reversed, renamed and ranged
   views of a well-formed view are well formed and expose the source's elements at the mapped
   index (so the theorems apply to operands whose view order differs from their storage order) *)
Theorem C03_reverse_view_wf : forall A (v v' : tview A) names, view_wf v ->
  v_reverse v names = Some v' ->
  view_wf v' /\ v_shape v' = v_shape v /\
  forall idx, v_get v' idx =
    v_get v (reverse_indexes idx (v_shape v)
               (map (fun d => existsb (Nat.eqb (fst d)) names) (v_shape v))).
Proof. exact @reverse_wf. Qed.

Theorem C03_rename_view_wf : forall A (v v' : tview A) names, view_wf v ->
  v_rename v names = Some v' ->
  view_wf v' /\ names_of (v_shape v') = names /\ lens_of (v_shape v') = lens_of (v_shape v) /\
  forall idx, v_get v' idx = v_get v idx.
Proof. exact @rename_wf. Qed.

Theorem C03_range_view_wf : forall A (v v' : tview A) rs, view_wf v -> v_range v rs = Some v' ->
  view_wf v' /\ names_of (v_shape v') = names_of (v_shape v) /\ lens_of (v_shape v') = map snd rs /\
  forall idx, in_range idx (map snd rs) ->
    exists j, map_by_range idx rs = Some j /\ in_range j (lens_of (v_shape v)) /\
              v_get v' idx = v_get v j.
Proof. exact @range_wf. Qed.

(* ... and so are TensorAccess (index_by) and TensorTranspose views in ANY dimension order: the
   element at an index is the source's element at the coordinates matched by name (C01), i.e. a
   walk that is not the source's storage order unless the order is the identity *)
Theorem C03_access_view_wf : forall A (v v' : tview A) req, view_wf v ->
  length req = length (v_shape v) -> v_access v req = Some v' ->
  view_wf v' /\ v_shape v' = shape_by_name (v_shape v) req /\
  forall idx, v_get v' idx = v_get v (coords_by_name (v_shape v) req idx).
Proof. exact @access_wf. Qed.

Theorem C03_transpose_view_wf : forall A (v v' : tview A) req, view_wf v ->
  length req = length (v_shape v) -> v_transpose v req = Some v' ->
  view_wf v' /\ names_of (v_shape v') = names_of (v_shape v) /\
  lens_of (v_shape v') = lens_of (shape_by_name (v_shape v) req) /\
  forall idx, v_get v' idx = v_get v (coords_by_name (v_shape v) req idx).
Proof. exact @transpose_wf. Qed.

(* ... and TensorMask views: every adaptor of the operand language preserves view_wf *)
Theorem C03_mask_view_wf : forall A (v v' : tview A) ms, view_wf v -> v_mask v ms = Some v' ->
  view_wf v' /\ names_of (v_shape v') = names_of (v_shape v) /\
  lens_of (v_shape v') = map2 (fun (d : name * N) (m : N * N) => snd d - snd m) (v_shape v) ms /\
  forall idx, v_get v' idx = v_get v (map_by_mask idx ms).
Proof. exact @mask_wf. Qed.

(* non-vacuity: a 3x2 tensor accessed in the transposed order is a well-formed 2x3 view whose
   view order (10 30 50 20 40 60) differs from its storage order (10 20 30 40 50 60); adding it
   to a 2x3 tensor pairs the elements in view order; the transposed view times the 3x2 tensor
   under other names is the 2x2 product; equal-shape and unequal-shape operands both exist *)
Example C03_nonvacuous :
  exists (t a b : tensor Z) (v : tview Z),
    tensor_from [(1%nat, 3); (0%nat, 2)] [10; 20; 30; 40; 50; 60]%Z = Ok t /\
    tensor_from [(0%nat, 2); (1%nat, 3)] [1; 2; 3; 4; 5; 6]%Z = Ok a /\
    tensor_from [(2%nat, 3); (3%nat, 2)] [1; 2; 3; 4; 5; 6]%Z = Ok b /\
    v_access (view_of_tensor t) [0%nat; 1%nat] = Some v /\
    view_wf v /\ operand_wf (OT a) /\ operand_wf (OT b) /\
    op_shape (OT a) = op_shape (OV v) /\ op_shape (OT a) <> op_shape (OT t) /\
    view_elems v = Some [10; 30; 50; 20; 40; 60]%Z /\
    omap (@t_data Z) (t_add Fpops (OT a) (OV v)) = Ok [11; 32; 53; 24; 45; 66]%Z /\
    t_add Fpops (OT a) (OT t) = Panic /\
    omap (@t_data Z) (t_matmul Fpops (OV v) (OT b)) = Ok [350; 440; 440; 560]%Z.
Proof.
  do 4 eexists. split; [vm_compute; reflexivity|]. split; [vm_compute; reflexivity|].
  split; [vm_compute; reflexivity|]. split; [vm_compute; reflexivity|].
  split.
  { split; [split; cbn; repeat constructor; cbn; intuition discriminate|].
    split; [vm_compute; discriminate|].
    intros idx Hr. destruct idx as [|i [|j [|? ?]]]; cbn in Hr; try tauto.
    destruct Hr as [Hi [Hj _]].
    assert (Ci : i = 0 \/ i = 1) by (clear - Hi; destruct i as [|[p|p|]]; cbv in Hi; try discriminate; auto;
                                      destruct p; discriminate).
    assert (Cj : j = 0 \/ j = 1 \/ j = 2)
      by (clear - Hj; destruct j as [|[[p|p|]|[p|p|]|]]; cbv in Hj; try discriminate; auto;
          destruct p; discriminate).
    destruct Ci as [->| ->], Cj as [->|[->| ->]]; vm_compute; eauto. }
  split.
  { split; [|vm_compute; discriminate].
    split; [split; cbn; repeat constructor; cbn; intuition discriminate|].
    split; vm_compute; reflexivity. }
  split.
  { split; [|vm_compute; discriminate].
    split; [split; cbn; repeat constructor; cbn; intuition discriminate|].
    split; vm_compute; reflexivity. }
  split; [reflexivity|]. split; [vm_compute; discriminate|].
  repeat split; vm_compute; reflexivity.
Qed.

Print Assumptions C03_view_order.
Print Assumptions C03_direct_iter_is_view_order.
Print Assumptions C03_elementwise.
Print Assumptions C03_add_sub_are_elementwise.
Print Assumptions C03_elementwise_only_equal_shapes.
Print Assumptions C03_scalar_ops.
Print Assumptions C03_scalar_ops_are_maps.
Print Assumptions C03_scalar_product.
Print Assumptions C03_scalar_product_textbook.
Print Assumptions C03_matmul.
Print Assumptions C03_matmul_textbook.
Print Assumptions C03_reject.
Print Assumptions C03_tensor_matrix_agree_elementwise.
Print Assumptions C03_tensor_matrix_agree_map.
Print Assumptions C03_tensor_matrix_agree_matmul.
Print Assumptions C03_forms_agree_elementwise.
Print Assumptions C03_forms_agree_matmul.
Print Assumptions C03_reverse_view_wf.
Print Assumptions C03_rename_view_wf.
Print Assumptions C03_range_view_wf.
Print Assumptions C03_access_view_wf.
Print Assumptions C03_transpose_view_wf.
Print Assumptions C03_mask_view_wf.
