(* C07 — Determinant and inverse are exact and present exactly when defined.
   Only the property theorems (closed by `exact`), the assumption audit and the non-vacuity
   examples.  Transcription of the code: Model/Perms.v (Heap's algorithm with the parity toggle),
   Model/LinAlg.v (det_matrix / det_tensor, minors, inverse_matrix / inverse_tensor).
   Specification: the parity of the inversion count, the Laplace expansion `detc` over column
   lists (Proofs/C07P1.v) and mathcomp's \det, *m, 1%:M (Proofs/C07P2.v).
   Heap's algorithm is proved correct for EVERY n (C07_heap_enumerates_all_n: induction over the
   recursion with closed forms for the array after `heaps k`, Proofs/C07HeapA.v + C07HeapN.v), so
   C07_det_correct_all_n / C07_inverse_all_n carry no size bound; the older theorems bounded by
   n <= 7 (kernel evaluation of the transcription) are kept as an independent cross-check.
   DIVISION SAFETY (second extension wave): Model/LinAlgDiv.v is the SAME transcription of
   inverse / inverse_less_generic with its two divisions made through a partial division
   `pd : R -> R -> option R` (None = the element type's `/` panics; outcome Panic).
   C07_inverse_instrumented_erase ties it to the model above (so every theorem about
   inverse_matrix / inverse_tensor transfers); C07_inverse_divides_only_by_det says the only
   quotient ever evaluated is one / det (1 x 1: one / the element), after the `== zero` test;
   C07_inverse_division_is_evaluated that it really is evaluated; and
   C07_inverse_never_divides_by_zero that with the strict division (None exactly on a divisor
   `== zero`) NO input panics — for every dictionary, no hypothesis.  The correspondence runs
   this instrumented model for element type 4 (StrictRat, `/` panics on zero).
   `ops_of dv` is the dictionary of a mathcomp commutative ring R with division `dv`;
   `mx_of dv n m` is the n x n matrix the routines read off a list of rows `m` (entry i j of m).
   Third extension wave, builder GEN (appended block at the very end):
   C07_generated_heap_step_matches_model ties Model/Perms.v `heaps` to the Rust TEXT of
   heaps_permutations - tools/gen_arith.py re-translates the function on every run into the event
   trace of one invocation (consumer call / recursive call with its argument / swap with its index
   pair, in source order: base case, loop, guard `i < k - 1`, even / odd choice of the pair) and
   Proofs/GenHeapP.v proves that running that trace with the recursive calls answered by
   `heaps fuel` is `heaps (S fuel) k`, the function C07_heap_enumerates_all_n is about. *)
From Coq Require Import PeanoNat List Permutation Ring_theory.
From mathcomp Require Import all_ssreflect all_algebra.
From EasyML Require Import Base.Sx Model.Num Model.Perms Model.LinAlg Model.DivOutcome Model.LinAlgDiv
     Proofs.C07P1 Proofs.C07Heap7 Proofs.C07P2 Proofs.C07HeapN Proofs.C07P3 Proofs.C07Div.
Import GRing.Theory.
Local Open Scope ring_scope.

(* Heap's algorithm with the even_swaps toggle, for every n in 1..7 (the bound is part of the
   statement; 7! = 5040 lists are checked by kernel evaluation): no permutation is generated
   twice, exactly the permutations of 0..n-1 are generated, and the flag passed with each is the
   parity of its inversion count *)
Theorem C07_heap_enumerates : forall n : nat, (1 <= n)%coq_nat /\ (n <= 7)%coq_nat ->
  List.NoDup (List.map fst (heap_perms n)) /\
  (forall p, List.In p (List.map fst (heap_perms n)) <-> Permutation p (List.seq 0 n)) /\
  (forall p ev, List.In (p, ev) (heap_perms n) -> ev = Nat.even (inversions p)).
Proof. exact heap_enumerates_le_7. Qed.

(* all n, any commutative ring (dictionary with ring laws), any entry function M: the signed sum
   over ANY duplicate-free complete enumeration of the permutations of 0..n-1 is the Laplace
   expansion along the first remaining row *)
Theorem C07_leibniz_is_det : forall (R : Type) (ops : numops R),
  ring_theory (nzero ops) (none_ ops) (nadd ops) (nmul ops) (nsub ops) (nneg ops) (@eq R) ->
  forall (M : nat -> nat -> R) (n : nat) (ps : list (list nat)),
  List.NoDup ps -> (forall p, List.In p ps <-> Permutation p (List.seq 0 n)) ->
  leibniz ops M 0 ps = detc ops M n 0 (List.seq 0 n).
Proof. exact @leibniz_is_detc. Qed.

(* all n, any mathcomp commutative ring: the Laplace expansion over a column list is \det of the
   selected submatrix *)
Theorem C07_laplace_is_det : forall (R : comRingType) (dv : R -> R -> R) (M : nat -> nat -> R)
  (n r : nat) (cols : list nat), length cols = n ->
  detc (ops_of dv) M n r cols = \det (\matrix_(i < n, j < n) M (r + i)%N (List.nth j cols 0%N)).
Proof. exact @detc_det. Qed.

(* the fold `sum = sum + signature * product` of determinant_less_generic in generation order is
   the Leibniz sum over Heap's enumeration (any n whose enumeration is correct, any ring) *)
Theorem C07_fold_is_leibniz : forall (R : Type) (ops : numops R),
  ring_theory (nzero ops) (none_ ops) (nadd ops) (nmul ops) (nsub ops) (nneg ops) (@eq R) ->
  forall (m : list (list R)) (n : nat), heap_enumerates n ->
  leibniz_fold ops m n = leibniz ops (mget ops m) 0 (List.map fst (heap_perms n)).
Proof. exact @leibniz_fold_leibniz. Qed.

(* square input of size 1..7 over any commutative ring: both routes return \det of the input *)
Theorem C07_det_correct : forall (R : comRingType) (dv : R -> R -> R) (n : nat) (m : list (list R)),
  mrows m = n -> mcols m = n -> (1 <= n <= 7)%N ->
  det_tensor (ops_of dv) m = Some (\det (mx_of dv n m)) /\
  det_matrix (ops_of dv) m = Some (\det (mx_of dv n m)).
Proof. move=> R dv n m Hr Hc Hn. split; [exact: det_tensor_correct|exact: det_matrix_correct]. Qed.

(* all sizes, any dictionary: the determinant is absent exactly for non-square input *)
Theorem C07_det_absent_iff : forall (R : Type) (ops : numops R) (m : list (list R)),
  (1 <= mrows m)%coq_nat ->
  (det_tensor ops m = None <-> mrows m <> mcols m) /\
  (det_matrix ops m = None <-> mrows m <> mcols m).
Proof.
  move=> R ops m Hr. rewrite det_matrix_tensor. split; exact: det_tensor_absent_iff.
Qed.

(* any field, n x n content with 1 <= n <= 7: the inverse is present exactly when the determinant
   is non-zero, and then both products with the input are the identity; non-square: absent *)
Theorem C07_inverse : forall (F : fieldType) (n : nat) (m : list (list F)),
  wf n m -> (1 <= n <= 7)%N ->
  let dv := fun x y : F => x / y in
  ((exists X, inverse_tensor (ops_of dv) m = Some X) <-> \det (mx_of dv n m) != 0) /\
  (forall X, inverse_tensor (ops_of dv) m = Some X ->
     wf n X /\ mx_of dv n m *m mx_of dv n X = 1%:M /\ mx_of dv n X *m mx_of dv n m = 1%:M).
Proof.
  move=> F n m Hwf Hn dv. split; first exact: inverse_tensor_iff.
  move=> X. exact: inverse_tensor_products.
Qed.

Theorem C07_inverse_absent_nonsquare : forall (R : Type) (ops : numops R) (m : list (list R)),
  mrows m <> mcols m -> inverse_tensor ops m = None /\ inverse_matrix ops m = None.
Proof.
  move=> R ops m H. rewrite inverse_matrix_tensor. split; exact: inverse_tensor_nonsquare.
Qed.

(* the Matrix route (its own early returns, remove_row / remove_column minors) and the tensor
   route (used for Tensor and every TensorView source; mask-view minors) agree on every input,
   and the tensor result carries the input's dimension names in the same order *)
Theorem C07_entry_points_agree : forall (R : Type) (ops : numops R) (m : list (list R)),
  det_matrix ops m = det_tensor ops m /\
  (forall i j, minor_matrix ops m i j = minor_tensor ops m i j) /\
  inverse_matrix ops m = inverse_tensor ops m /\
  (forall names x, inverse_tensor2 ops (mkT2 names m) = Some x ->
     t2_names x = names /\ Some (t2_mat x) = inverse_tensor ops m).
Proof.
  move=> R ops m. split; first exact: det_matrix_tensor.
  split; first exact: minor_matrix_tensor. split; first exact: inverse_matrix_tensor.
  move=> names x. rewrite /inverse_tensor2 /=. case: (inverse_tensor ops m) => // y [<-]. by [].
Qed.

(* ---- session 3: no size bound ------------------------------------------------------------- *)

(* Heap's algorithm as transcribed, with the even_swaps toggle, for EVERY n >= 1: no permutation
   is generated twice, exactly the permutations of 0..n-1 are generated, and the flag passed with
   each is the parity of its inversion count.  (Proof: the array after `heaps k` is the input read
   through a fixed source map - first and last of the first k entries exchanged for odd k,
   [k-3, k-2, 1, 2, .., k-4, k-1, 0] for even k - hence the k sub-calls of level k see k different
   entries in position k-1; every swap exchanges two different positions, which flips the parity
   of the inversion count; k! different permutations are all of them.) *)
Theorem C07_heap_enumerates_all_n : forall n : nat, (1 <= n)%coq_nat ->
  List.NoDup (List.map fst (heap_perms n)) /\
  (forall p, List.In p (List.map fst (heap_perms n)) <-> Permutation p (List.seq 0 n)) /\
  (forall p ev, List.In (p, ev) (heap_perms n) -> ev = Nat.even (inversions p)).
Proof. exact heap_enumerates_all. Qed.

(* square input of ANY size n >= 1 over any commutative ring: both routes return \det of the input *)
Theorem C07_det_correct_all_n : forall (R : comRingType) (dv : R -> R -> R) (n : nat) (m : list (list R)),
  mrows m = n -> mcols m = n -> (1 <= n)%N ->
  det_tensor (ops_of dv) m = Some (\det (mx_of dv n m)) /\
  det_matrix (ops_of dv) m = Some (\det (mx_of dv n m)).
Proof. move=> R dv n m Hr Hc Hn. split; [exact: det_tensor_correct_all|exact: det_matrix_correct_all]. Qed.

(* any field, n x n content of ANY size n >= 1: the inverse is present exactly when the determinant
   is non-zero, and then both products with the input are the identity (both routes: the Matrix
   route equals the tensor route by C07_entry_points_agree) *)
Theorem C07_inverse_all_n : forall (F : fieldType) (n : nat) (m : list (list F)),
  wf n m -> (1 <= n)%N ->
  let dv := fun x y : F => x / y in
  ((exists X, inverse_tensor (ops_of dv) m = Some X) <-> \det (mx_of dv n m) != 0) /\
  (forall X, inverse_tensor (ops_of dv) m = Some X ->
     wf n X /\ mx_of dv n m *m mx_of dv n X = 1%:M /\ mx_of dv n X *m mx_of dv n m = 1%:M) /\
  inverse_matrix (ops_of dv) m = inverse_tensor (ops_of dv) m.
Proof.
  move=> F n m Hwf Hn dv. split; first exact: inverse_tensor_iff_all.
  split; last exact: inverse_matrix_tensor.
  move=> X. exact: inverse_tensor_products_all.
Qed.

(* non-vacuity: the ring hypotheses are met by the dictionary of every mathcomp commutative ring
   (e.g. the rationals), and the 2 x 2 input 2*I over the rationals meets the hypotheses
   of C07_inverse with a non-zero determinant *)
Example C07_nonvacuous_ring :
  ring_theory (nzero (ops_of (fun x y : rat => x / y))) (none_ (ops_of (fun x y : rat => x / y)))
              (nadd (ops_of (fun x y : rat => x / y))) (nmul (ops_of (fun x y : rat => x / y)))
              (nsub (ops_of (fun x y : rat => x / y))) (nneg (ops_of (fun x y : rat => x / y))) (@eq rat).
Proof. exact: ops_of_ring. Qed.

Example C07_nonvacuous :
  let m : list (list rat) := [:: [:: 2%:R; 0]; [:: 0; 2%:R]] in
  wf 2 m /\ (1 <= 2 <= 7)%N /\ \det (mx_of (fun x y : rat => x / y) 2 m) != 0.
Proof.
  split; first by split; [|repeat constructor]. split; first by [].
  have -> : mx_of (fun x y : rat => x / y) 2 [:: [:: 2%:R; 0]; [:: 0; 2%:R]] = (2%:R)%:M.
  { apply/matrixP => i j. rewrite !mxE.
    case: i => [[|[|i]] Hi] //; case: j => [[|[|j]] Hj] //. }
  by rewrite det_scalar expf_neq0.
Qed.

(* ------------------------------------------------------------------ division safety *)
(* the instrumented inverse is the same routine: whenever it returns a value (no division
   panicked) that value is the result of the model above, for every partial division that agrees
   with the dictionary's where it is defined; with the total division it never panics *)
Theorem C07_inverse_instrumented_erase : forall (R : Type) (ops : numops R)
  (pd : R -> R -> option R) (m : list (list R)),
  sound_div ops pd ->
  (forall r, inverse_matrix_i ops pd m = Ok r -> inverse_matrix ops m = r) /\
  (forall r, inverse_tensor_i ops pd m = Ok r -> inverse_tensor ops m = r) /\
  inverse_matrix_i ops (total_div ops) m = Ok (inverse_matrix ops m) /\
  inverse_tensor_i ops (total_div ops) m = Ok (inverse_tensor ops m).
Proof.
  move=> R ops pd m Hs. split; first by move=> r; exact: inverse_matrix_i_erase.
  split; first by move=> r; exact: inverse_tensor_i_erase.
  split; [exact: inverse_matrix_i_total|exact: inverse_tensor_i_total].
Qed.

(* `inverse` divides only one by the determinant (the element itself for 1 x 1: it IS the
   determinant) and only after having tested it `== zero`: a partial division that is defined on
   that single pair — and nowhere else — is enough for the run to complete, both routes *)
Theorem C07_inverse_divides_only_by_det : forall (R : Type) (ops : numops R)
  (pd : R -> R -> option R) (m : list (list R)),
  ((forall d, det_matrix ops m = Some d -> neqb ops d (nzero ops) = false ->
              pd (none_ ops) d = Some (ndiv ops (none_ ops) d)) ->
   inverse_matrix_i ops pd m = Ok (inverse_matrix ops m)) /\
  ((forall d, det_tensor ops m = Some d -> neqb ops d (nzero ops) = false ->
              pd (none_ ops) d = Some (ndiv ops (none_ ops) d)) ->
   inverse_tensor_i ops pd m = Ok (inverse_tensor ops m)).
Proof. move=> R ops pd m. split; [exact: inverse_matrix_i_only|exact: inverse_tensor_i_only]. Qed.

(* ... and that quotient IS evaluated: if the element type cannot compute one / det for a
   determinant tested non-zero, the run panics (so the theorem above is not about a model that
   forgot the division) *)
Theorem C07_inverse_division_is_evaluated : forall (R : Type) (ops : numops R)
  (pd : R -> R -> option R) (m : list (list R)) (d : R),
  neqb ops d (nzero ops) = false -> pd (none_ ops) d = None ->
  (Nat.eqb (mrows m) (mcols m) = true -> det_matrix ops m = Some d ->
   inverse_matrix_i ops pd m = Panic) /\
  (is_square m = true -> det_tensor ops m = Some d -> inverse_tensor_i ops pd m = Panic).
Proof.
  move=> R ops pd m d Hz Hp. split=> Hsq Hd.
  - exact: (inverse_matrix_i_divides ops pd m d Hsq Hd Hz Hp).
  - exact: (inverse_tensor_i_divides ops pd m d Hsq Hd Hz Hp).
Qed.

(* NEVER A DIVISION BY ZERO: with the strict division (None exactly when the divisor is
   `== zero`, as for an exact type whose `/` panics) every input — square or not, singular or
   not, 1 x 1 included — gives Ok (the model's result): a value or absence, never Panic.
   Any dictionary, no hypothesis (the routine's test and the strict division use the same `==`) *)
Theorem C07_inverse_never_divides_by_zero : forall (R : Type) (ops : numops R)
  (m : list (list R)) (names : nat * nat),
  inverse_matrix_i ops (strict_div ops) m = Ok (inverse_matrix ops m) /\
  inverse_tensor_i ops (strict_div ops) m = Ok (inverse_tensor ops m) /\
  inverse_tensor2_i ops (strict_div ops) (mkT2 names m) = Ok (inverse_tensor2 ops (mkT2 names m)).
Proof.
  move=> R ops m names.
  split; [exact: inverse_matrix_i_strict|split; [exact: inverse_tensor_i_strict|exact: inverse_tensor2_i_strict]].
Qed.

(* non-vacuity of the division theorems, by kernel evaluation over the harness' rationals: a
   dictionary that cannot divide panics on an invertible input (1 x 1 and 2 x 2) and answers
   absence on singular ones; the strict division gives the inverse of [[2,0],[0,2]]
   (ex_2 = [[2]], ex_0 = [[0]], ex_2I = [[2,0],[0,2]], ex_sing = [[1,2],[2,4]], none_div = never defined) *)
Example C07_nonvacuous_division :
  inverse_matrix_i Qops none_div ex_2 = Panic /\
  inverse_tensor_i Qops none_div ex_2I = Panic /\
  inverse_matrix_i Qops none_div ex_0 = Ok None /\
  inverse_tensor_i Qops none_div ex_sing = Ok None /\
  (exists X, inverse_matrix_i Qops (strict_div Qops) ex_2I = Ok (Some X)).
Proof. exact inverse_division_examples. Qed.

(* the executable model on concrete inputs over the harness' exact types: C07P1.model_runs *)

Print Assumptions C07_heap_enumerates.
Print Assumptions C07_leibniz_is_det.
Print Assumptions C07_laplace_is_det.
Print Assumptions C07_fold_is_leibniz.
Print Assumptions C07_det_correct.
Print Assumptions C07_det_absent_iff.
Print Assumptions C07_inverse.
Print Assumptions C07_inverse_absent_nonsquare.
Print Assumptions C07_entry_points_agree.
Print Assumptions C07_heap_enumerates_all_n.
Print Assumptions C07_det_correct_all_n.
Print Assumptions C07_inverse_all_n.
Print Assumptions C07_inverse_instrumented_erase.
Print Assumptions C07_inverse_divides_only_by_det.
Print Assumptions C07_inverse_division_is_evaluated.
Print Assumptions C07_inverse_never_divides_by_zero.

(* ---- third extension wave (builder GEN): Heap's algorithm regenerated from the source ----
   For every level k, recursion budget and state (the list, the consumer's calls so far, the
   even_swaps toggle): heaps_permutations as generated from src/linear_algebra.rs (the event trace of
   ONE invocation: (0, []) consumer(list); (1, [k']) recursive call at level k'; (2, [i; j])
   list.swap(i, j)) neither panics nor wraps in either build profile, and running its events in
   order - recursive calls answered by the model at the smaller budget - computes exactly one
   level of Model/Perms.v `heaps`.  (GenHeapP.run_event reads the events; the consumer event is
   with_each_permutation's closure: record (list, even_swaps), toggle even_swaps.) *)
From EasyML Require Model.U64 Gen.Arith Proofs.GenHeapP.

Theorem C07_generated_heap_step_matches_model :
  forall (md : U64.mode) (fuel k : nat) (st : heap_state),
  exists evs,
    Arith.gen_heaps_permutations md (BinNat.N.of_nat k) = Ok evs /\
    heaps (S fuel) k st = GenHeapP.run_trace (heaps fuel) evs st.
Proof. exact GenHeapP.generated_heap_step_matches_model. Qed.

(* non-vacuity: the generated traces of levels 3 (odd: swaps (0, 2)), 4 (even: swaps (i, 3)), 1 and 0
   evaluated by the kernel, and heap_perms 3 recomputed by running the generated level-3 trace *)
Example C07_generated_heap_nonvacuous : GenHeapP.heap_trace_example.
Proof. exact GenHeapP.heap_trace_example_holds. Qed.

Print Assumptions C07_generated_heap_step_matches_model.
