(* Generic case / result language shared by the model runner (extracted to OCaml), the Rust
   harness and the Python orchestrator: s-expressions over integers.
   Text form:  atom = decimal integer ; list = "(" item* ")" separated by blanks.
   Executable definitions only. *)
From Coq Require Import List ZArith NArith Bool.
Import ListNotations.

Inductive sx : Type :=
| SZ (z : Z)
| SL (l : list sx).

(* ---- encoders ---- *)
Definition sN (n : N) : sx := SZ (Z.of_N n).
Definition snat (n : nat) : sx := SZ (Z.of_nat n).
Definition sbool (b : bool) : sx := SZ (if b then 1 else 0)%Z.
Definition sopt {A} (f : A -> sx) (o : option A) : sx :=
  match o with Some a => SL [f a] | None => SL [] end.
Definition slist {A} (f : A -> sx) (l : list A) : sx := SL (map f l).
Definition spair {A B} (f : A -> sx) (g : B -> sx) (p : A * B) : sx := SL [f (fst p); g (snd p)].

(* ---- outcomes: what a call of the modelled API can do ---- *)
Inductive outcome (A : Type) : Type :=
| Ok (a : A)
| Err (e : sx)        (* the failure value of a Result-returning API, payload encoded *)
| Panic.              (* the call panics; the message is not modelled *)
Arguments Ok {A} a.
Arguments Err {A} e.
Arguments Panic {A}.

Definition obind {A B} (o : outcome A) (f : A -> outcome B) : outcome B :=
  match o with Ok a => f a | Err e => Err e | Panic => Panic end.
Definition omap {A B} (f : A -> B) (o : outcome A) : outcome B :=
  match o with Ok a => Ok (f a) | Err e => Err e | Panic => Panic end.
Definition of_option {A} (o : option A) : outcome A :=
  match o with Some a => Ok a | None => Panic end.

(* result encoding: (0 payload) ok ; (1 payload) err ; (2) panic *)
Definition soutcome {A} (f : A -> sx) (o : outcome A) : sx :=
  match o with
  | Ok a => SL [SZ 0; f a]
  | Err e => SL [SZ 1; e]
  | Panic => SL [SZ 2]
  end.

(* ---- decoders (total; None = the case line is not in the language) ---- *)
Fixpoint sequence {A} (l : list (option A)) : option (list A) :=
  match l with
  | [] => Some []
  | None :: _ => None
  | Some x :: r => match sequence r with Some r' => Some (x :: r') | None => None end
  end.

Definition dZ (s : sx) : option Z := match s with SZ z => Some z | SL _ => None end.
Definition dN (s : sx) : option N :=
  match s with SZ z => if (0 <=? z)%Z then Some (Z.to_N z) else None | SL _ => None end.
Definition dnat (s : sx) : option nat :=
  match s with SZ z => if (0 <=? z)%Z then Some (Z.to_nat z) else None | SL _ => None end.
Definition dbool (s : sx) : option bool :=
  match s with SZ z => Some (negb (z =? 0)%Z) | SL _ => None end.
Definition dlist {A} (f : sx -> option A) (s : sx) : option (list A) :=
  match s with SL l => sequence (map f l) | SZ _ => None end.
Definition dpair {A B} (f : sx -> option A) (g : sx -> option B) (s : sx) : option (A * B) :=
  match s with
  | SL [a; b] => match f a, g b with Some x, Some y => Some (x, y) | _, _ => None end
  | _ => None
  end.
Definition dopt {A} (f : sx -> option A) (s : sx) : option (option A) :=
  match s with
  | SL [] => Some None
  | SL [a] => match f a with Some x => Some (Some x) | None => None end
  | _ => None
  end.

Definition bad_case : sx := SL [SZ (-1)].

Definition usize_max : N := 18446744073709551615%N.
Definition usize_mod : N := 18446744073709551616%N.
