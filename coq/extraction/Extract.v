(* Extraction of the model runner. ExtrOcamlBasic only: bool, option, list, prod, unit, sumbool
   map to OCaml's; nat, positive, N, Z, Q stay Coq inductives. No Extract Constant / Extract
   Inductive of our own. *)
From Coq Require Import Extraction ExtrOcamlBasic ZArith NArith.
From EasyML Require Import Base.Sx Run.Run.
Extraction Language OCaml.
Extraction "model.ml" run Z.add Z.mul Z.div_eucl Z.opp Z.abs.
