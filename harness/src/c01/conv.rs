//! C01 op 4: every conversion between scalars / Tensor / TensorView / Matrix / MatrixView, element
//! exact, in both directions.
//!   (1 4 0 v)                          0-D: `From<T> for Tensor<T, 0>` (`.into()` and the trait
//!                                      path), `from_scalar`, `Tensor::from([], vec![v])` must be
//!                                      equal; result (0 (shape data (0 first) (0 scalar) (0 into_scalar)))
//!   (1 4 1 rows cols data rn cn wr wc v)   a rows x cols matrix over row-major `data`, the names
//!                                      d<rn> / d<cn>, a write of v at (wr, wc). Result: the list
//!        A  Matrix::into_tensor == TryFrom::try_from((m, [rn, cn])) == (m, [rn, cn]).try_into():
//!           (0 (shape grid)) | (1 shape)      grid = get_reference([r, c]) for r in 0..=rows,
//!                                             c in 0..=cols (one past the end in each coordinate)
//!        B  TensorRefMatrix::with_names(&m | m | &mut m, [rn, cn]): (0 (view_shape grid)) | (1 shape)
//!        C  Tensor::from([(rn, rows), (cn, cols)], data) -> into_matrix == Into == From:
//!           (0 (rows cols grid)) | (2)        grid = try_get_reference(r, c), same range
//!        D  MatrixRefTensor::from(&t | t | &mut t): (0 (view_rows view_columns grid)) | (2)
//!        E  Matrix::try_into_scalar: (0 x) | (1 ())  (+ from_scalar / scalar cross-checks)
//!        F  write through the mutable face of TensorRefMatrix over &mut Matrix:
//!           (0 (data-after)) present | (0 ()) absent | (1 shape)
//!        G  write through the mutable face of MatrixRefTensor over &mut Tensor: (0 ..) | (2)
//!      cross-checked only (no output): the default-name constructor `TensorRefMatrix::from`,
//!      unchecked getters on valid indexes, data_layout, MatrixView / TensorView over the
//!      wrappers, the four round trips, non-Clone element type.
//!   (1 4 2 shape data)                 `From<Tensor> / From<&Tensor> / From<&mut Tensor> /
//!                                      From<&TensorView> / From<&mut TensorView> for TensorView`
//!                                      (trait impls, through `.into()`), any D 0..=6:
//!                                      (0 (shape data)) | (1 shape)
use crate::guarded;
use crate::sx::*;
use crate::with_d;
use easy_ml::interop::{MatrixRefTensor, TensorRefMatrix};
use easy_ml::matrices::views::{DataLayout as MLayout, MatrixMut, MatrixRef, MatrixView};
use easy_ml::matrices::{Matrix, ScalarConversionError};
use easy_ml::tensors::views::{DataLayout as TLayout, TensorMut, TensorRef, TensorView};
use easy_ml::tensors::Tensor;

#[derive(Debug, PartialEq)]
struct NoClone(i64);

type Shape2 = [(&'static str, usize); 2];

pub fn run(args: &[Sx]) -> Sx {
    let r = (|| -> Option<Sx> {
        Some(match (args.get(1)?.i64()?, args.len()) {
            (0, 3) => scalar(args[2].i64()?),
            (1, 10) => {
                let (rows, cols, data, rn, cn, wr, wc, v) = (
                    args[2].usize()?,
                    args[3].usize()?,
                    args[4].i64s()?,
                    args[5].usize()?,
                    args[6].usize()?,
                    args[7].usize()?,
                    args[8].usize()?,
                    args[9].i64()?,
                );
                if rows > 64 || cols > 64 || rows * cols != data.len() || data.is_empty() {
                    return None;
                }
                matrix_case(rows, cols, &data, [dim(rn), dim(cn)], (wr, wc, v))
            }
            (2, 4) => {
                let (shape, data) = (args[2].pairs_usize()?, args[3].i64s()?);
                with_d!(shape.len(), view_from(&shape, &data))
            }
            _ => return None,
        })
    })();
    r.unwrap_or_else(bad_case)
}

fn scalar(v: i64) -> Sx {
    let t: Tensor<i64, 0> = v.into();
    let t2 = <Tensor<i64, 0> as From<i64>>::from(v);
    let t3 = Tensor::from_scalar(v);
    let t4: Tensor<i64, 0> = Tensor::from([], vec![v]);
    if t != t2 || t != t3 || t != t4 || t2.shape() != [] || t3.shape() != [] {
        return inconsistent(1401);
    }
    let nc: Tensor<NoClone, 0> = NoClone(v).into();
    if nc.get_reference([]) != Some(&NoClone(v)) || nc.into_scalar() != NoClone(v) {
        return inconsistent(1402);
    }
    if t.get_reference([]) != Some(&v) || t.iter().collect::<Vec<_>>() != vec![v] {
        return inconsistent(1403);
    }
    let view = TensorView::from(&t);
    if guarded(|| view.scalar()) != Some(v)
        || guarded(|| TensorView::from(t.clone()).into_scalar()) != Some(v)
        || guarded(|| view.first()) != Some(v)
    {
        return inconsistent(1404);
    }
    let o = |x: Option<i64>| x.map(|x| ok(z(x))).unwrap_or_else(panicked);
    let first = o(guarded(|| t.first()));
    let sc = o(guarded(|| t.scalar()));
    let into = o(guarded(|| t.clone().into_scalar()));
    ok(l(vec![shape_sx(&t.shape()), l(t.iter().map(z).collect()), first, sc, into]))
}

fn grid(rows: usize, cols: usize, get: impl Fn(usize, usize) -> Option<i64>) -> Sx {
    l((0..=rows).map(|r| l((0..=cols).map(|c| opt(get(r, c).map(z))).collect())).collect())
}

fn in_range_cells(rows: usize, cols: usize) -> impl Iterator<Item = (usize, usize)> {
    (0..rows).flat_map(move |r| (0..cols).map(move |c| (r, c)))
}

fn nc_matrix(rows: usize, cols: usize, data: &[i64]) -> Matrix<NoClone> {
    Matrix::from_flat_row_major((rows, cols), data.iter().map(|&x| NoClone(x)).collect())
}

fn matrix_case(rows: usize, cols: usize, data: &[i64], names: [&'static str; 2], write: (usize, usize, i64)) -> Sx {
    let m = Matrix::from_flat_row_major((rows, cols), data.to_vec());
    let shape: Shape2 = [(names[0], rows), (names[1], cols)];
    let (wr, wc, v) = write;

    // ---- A: matrix -> tensor, three forms
    type R = Result<(Shape2, Vec<i64>), Shape2>;
    let flat = |r: Result<Tensor<i64, 2>, easy_ml::tensors::InvalidShapeError<2>>| -> R {
        match r {
            Ok(t) => Ok((t.shape(), t.iter().collect())),
            Err(e) => {
                Err(e.shape())
            }
        }
    };
    let a_method = m.clone().into_tensor(names[0], names[1]);
    if let Err(e) = &a_method {
        if !e.to_string().contains(&format!("{:?}", shape)) || e.shape_ref() != &shape {
            return inconsistent(1412);
        }
    }
    let a_tensor = a_method.as_ref().ok().cloned();
    let a1 = flat(a_method);
    let a2 = flat(<Tensor<i64, 2> as TryFrom<(Matrix<i64>, [&'static str; 2])>>::try_from((m.clone(), names)));
    let a3 = {
        let r: Result<Tensor<i64, 2>, _> = (m.clone(), names).try_into();
        flat(r)
    };
    if a1 != a2 || a1 != a3 {
        return inconsistent(1410);
    }
    let a_nc = match nc_matrix(rows, cols, data).into_tensor(names[0], names[1]) {
        Ok(t) => Ok((t.shape(), t.iter_reference().map(|x| x.0).collect::<Vec<_>>())),
        Err(e) => Err(e.shape()),
    };
    if a_nc != a1 {
        return inconsistent(1411);
    }
    let a = match &a_tensor {
        Some(t) => {
            ok(l(vec![shape_sx(&t.shape()), grid(rows, cols, |r, c| t.get_reference([r, c]).copied())]))
        }
        None => err(shape_sx(a1.as_ref().err().unwrap())),
    };

    // ---- B: the matrix seen as a tensor (TensorRefMatrix), shared / owned / mutable sources
    let b = {
        let mut m_mut = m.clone();
        let shared = TensorRefMatrix::with_names(&m, names);
        let owned = TensorRefMatrix::with_names(m.clone(), names);
        let mutable = TensorRefMatrix::with_names(&mut m_mut, names);
        match (shared, owned, mutable) {
            (Ok(s), Ok(o), Ok(mut mu)) => {
                let sh = s.view_shape();
                if o.view_shape() != sh || mu.view_shape() != sh {
                    return inconsistent(1421);
                }
                for r in 0..=rows + 1 {
                    for c in 0..=cols + 1 {
                        let x = s.get_reference([r, c]).copied();
                        if o.get_reference([r, c]).copied() != x
                            || mu.get_reference([r, c]).copied() != x
                            || mu.get_reference_mut([r, c]).map(|x| *x) != x
                        {
                            return inconsistent(1422);
                        }
                        if (r < rows && c < cols) != x.is_some() {
                            return inconsistent(1427);
                        }
                        if let Some(x) = x {
                            if unsafe { *s.get_reference_unchecked([r, c]) } != x
                                || unsafe { *mu.get_reference_unchecked_mut([r, c]) } != x
                            {
                                return inconsistent(1423);
                            }
                        }
                    }
                }
                if s.data_layout() != TLayout::Linear(names) {
                    return inconsistent(1426);
                }
                // as a TensorView: shape, iteration order, map
                let tv = TensorView::from(&s);
                if tv.shape() != sh || tv.iter().collect::<Vec<_>>() != data {
                    return inconsistent(1428);
                }
                if let Some(t) = &a_tensor {
                    if &tv.map(|x| x) != t {
                        return inconsistent(1429);
                    }
                }
                ok(l(vec![shape_sx(&sh), grid(rows, cols, |r, c| s.get_reference([r, c]).copied())]))
            }
            (Err(s), Err(o), Err(mu)) => {
                if s.shape() != o.shape() || s.shape() != mu.shape() {
                    return inconsistent(1420);
                }
                err(shape_sx(&s.shape()))
            }
            _ => return inconsistent(1420),
        }
    };
    // the default-name constructor never fails for a Matrix
    match TensorRefMatrix::from(&m) {
        Err(_) => return inconsistent(1425),
        Ok(w) => {
            if w.view_shape() != [("row", rows), ("column", cols)] {
                return inconsistent(1424);
            }
            for r in 0..=rows {
                for c in 0..=cols {
                    if w.get_reference([r, c]) != MatrixRef::try_get_reference(&m, r, c) {
                        return inconsistent(1424);
                    }
                }
            }
            if w.data_layout() != TLayout::Linear(["row", "column"]) {
                return inconsistent(1426);
            }
            // matrix -> TensorRefMatrix -> MatrixRefTensor -> matrix view
            let back = MatrixView::from(MatrixRefTensor::from(w));
            if back.size() != (rows, cols) || back.map(|x| x) != m || back.data_layout() != MLayout::RowMajor {
                return inconsistent(1473);
            }
        }
    }
    // MatrixView over the matrix itself (inherent constructor; there is no From impl)
    {
        let mut m2 = m.clone();
        if MatrixView::from(&m).map(|x| x) != m
            || MatrixView::from(m.clone()).row_major_iter().collect::<Vec<_>>() != data
            || MatrixView::from(&mut m2).map(|x| x) != m
        {
            return inconsistent(1476);
        }
    }

    // ---- C, D, G need the tensor with these names
    let tensor = guarded(|| Tensor::from(shape, data.to_vec()));
    let (c, d, g) = match &tensor {
        None => {
            if a_tensor.is_some() {
                return inconsistent(1414);
            }
            (panicked(), panicked(), panicked())
        }
        Some(t) => {
            if a_tensor.as_ref() != Some(t) {
                return inconsistent(1414);
            }
            // ---- C: tensor -> matrix, three forms
            let c1 = t.clone().into_matrix();
            let c2: Matrix<i64> = t.clone().into();
            let c3 = <Matrix<i64> as From<Tensor<i64, 2>>>::from(t.clone());
            if c1 != c2 || c1 != c3 || c1.size() != c2.size() || c1.size() != c3.size() {
                return inconsistent(1430);
            }
            let c_nc: Matrix<NoClone> =
                Tensor::from(shape, data.iter().map(|&x| NoClone(x)).collect::<Vec<_>>()).into_matrix();
            if c_nc.size() != c1.size()
                || c_nc.row_major_reference_iter().map(|x| x.0).collect::<Vec<_>>()
                    != c1.row_major_iter().collect::<Vec<_>>()
            {
                return inconsistent(1431);
            }
            for (r, cc) in in_range_cells(c1.rows().min(rows), c1.columns().min(cols)) {
                if Some(c1.get_reference(r, cc)) != MatrixRef::try_get_reference(&c1, r, cc) || c1.get(r, cc) != *c1.get_reference(r, cc) {
                    return inconsistent(1432);
                }
            }
            let c = ok(l(vec![
                z(c1.rows()),
                z(c1.columns()),
                grid(rows, cols, |r, cc| MatrixRef::try_get_reference(&c1, r, cc).copied()),
            ]));

            // ---- D: the tensor seen as a matrix (MatrixRefTensor)
            let mut t_mut = t.clone();
            let s = MatrixRefTensor::from(t);
            let o = MatrixRefTensor::from(t.clone());
            let mut mu = MatrixRefTensor::from(&mut t_mut);
            let (vr, vc) = (s.view_rows(), s.view_columns());
            if (o.view_rows(), o.view_columns()) != (vr, vc) || (mu.view_rows(), mu.view_columns()) != (vr, vc) {
                return inconsistent(1440);
            }
            for r in 0..=rows + 1 {
                for cc in 0..=cols + 1 {
                    let x = s.try_get_reference(r, cc).copied();
                    if o.try_get_reference(r, cc).copied() != x
                        || mu.try_get_reference(r, cc).copied() != x
                        || mu.try_get_reference_mut(r, cc).map(|x| *x) != x
                    {
                        return inconsistent(1441);
                    }
                    if (r < rows && cc < cols) != x.is_some() {
                        return inconsistent(1447);
                    }
                    if let Some(x) = x {
                        if unsafe { *s.get_reference_unchecked(r, cc) } != x
                            || unsafe { *mu.get_reference_unchecked_mut(r, cc) } != x
                        {
                            return inconsistent(1443);
                        }
                    }
                }
            }
            if s.data_layout() != MLayout::RowMajor {
                return inconsistent(1444);
            }
            let mv = MatrixView::from(&s);
            if mv.size() != (vr, vc) || mv.rows() != vr || mv.columns() != vc {
                return inconsistent(1445);
            }
            if (vr, vc) == (rows, cols) && (mv.map(|x| x) != c1 || mv.row_major_iter().collect::<Vec<_>>() != data) {
                return inconsistent(1446);
            }
            let d = ok(l(vec![z(vr), z(vc), grid(rows, cols, |r, cc| s.try_get_reference(r, cc).copied())]));

            // ---- round trips
            // tensor -> MatrixRefTensor -> TensorRefMatrix -> tensor view (given names, default names)
            match TensorRefMatrix::with_names(MatrixRefTensor::from(t), names) {
                Err(_) => return inconsistent(1470),
                Ok(w) => {
                    let tv = TensorView::from(w);
                    if tv.shape() != t.shape() || &tv.map(|x| x) != t {
                        return inconsistent(1470);
                    }
                }
            }
            match TensorRefMatrix::from(MatrixRefTensor::from(t)) {
                Err(_) => return inconsistent(1471),
                Ok(w) => {
                    let tv = TensorView::from(w);
                    if tv.shape() != [("row", rows), ("column", cols)] || tv.iter().collect::<Vec<_>>() != data {
                        return inconsistent(1471);
                    }
                }
            }
            // matrix -> TensorRefMatrix(names) -> MatrixRefTensor -> matrix view
            match TensorRefMatrix::with_names(&m, names) {
                Err(_) => return inconsistent(1472),
                Ok(w) => {
                    if MatrixView::from(MatrixRefTensor::from(w)).map(|x| x) != m {
                        return inconsistent(1472);
                    }
                }
            }
            // owned conversions there and back
            match m.clone().into_tensor(names[0], names[1]) {
                Err(_) => return inconsistent(1474),
                Ok(t2) => {
                    let back = t2.into_matrix();
                    if back != m || back.size() != m.size() {
                        return inconsistent(1474);
                    }
                }
            }
            match t.clone().into_matrix().into_tensor(names[0], names[1]) {
                Err(_) => return inconsistent(1475),
                Ok(t2) => {
                    if &t2 != t || t2.shape() != t.shape() {
                        return inconsistent(1475);
                    }
                }
            }

            // ---- G: write through the mutable face of MatrixRefTensor
            let mut t_w = t.clone();
            let wrote = {
                let mut w = MatrixRefTensor::from(&mut t_w);
                match w.try_get_reference_mut(wr, wc) {
                    Some(x) => {
                        *x = v;
                        true
                    }
                    None => false,
                }
            };
            // the owned wrapper, observed through the wrapper itself
            let mut w_owned = MatrixRefTensor::from(t.clone());
            let wrote_owned = match w_owned.try_get_reference_mut(wr, wc) {
                Some(x) => {
                    *x = v;
                    true
                }
                None => false,
            };
            if wrote_owned != wrote
                || MatrixView::from(&w_owned).row_major_iter().collect::<Vec<_>>() != t_w.iter().collect::<Vec<_>>()
            {
                return inconsistent(1462);
            }
            if wrote {
                let mut t_u = t.clone();
                unsafe {
                    *MatrixRefTensor::from(&mut t_u).get_reference_unchecked_mut(wr, wc) = v;
                }
                if t_u != t_w || t_w.get_reference([wr, wc]) != Some(&v) {
                    return inconsistent(1463);
                }
            } else if &t_w != t {
                return inconsistent(1464);
            }
            let g = ok(opt(if wrote { Some(l(t_w.iter().map(z).collect())) } else { None }));
            (c, d, g)
        }
    };

    // ---- E: matrix -> scalar
    let e = match m.clone().try_into_scalar() {
        Ok(x) => {
            if Matrix::from_scalar(x) != m || guarded(|| m.scalar()) != Some(x) || (rows, cols) != (1, 1) {
                return inconsistent(1451);
            }
            if nc_matrix(rows, cols, data).try_into_scalar() != Ok(NoClone(x)) {
                return inconsistent(1453);
            }
            ok(z(x))
        }
        Err(e) => {
            if e != ScalarConversionError || e.to_string().is_empty() {
                return inconsistent(1450);
            }
            if guarded(|| m.scalar()).is_some() || (rows, cols) == (1, 1) {
                return inconsistent(1452);
            }
            if nc_matrix(rows, cols, data).try_into_scalar().is_ok() {
                return inconsistent(1453);
            }
            err(nil())
        }
    };

    // ---- F: write through the mutable face of TensorRefMatrix
    let f = {
        let mut m_w = m.clone();
        match TensorRefMatrix::with_names(&mut m_w, names) {
            Err(e) => err(shape_sx(&e.shape())),
            Ok(mut w) => {
                let wrote = match w.get_reference_mut([wr, wc]) {
                    Some(x) => {
                        *x = v;
                        true
                    }
                    None => false,
                };
                let Ok(mut w_owned) = TensorRefMatrix::with_names(m.clone(), names) else {
                    return inconsistent(1460);
                };
                let wrote_owned = match w_owned.get_reference_mut([wr, wc]) {
                    Some(x) => {
                        *x = v;
                        true
                    }
                    None => false,
                };
                if wrote_owned != wrote
                    || TensorView::from(&w_owned).iter().collect::<Vec<_>>() != m_w.row_major_iter().collect::<Vec<_>>()
                {
                    return inconsistent(1461);
                }
                if wrote {
                    let mut m_u = m.clone();
                    unsafe {
                        *TensorRefMatrix::with_names(&mut m_u, names).unwrap().get_reference_unchecked_mut([wr, wc]) = v;
                    }
                    if m_u != m_w || MatrixRef::try_get_reference(&m_w, wr, wc) != Some(&v) {
                        return inconsistent(1465);
                    }
                } else if m_w != m {
                    return inconsistent(1466);
                }
                ok(opt(if wrote { Some(l(m_w.row_major_iter().map(z).collect())) } else { None }))
            }
        }
    };

    l(vec![a, b, c, d, e, f, g])
}

fn view_from<const D: usize>(shape: &[(usize, usize)], data: &[i64]) -> Sx {
    let shape: [(&'static str, usize); D] = shape_arr(shape);
    let t = match Tensor::try_from(shape, data.to_vec()) {
        Err(e) => return err(shape_sx(&e.shape())),
        Ok(t) => t,
    };
    let owned: TensorView<i64, Tensor<i64, D>, D> = t.clone().into();
    let shared: TensorView<i64, &Tensor<i64, D>, D> = (&t).into();
    let mut t2 = t.clone();
    {
        let mutable: TensorView<i64, &mut Tensor<i64, D>, D> = (&mut t2).into();
        if mutable.shape() != t.shape() || mutable.iter().collect::<Vec<_>>() != data {
            return inconsistent(1480);
        }
    }
    if owned.shape() != t.shape()
        || shared.shape() != t.shape()
        || owned.iter().collect::<Vec<_>>() != data
        || shared.iter().collect::<Vec<_>>() != data
        || owned != t
        || shared != t
    {
        return inconsistent(1480);
    }
    let from_view: TensorView<i64, &Tensor<i64, D>, D> = (&owned).into();
    if from_view.shape() != t.shape() || from_view.iter().collect::<Vec<_>>() != data {
        return inconsistent(1481);
    }
    // the mutable conversions give write access to the same container: the LAST element changes
    let mut owned2: TensorView<i64, Tensor<i64, D>, D> = t.clone().into();
    let mut expect = data.to_vec();
    *expect.last_mut().unwrap() = -1;
    {
        let mut from_view_mut: TensorView<i64, &mut Tensor<i64, D>, D> = (&mut owned2).into();
        if from_view_mut.shape() != t.shape() {
            return inconsistent(1482);
        }
        if let Some(x) = from_view_mut.iter_reference_mut().last() {
            *x = -1;
        }
    }
    {
        let mut mutable: TensorView<i64, &mut Tensor<i64, D>, D> = (&mut t2).into();
        if let Some(x) = mutable.iter_reference_mut().last() {
            *x = -1;
        }
    }
    if owned2.iter().collect::<Vec<_>>() != expect || t2.iter().collect::<Vec<_>>() != expect {
        return inconsistent(1483);
    }
    ok(l(vec![shape_sx(&owned.shape()), l(owned.iter().map(z).collect())]))
}
