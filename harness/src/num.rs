//! Exact user-defined element types used by the correspondence checks (never floats):
//!  * `Rat` — arbitrary precision rationals (always reduced, positive denominator),
//!  * `Fp`  — the prime field F_p, p = 2^31 - 1.
//! Both are TOTAL: x / 0 = 0 (as in Coq's Q and as inversion by x^(p-2) gives in F_p), and the
//! elementary functions sin/cos/exp/ln/sqrt/pow/pi are fixed, arbitrary low-degree polynomials
//! ("uninterpreted function" stand-ins), defined identically in coq/theories/Model/Num.v.
//! Any generic routine that is a fixed sequence of field operations, calls to the element type's
//! Real methods and comparisons therefore produces exactly the same value in the implementation
//! and in the model.
use crate::sx::{l, z, Sx};
use easy_ml::differentiation::Primitive;
use easy_ml::numeric::extra::{Cos, Exp, Ln, Pi, Pow, Sin, Sqrt};
use easy_ml::numeric::{FromUsize, ZeroOne};
use num_bigint::BigInt;
use num_integer::Integer;
use num_traits::{One, Signed, Zero};
use std::cmp::Ordering;
use std::iter::Sum;
use std::ops::{Add, Div, Mul, Neg, Sub};

/// Encoding to / from the case language.
pub trait Enc: Sized {
    fn enc(&self) -> Sx;
    fn dec(s: &Sx) -> Option<Self>;
    fn small(v: i64) -> Self;
}

// ------------------------------------------------------------------ Rat
#[derive(Clone, Debug, PartialEq, Eq)]
pub struct Rat {
    n: BigInt,
    d: BigInt,
}
impl Rat {
    pub fn new(n: BigInt, d: BigInt) -> Rat {
        if d.is_zero() {
            return Rat { n: BigInt::zero(), d: BigInt::one() };
        }
        let g = n.gcd(&d);
        let (mut n, mut d) = (n / &g, d / &g);
        if d.is_negative() {
            n = -n;
            d = -d;
        }
        Rat { n, d }
    }
    pub fn int(v: i64) -> Rat {
        Rat { n: BigInt::from(v), d: BigInt::one() }
    }
    fn add_(&self, o: &Rat) -> Rat {
        Rat::new(&self.n * &o.d + &o.n * &self.d, &self.d * &o.d)
    }
    fn sub_(&self, o: &Rat) -> Rat {
        Rat::new(&self.n * &o.d - &o.n * &self.d, &self.d * &o.d)
    }
    fn mul_(&self, o: &Rat) -> Rat {
        Rat::new(&self.n * &o.n, &self.d * &o.d)
    }
    fn div_(&self, o: &Rat) -> Rat {
        // total: x / 0 = 0
        Rat::new(&self.n * &o.d, &self.d * &o.n)
    }
    fn neg_(&self) -> Rat {
        Rat { n: -&self.n, d: self.d.clone() }
    }
}
impl PartialOrd for Rat {
    fn partial_cmp(&self, o: &Rat) -> Option<Ordering> {
        Some((&self.n * &o.d).cmp(&(&o.n * &self.d)))
    }
}
impl Enc for Rat {
    fn enc(&self) -> Sx {
        l(vec![z(self.n.clone()), z(self.d.clone())])
    }
    fn dec(s: &Sx) -> Option<Rat> {
        let v = s.list()?;
        if v.len() != 2 {
            return None;
        }
        Some(Rat::new(v[0].int()?.clone(), v[1].int()?.clone()))
    }
    fn small(v: i64) -> Rat {
        Rat::int(v)
    }
}

// ------------------------------------------------------------------ Fp
pub const P: u64 = 2147483647;
#[derive(Clone, Copy, Debug, PartialEq, Eq, PartialOrd)]
pub struct Fp(pub u64);
impl Fp {
    pub fn new(v: i128) -> Fp {
        Fp(v.rem_euclid(P as i128) as u64)
    }
    fn add_(&self, o: &Fp) -> Fp {
        Fp((self.0 + o.0) % P)
    }
    fn sub_(&self, o: &Fp) -> Fp {
        Fp((self.0 + P - o.0) % P)
    }
    fn mul_(&self, o: &Fp) -> Fp {
        Fp((self.0 * o.0) % P)
    }
    fn inv(&self) -> Fp {
        // x^(p-2); 0 -> 0
        let mut r = Fp(1);
        let mut b = *self;
        let mut e = P - 2;
        while e > 0 {
            if e & 1 == 1 {
                r = r.mul_(&b);
            }
            b = b.mul_(&b);
            e >>= 1;
        }
        r
    }
    fn div_(&self, o: &Fp) -> Fp {
        self.mul_(&o.inv())
    }
    fn neg_(&self) -> Fp {
        Fp((P - self.0) % P)
    }
}
impl Enc for Fp {
    fn enc(&self) -> Sx {
        z(self.0)
    }
    fn dec(s: &Sx) -> Option<Fp> {
        use num_traits::ToPrimitive;
        let v = s.int()?;
        let m = v.mod_floor(&BigInt::from(P));
        Some(Fp(m.to_u64()?))
    }
    fn small(v: i64) -> Fp {
        Fp::new(v as i128)
    }
}

// ------------------------------------------------------------------ shared trait plumbing
macro_rules! ops {
    ($T:ty) => {
        ops!(@bin $T, Add, add, add_);
        ops!(@bin $T, Sub, sub, sub_);
        ops!(@bin $T, Mul, mul, mul_);
        ops!(@bin $T, Div, div, div_);
        impl Neg for $T {
            type Output = $T;
            fn neg(self) -> $T {
                self.neg_()
            }
        }
        impl Neg for &$T {
            type Output = $T;
            fn neg(self) -> $T {
                self.neg_()
            }
        }
        impl Sum for $T {
            fn sum<I: Iterator<Item = $T>>(iter: I) -> $T {
                iter.fold(<$T as ZeroOne>::zero(), |a, b| a.add_(&b))
            }
        }
        impl<'a> Sum<&'a $T> for $T {
            fn sum<I: Iterator<Item = &'a $T>>(iter: I) -> $T {
                iter.fold(<$T as ZeroOne>::zero(), |a, b| a.add_(b))
            }
        }
        impl Primitive for $T {}
        // the uninterpreted elementary functions: fixed polynomials, see Model/Num.v
        impl $T {
            fn k(v: i64) -> $T {
                <$T as Enc>::small(v)
            }
            pub fn uf_sin(&self) -> $T {
                // 3x^2 + 5x + 7
                Self::k(3).mul_(self).mul_(self).add_(&Self::k(5).mul_(self)).add_(&Self::k(7))
            }
            pub fn uf_cos(&self) -> $T {
                // 2x^3 + x + 11
                Self::k(2).mul_(self).mul_(self).mul_(self).add_(self).add_(&Self::k(11))
            }
            pub fn uf_exp(&self) -> $T {
                // x^2 + 13x + 17
                self.mul_(self).add_(&Self::k(13).mul_(self)).add_(&Self::k(17))
            }
            pub fn uf_ln(&self) -> $T {
                // 5x^2 + 3x + 19
                Self::k(5).mul_(self).mul_(self).add_(&Self::k(3).mul_(self)).add_(&Self::k(19))
            }
            pub fn uf_sqrt(&self) -> $T {
                // x^3 + 7x + 23
                self.mul_(self).mul_(self).add_(&Self::k(7).mul_(self)).add_(&Self::k(23))
            }
            pub fn uf_pow(&self, y: &$T) -> $T {
                // x^2 y + 3 x y^2 + x + 2y + 29
                self.mul_(self)
                    .mul_(y)
                    .add_(&Self::k(3).mul_(self).mul_(y).mul_(y))
                    .add_(self)
                    .add_(&Self::k(2).mul_(y))
                    .add_(&Self::k(29))
            }
        }
        ops!(@un $T, Sin, sin, uf_sin);
        ops!(@un $T, Cos, cos, uf_cos);
        ops!(@un $T, Exp, exp, uf_exp);
        ops!(@un $T, Ln, ln, uf_ln);
        ops!(@un $T, Sqrt, sqrt, uf_sqrt);
        impl Pow<$T> for $T {
            type Output = $T;
            fn pow(self, rhs: $T) -> $T {
                self.uf_pow(&rhs)
            }
        }
        impl Pow<&$T> for $T {
            type Output = $T;
            fn pow(self, rhs: &$T) -> $T {
                self.uf_pow(rhs)
            }
        }
        impl Pow<$T> for &$T {
            type Output = $T;
            fn pow(self, rhs: $T) -> $T {
                self.uf_pow(&rhs)
            }
        }
        impl Pow<&$T> for &$T {
            type Output = $T;
            fn pow(self, rhs: &$T) -> $T {
                self.uf_pow(rhs)
            }
        }
        impl Pi for $T {
            fn pi() -> $T {
                Self::k(31415926)
            }
        }
    };
    (@bin $T:ty, $Tr:ident, $m:ident, $f:ident) => {
        impl $Tr<$T> for $T {
            type Output = $T;
            fn $m(self, o: $T) -> $T {
                self.$f(&o)
            }
        }
        impl $Tr<&$T> for $T {
            type Output = $T;
            fn $m(self, o: &$T) -> $T {
                self.$f(o)
            }
        }
        impl $Tr<$T> for &$T {
            type Output = $T;
            fn $m(self, o: $T) -> $T {
                self.$f(&o)
            }
        }
        impl $Tr<&$T> for &$T {
            type Output = $T;
            fn $m(self, o: &$T) -> $T {
                self.$f(o)
            }
        }
    };
    (@un $T:ty, $Tr:ident, $m:ident, $f:ident) => {
        impl $Tr for $T {
            type Output = $T;
            fn $m(self) -> $T {
                self.$f()
            }
        }
        impl $Tr for &$T {
            type Output = $T;
            fn $m(self) -> $T {
                self.$f()
            }
        }
    };
}
ops!(Rat);
ops!(Fp);

impl ZeroOne for Rat {
    fn zero() -> Rat {
        Rat::int(0)
    }
    fn one() -> Rat {
        Rat::int(1)
    }
}
impl FromUsize for Rat {
    fn from_usize(n: usize) -> Option<Rat> {
        Some(Rat { n: BigInt::from(n), d: BigInt::one() })
    }
}
impl ZeroOne for Fp {
    fn zero() -> Fp {
        Fp(0)
    }
    fn one() -> Fp {
        Fp(1)
    }
}
impl FromUsize for Fp {
    fn from_usize(n: usize) -> Option<Fp> {
        Some(Fp((n as u64) % P))
    }
}

/// Decode a list of numbers.
pub fn dec_list<T: Enc>(s: &Sx) -> Option<Vec<T>> {
    s.list()?.iter().map(T::dec).collect()
}
pub fn enc_list<T: Enc>(v: &[T]) -> Sx {
    l(v.iter().map(|x| x.enc()).collect())
}

/// Dispatch on the element-type tag of the case language: 0 = Rat, 1 = Fp.
#[macro_export]
macro_rules! with_ty {
    ($ty:expr, $f:ident ( $($arg:expr),* )) => {
        match $ty {
            0 => $f::<$crate::num::Rat>($($arg),*),
            1 => $f::<$crate::num::Fp>($($arg),*),
            _ => $crate::sx::bad_case(),
        }
    };
}

#[allow(dead_code)]
fn _assert_traits() {
    fn real<T: easy_ml::numeric::extra::Real + Primitive>() {}
    real::<Rat>();
    real::<Fp>();
}
