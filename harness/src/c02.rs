//! C02: tensor view adaptors and their compositions, through a dynamic view interpreter.
//! Every adaptor application calls the REAL constructor on a type-erased source
//! (`Box<dyn TensorMut<E, D>>` / `Box<dyn TensorRef<E, D>>`, which the crate itself implements
//! TensorRef/TensorMut for) and re-boxes the result, so arbitrary-depth compositions run through
//! the genuine generic code.  Case language: see coq/theories/Run/RunC02.v.
//!   (2 1 term probes writes)   dynamic interpreter
//!   (2 2 term probes writes)   static (non-erased) composition, for the term skeletons of c02/fixed.rs
//!   (2 3 term shape' probes writes)   reshape the leaf through source_ref_mut(), then observe (c02/mutate.rs)
//!   (2 4 shape layout names req)      a user-implemented source with an arbitrary layout claim (c02/interop.rs)
//!   (2 5 term n0 n1 probes)           2-D view -> MatrixRefTensor -> TensorRefMatrix (c02/interop.rs)
//!   (2 6 term probes)                 views over zero-sized-element leaves, lengths up to usize::MAX:
//!                                     constructor outcome, shape and presence only (c16/zst.rs)
mod build;
use build as view_build;
#[path = "c16/zst.rs"]
mod zst;
mod fixed;
mod interop;
mod mutate;

use crate::guarded;
use crate::sx::*;
use build::*;
use easy_ml::tensors::indexing::TensorAccess;
use easy_ml::tensors::views::{DataLayout, TensorMut, TensorRef, TensorView};

pub fn run(args: &[Sx]) -> Sx {
    let op = args.first().and_then(|x| x.i64());
    // op 1: dynamic interpreter (type-erased sources); op 2: the same term built with concrete types
    if op == Some(4) {
        return interop::foreign(args);
    }
    if op == Some(5) {
        return interop::trip(args);
    }
    if op == Some(6) {
        if args.len() != 3 {
            return bad_case();
        }
        let Some(probes) = args[2].list().and_then(|p| p.iter().map(|x| x.usizes()).collect::<Option<Vec<_>>>()) else {
            return bad_case();
        };
        return zst::zst_case(&args[1], &probes);
    }
    let execute = match op {
        Some(1) => execute as fn(&Sx, &[Vec<usize>], &[(Vec<usize>, i64)], usize) -> Sx,
        Some(2) => fixed::execute,
        Some(3) => execute,
        _ => return bad_case(),
    };
    if op == Some(3) && args.len() == 5 {
        // build, reshape the leaf through source_ref_mut(), observe the same view object
        let (Some(shape), Some((probes, writes))) = (args[2].pairs_usize(), probes_writes(&args[3], &args[4])) else {
            return bad_case();
        };
        let r0 = mutate::execute(&args[1], &shape, &probes, &writes, 0);
        let r1 = mutate::execute(&args[1], &shape, &probes, &writes, 1);
        if r0 != r1 {
            return inconsistent(200);
        }
        return r0;
    }
    match op {
        Some(1) | Some(2) if args.len() == 4 => {
            let Some(probes) = args[2]
                .list()
                .and_then(|p| p.iter().map(|x| x.usizes()).collect::<Option<Vec<_>>>())
            else {
                return bad_case();
            };
            let Some(writes) = args[3].list().and_then(|ws| {
                ws.iter()
                    .map(|w| {
                        let w = w.list()?;
                        if w.len() != 2 {
                            return None;
                        }
                        Some((w[0].usizes()?, w[1].i64()?))
                    })
                    .collect::<Option<Vec<_>>>()
            }) else {
                return bad_case();
            };
            // the two write forms (checked / unchecked mutable reference) must agree on everything
            let r0 = execute(&args[1], &probes, &writes, 0);
            let r1 = execute(&args[1], &probes, &writes, 1);
            if r0 != r1 {
                return inconsistent(200);
            }
            r0
        }
        _ => bad_case(),
    }
}

fn probes_writes(p: &Sx, w: &Sx) -> Option<(Vec<Vec<usize>>, Vec<(Vec<usize>, i64)>)> {
    let probes = p.list()?.iter().map(|x| x.usizes()).collect::<Option<Vec<_>>>()?;
    let writes = w
        .list()?
        .iter()
        .map(|w| {
            let w = w.list()?;
            if w.len() != 2 {
                return None;
            }
            Some((w[0].usizes()?, w[1].i64()?))
        })
        .collect::<Option<Vec<_>>>()?;
    Some((probes, writes))
}

fn execute(term: &Sx, probes: &[Vec<usize>], writes: &[(Vec<usize>, i64)], form: usize) -> Sx {
    let mut arena = Arena::new();
    let mut ids = vec![];
    if !leaf_ids(term, &mut ids) {
        return bad_case();
    }
    let mut sorted = ids.clone();
    sorted.sort();
    sorted.dedup();
    if sorted.len() != ids.len() {
        return bad_case();
    }
    let view = match build(term, &mut arena) {
        Ok(v) => v,
        Err(failure) => return failure,
    };
    let d = match &view {
        AnyView::M(v) => v.dims(),
        AnyView::R(v) => v.dims(),
    };
    if probes.iter().any(|p| p.len() != d) || writes.iter().any(|w| w.0.len() != d) {
        return bad_case();
    }
    let observed = match view {
        AnyView::M(m) => {
            use fam_mut::{Dyn, DynView};
            match m {
                DynView::D0(v) => observe::<Dyn<0>, 0>(v, probes, writes, form),
                DynView::D1(v) => observe::<Dyn<1>, 1>(v, probes, writes, form),
                DynView::D2(v) => observe::<Dyn<2>, 2>(v, probes, writes, form),
                DynView::D3(v) => observe::<Dyn<3>, 3>(v, probes, writes, form),
                DynView::D4(v) => observe::<Dyn<4>, 4>(v, probes, writes, form),
                DynView::D5(v) => observe::<Dyn<5>, 5>(v, probes, writes, form),
                DynView::D6(v) => observe::<Dyn<6>, 6>(v, probes, writes, form),
            }
        }
        AnyView::R(r) => {
            use fam_ref::{Dyn, DynView};
            // nothing can be written through a shared reference: such cases carry no writes
            if !writes.is_empty() {
                return bad_case();
            }
            match r {
                DynView::D0(v) => observe_shared::<Dyn<0>, 0>(v, probes),
                DynView::D1(v) => observe_shared::<Dyn<1>, 1>(v, probes),
                DynView::D2(v) => observe_shared::<Dyn<2>, 2>(v, probes),
                DynView::D3(v) => observe_shared::<Dyn<3>, 3>(v, probes),
                DynView::D4(v) => observe_shared::<Dyn<4>, 4>(v, probes),
                DynView::D5(v) => observe_shared::<Dyn<5>, 5>(v, probes),
                DynView::D6(v) => observe_shared::<Dyn<6>, 6>(v, probes),
            }
        }
    };
    // the view (and every &mut into the leaves) is gone now
    match observed {
        Err(code) => code,
        Ok(mut items) => {
            let flags = items.pop().unwrap();
            items.push(l(vec![flags, arena.dump()]));
            ok(l(items))
        }
    }
}

fn layout_sx<const D: usize>(layout: &DataLayout<D>) -> Sx {
    match layout {
        DataLayout::Linear(order) => l(vec![z(0), names_sx(order)]),
        DataLayout::NonLinear => l(vec![z(1)]),
        DataLayout::Other => l(vec![z(2)]),
    }
}

fn value(v: Option<i64>) -> Sx {
    opt(v.map(z))
}

/// Everything observable through a shared reference:
/// Ok([shape, layout, probes, iter, memorder]) or Err(inconsistent code)
fn observe_read<S: TensorRef<E, D>, const D: usize>(view: &S, probes: &[Vec<usize>]) -> Result<Vec<Sx>, Sx> {
    let shape = view.view_shape();
    let in_shape = |p: &[usize; D]| (0..D).all(|d| p[d] < shape[d].1);
    // ---- shape, through every route
    {
        let tv = TensorView::from(view);
        if tv.shape() != shape || TensorRef::view_shape(&view) != shape {
            return Err(inconsistent(201));
        }
        if TensorAccess::from_source_order(view).shape() != shape {
            return Err(inconsistent(202));
        }
    }
    // ---- layout
    let layout = match guarded(|| view.data_layout()) {
        Some(lay) => {
            if TensorRef::data_layout(&view) != lay {
                return Err(inconsistent(203));
            }
            ok(layout_sx(&lay))
        }
        None => panicked(),
    };
    // ---- probes: every shared form must resolve to the same element
    let mut results = vec![];
    for p in probes {
        let p: [usize; D] = idx_arr(p);
        let r: Option<i64> = view.get_reference(p).map(|x| x.0);
        let addr: Option<*const E> = view.get_reference(p).map(|x| x as *const E);
        if TensorRef::get_reference(&view, p).map(|x| x as *const E) != addr {
            return Err(inconsistent(210));
        }
        {
            let acc = TensorAccess::from_source_order(view);
            if acc.try_get_reference(p).map(|x| x as *const E) != addr {
                return Err(inconsistent(211));
            }
            if guarded(|| acc.get_ref(p).0) != r {
                return Err(inconsistent(212));
            }
            if guarded(|| acc.get(p).0) != r {
                return Err(inconsistent(213));
            }
        }
        // presence must be exactly "inside the reported shape" before an unchecked call is allowed
        if r.is_some() && in_shape(&p) {
            let u = unsafe { view.get_reference_unchecked(p) } as *const E;
            if Some(u) != addr {
                return Err(inconsistent(216));
            }
        }
        results.push(value(r));
    }
    // ---- iteration in view-shape order
    let elements: usize = shape.iter().map(|d| d.1).product();
    let iter_values: Vec<i64> = {
        let tv = TensorView::from(view);
        let it: Vec<E> = tv.iter().collect();
        if it.len() != elements {
            return Err(inconsistent(220));
        }
        let refs: Vec<E> = tv.iter_reference().copied().collect();
        if refs != it {
            return Err(inconsistent(221));
        }
        let mapped = tv.map(|x| x);
        if mapped.shape() != shape || mapped.iter().collect::<Vec<_>>() != it {
            return Err(inconsistent(222));
        }
        let with_index: Vec<([usize; D], E)> = tv.iter().with_index().collect();
        for (i, v) in &with_index {
            if view.get_reference(*i).copied() != Some(*v) {
                return Err(inconsistent(223));
            }
        }
        if it.iter().any(|x| x.1 != 0) {
            return Err(inconsistent(224));
        }
        it.into_iter().map(|x| x.0).collect()
    };
    // ---- memory order walk for Linear layouts
    let memorder = match guarded(|| {
        TensorAccess::from_memory_order(view).map(|acc| {
            let values: Vec<i64> = acc.iter().map(|x| x.0).collect();
            let addrs: Vec<*const E> = acc.iter_reference().map(|x| x as *const E).collect();
            (values, addrs)
        })
    }) {
        None => panicked(),
        Some(None) => ok(nil()),
        Some(Some((values, addrs))) => {
            // strictly increasing addresses, and contiguous: every Linear view of this algebra
            // spans a whole tensor
            for w in addrs.windows(2) {
                if (w[1] as usize) <= (w[0] as usize) {
                    return Err(inconsistent(230));
                }
                if (w[1] as usize) - (w[0] as usize) != std::mem::size_of::<E>() {
                    return Err(inconsistent(231));
                }
            }
            ok(l(vec![l(values.into_iter().map(|v| value(Some(v))).collect())]))
        }
    };
    Ok(vec![
        shape_sx(&shape),
        layout,
        l(results),
        l(iter_values.into_iter().map(|v| value(Some(v))).collect()),
        memorder,
    ])
}

/// a view that is only reachable through shared references (below a `&S` source)
fn observe_shared<S: TensorRef<E, D>, const D: usize>(view: S, probes: &[Vec<usize>]) -> Result<Vec<Sx>, Sx> {
    let mut items = observe_read::<S, D>(&view, probes)?;
    // the same again through one more shared reference must not change anything
    if observe_read::<&S, D>(&&view, probes)? != items {
        return Err(inconsistent(250));
    }
    drop(view);
    items.push(nil());
    Ok(items)
}

/// Ok([shape, layout, probes, iter, memorder, flags]) or Err(inconsistent code)
pub(crate) fn observe<S: TensorMut<E, D>, const D: usize>(
    mut view: S,
    probes: &[Vec<usize>],
    writes: &[(Vec<usize>, i64)],
    form: usize,
) -> Result<Vec<Sx>, Sx> {
    let mut items = observe_read::<S, D>(&view, probes)?;
    let shape = view.view_shape();
    let in_shape = |p: &[usize; D]| (0..D).all(|d| p[d] < shape[d].1);
    // ---- probes again: the mutable and unchecked forms must resolve to the same element
    for p in probes {
        let p: [usize; D] = idx_arr(p);
        let addr: Option<*const E> = view.get_reference(p).map(|x| x as *const E);
        if view.get_reference_mut(p).map(|x| x as *mut E as *const E) != addr {
            return Err(inconsistent(214));
        }
        {
            let mut borrowed: &mut S = &mut view;
            if TensorMut::get_reference_mut(&mut borrowed, p).map(|x| x as *mut E as *const E) != addr {
                return Err(inconsistent(215));
            }
        }
        if addr.is_some() && in_shape(&p) {
            let um = unsafe { view.get_reference_unchecked_mut(p) } as *mut E as *const E;
            if Some(um) != addr {
                return Err(inconsistent(217));
            }
        }
    }
    // ---- mutable iteration (TensorReferenceMutIterator goes through get_reference_unchecked_mut
    //      for every element) must hand out the very elements shared iteration visits, in order
    {
        let shared: Vec<*const E> = TensorView::from(&view).iter_reference().map(|x| x as *const E).collect();
        let mutable: Vec<*const E> =
            TensorView::from(&mut view).iter_reference_mut().map(|x| x as *mut E as *const E).collect();
        if shared != mutable {
            return Err(inconsistent(225));
        }
        let indexed: Vec<([usize; D], *const E)> = TensorView::from(&mut view)
            .iter_reference_mut()
            .with_index()
            .map(|(i, x)| (i, x as *mut E as *const E))
            .collect();
        for (i, a) in &indexed {
            if view.get_reference(*i).map(|x| x as *const E) != Some(*a) {
                return Err(inconsistent(226));
            }
        }
        // map_mut with the identity writes every element back onto itself
        let before: Vec<E> = TensorView::from(&view).iter().collect();
        TensorView::from(&mut view).map_mut(|x| x);
        let after: Vec<E> = TensorView::from(&view).iter().collect();
        if before != after {
            return Err(inconsistent(227));
        }
    }
    // ---- writes
    let mut flags = vec![];
    for (idx, v) in writes {
        let p: [usize; D] = idx_arr(idx);
        let present = view.get_reference(p).is_some();
        let landed = if form == 1 && present && in_shape(&p) {
            unsafe {
                *view.get_reference_unchecked_mut(p) = (*v, 0);
            }
            true
        } else {
            match view.get_reference_mut(p) {
                Some(r) => {
                    *r = (*v, 0);
                    true
                }
                None => false,
            }
        };
        if landed != present {
            return Err(inconsistent(240));
        }
        if landed && view.get_reference(p) != Some(&(*v, 0)) {
            return Err(inconsistent(241));
        }
        flags.push(boolean(landed));
    }
    drop(view);
    items.push(l(flags));
    Ok(items)
}
