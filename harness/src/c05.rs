//! C05: forward-mode automatic differentiation with Trace.
//!   (5 1 ty seed body outputs)     the language is documented in coq/theories/Run/RunC05.v
//! The program language is the one of C04.  Every program is executed six times: all operators
//! through ownership form 0 (ref op ref), 1 (value op value), 2 (value op ref), 3 (ref op value),
//! a per-instruction mix, and with the other operand KIND (trace op number <-> trace op
//! Trace::constant(number), number.pow(trace) <-> Trace::constant(number).pow(trace), Sum <-> fold
//! of +); additionally through Trace::derivative(closure, x) and, in reverse mode, through Record
//! (derivatives().at(seeded variable)).  All must agree; printed once: ((number derivative) ...)
use crate::num::Enc;
use crate::sx::*;
use crate::with_ty;
use easy_ml::differentiation::{Trace, WengertList};
use easy_ml::numeric::extra::{Cos, Exp, Ln, Pow, RealRef, Sin, Sqrt};
use easy_ml::numeric::ZeroOne;

#[path = "c04/prog.rs"]
mod prog;
use prog::*;

pub fn run(args: &[Sx]) -> Sx {
    match args.first().and_then(|x| x.i64()) {
        Some(1) if args.len() == 5 => {
            let (Some(ty), Some(seed)) = (args[1].i64(), args[2].usize()) else { return bad_case() };
            with_ty!(ty, go(seed, &args[3], &args[4]))
        }
        _ => bad_case(),
    }
}

fn tt<T: Num>(o: u8, f: usize, a: &Trace<T>, b: &Trace<T>) -> Trace<T>
where
    for<'t> &'t T: RealRef<T>,
{
    macro_rules! forms {
        ($op:tt) => {
            match f {
                0 => a $op b,
                1 => a.clone() $op b.clone(),
                2 => a.clone() $op b,
                _ => a $op b.clone(),
            }
        };
    }
    match o {
        0 => forms!(+),
        1 => forms!(-),
        2 => forms!(*),
        3 => forms!(/),
        _ => match f {
            0 => Pow::pow(a, b),
            1 => Pow::pow(a.clone(), b.clone()),
            2 => Pow::pow(a.clone(), b),
            _ => Pow::pow(a, b.clone()),
        },
    }
}

fn tn<T: Num>(o: u8, f: usize, a: &Trace<T>, c: &T) -> Trace<T>
where
    for<'t> &'t T: RealRef<T>,
{
    macro_rules! forms {
        ($op:tt) => {
            match f {
                0 => a $op c,
                1 => a.clone() $op c.clone(),
                2 => a.clone() $op c,
                _ => a $op c.clone(),
            }
        };
    }
    match o {
        0 => forms!(+),
        1 => forms!(-),
        2 => forms!(*),
        3 => forms!(/),
        _ => match f {
            0 => Pow::pow(a, c),
            1 => Pow::pow(a.clone(), c.clone()),
            2 => Pow::pow(a.clone(), c),
            _ => Pow::pow(a, c.clone()),
        },
    }
}

fn npow<T: Num>(f: usize, c: &T, b: &Trace<T>) -> Trace<T>
where
    for<'t> &'t T: RealRef<T>,
{
    match f {
        0 => Pow::pow(c, b),
        1 => Pow::pow(c.clone(), b.clone()),
        2 => Pow::pow(c.clone(), b),
        _ => Pow::pow(c, b.clone()),
    }
}

fn un<T: Num>(u: u8, f: usize, a: &Trace<T>) -> Trace<T>
where
    for<'t> &'t T: RealRef<T>,
{
    macro_rules! forms {
        ($tr:ident :: $m:ident) => {
            if f % 2 == 0 {
                $tr::$m(a)
            } else {
                $tr::$m(a.clone())
            }
        };
    }
    match u {
        0 => {
            if f % 2 == 0 {
                -a
            } else {
                -(a.clone())
            }
        }
        1 => forms!(Sin::sin),
        2 => forms!(Cos::cos),
        3 => forms!(Exp::exp),
        4 => forms!(Ln::ln),
        _ => forms!(Sqrt::sqrt),
    }
}

/// `seeded`: the trace to use for the variable instruction at position `seed`
fn run_traces<T: Num>(prog: &[Ins<T>], seed: usize, seeded: Trace<T>, mode: u8) -> Vec<Trace<T>>
where
    for<'t> &'t T: RealRef<T>,
{
    let mut nodes: Vec<Trace<T>> = Vec::with_capacity(prog.len());
    let other = mode == 5;
    for (k, ins) in prog.iter().enumerate() {
        let f = form_of(mode, k);
        let r: Trace<T> = match ins {
            Ins::Var(x) => {
                if k == seed {
                    seeded.clone()
                } else {
                    Trace::constant(x.clone())
                }
            }
            Ins::Const(c) => Trace::constant(c.clone()),
            Ins::Bin(o, a, b) => tt::<T>(*o, f, &nodes[*a], &nodes[*b]),
            Ins::BinC(o, a, c) => {
                if other {
                    tt::<T>(*o, 0, &nodes[*a], &Trace::constant(c.clone()))
                } else {
                    tn::<T>(*o, f, &nodes[*a], c)
                }
            }
            // number - trace and number / trace do not exist: lift the number
            Ins::CBin(o, c, b) => {
                if *o == 4 && !other {
                    npow::<T>(f, c, &nodes[*b])
                } else {
                    tt::<T>(*o, f, &Trace::constant(c.clone()), &nodes[*b])
                }
            }
            Ins::Un(u, a) => un::<T>(*u, f, &nodes[*a]),
            Ins::Sum(l) => {
                if other {
                    let mut total = Trace::<T>::zero();
                    for &a in l {
                        total = tt::<T>(0, a % 4, &total, &nodes[a]);
                    }
                    total
                } else {
                    l.iter().map(|&a| nodes[a].clone()).sum()
                }
            }
            Ins::User1(g, a) => {
                let g = *g;
                nodes[*a].unary(|x| user1_f(g, x), |x| user1_df(g, x))
            }
            Ins::User2(g, a, b) => {
                let g = *g;
                nodes[*a].binary(&nodes[*b], |x, y| user2_f(g, x, y), |x, y| user2_dx(g, x, y), |x, y| user2_dy(g, x, y))
            }
        };
        nodes.push(r);
    }
    nodes
}

fn go<T: Num>(seed: usize, body: &Sx, outs: &Sx) -> Sx
where
    for<'t> &'t T: RealRef<T>,
{
    let Some(prog) = parse_prog::<T>(body) else { return bad_case() };
    let Some(outs) = parse_outs(outs, prog.len()) else { return bad_case() };
    let Some(Ins::Var(x0)) = prog.get(seed).cloned() else { return bad_case() };
    let mut canonical: Option<Vec<(T, T)>> = None;
    let plain = run_plain::<T>(&prog);
    for mode in 0..6u8 {
        let nodes = run_traces::<T>(&prog, seed, Trace::variable(x0.clone()), mode);
        if !nodes.iter().zip(plain.iter()).all(|(t, p)| t.number == *p) {
            return inconsistent(250);
        }
        let obs: Vec<(T, T)> = outs.iter().map(|&o| (nodes[o].number.clone(), nodes[o].derivative.clone())).collect();
        match &canonical {
            None => canonical = Some(obs),
            Some(c) => {
                if *c != obs {
                    return inconsistent(400 + mode as i64);
                }
            }
        }
    }
    let canonical = canonical.unwrap();
    // Trace::derivative(function, x)
    for (i, &o) in outs.iter().enumerate() {
        let d = Trace::derivative(|x| run_traces::<T>(&prog, seed, x, 0)[o].clone(), x0.clone());
        if d != canonical[i].1 {
            return inconsistent(450);
        }
    }
    // reverse mode on the same program: seeding this input reproduces its gradient entry exactly
    let list = WengertList::<T>::new();
    let recs = match run_records::<T>(&list, &prog, 0) {
        Ok(r) => r,
        Err(code) => return inconsistent(code),
    };
    for (i, &o) in outs.iter().enumerate() {
        if recs[o].number != canonical[i].0 {
            return inconsistent(501);
        }
        let expected = match recs[o].try_derivatives() {
            None => T::zero(),
            Some(d) => d.at(&recs[seed]),
        };
        if expected != canonical[i].1 {
            return inconsistent(500);
        }
    }
    l(canonical.iter().map(|(n, d)| l(vec![n.enc(), d.enc()])).collect())
}
