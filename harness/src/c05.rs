//! C05: forward-mode automatic differentiation with Trace.
//!   (5 1 ty seed body outputs)     the language is documented in coq/theories/Run/RunC05.v
//!   (5 2 seed body outputs)        float oracle (f64, checked on the Rust side, flags only)
//! The program language is the one of C04.  Every program is executed six times: all operators
//! through ownership form 0 (ref op ref), 1 (value op value), 2 (value op ref), 3 (ref op value),
//! a per-instruction mix, and with the other operand KIND (trace op number <-> trace op
//! Trace::constant(number), number.pow(trace) <-> Trace::constant(number).pow(trace), Sum <-> fold
//! of +); additionally through Trace::derivative(closure, x) and, in reverse mode, through Record
//! (derivatives().at(seeded variable)); a program with a Sum instruction also with the summed traces
//! handed to `impl Sum for Trace` through iterators of every other SHAPE (prog.rs `sum_shaped`:
//! unknown lower bound, from_fn, chain, flat_map, not fused, by &mut, lying size hints;
//! `inconsistent 600+shape`).  All must agree; printed once: ((number derivative) ...)
use crate::num::Enc;
use crate::sx::*;
use crate::with_ty;
use easy_ml::differentiation::{Trace, WengertList};
use easy_ml::numeric::extra::RealRef;
use easy_ml::numeric::ZeroOne;

#[path = "c04/prog.rs"]
mod prog;
use prog::*;

pub fn run(args: &[Sx]) -> Sx {
    match args.first().and_then(|x| x.i64()) {
        Some(1) if args.len() == 5 => {
            let (Some(ty), Some(seed)) = (args[1].i64(), args[2].usize()) else { return bad_case() };
            with_ty!(ty, go(seed, &args[3], &args[4]))
        }
        // float oracle: (5 2 seed body outputs), numbers (m e) = m * 2^e as f64; result: three 0/1
        // flags (forms agree, forward == reverse, numbers == plain f64)
        Some(2) if args.len() == 4 => {
            let Some(seed) = args[1].usize() else { return bad_case() };
            let Some(prog) = parse_prog_with::<f64>(&args[2], &dec_f64) else { return bad_case() };
            let Some(outs) = parse_outs(&args[3], prog.len()) else { return bad_case() };
            if !matches!(prog.get(seed), Some(Ins::Var(_))) {
                return bad_case();
            }
            let (a, b, c) = float_oracle(&prog, &outs, &[seed]);
            l(vec![boolean(a), boolean(b), boolean(c)])
        }
        _ => bad_case(),
    }
}

fn go<T: Num + Enc>(seed: usize, body: &Sx, outs: &Sx) -> Sx
where
    for<'t> &'t T: RealRef<T>,
{
    let Some(prog) = parse_prog::<T>(body) else { return bad_case() };
    let Some(outs) = parse_outs(outs, prog.len()) else { return bad_case() };
    let Some(Ins::Var(x0)) = prog.get(seed).cloned() else { return bad_case() };
    let mut canonical: Option<Vec<(T, T)>> = None;
    let plain = run_plain::<T>(&prog);
    for mode in 0..6u8 {
        let nodes = run_traces::<T>(&prog, seed, Trace::variable(x0.clone()), mode);
        if !nodes.iter().zip(plain.iter()).all(|(t, p)| t.number == *p) {
            return inconsistent(250);
        }
        let obs: Vec<(T, T)> = outs.iter().map(|&o| (nodes[o].number.clone(), nodes[o].derivative.clone())).collect();
        match &canonical {
            None => canonical = Some(obs),
            Some(c) => {
                if *c != obs {
                    return inconsistent(400 + mode as i64);
                }
            }
        }
    }
    let canonical = canonical.unwrap();
    // every Sum instruction again with its items handed to `impl Sum for Trace` through every other
    // iterator SHAPE (prog.rs `sum_shaped`), in ownership form shape % 5
    if has_sum(&prog) {
        for shape in 1..SUM_SHAPES {
            let nodes = run_traces_shaped::<T>(&prog, seed, Trace::variable(x0.clone()), shape % 5, shape);
            if !nodes.iter().zip(plain.iter()).all(|(t, p)| t.number == *p) {
                return inconsistent(650 + shape as i64);
            }
            let obs: Vec<(T, T)> = outs.iter().map(|&o| (nodes[o].number.clone(), nodes[o].derivative.clone())).collect();
            if obs != canonical {
                return inconsistent(600 + shape as i64);
            }
        }
    }
    // Trace::derivative(function, x)
    for (i, &o) in outs.iter().enumerate() {
        let d = Trace::derivative(|x| run_traces::<T>(&prog, seed, x, 0)[o].clone(), x0.clone());
        if d != canonical[i].1 {
            return inconsistent(450);
        }
    }
    // reverse mode on the same program: seeding this input reproduces its gradient entry exactly
    let list = WengertList::<T>::new();
    let recs = match run_records::<T>(&list, &prog, 0) {
        Ok(r) => r,
        Err(code) => return inconsistent(code),
    };
    for (i, &o) in outs.iter().enumerate() {
        if recs[o].number != canonical[i].0 {
            return inconsistent(501);
        }
        let expected = match recs[o].try_derivatives() {
            None => T::zero(),
            Some(d) => d.at(&recs[seed]),
        };
        if expected != canonical[i].1 {
            return inconsistent(500);
        }
    }
    l(canonical.iter().map(|(n, d)| l(vec![n.enc(), d.enc()])).collect())
}
