//! C17: Gaussian density and draws, multivariate draws (matrix and tensor variants) on the exact
//! UF-field element types, counting how many source numbers every call consumes.
//!   (17 1 ty mean var x)                 -> value
//!   (17 2 ty mean var k source)          -> (option-list consumed)
//!   (17 3 ty k mean cov source (ns nf))  -> ( M T )   (see coq/theories/Run/RunC17.v), k >= 1
//!   (17 5 ty mean cov source (ns nf))    -> ( M T )   the same with k = 0 (known finding K1)
//!   (17 4 ty data)                       -> outcome (mean variance)
//! FLOAT tier (fty 0 = f64, 1 = f32; numbers (m e) = the decimal m * 10^e rounded to the type):
//!   (17 6 fty mean var (x ..))           -> (closed-form symmetric maximal-at-mean forms) flags
//!   (17 7 fty mean var k source)         -> (present consumed values-ok)
//!   (17 8 fty k mean cov source)         -> (present consumed values-ok)   k >= 1
//! Floats are never printed: presence and consumption are compared with the model, the VALUES
//! are compared here with the real-number closed forms of C17_pdf_real / C17_draw_values_real /
//! C17_mv_draw_real evaluated in f64, within a rounding-error budget.
use crate::guarded;
use crate::num::{dec_list, enc_list, Enc};
use crate::sx::*;
use crate::with_ty;
use easy_ml::distributions::{
    Gaussian, MultivariateGaussian, MultivariateGaussianError, MultivariateGaussianTensor,
};
use easy_ml::matrices::Matrix;
use easy_ml::numeric::extra::{Real, RealRef};
use easy_ml::tensors::Tensor;

/// An iterator over a fixed list that counts how many items were taken from it.
struct Counting<T> {
    items: std::vec::IntoIter<T>,
    taken: usize,
}
impl<T> Counting<T> {
    fn new(v: Vec<T>) -> Self {
        Counting { items: v.into_iter(), taken: 0 }
    }
}
impl<T> Iterator for Counting<T> {
    type Item = T;
    fn next(&mut self) -> Option<T> {
        let r = self.items.next();
        if r.is_some() {
            self.taken += 1;
        }
        r
    }
}

/// ITERATOR SHAPES at the hand-off (crate::shapes, notes/ITERS.md): the source of a draw handed
/// over as a lower-bound-0 / custom-hint / not-fused / boxed / by-ref / lying-hint iterator over the
/// same numbers must give the canonical result and consume the same number of items (counted
/// by an `inspect` between the shape and the crate).  `$call` uses `$s : &mut impl Iterator`.
/// Code = base + shape.  Draws never need the hint, so the lying shapes are compared as well.
macro_rules! shaped_sources {
    ($src:expr, $key:expr, $base:expr, $canon:expr, $taken:expr, |$s:ident| $call:expr) => {
        for shape in crate::shapes::plan($key, &crate::shapes::LYING) {
            let count = std::cell::Cell::new(0usize);
            let r = crate::shapes::with_shape!(shape, $src.clone(), |it| {
                let mut counted = it.inspect(|_| count.set(count.get() + 1));
                let $s = &mut counted;
                $call
            });
            if r != $canon || count.get() != $taken {
                return inconsistent($base + shape as i64);
            }
        }
    };
}

pub fn run(args: &[Sx]) -> Sx {
    if args.len() < 2 {
        return bad_case();
    }
    let (Some(op), Some(ty)) = (args[0].i64(), args[1].i64()) else { return bad_case() };
    if (6..=8).contains(&op) {
        // FLOAT tier (ty 0 = f64, 1 = f32): see `float_tier` at the end of this file
        return match ty {
            0 => float_tier::<f64>(op, &args[2..]),
            1 => float_tier::<f32>(op, &args[2..]),
            _ => bad_case(),
        };
    }
    with_ty!(ty, go(op, &args[2..]))
}

fn dec_mat<T: Enc>(s: &Sx) -> Option<Vec<Vec<T>>> {
    let rows = s.list()?.iter().map(dec_list::<T>).collect::<Option<Vec<Vec<T>>>>()?;
    if rows.is_empty() || rows[0].is_empty() || rows.iter().any(|r| r.len() != rows[0].len()) {
        return None;
    }
    Some(rows)
}

fn rows_sx<T: Enc>(data: &[T], columns: usize) -> Sx {
    l(data.chunks(columns).map(|c| enc_list(c)).collect())
}

fn go<T>(op: i64, args: &[Sx]) -> Sx
where
    T: Real + Enc + PartialEq + std::fmt::Debug,
    for<'a> &'a T: RealRef<T>,
{
    match (op, args.len()) {
        (1, 3) => {
            let (Some(m), Some(v), Some(x)) = (T::dec(&args[0]), T::dec(&args[1]), T::dec(&args[2])) else {
                return bad_case();
            };
            let g = Gaussian::<T>::new(m.clone(), v.clone());
            let p = g.probability(&x);
            #[allow(deprecated)]
            let p2 = g.map(&x);
            if p != p2 {
                return inconsistent(101);
            }
            // the public fields are the parameters
            let g2 = Gaussian::<T> { mean: m, variance: v };
            if g2.clone().probability(&x) != p {
                return inconsistent(102);
            }
            p.enc()
        }
        (2, 4) => {
            let (Some(m), Some(v), Some(k), Some(src)) =
                (T::dec(&args[0]), T::dec(&args[1]), args[2].usize(), dec_list::<T>(&args[3]))
            else {
                return bad_case();
            };
            if k > 1 << 20 {
                return bad_case();
            }
            let g = Gaussian::<T>::new(m, v);
            let mut source = Counting::new(src.clone());
            let r = g.draw(&mut source, k);
            let taken = source.taken;
            // what is left in the source is exactly the unconsumed tail
            let rest: Vec<T> = source.collect();
            if rest[..] != src[taken..] {
                return inconsistent(201);
            }
            // the same call through a plain slice iterator agrees
            let mut plain = src.iter().cloned();
            let r2 = g.draw(&mut plain, k);
            if r2 != r || plain.count() != src.len() - taken {
                return inconsistent(202);
            }
            shaped_sources!(src, crate::shapes::key_of(args), 17200, r, taken, |s| g.draw(s, k));
            l(vec![opt(r.map(|v| enc_list(&v))), z(taken)])
        }
        (3, 5) => {
            let (Some(k), Some(mean), Some(cov), Some(src), Some(names)) = (
                args[0].usize(),
                dec_mat::<T>(&args[1]),
                dec_mat::<T>(&args[2]),
                dec_list::<T>(&args[3]),
                args[4].usizes(),
            ) else {
                return bad_case();
            };
            if names.len() != 2 || k > 1 << 16 || k == 0 {
                return bad_case();
            }
            mv::<T>(k, mean, cov, src, names[0], names[1])
        }
        (5, 4) => {
            let (Some(mean), Some(cov), Some(src), Some(names)) =
                (dec_mat::<T>(&args[0]), dec_mat::<T>(&args[1]), dec_list::<T>(&args[2]), args[3].usizes())
            else {
                return bad_case();
            };
            if names.len() != 2 {
                return bad_case();
            }
            mv::<T>(0, mean, cov, src, names[0], names[1])
        }
        (4, 1) => {
            let Some(data) = dec_list::<T>(&args[0]) else { return bad_case() };
            {
                // iterator shapes: `approximating` collects its argument, so a lying LOWER bound of
                // usize::MAX (shapes 12 / 15) may panic with "capacity overflow" instead (code 17480 + shape
                // if it gives anything else); every other shape must give the canonical outcome (17400 + shape)
                let pair = |g: Option<Gaussian<T>>| g.map(|g| (g.mean, g.variance));
                let canon = pair(guarded(|| Gaussian::<T>::approximating(data.iter().cloned())));
                for shape in crate::shapes::plan(crate::shapes::key_of(args), &crate::shapes::LYING) {
                    let r = pair(crate::shapes::with_shape!(shape, data.clone(), |it| guarded(|| Gaussian::<T>::approximating(it))));
                    if crate::shapes::lower_is_max(shape) {
                        if r.is_some() && r != canon {
                            return inconsistent(17480 + shape as i64);
                        }
                    } else if r != canon {
                        return inconsistent(17400 + shape as i64);
                    }
                }
            }
            match guarded(|| Gaussian::<T>::approximating(data.iter().cloned())) {
                Some(g) => {
                    let g2 = guarded(|| Gaussian::<T>::approximating(data.clone().into_iter()));
                    match g2 {
                        Some(g2) if g2.mean == g.mean && g2.variance == g.variance => {}
                        _ => return inconsistent(401),
                    }
                    // an iterator without an exact size hint
                    let g3 = guarded(|| Gaussian::<T>::approximating(data.iter().cloned().filter(|_| true)));
                    match g3 {
                        Some(g3) if g3.mean == g.mean && g3.variance == g.variance => {}
                        _ => return inconsistent(402),
                    }
                    ok(l(vec![g.mean.enc(), g.variance.enc()]))
                }
                None => panicked(),
            }
        }
        _ => bad_case(),
    }
}

fn mv<T>(k: usize, mean: Vec<Vec<T>>, cov: Vec<Vec<T>>, src: Vec<T>, ns: usize, nf: usize) -> Sx
where
    T: Real + Enc + PartialEq + std::fmt::Debug,
    for<'a> &'a T: RealRef<T>,
{
    let mean_flat: Vec<T> = mean.iter().flatten().cloned().collect();
    let cov_flat: Vec<T> = cov.iter().flatten().cloned().collect();
    let (cr, cc) = (cov.len(), cov[0].len());
    let shape_key = crate::shapes::key_of(&[z(k), enc_list(&src), enc_list(&cov_flat), z(ns * 16 + nf)]);

    // ---- matrix variant
    let mut matrix_draw: Option<(Option<Matrix<T>>, usize)> = None;
    let m_res = match guarded(|| MultivariateGaussian::<T>::new(Matrix::from(mean.clone()), Matrix::from(cov.clone()))) {
        None => panicked(),
        Some(g) => {
            if g.mean() != &Matrix::from(mean.clone()) || g.covariance() != &Matrix::from(cov.clone()) {
                return inconsistent(301);
            }
            let mut source = Counting::new(src.clone());
            let r = guarded(|| g.draw(&mut source, k));
            let taken = source.taken;
            shaped_sources!(src, shape_key, 17300, r, taken, |s| guarded(|| g.draw(s, k)));
            match r {
                None => ok(panicked()),
                Some(r) => {
                    let rest: Vec<T> = source.collect();
                    if rest[..] != src[taken..] {
                        return inconsistent(302);
                    }
                    let enc = opt(r.as_ref().map(|m| {
                        let data: Vec<T> = m.row_major_iter().collect();
                        rows_sx(&data, m.columns())
                    }));
                    if let Some(m) = &r {
                        if m.rows() != k || m.columns() != mean.len() {
                            return inconsistent(303);
                        }
                    }
                    matrix_draw = Some((r, taken));
                    ok(ok(l(vec![enc, z(taken)])))
                }
            }
        }
    };

    // ---- tensor variant
    let mean_t = Tensor::from([(dim(7), mean_flat.len())], mean_flat.clone());
    let cov_t = Tensor::from([(dim(8), cr), (dim(9), cc)], cov_flat.clone());
    let t_res = match MultivariateGaussianTensor::<T>::new(mean_t.clone(), cov_t.clone()) {
        Err(e) if e.to_string().is_empty() || format!("{:?}", e).is_empty() => return inconsistent(309),
        Err(e) => match *e {
            MultivariateGaussianError::NotCovarianceMatrix { mean, covariance } => {
                if mean != mean_t || covariance != cov_t {
                    return inconsistent(310);
                }
                err(z(0))
            }
            MultivariateGaussianError::MeanVectorWrongLength { mean, covariance } => {
                if mean != mean_t || covariance != cov_t {
                    return inconsistent(311);
                }
                err(z(1))
            }
            _ => err(z(9)),
        },
        Ok(g) => {
            if g.mean() != &mean_t || g.covariance() != &cov_t {
                return inconsistent(312);
            }
            let mut source = Counting::new(src.clone());
            let r = guarded(|| g.draw(&mut source, k, dim(ns), dim(nf)));
            let taken = source.taken;
            shaped_sources!(src, shape_key, 17340, r, taken, |s| guarded(|| g.draw(s, k, dim(ns), dim(nf))));
            // the mean / covariance tensors' OWN dimension names are not observable: every
            // renaming, including collisions with the draw's `samples` / `features` names, must
            // give the same outcome (same numbers, same shape, same consumption, same panic)
            for (mn, c0, c1) in [
                (nf, 8, 9),
                (ns, 8, 9),
                (7, ns, nf),
                (7, nf, ns),
                (nf, nf, ns),
                (ns, ns, nf),
                (nf, 8, nf),
                (ns, ns, 9),
            ] {
                if c0 == c1 {
                    continue;
                }
                let mean_r = Tensor::from([(dim(mn), mean_flat.len())], mean_flat.clone());
                let cov_r = Tensor::from([(dim(c0), cr), (dim(c1), cc)], cov_flat.clone());
                let Ok(g2) = MultivariateGaussianTensor::<T>::new(mean_r, cov_r) else {
                    return inconsistent(330);
                };
                let mut source2 = Counting::new(src.clone());
                let r2 = guarded(|| g2.draw(&mut source2, k, dim(ns), dim(nf)));
                if r2 != r || source2.taken != taken {
                    return inconsistent(331);
                }
            }
            match r {
                None => ok(panicked()),
                Some(r) => {
                    let rest: Vec<T> = source.collect();
                    if rest[..] != src[taken..] {
                        return inconsistent(313);
                    }
                    // both name choices: the swapped names give the same numbers
                    if ns != nf {
                        let mut source2 = Counting::new(src.clone());
                        let r2 = guarded(|| g.draw(&mut source2, k, dim(nf), dim(ns)));
                        match r2 {
                            None => return inconsistent(314),
                            Some(r2) => {
                                if source2.taken != taken {
                                    return inconsistent(315);
                                }
                                match (&r, &r2) {
                                    (None, None) => {}
                                    (Some(a), Some(b)) => {
                                        if a.iter().collect::<Vec<T>>() != b.iter().collect::<Vec<T>>()
                                            || b.shape() != [(dim(nf), a.shape()[0].1), (dim(ns), a.shape()[1].1)]
                                        {
                                            return inconsistent(316);
                                        }
                                    }
                                    _ => return inconsistent(317),
                                }
                            }
                        }
                        // the matrix and tensor variants agree
                        if let Some((mr, mtaken)) = &matrix_draw {
                            if *mtaken != taken {
                                return inconsistent(320);
                            }
                            match (mr, &r) {
                                (None, None) => {}
                                (Some(a), Some(b)) => {
                                    if a.row_major_iter().collect::<Vec<T>>() != b.iter().collect::<Vec<T>>()
                                        || (a.rows(), a.columns()) != (b.shape()[0].1, b.shape()[1].1)
                                    {
                                        return inconsistent(321);
                                    }
                                }
                                _ => return inconsistent(322),
                            }
                        }
                    }
                    let enc = opt(r.as_ref().map(|t| {
                        let data: Vec<T> = t.iter().collect();
                        l(vec![shape_sx(&t.shape()), rows_sx(&data, t.shape()[1].1)])
                    }));
                    ok(ok(l(vec![enc, z(taken)])))
                }
            }
        }
    };
    l(vec![m_res, t_res])
}

// ------------------------------------------------------------------------------------------
// FLOAT tier.  The exact tiers above compare the algorithm's SKELETON over fields where sqrt /
// exp / ln / cos / sin / pi are fixed polynomials; a change that keeps the skeleton's value on
// those stand-ins by accident, a float literal in place of `T::pi()`, a different libm routine
// or an f32-only path is visible only with the real functions.  Observables are rounding-robust:
// every value is compared with the closed form over the reals (the right-hand sides of
// C17_pdf_real, C17_draw_values_real, C17_mv_draw_real) evaluated in f64 on the SAME rounded
// inputs, within an explicit error budget in units of the type's unit roundoff.
// ------------------------------------------------------------------------------------------

trait Fl: Real + Copy + PartialEq + PartialOrd + std::fmt::Debug + std::ops::Neg<Output = Self> + std::ops::Sub<Output = Self> {
    /// unit roundoff (half the distance between 1 and the next number)
    const U: f64;
    /// results whose closed form is below this compare as "both below" (gradual underflow has
    /// no relative precision)
    const TINY: f64;
    fn parse(m: i64, e: i64) -> Option<Self>;
    fn f(self) -> f64;
    fn bits(self) -> u64;
}
impl Fl for f64 {
    const U: f64 = 1.1102230246251565e-16;
    const TINY: f64 = 1e-300;
    fn parse(m: i64, e: i64) -> Option<f64> {
        format!("{}e{}", m, e).parse::<f64>().ok().filter(|v| v.is_finite())
    }
    fn f(self) -> f64 {
        self
    }
    fn bits(self) -> u64 {
        self.to_bits()
    }
}
impl Fl for f32 {
    const U: f64 = 5.960464477539063e-8;
    const TINY: f64 = 1e-36;
    fn parse(m: i64, e: i64) -> Option<f32> {
        format!("{}e{}", m, e).parse::<f32>().ok().filter(|v| v.is_finite())
    }
    fn f(self) -> f64 {
        self as f64
    }
    fn bits(self) -> u64 {
        self.to_bits() as u64
    }
}

fn dec_me<T: Fl>(s: &Sx) -> Option<T> {
    let p = s.list()?;
    if p.len() != 2 {
        return None;
    }
    T::parse(p[0].i64()?, p[1].i64()?)
}
fn dec_me_list<T: Fl>(s: &Sx) -> Option<Vec<T>> {
    s.list()?.iter().map(dec_me::<T>).collect()
}
fn me_mantissa(s: &Sx) -> Option<i64> {
    s.list()?.first()?.i64()
}

/// `got` against the closed-form value `want` with the absolute error budget `budget`; values
/// that are not finite must be not finite on both sides in the same way
fn close(got: f64, want: f64, budget: f64) -> bool {
    if want.is_nan() {
        return got.is_nan();
    }
    if want.is_infinite() {
        return got == want;
    }
    (got - want).abs() <= budget
}

/// the Box-Muller pair of the source numbers (u, v) over the reals, in f64:
/// (r, r cos(2 pi v), r sin(2 pi v)) with r = sqrt(-2 ln u)
fn box_muller_f64(u: f64, v: f64) -> (f64, f64, f64) {
    let r = (-2.0 * u.ln()).sqrt();
    let a = 2.0 * std::f64::consts::PI * v;
    (r, r * a.cos(), r * a.sin())
}

fn float_tier<T>(op: i64, args: &[Sx]) -> Sx
where
    T: Fl,
    for<'a> &'a T: RealRef<T>,
{
    match (op, args.len()) {
        (6, 3) => {
            let (Some(mean), Some(var), Some(xs)) = (dec_me::<T>(&args[0]), dec_me::<T>(&args[1]), dec_me_list::<T>(&args[2]))
            else {
                return bad_case();
            };
            if !(me_mantissa(&args[1]).unwrap_or(0) > 0) || !(var.f() > 0.0) {
                return bad_case();
            }
            float_pdf::<T>(mean, var, &xs)
        }
        (7, 4) => {
            let (Some(mean), Some(var), Some(k), Some(src)) =
                (dec_me::<T>(&args[0]), dec_me::<T>(&args[1]), args[2].usize(), dec_me_list::<T>(&args[3]))
            else {
                return bad_case();
            };
            if !(me_mantissa(&args[1]).unwrap_or(0) > 0) || !(var.f() > 0.0) || k > 1 << 20 {
                return bad_case();
            }
            if args[3].list().is_some_and(|v| v.iter().any(|x| me_mantissa(x).unwrap_or(-1) < 0)) {
                return bad_case();
            }
            float_draw::<T>(mean, var, k, src)
        }
        (8, 4) => {
            let (Some(k), Some(mean), Some(cov_rows), Some(src)) =
                (args[0].usize(), dec_me_list::<T>(&args[1]), args[2].list(), dec_me_list::<T>(&args[3]))
            else {
                return bad_case();
            };
            let Some(cov) = cov_rows.iter().map(dec_me_list::<T>).collect::<Option<Vec<Vec<T>>>>() else {
                return bad_case();
            };
            let n = mean.len();
            if k == 0 || k > 1 << 16 || n == 0 || cov.len() != n || cov.iter().any(|r| r.len() != n) {
                return bad_case();
            }
            if args[3].list().is_some_and(|v| v.iter().any(|x| me_mantissa(x).unwrap_or(-1) < 0)) {
                return bad_case();
            }
            float_mv::<T>(k, mean, cov, src)
        }
        _ => bad_case(),
    }
}

/// op 6.  Flags: (1) every density within the budget of 1/sqrt(2 pi var) exp(-(x-mean)^2/(2 var));
/// (2) symmetric about the mean, bit for bit, wherever the mirror point is representable (x - mean
/// and mirror - mean are exact negations in T); (3) no density exceeds the density at the mean,
/// and that one is 1/sqrt(2 pi var) within the budget; (4) `map` and the struct-literal form
/// return the same bits.
fn float_pdf<T>(mean: T, var: T, xs: &[T]) -> Sx
where
    T: Fl,
    for<'a> &'a T: RealRef<T>,
{
    let g = Gaussian::<T>::new(mean, var);
    let (m, v) = (mean.f(), var.f());
    let norm = 1.0 / (2.0 * std::f64::consts::PI * v).sqrt();
    let at_mean = g.probability(&mean);
    let (mut closed, mut symmetric, mut maximal, mut forms) = (true, true, true, true);
    if !close(at_mean.f(), norm, 8.0 * T::U * norm) {
        maximal = false;
    }
    for x in xs {
        let p = g.probability(x);
        let d = x.f() - m;
        let y = -(d * d) / (2.0 * v);
        let want = norm * y.exp();
        // error budget in unit roundoffs U: the exponent y = -1/2 ((x - mean) / sd)^2 carries
        // 0.5 (difference) + 1 (sd, quotient) doubled by the square + 2 (pow) = 5 U relative,
        // which exp turns into 5 |y| U; exp itself 2, the normaliser 1 / (sd sqrt(2 pi)) 2.5, the
        // product 0.5: (5 + 5 |y|) U in all; 8 (1 + |y|) U leaves a factor 1.6
        if want < T::TINY {
            if !(p.f() >= 0.0 && p.f() <= 2.0 * T::TINY) {
                closed = false;
            }
        } else if !close(p.f(), want, 8.0 * (1.0 + y.abs()) * T::U * want) {
            closed = false;
        }
        if !(p.f() <= at_mean.f()) || !(p.f() >= 0.0) {
            maximal = false;
        }
        // the mirror point 2 mean - x, when representable
        let mirror = mean - (*x - mean);
        if (mirror - mean) == -(*x - mean) && g.probability(&mirror).bits() != p.bits() {
            symmetric = false;
        }
        #[allow(deprecated)]
        let p2 = g.map(x);
        let g2 = Gaussian::<T> { mean, variance: var };
        if p2.bits() != p.bits() || g2.probability(x).bits() != p.bits() {
            forms = false;
        }
    }
    l(vec![boolean(closed), boolean(symmetric), boolean(maximal), boolean(forms)])
}

/// op 7.  (present consumed values-ok): sample 2i is mean + sqrt(var) sqrt(-2 ln u) cos(2 pi v),
/// sample 2i+1 the same with sin, (u, v) the i-th source pair.
fn float_draw<T>(mean: T, var: T, k: usize, src: Vec<T>) -> Sx
where
    T: Fl,
    for<'a> &'a T: RealRef<T>,
{
    let g = Gaussian::<T>::new(mean, var);
    let mut source = Counting::new(src.clone());
    let r = g.draw(&mut source, k);
    let taken = source.taken;
    let rest: Vec<T> = source.collect();
    if rest.iter().map(|x| x.bits()).collect::<Vec<_>>() != src[taken..].iter().map(|x| x.bits()).collect::<Vec<_>>() {
        return inconsistent(701);
    }
    let mut values_ok = true;
    if let Some(samples) = &r {
        if samples.len() != k {
            return inconsistent(702);
        }
        let sd = var.f().sqrt();
        for (i, s) in samples.iter().enumerate() {
            let (u, v) = (src[2 * (i / 2)].f(), src[2 * (i / 2) + 1].f());
            let (rad, zc, zs) = box_muller_f64(u, v);
            let want = (if i % 2 == 0 { zc } else { zs }) * sd + mean.f();
            // budget in unit roundoffs U: the angle 2 pi v (the type's own pi 0.5, the product 0.5) is
            // off by <= 1 U |angle| <= 6.3 U, so cos / sin by <= 8.3 U absolutely (incl. their own 2);
            // the radius sqrt(-2 ln u) 1.5 relative, the products and sd 2: <= 12 U sd r; the final
            // sum 0.5 U (|mean| + sd r).  24 U sd r + 4 U |mean| leaves a factor 2
            let budget = T::U * (24.0 * sd * rad + 4.0 * mean.f().abs()) + f64::MIN_POSITIVE;
            if !close(s.f(), want, budget) {
                values_ok = false;
            }
        }
    }
    l(vec![boolean(r.is_some()), z(taken), boolean(values_ok)])
}

/// op 8.  (present consumed values-ok) of the TENSOR variant with names (d0, d1); the matrix
/// variant must return the same bits (801-803); a present draw must come with a factor L from the
/// crate's own Cholesky routine and row r = mean + L z_r, z_r the Box-Muller images of the r-th
/// block of 2 ceil(n / 2) source numbers (closed form in f64, L as the crate computed it).
fn float_mv<T>(k: usize, mean: Vec<T>, cov: Vec<Vec<T>>, src: Vec<T>) -> Sx
where
    T: Fl,
    for<'a> &'a T: RealRef<T>,
{
    let n = mean.len();
    let cov_flat: Vec<T> = cov.iter().flatten().cloned().collect();
    let cov_m = Matrix::from(cov.clone());
    let mean_m = Matrix::column(mean.clone());
    let gm = MultivariateGaussian::<T>::new(mean_m, cov_m.clone());
    let mut source_m = Counting::new(src.clone());
    let rm = gm.draw(&mut source_m, k);
    let Ok(gt) = MultivariateGaussianTensor::<T>::new(
        Tensor::from([(dim(7), n)], mean.clone()),
        Tensor::from([(dim(8), n), (dim(9), n)], cov_flat),
    ) else {
        return inconsistent(800);
    };
    let mut source_t = Counting::new(src.clone());
    let rt = gt.draw(&mut source_t, k, dim(0), dim(1));
    if source_m.taken != source_t.taken {
        return inconsistent(801);
    }
    match (&rm, &rt) {
        (None, None) => {}
        (Some(a), Some(b)) => {
            if a.row_major_iter().map(|x| x.bits()).collect::<Vec<_>>() != b.iter().map(|x| x.bits()).collect::<Vec<_>>()
                || b.shape() != [(dim(0), k), (dim(1), n)]
                || (a.rows(), a.columns()) != (k, n)
            {
                return inconsistent(802);
            }
        }
        _ => return inconsistent(803),
    }
    let taken = source_t.taken;
    let factor = easy_ml::linear_algebra::cholesky_decomposition::<T>(&cov_m);
    let mut values_ok = true;
    match (&rt, &factor) {
        (Some(_), None) => return inconsistent(804),
        (Some(t), Some(lower)) => {
            let w = 2 * ((n + 1) / 2);
            let data: Vec<T> = t.iter().collect();
            for r in 0..k {
                let mut zs = vec![(0.0, 0.0); n];
                for j in 0..n {
                    let (u, v) = (src[r * w + 2 * (j / 2)].f(), src[r * w + 2 * (j / 2) + 1].f());
                    let (rad, zc, zsn) = box_muller_f64(u, v);
                    zs[j] = (if j % 2 == 0 { zc } else { zsn }, rad);
                }
                for i in 0..n {
                    let mut want = mean[i].f();
                    let mut scale = 0.0;
                    for j in 0..n {
                        let lij = lower.get(i, j).f();
                        want += lij * zs[j].0;
                        scale += lij.abs() * zs[j].1;
                    }
                    // as for `float_draw` (sd = 1, mean = 0 for every z_j) plus the n-term inner product
                    let budget = T::U * ((24.0 + 2.0 * n as f64) * scale + 4.0 * mean[i].f().abs());
                    if !close(data[r * n + i].f(), want, budget + f64::MIN_POSITIVE) {
                        values_ok = false;
                    }
                }
            }
        }
        // absent although a factor exists: only when the source ran dry (the model decides)
        (None, Some(_)) => {
            if taken == 0 && src.len() >= k * 2 * ((n + 1) / 2) {
                return inconsistent(805);
            }
        }
        (None, None) => {
            if taken != 0 {
                return inconsistent(806);
            }
        }
    }
    l(vec![boolean(rt.is_some()), z(taken), boolean(values_ok)])
}
