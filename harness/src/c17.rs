//! C17: Gaussian density and draws, multivariate draws (matrix and tensor variants) on the exact
//! UF-field element types, counting how many source numbers every call consumes.
//!   (17 1 ty mean var x)                 -> value
//!   (17 2 ty mean var k source)          -> (option-list consumed)
//!   (17 3 ty k mean cov source (ns nf))  -> ( M T )   (see coq/theories/Run/RunC17.v), k >= 1
//!   (17 5 ty mean cov source (ns nf))    -> ( M T )   the same with k = 0 (known finding K1)
//!   (17 4 ty data)                       -> outcome (mean variance)
use crate::guarded;
use crate::num::{dec_list, enc_list, Enc};
use crate::sx::*;
use crate::with_ty;
use easy_ml::distributions::{
    Gaussian, MultivariateGaussian, MultivariateGaussianError, MultivariateGaussianTensor,
};
use easy_ml::matrices::Matrix;
use easy_ml::numeric::extra::{Real, RealRef};
use easy_ml::tensors::Tensor;

/// An iterator over a fixed list that counts how many items were taken from it.
struct Counting<T> {
    items: std::vec::IntoIter<T>,
    taken: usize,
}
impl<T> Counting<T> {
    fn new(v: Vec<T>) -> Self {
        Counting { items: v.into_iter(), taken: 0 }
    }
}
impl<T> Iterator for Counting<T> {
    type Item = T;
    fn next(&mut self) -> Option<T> {
        let r = self.items.next();
        if r.is_some() {
            self.taken += 1;
        }
        r
    }
}

pub fn run(args: &[Sx]) -> Sx {
    if args.len() < 2 {
        return bad_case();
    }
    let (Some(op), Some(ty)) = (args[0].i64(), args[1].i64()) else { return bad_case() };
    with_ty!(ty, go(op, &args[2..]))
}

fn dec_mat<T: Enc>(s: &Sx) -> Option<Vec<Vec<T>>> {
    let rows = s.list()?.iter().map(dec_list::<T>).collect::<Option<Vec<Vec<T>>>>()?;
    if rows.is_empty() || rows[0].is_empty() || rows.iter().any(|r| r.len() != rows[0].len()) {
        return None;
    }
    Some(rows)
}

fn rows_sx<T: Enc>(data: &[T], columns: usize) -> Sx {
    l(data.chunks(columns).map(|c| enc_list(c)).collect())
}

fn go<T>(op: i64, args: &[Sx]) -> Sx
where
    T: Real + Enc + PartialEq + std::fmt::Debug,
    for<'a> &'a T: RealRef<T>,
{
    match (op, args.len()) {
        (1, 3) => {
            let (Some(m), Some(v), Some(x)) = (T::dec(&args[0]), T::dec(&args[1]), T::dec(&args[2])) else {
                return bad_case();
            };
            let g = Gaussian::<T>::new(m.clone(), v.clone());
            let p = g.probability(&x);
            #[allow(deprecated)]
            let p2 = g.map(&x);
            if p != p2 {
                return inconsistent(101);
            }
            // the public fields are the parameters
            let g2 = Gaussian::<T> { mean: m, variance: v };
            if g2.clone().probability(&x) != p {
                return inconsistent(102);
            }
            p.enc()
        }
        (2, 4) => {
            let (Some(m), Some(v), Some(k), Some(src)) =
                (T::dec(&args[0]), T::dec(&args[1]), args[2].usize(), dec_list::<T>(&args[3]))
            else {
                return bad_case();
            };
            if k > 1 << 20 {
                return bad_case();
            }
            let g = Gaussian::<T>::new(m, v);
            let mut source = Counting::new(src.clone());
            let r = g.draw(&mut source, k);
            let taken = source.taken;
            // what is left in the source is exactly the unconsumed tail
            let rest: Vec<T> = source.collect();
            if rest[..] != src[taken..] {
                return inconsistent(201);
            }
            // the same call through a plain slice iterator agrees
            let mut plain = src.iter().cloned();
            let r2 = g.draw(&mut plain, k);
            if r2 != r || plain.count() != src.len() - taken {
                return inconsistent(202);
            }
            l(vec![opt(r.map(|v| enc_list(&v))), z(taken)])
        }
        (3, 5) => {
            let (Some(k), Some(mean), Some(cov), Some(src), Some(names)) = (
                args[0].usize(),
                dec_mat::<T>(&args[1]),
                dec_mat::<T>(&args[2]),
                dec_list::<T>(&args[3]),
                args[4].usizes(),
            ) else {
                return bad_case();
            };
            if names.len() != 2 || k > 1 << 16 || k == 0 {
                return bad_case();
            }
            mv::<T>(k, mean, cov, src, names[0], names[1])
        }
        (5, 4) => {
            let (Some(mean), Some(cov), Some(src), Some(names)) =
                (dec_mat::<T>(&args[0]), dec_mat::<T>(&args[1]), dec_list::<T>(&args[2]), args[3].usizes())
            else {
                return bad_case();
            };
            if names.len() != 2 {
                return bad_case();
            }
            mv::<T>(0, mean, cov, src, names[0], names[1])
        }
        (4, 1) => {
            let Some(data) = dec_list::<T>(&args[0]) else { return bad_case() };
            match guarded(|| Gaussian::<T>::approximating(data.iter().cloned())) {
                Some(g) => {
                    let g2 = guarded(|| Gaussian::<T>::approximating(data.clone().into_iter()));
                    match g2 {
                        Some(g2) if g2.mean == g.mean && g2.variance == g.variance => {}
                        _ => return inconsistent(401),
                    }
                    // an iterator without an exact size hint
                    let g3 = guarded(|| Gaussian::<T>::approximating(data.iter().cloned().filter(|_| true)));
                    match g3 {
                        Some(g3) if g3.mean == g.mean && g3.variance == g.variance => {}
                        _ => return inconsistent(402),
                    }
                    ok(l(vec![g.mean.enc(), g.variance.enc()]))
                }
                None => panicked(),
            }
        }
        _ => bad_case(),
    }
}

fn mv<T>(k: usize, mean: Vec<Vec<T>>, cov: Vec<Vec<T>>, src: Vec<T>, ns: usize, nf: usize) -> Sx
where
    T: Real + Enc + PartialEq + std::fmt::Debug,
    for<'a> &'a T: RealRef<T>,
{
    let mean_flat: Vec<T> = mean.iter().flatten().cloned().collect();
    let cov_flat: Vec<T> = cov.iter().flatten().cloned().collect();
    let (cr, cc) = (cov.len(), cov[0].len());

    // ---- matrix variant
    let mut matrix_draw: Option<(Option<Matrix<T>>, usize)> = None;
    let m_res = match guarded(|| MultivariateGaussian::<T>::new(Matrix::from(mean.clone()), Matrix::from(cov.clone()))) {
        None => panicked(),
        Some(g) => {
            if g.mean() != &Matrix::from(mean.clone()) || g.covariance() != &Matrix::from(cov.clone()) {
                return inconsistent(301);
            }
            let mut source = Counting::new(src.clone());
            let r = guarded(|| g.draw(&mut source, k));
            let taken = source.taken;
            match r {
                None => ok(panicked()),
                Some(r) => {
                    let rest: Vec<T> = source.collect();
                    if rest[..] != src[taken..] {
                        return inconsistent(302);
                    }
                    let enc = opt(r.as_ref().map(|m| {
                        let data: Vec<T> = m.row_major_iter().collect();
                        rows_sx(&data, m.columns())
                    }));
                    if let Some(m) = &r {
                        if m.rows() != k || m.columns() != mean.len() {
                            return inconsistent(303);
                        }
                    }
                    matrix_draw = Some((r, taken));
                    ok(ok(l(vec![enc, z(taken)])))
                }
            }
        }
    };

    // ---- tensor variant
    let mean_t = Tensor::from([(dim(7), mean_flat.len())], mean_flat.clone());
    let cov_t = Tensor::from([(dim(8), cr), (dim(9), cc)], cov_flat.clone());
    let t_res = match MultivariateGaussianTensor::<T>::new(mean_t.clone(), cov_t.clone()) {
        Err(e) if e.to_string().is_empty() || format!("{:?}", e).is_empty() => return inconsistent(309),
        Err(e) => match *e {
            MultivariateGaussianError::NotCovarianceMatrix { mean, covariance } => {
                if mean != mean_t || covariance != cov_t {
                    return inconsistent(310);
                }
                err(z(0))
            }
            MultivariateGaussianError::MeanVectorWrongLength { mean, covariance } => {
                if mean != mean_t || covariance != cov_t {
                    return inconsistent(311);
                }
                err(z(1))
            }
            _ => err(z(9)),
        },
        Ok(g) => {
            if g.mean() != &mean_t || g.covariance() != &cov_t {
                return inconsistent(312);
            }
            let mut source = Counting::new(src.clone());
            let r = guarded(|| g.draw(&mut source, k, dim(ns), dim(nf)));
            let taken = source.taken;
            // the mean / covariance tensors' OWN dimension names are not observable: every
            // renaming, including collisions with the draw's `samples` / `features` names, must
            // give the same outcome (same numbers, same shape, same consumption, same panic)
            for (mn, c0, c1) in [
                (nf, 8, 9),
                (ns, 8, 9),
                (7, ns, nf),
                (7, nf, ns),
                (nf, nf, ns),
                (ns, ns, nf),
                (nf, 8, nf),
                (ns, ns, 9),
            ] {
                if c0 == c1 {
                    continue;
                }
                let mean_r = Tensor::from([(dim(mn), mean_flat.len())], mean_flat.clone());
                let cov_r = Tensor::from([(dim(c0), cr), (dim(c1), cc)], cov_flat.clone());
                let Ok(g2) = MultivariateGaussianTensor::<T>::new(mean_r, cov_r) else {
                    return inconsistent(330);
                };
                let mut source2 = Counting::new(src.clone());
                let r2 = guarded(|| g2.draw(&mut source2, k, dim(ns), dim(nf)));
                if r2 != r || source2.taken != taken {
                    return inconsistent(331);
                }
            }
            match r {
                None => ok(panicked()),
                Some(r) => {
                    let rest: Vec<T> = source.collect();
                    if rest[..] != src[taken..] {
                        return inconsistent(313);
                    }
                    // both name choices: the swapped names give the same numbers
                    if ns != nf {
                        let mut source2 = Counting::new(src.clone());
                        let r2 = guarded(|| g.draw(&mut source2, k, dim(nf), dim(ns)));
                        match r2 {
                            None => return inconsistent(314),
                            Some(r2) => {
                                if source2.taken != taken {
                                    return inconsistent(315);
                                }
                                match (&r, &r2) {
                                    (None, None) => {}
                                    (Some(a), Some(b)) => {
                                        if a.iter().collect::<Vec<T>>() != b.iter().collect::<Vec<T>>()
                                            || b.shape() != [(dim(nf), a.shape()[0].1), (dim(ns), a.shape()[1].1)]
                                        {
                                            return inconsistent(316);
                                        }
                                    }
                                    _ => return inconsistent(317),
                                }
                            }
                        }
                        // the matrix and tensor variants agree
                        if let Some((mr, mtaken)) = &matrix_draw {
                            if *mtaken != taken {
                                return inconsistent(320);
                            }
                            match (mr, &r) {
                                (None, None) => {}
                                (Some(a), Some(b)) => {
                                    if a.row_major_iter().collect::<Vec<T>>() != b.iter().collect::<Vec<T>>()
                                        || (a.rows(), a.columns()) != (b.shape()[0].1, b.shape()[1].1)
                                    {
                                        return inconsistent(321);
                                    }
                                }
                                _ => return inconsistent(322),
                            }
                        }
                    }
                    let enc = opt(r.as_ref().map(|t| {
                        let data: Vec<T> = t.iter().collect();
                        l(vec![shape_sx(&t.shape()), rows_sx(&data, t.shape()[1].1)])
                    }));
                    ok(ok(l(vec![enc, z(taken)])))
                }
            }
        }
    };
    l(vec![m_res, t_res])
}
