//! Iterator SHAPES: one logical sequence of items handed to the crate through iterators that
//! differ in everything a consumer may (wrongly) rely on beside the items themselves - the
//! `size_hint`, fused-ness, exact-size / double-ended capabilities, the concrete type.
//! A crate function that takes an iterator must give the same observation for every shape of the
//! same logical sequence (see notes/ITERS.md for the per-site table).  Shapes 0..=15 keep the
//! numbering `c04/prog.rs::sum_shaped` introduced (round-4 seed C05-v1).
//!
//! HONEST shapes (`size_hint` is a true statement about the items that remain):
//!   0 vec::IntoIter (n, Some(n))         1 filter(|_| true) (0, Some(n))     2 custom hint (0, None)
//!   3 from_fn (0, None)                  4 chain(vec half, filtered half)    5 flat_map(Some) (0, None)
//!   6 take_while / skip_while            7 Box<dyn Iterator> over scan       8 custom hint (n, None)
//!   9 NOT FUSED: after its first None the iterator would yield one more item (a copy of the
//!     first item; a consumer must stop at the first None)
//!  10 `&mut iterator` (by_ref over a filter_map)
//!  16 custom hint (0, Some(n + 3)): honest, loose upper bound
//!  17 Peekable whose first item has already been peeked (exact hint, buffered head)
//!  18 VecDeque::into_iter (another exact-size, double-ended concrete type)
//! LYING shapes (`size_hint` is safe code and may be wrong; the items are still the logical
//! sequence.  A consumer that never consults the hint is unaffected; one that pre-allocates
//! `lower` elements panics with "capacity overflow" on 12 / 15 when the item type is not
//! zero-sized - see `lower_is_max`):
//!  11 (0, Some(0))   12 (usize::MAX, None)   13 (1, Some(1))   14 (n + 1, Some(n + 1))
//!  15 (usize::MAX, Some(usize::MAX))
//!
//! Use: `with_shape!(shape, items_vec, |it| consumer(it))` - `it` is bound to the concrete
//! iterator (so static dispatch, specialisations and `impl Trait` bounds are those a caller of
//! that shape would get); the body is expanded once per shape, keep it a call.
#![allow(dead_code, unused_macros, unused_imports)]

/// number of shapes (valid shape numbers are 0..SHAPES)
pub const SHAPES: u8 = 19;

pub fn is_lying(shape: u8) -> bool {
    (11..=15).contains(&shape)
}
pub fn is_honest(shape: u8) -> bool {
    shape < SHAPES && !is_lying(shape)
}
/// lying shapes whose LOWER bound is usize::MAX (a consumer doing `Vec::with_capacity(lower)` or
/// `collect()` panics with "capacity overflow" once it has seen a first item)
pub fn lower_is_max(shape: u8) -> bool {
    shape == 12 || shape == 15
}
/// lying shapes whose UPPER bound is smaller than the number of items (for n >= 2)
pub fn upper_too_small(shape: u8) -> bool {
    shape == 11 || shape == 13
}
pub const HONEST: [u8; 14] = [0, 1, 2, 3, 4, 5, 6, 7, 8, 9, 10, 16, 17, 18];
pub const LYING: [u8; 5] = [11, 12, 13, 14, 15];
/// lying shapes that are harmless to a consumer that pre-allocates from the lower bound
pub const LYING_SMALL: [u8; 3] = [11, 13, 14];

/// A cheap deterministic key of a case (FNV-1a of its printed form): used to SAMPLE the cases
/// that get every shape.
pub fn key_of(args: &[crate::sx::Sx]) -> u64 {
    let mut h: u64 = 0xcbf29ce484222325;
    for a in args {
        for b in a.to_string().bytes() {
            h = (h ^ b as u64).wrapping_mul(0x100000001b3);
        }
        h = (h ^ 0x20).wrapping_mul(0x100000001b3);
    }
    h
}

/// The shapes (other than the exact-size shape 0, which every site runs as its canonical form) a
/// case with this key runs: every case gets the two cheapest discriminating shapes - 1 (lower
/// bound 0) and 9 (not fused) - plus one shape that rotates with the key; every 7th key gets all.
/// `lying`: which lying shapes have a defined, canonical outcome at the site.
pub fn plan(key: u64, lying: &[u8]) -> Vec<u8> {
    // VERIF_NO_SHAPES=1 switches the extra shapes off (timing comparisons only)
    static OFF: std::sync::OnceLock<bool> = std::sync::OnceLock::new();
    if *OFF.get_or_init(|| std::env::var("VERIF_NO_SHAPES").is_ok()) {
        return vec![];
    }
    let all: Vec<u8> = HONEST.iter().chain(lying.iter()).copied().filter(|&s| s != 0).collect();
    if key % 7 == 0 {
        return all;
    }
    let mut v = vec![1u8, 9];
    let extra = all[(key / 7 % all.len() as u64) as usize];
    if !v.contains(&extra) {
        v.push(extra);
    }
    v
}

/// an iterator with a dictated `size_hint`
pub struct Hinted<I> {
    pub inner: I,
    pub hint: (usize, Option<usize>),
}
impl<I: Iterator> Iterator for Hinted<I> {
    type Item = I::Item;
    fn next(&mut self) -> Option<I::Item> {
        self.inner.next()
    }
    fn size_hint(&self) -> (usize, Option<usize>) {
        self.hint
    }
}
pub fn hinted<S>(items: Vec<S>, hint: (usize, Option<usize>)) -> Hinted<std::vec::IntoIter<S>> {
    Hinted { inner: items.into_iter(), hint }
}

/// yields `items`, then None ONCE, then `extra` (an iterator need not be fused)
pub struct NotFused<S> {
    pub items: std::vec::IntoIter<S>,
    pub extra: Option<S>,
    pub said_none: bool,
}
impl<S> Iterator for NotFused<S> {
    type Item = S;
    fn next(&mut self) -> Option<S> {
        if self.said_none {
            return self.extra.take();
        }
        let x = self.items.next();
        if x.is_none() {
            self.said_none = true;
        }
        x
    }
}
pub fn not_fused<S: Clone>(items: Vec<S>) -> NotFused<S> {
    let extra = items.first().cloned();
    NotFused { items: items.into_iter(), extra, said_none: false }
}
/// the not-fused shape with a given resurrected item (for sequences whose items cannot be cloned
/// or where the extra item should be recognisable)
pub fn not_fused_with<S>(items: Vec<S>, extra: S) -> NotFused<S> {
    NotFused { items: items.into_iter(), extra: Some(extra), said_none: false }
}

/// `with_shape!(shape, items, |it| body)`: evaluates `body` with `it` bound to the iterator of
/// shape `shape` over the `Vec` `items` (items must be `Clone` for shape 9).
macro_rules! with_shape {
    ($shape:expr, $items:expr, |$it:ident| $body:expr) => {{
        #[allow(unused_mut)]
        let mut shaped_items = $items;
        let shaped_n = shaped_items.len();
        match $shape {
            0 => {
                let $it = shaped_items.into_iter();
                $body
            }
            1 => {
                let $it = shaped_items.into_iter().filter(|_| true);
                $body
            }
            2 => {
                let $it = $crate::shapes::hinted(shaped_items, (0, None));
                $body
            }
            3 => {
                let mut shaped_inner = shaped_items.into_iter();
                let $it = std::iter::from_fn(move || shaped_inner.next());
                $body
            }
            4 => {
                let shaped_second = shaped_items.split_off(shaped_n / 2);
                let $it = shaped_items.into_iter().chain(shaped_second.into_iter().filter(|_| true));
                $body
            }
            5 => {
                let $it = shaped_items.into_iter().flat_map(Some);
                $body
            }
            6 => {
                let $it = shaped_items.into_iter().take_while(|_| true).skip_while(|_| false);
                $body
            }
            7 => {
                let $it: Box<dyn Iterator<Item = _> + '_> = Box::new(shaped_items.into_iter().scan((), |_, x| Some(x)));
                $body
            }
            8 => {
                let $it = $crate::shapes::hinted(shaped_items, (shaped_n, None));
                $body
            }
            9 => {
                let $it = $crate::shapes::not_fused(shaped_items);
                $body
            }
            10 => {
                let mut shaped_base = shaped_items.into_iter().filter_map(Some);
                let $it = shaped_base.by_ref();
                $body
            }
            11 => {
                let $it = $crate::shapes::hinted(shaped_items, (0, Some(0)));
                $body
            }
            12 => {
                let $it = $crate::shapes::hinted(shaped_items, (usize::MAX, None));
                $body
            }
            13 => {
                let $it = $crate::shapes::hinted(shaped_items, (1, Some(1)));
                $body
            }
            14 => {
                let $it = $crate::shapes::hinted(shaped_items, (shaped_n + 1, Some(shaped_n + 1)));
                $body
            }
            15 => {
                let $it = $crate::shapes::hinted(shaped_items, (usize::MAX, Some(usize::MAX)));
                $body
            }
            16 => {
                let $it = $crate::shapes::hinted(shaped_items, (0, Some(shaped_n + 3)));
                $body
            }
            17 => {
                #[allow(unused_mut)]
                let mut $it = shaped_items.into_iter().peekable();
                let _ = $it.peek();
                $body
            }
            _ => {
                let $it = std::collections::VecDeque::from(shaped_items).into_iter();
                $body
            }
        }
    }};
}
pub(crate) use with_shape;

/// the shaped sequence as a trait object (for sites where the static type does not matter);
/// shape 10 degrades to its underlying filter_map
pub fn boxed<'a, S: Clone + 'a>(shape: u8, items: Vec<S>) -> Box<dyn Iterator<Item = S> + 'a> {
    let n = items.len();
    match shape {
        0 => Box::new(items.into_iter()),
        1 => Box::new(items.into_iter().filter(|_| true)),
        2 => Box::new(hinted(items, (0, None))),
        3 => {
            let mut inner = items.into_iter();
            Box::new(std::iter::from_fn(move || inner.next()))
        }
        4 => {
            let mut first = items;
            let second = first.split_off(n / 2);
            Box::new(first.into_iter().chain(second.into_iter().filter(|_| true)))
        }
        5 => Box::new(items.into_iter().flat_map(Some)),
        6 => Box::new(items.into_iter().take_while(|_| true).skip_while(|_| false)),
        7 => Box::new(items.into_iter().scan((), |_, x| Some(x))),
        8 => Box::new(hinted(items, (n, None))),
        9 => Box::new(not_fused(items)),
        10 => Box::new(items.into_iter().filter_map(Some)),
        11 => Box::new(hinted(items, (0, Some(0)))),
        12 => Box::new(hinted(items, (usize::MAX, None))),
        13 => Box::new(hinted(items, (1, Some(1)))),
        14 => Box::new(hinted(items, (n + 1, Some(n + 1)))),
        15 => Box::new(hinted(items, (usize::MAX, Some(usize::MAX)))),
        16 => Box::new(hinted(items, (0, Some(n + 3)))),
        17 => {
            let mut it = items.into_iter().peekable();
            let _ = it.peek();
            Box::new(it)
        }
        _ => Box::new(std::collections::VecDeque::from(items).into_iter()),
    }
}

/// `Sum` through a shape (the C04 / C05 / C15 hand-off)
pub fn sum_shaped<S: std::iter::Sum<S> + Clone>(shape: u8, items: Vec<S>) -> S {
    with_shape!(shape, items, |it| it.sum())
}
