//! C16: fallible APIs over the whole usize domain (see coq/theories/Run/RunC16.v for the case
//! language). Every usize position receives boundary values up to usize::MAX.
// the dynamic view-term interpreter of C02 (term -> type-erased view through the REAL constructors)
#[allow(dead_code, unused_imports, unused_macros)]
#[path = "c02/build.rs"]
mod view_build;
// op 14: views over zero-sized-element leaves (dimension lengths up to usize::MAX in O(1) memory)
#[path = "c16/zst.rs"]
mod zst;

use crate::guarded;
use crate::sx::*;
use easy_ml::interop::TensorRefMatrix;
use easy_ml::matrices::views::{IndexRange, MatrixMut, MatrixRange, MatrixRef, MatrixReverse, MatrixView, Reverse};
use easy_ml::matrices::Matrix;
use easy_ml::tensors::views::{
    IndexRangeValidationError, StrictIndexRangeValidationError, TensorMask, TensorMut, TensorRange,
    TensorRef, TensorReverse,
};
use easy_ml::tensors::Tensor;

fn iota_tensor<const D: usize>(shape: [(&'static str, usize); D]) -> Tensor<i64, D> {
    let n: usize = shape.iter().map(|d| d.1).product();
    Tensor::from(shape, (0..n as i64).collect())
}

fn parse_debug_range(r: &IndexRange) -> Sx {
    // fields are crate-private: read them from the Debug text "IndexRange { start: a, length: b }"
    let s = format!("{:?}", r);
    let nums: Vec<u64> = s
        .split(|c: char| !c.is_ascii_digit())
        .filter(|t| !t.is_empty())
        .map(|t| t.parse().unwrap())
        .collect();
    l(vec![z(nums[0]), z(nums[1])])
}

fn lenient_err<const D: usize, const P: usize>(e: &IndexRangeValidationError<D, P>) -> Sx {
    match e {
        IndexRangeValidationError::InvalidDimensions(e) => {
            l(vec![z(0), names_sx(&e.provided_names()), names_sx(&e.valid_names())])
        }
        IndexRangeValidationError::InvalidShape(e) => l(vec![z(1), shape_sx(&e.shape())]),
    }
}
fn strict_err<const D: usize, const P: usize>(e: &StrictIndexRangeValidationError<D, P>) -> Sx {
    match e {
        StrictIndexRangeValidationError::OutsideShape { shape, index_range } => l(vec![
            z(2),
            shape_sx(shape),
            l(index_range.iter().map(|o| opt(o.as_ref().map(parse_debug_range))).collect()),
        ]),
        StrictIndexRangeValidationError::Error(e) => lenient_err(e),
    }
}

fn probes_sx<const D: usize, V: TensorRef<i64, D> + TensorMut<i64, D>>(
    view: &mut V,
    probes: &[Vec<usize>],
) -> Result<Sx, Sx> {
    let mut out = vec![];
    for p in probes {
        let p: [usize; D] = idx_arr(p);
        let r = guarded(|| view.get_reference(p).copied());
        let rm = guarded(|| view.get_reference_mut(p).map(|x| *x));
        if r != rm {
            return Err(inconsistent(1601));
        }
        match r {
            None => out.push(panicked()),
            Some(v) => {
                if let Some(x) = v {
                    if unsafe { *view.get_reference_unchecked(p) } != x {
                        return Err(inconsistent(1602));
                    }
                }
                out.push(ok(opt(v.map(z))))
            }
        }
    }
    Ok(l(out))
}

macro_rules! dispatch_dp {
    ($d:expr, $p:expr, $f:ident ( $($arg:expr),* )) => {
        match ($d, $p) {
            (1, 0) => $f::<1, 0>($($arg),*), (1, 1) => $f::<1, 1>($($arg),*), (1, 2) => $f::<1, 2>($($arg),*),
            (2, 0) => $f::<2, 0>($($arg),*), (2, 1) => $f::<2, 1>($($arg),*), (2, 2) => $f::<2, 2>($($arg),*), (2, 3) => $f::<2, 3>($($arg),*),
            (3, 0) => $f::<3, 0>($($arg),*), (3, 1) => $f::<3, 1>($($arg),*), (3, 2) => $f::<3, 2>($($arg),*), (3, 3) => $f::<3, 3>($($arg),*),
            _ => bad_case(),
        }
    };
}

fn range_case<const D: usize, const P: usize>(
    mask: bool,
    strict: bool,
    shape: &[(usize, usize)],
    ranges: &[(usize, usize, usize)],
    probes: &[Vec<usize>],
) -> Sx {
    let shape: [(&'static str, usize); D] = shape_arr(shape);
    let tensor = iota_tensor(shape);
    let named: [(&'static str, (usize, usize)); P] = std::array::from_fn(|k| (dim(ranges[k].0), (ranges[k].1, ranges[k].2)));
    // the same request through the [start, length] array conversion must behave identically
    let named_arr: [(&'static str, [usize; 2]); P] = std::array::from_fn(|k| (dim(ranges[k].0), [ranges[k].1, ranges[k].2]));
    macro_rules! go {
        ($ty:ident) => {{
            let mut source = tensor.clone();
            let mut source2 = tensor.clone();
            if strict {
                let a = guarded(|| $ty::from_strict(&mut source, named).map(|mut v| (v.view_shape(), probes_sx(&mut v, probes))));
                let b = guarded(|| $ty::from_strict(&mut source2, named_arr).map(|mut v| (v.view_shape(), probes_sx(&mut v, probes))));
                match (a, b) {
                    (None, None) => panicked(),
                    (Some(Ok((s1, p1))), Some(Ok((s2, p2)))) => {
                        if s1 != s2 || p1 != p2 { return inconsistent(1603); }
                        match p1 { Ok(p) => ok(l(vec![shape_sx(&s1), p])), Err(e) => e }
                    }
                    (Some(Err(e1)), Some(Err(e2))) => {
                        if strict_err(&e1) != strict_err(&e2) { return inconsistent(1604); }
                        err(strict_err(&e1))
                    }
                    _ => inconsistent(1605),
                }
            } else {
                let a = guarded(|| $ty::from(&mut source, named).map(|mut v| (v.view_shape(), probes_sx(&mut v, probes))));
                let b = guarded(|| $ty::from(&mut source2, named_arr).map(|mut v| (v.view_shape(), probes_sx(&mut v, probes))));
                match (a, b) {
                    (None, None) => panicked(),
                    (Some(Ok((s1, p1))), Some(Ok((s2, p2)))) => {
                        if s1 != s2 || p1 != p2 { return inconsistent(1603); }
                        match p1 { Ok(p) => ok(l(vec![shape_sx(&s1), p])), Err(e) => e }
                    }
                    (Some(Err(e1)), Some(Err(e2))) => {
                        if lenient_err(&e1) != lenient_err(&e2) { return inconsistent(1604); }
                        err(lenient_err(&e1))
                    }
                    _ => inconsistent(1605),
                }
            }
        }};
    }
    if mask { go!(TensorMask) } else { go!(TensorRange) }
}

fn reverse_case<const D: usize>(shape: &[(usize, usize)], names: &[usize], probes: &[Vec<usize>]) -> Sx {
    let shape: [(&'static str, usize); D] = shape_arr(shape);
    let mut tensor = iota_tensor(shape);
    let names: Vec<&'static str> = names.iter().map(|&n| dim(n)).collect();
    let r = guarded(|| {
        let mut v = TensorReverse::from(&mut tensor, &names);
        probes_sx(&mut v, probes)
    });
    match r {
        None => panicked(),
        Some(Ok(p)) => ok(p),
        Some(Err(e)) => e,
    }
}

fn iota_matrix(rows: usize, cols: usize) -> Matrix<i64> {
    Matrix::from_flat_row_major((rows, cols), (0..(rows * cols) as i64).collect())
}

fn r4(s: &Sx) -> Option<[usize; 4]> {
    let v = s.usizes()?;
    if v.len() != 4 {
        return None;
    }
    Some([v[0], v[1], v[2], v[3]])
}
fn pairs(s: &Sx) -> Option<Vec<(usize, usize)>> {
    s.pairs_usize()
}

fn mget<S: MatrixRef<i64> + MatrixMut<i64>>(view: &mut S, row: usize, col: usize) -> Result<Sx, Sx> {
    let r = guarded(|| view.try_get_reference(row, col).copied());
    let rm = guarded(|| view.try_get_reference_mut(row, col).map(|x| *x));
    if r != rm {
        return Err(inconsistent(1610));
    }
    match r {
        None => Ok(panicked()),
        Some(v) => {
            if let Some(x) = v {
                if unsafe { *view.get_reference_unchecked(row, col) } != x {
                    return Err(inconsistent(1611));
                }
            }
            Ok(ok(opt(v.map(z))))
        }
    }
}

/// op 12: every view adaptor (and composition) as the RECEIVER of the checked getters.
/// Result: (0 (shape (probe ...))) with probe = (0 ()) absent | (0 (value)) present | (2) panic,
/// or the first failing constructor's (1 e) / (2).
fn adaptor_case(term: &Sx, probes: &[Vec<usize>]) -> Sx {
    use view_build::{build, leaf_ids, AnyView, Arena, E};
    let mut ids = vec![];
    if !leaf_ids(term, &mut ids) {
        return bad_case();
    }
    let mut sorted = ids.clone();
    sorted.sort();
    sorted.dedup();
    if sorted.len() != ids.len() {
        return bad_case();
    }
    let mut arena = Arena::new();
    let view = match build(term, &mut arena) {
        Ok(v) => v,
        Err(failure) => return failure,
    };
    fn shared<S: TensorRef<E, D>, const D: usize>(view: &S, probes: &[Vec<usize>]) -> Result<(Sx, Vec<Sx>), Sx> {
        use easy_ml::tensors::indexing::TensorAccess;
        use easy_ml::tensors::views::TensorView;
        let shape = view.view_shape();
        let names = shape.map(|d| d.0);
        let mut out = vec![];
        for p in probes {
            if p.len() != D {
                return Err(bad_case());
            }
            let p: [usize; D] = idx_arr(p);
            let r = guarded(|| view.get_reference(p).map(|x| x.0));
            // every layered fallible form must give the same answer (and not panic either)
            let acc = guarded(|| TensorAccess::from_source_order(view).try_get_reference(p).map(|x| x.0));
            let by_name = guarded(|| {
                TensorAccess::try_from(view, names).ok().and_then(|a| a.try_get_reference(p).map(|x| x.0))
            });
            let tv = guarded(|| TensorView::from(view).index_by(names).try_get_reference(p).map(|x| x.0));
            let boxed: Box<&S> = Box::new(view);
            let via_box = guarded(|| boxed.get_reference(p).map(|x| x.0));
            if acc != r || by_name != r || tv != r || via_box != r {
                return Err(inconsistent(1640));
            }
            match r {
                None => out.push(panicked()),
                Some(v) => {
                    let inside = (0..D).all(|d| p[d] < shape[d].1);
                    if v.is_some() != inside {
                        // presence must be exactly "inside the reported shape"; reported as a
                        // distinct value so that the model comparison shows it
                        out.push(l(vec![z(3), opt(v.map(z))]));
                    } else {
                        out.push(ok(opt(v.map(z))))
                    }
                }
            }
        }
        Ok((shape_sx(&shape), out))
    }
    fn mutable<S: TensorMut<E, D>, const D: usize>(mut view: S, probes: &[Vec<usize>]) -> Sx {
        let (shape, out) = match shared::<S, D>(&view, probes) {
            Ok(x) => x,
            Err(e) => return e,
        };
        for (p, o) in probes.iter().zip(out.iter()) {
            let p: [usize; D] = idx_arr(p);
            let rm = guarded(|| view.get_reference_mut(p).map(|x| x.0));
            let expect = match rm {
                None => panicked(),
                Some(v) => ok(opt(v.map(z))),
            };
            if &expect != o && o.list().and_then(|x| x[0].i64()) != Some(3) {
                return inconsistent(1641);
            }
        }
        ok(l(vec![shape, l(out)]))
    }
    fn readonly<S: TensorRef<E, D>, const D: usize>(view: S, probes: &[Vec<usize>]) -> Sx {
        match shared::<S, D>(&view, probes) {
            Ok((shape, out)) => ok(l(vec![shape, l(out)])),
            Err(e) => e,
        }
    }
    match view {
        AnyView::M(m) => {
            use view_build::fam_mut::{Dyn, DynView};
            match m {
                DynView::D0(v) => mutable::<Dyn<0>, 0>(v, probes),
                DynView::D1(v) => mutable::<Dyn<1>, 1>(v, probes),
                DynView::D2(v) => mutable::<Dyn<2>, 2>(v, probes),
                DynView::D3(v) => mutable::<Dyn<3>, 3>(v, probes),
                DynView::D4(v) => mutable::<Dyn<4>, 4>(v, probes),
                DynView::D5(v) => mutable::<Dyn<5>, 5>(v, probes),
                DynView::D6(v) => mutable::<Dyn<6>, 6>(v, probes),
            }
        }
        AnyView::R(r) => {
            use view_build::fam_ref::{Dyn, DynView};
            match r {
                DynView::D0(v) => readonly::<Dyn<0>, 0>(v, probes),
                DynView::D1(v) => readonly::<Dyn<1>, 1>(v, probes),
                DynView::D2(v) => readonly::<Dyn<2>, 2>(v, probes),
                DynView::D3(v) => readonly::<Dyn<3>, 3>(v, probes),
                DynView::D4(v) => readonly::<Dyn<4>, 4>(v, probes),
                DynView::D5(v) => readonly::<Dyn<5>, 5>(v, probes),
                DynView::D6(v) => readonly::<Dyn<6>, 6>(v, probes),
            }
        }
    }
}

/// op 13: RecordTensor / RecordMatrix ::from_iter and ::from_iters::<N> over streams of records
/// given by history tags (0 constant, 1 / 2 variables of two different WengertLists)
fn collect_case<const D: usize>(matrix: bool, shape: &[(usize, usize)], streams: &[Vec<usize>]) -> Sx {
    use easy_ml::differentiation::iterators::InvalidRecordIteratorError as E;
    use easy_ml::differentiation::{Record, RecordMatrix, RecordTensor, WengertList};
    let lists = [WengertList::<f64>::new(), WengertList::<f64>::new()];
    // a few entries first, so that index 0 of a list is not the only variable
    let _warm: Vec<Record<f64>> = lists.iter().map(|l| Record::variable(9.0, l)).collect();
    let tag = |h: Option<&WengertList<f64>>| -> usize {
        match h {
            None => 0,
            Some(l) if std::ptr::eq(l, &lists[0]) => 1,
            Some(l) if std::ptr::eq(l, &lists[1]) => 2,
            Some(_) => 99,
        }
    };
    let record = |t: usize, i: usize| -> Record<f64> {
        match t {
            0 => Record::constant(i as f64),
            k => Record::variable(i as f64, &lists[k - 1]),
        }
    };
    let len = streams[0].len();
    let shape_t: [(&'static str, usize); D] = shape_arr(shape);
    fn enc_err<const DD: usize>(
        e: &easy_ml::differentiation::iterators::InvalidRecordIteratorError<f64, DD>,
        matrix: bool,
        tag: &dyn Fn(Option<&easy_ml::differentiation::WengertList<f64>>) -> usize,
    ) -> Sx {
        use easy_ml::differentiation::iterators::InvalidRecordIteratorError as E;
        // the Display text must name the same things as the value
        let shown = e.to_string();
        match e {
            E::Empty => err(l(vec![z(0)])),
            E::Shape { requested, length } => {
                if !shown.contains(&length.to_string()) {
                    return inconsistent(1652);
                }
                let s = requested.shape();
                let sh: Vec<(usize, usize)> = if matrix {
                    vec![(0, s[0].1), (1, s[1].1)]
                } else {
                    s.iter().map(|d| (undim(d.0), d.1)).collect()
                };
                err(l(vec![z(1), l(sh.iter().map(|d| l(vec![z(d.0), z(d.1)])).collect()), z(*length)]))
            }
            E::InconsistentHistory(h) => err(l(vec![z(2), z(tag(h.first)), z(tag(h.later))])),
        }
    }
    macro_rules! results {
        ($ty:ident, $cty:ty, $dd:tt, $size:expr, |$cv:ident| $view_shape:expr) => {{
            let enc = |r: Result<$cty, E<f64, $dd>>| -> Sx {
                match r {
                    Ok($cv) => ok(l(vec![$view_shape, z(tag($cv.history()))])),
                    Err(e) => enc_err::<$dd>(&e, matrix, &tag),
                }
            };
            let mut out: Vec<Sx> = vec![];
            match streams.len() {
                1 => {
                    let a = guarded(|| $ty::from_iters::<_, 1>($size, (0..len).map(|i| [record(streams[0][i], i)])));
                    let Some([a]) = a else { return panicked() };
                    out.push(enc(a));
                }
                2 => {
                    let a = guarded(|| {
                        $ty::from_iters::<_, 2>($size, (0..len).map(|i| [record(streams[0][i], i), record(streams[1][i], i)]))
                    });
                    let Some([a, b]) = a else { return panicked() };
                    out.push(enc(a));
                    out.push(enc(b));
                }
                _ => {
                    let a = guarded(|| {
                        $ty::from_iters::<_, 3>(
                            $size,
                            (0..len).map(|i| [record(streams[0][i], i), record(streams[1][i], i), record(streams[2][i], i)]),
                        )
                    });
                    let Some([a, b, c]) = a else { return panicked() };
                    out.push(enc(a));
                    out.push(enc(b));
                    out.push(enc(c));
                }
            }
            // every stream on its own through from_iter must give the same answer
            for (k, t) in streams.iter().enumerate() {
                let one = guarded(|| $ty::from_iter($size, (0..len).map(|i| record(t[i], i))));
                let Some(one) = one else { return panicked() };
                if enc(one) != out[k] {
                    return inconsistent(1650);
                }
            }
            // iterator SHAPES (crate::shapes, notes/ITERS.md): the same streams handed over as
            // lower-bound-0 / custom-hint / not-fused / boxed / by-ref iterators and with small lying
            // hints must give the same results (1660 + shape from_iter, 1680 + shape from_iters); both
            // entry points size a Vec from the LOWER bound, so with a lying lower bound of usize::MAX
            // (shapes 12 / 15) a "capacity overflow" panic is accepted instead (16100 + shape otherwise)
            {
                let key = ((len as u64) * 31 + (streams.len() as u64) * 7)
                    .wrapping_add(streams.iter().flatten().fold(0u64, |h, &t| h.wrapping_mul(3).wrapping_add(t as u64)))
                    .wrapping_add(shape.iter().fold(0u64, |h, d| h.wrapping_mul(5).wrapping_add(d.1 as u64)));
                let mut plan = crate::shapes::plan(key, &crate::shapes::LYING_SMALL);
                if key % 7 == 0 {
                    plan.extend([12u8, 15]);
                }
                for shape_no in plan {
                    let lax = crate::shapes::lower_is_max(shape_no);
                    let bad = |base: i64| inconsistent(if lax { 16100 } else { base } + shape_no as i64);
                    for (k, t) in streams.iter().enumerate() {
                        let items: Vec<Record<f64>> = (0..len).map(|i| record(t[i], i)).collect();
                        let one = crate::shapes::with_shape!(shape_no, items, |it| guarded(|| $ty::from_iter($size, it)));
                        match one {
                            Some(one) => {
                                if enc(one) != out[k] {
                                    return bad(1660);
                                }
                            }
                            None => {
                                if !lax {
                                    return bad(1660);
                                }
                            }
                        }
                    }
                    macro_rules! shaped_n {
                        ($n:tt) => {{
                            let rows: Vec<[Record<f64>; $n]> =
                                (0..len).map(|i| std::array::from_fn(|k| record(streams[k][i], i))).collect();
                            crate::shapes::with_shape!(shape_no, rows, |it| guarded(|| $ty::from_iters::<_, $n>($size, it)))
                                .map(|a| a.into_iter().map(&enc).collect::<Vec<Sx>>())
                        }};
                    }
                    let all = match streams.len() {
                        1 => shaped_n!(1),
                        2 => shaped_n!(2),
                        _ => shaped_n!(3),
                    };
                    match all {
                        Some(v) => {
                            if v != out {
                                return bad(1680);
                            }
                        }
                        None => {
                            if !lax {
                                return bad(1680);
                            }
                        }
                    }
                }
            }
            l(out)
        }};
    }
    if matrix {
        use easy_ml::matrices::views::MatrixRef;
        if D != 2 {
            return bad_case();
        }
        let size = (shape[0].1, shape[1].1);
        results!(RecordMatrix, RecordMatrix<'_, f64, Matrix<(f64, usize)>>, 2, size, |c| l(vec![
            l(vec![z(0), z(c.view_rows())]),
            l(vec![z(1), z(c.view_columns())])
        ]))
    } else {
        results!(RecordTensor, RecordTensor<'_, f64, Tensor<(f64, usize), D>, D>, D, shape_t, |c| shape_sx(&c.view_shape()))
    }
}

pub fn run(args: &[Sx]) -> Sx {
    let Some(op) = args.first().and_then(|x| x.i64()) else { return bad_case() };
    match (op, args.len()) {
        (13, 4) => {
            let (Some(kind), Some(shape), Some(streams)) = (
                args[1].bool(),
                args[2].pairs_usize(),
                args[3].list().and_then(|v| v.iter().map(|x| x.usizes()).collect::<Option<Vec<_>>>()),
            ) else {
                return bad_case();
            };
            let n = streams.len();
            if n == 0 || n > 3 || streams.iter().any(|t| t.len() != streams[0].len() || t.iter().any(|&h| h > 2)) || streams[0].len() > 4096 {
                return bad_case();
            }
            if kind {
                if shape.len() != 2 || shape[0].0 != 0 || shape[1].0 != 1 {
                    return bad_case();
                }
                collect_case::<2>(true, &shape, &streams)
            } else {
                crate::with_d!(shape.len(), collect_case(false, &shape, &streams))
            }
        }
        (12, 3) => {
            let Some(probes) = args[2].list().and_then(|p| p.iter().map(|x| x.usizes()).collect::<Option<Vec<_>>>()) else {
                return bad_case();
            };
            adaptor_case(&args[1], &probes)
        }
        (14, 3) => {
            let Some(probes) = args[2].list().and_then(|p| p.iter().map(|x| x.usizes()).collect::<Option<Vec<_>>>()) else {
                return bad_case();
            };
            zst::zst_case(&args[1], &probes)
        }
        (1, 3) => {
            let (Some(shape), Some(len)) = (args[1].pairs_usize(), args[2].usize()) else { return bad_case() };
            if len > 1 << 16 {
                return bad_case();
            }
            fn go<const D: usize>(shape: &[(usize, usize)], len: usize) -> Sx {
                let shape: [(&'static str, usize); D] = shape_arr(shape);
                match guarded(|| Tensor::try_from(shape, (0..len as i64).collect::<Vec<i64>>())) {
                    None => panicked(),
                    Some(Ok(t)) => l(vec![z(0), shape_sx(&t.shape())]),
                    Some(Err(e)) => l(vec![z(1), shape_sx(&e.shape())]),
                }
            }
            crate::with_d!(shape.len(), go(&shape, len))
        }
        (2, 5) | (3, 5) => {
            let (Some(strict), Some(shape), Some(rs), Some(probes)) = (
                args[1].bool(),
                args[2].pairs_usize(),
                args[3].list().and_then(|v| {
                    v.iter()
                        .map(|x| {
                            let t = x.usizes()?;
                            if t.len() == 3 { Some((t[0], t[1], t[2])) } else { None }
                        })
                        .collect::<Option<Vec<_>>>()
                }),
                args[4].list().and_then(|p| p.iter().map(|x| x.usizes()).collect::<Option<Vec<_>>>()),
            ) else {
                return bad_case();
            };
            if probes.iter().any(|p| p.len() != shape.len()) {
                return bad_case();
            }
            dispatch_dp!(shape.len(), rs.len(), range_case(op == 3, strict, &shape, &rs, &probes))
        }
        (4, 4) => {
            let (Some(shape), Some(names), Some(probes)) = (
                args[1].pairs_usize(),
                args[2].usizes(),
                args[3].list().and_then(|p| p.iter().map(|x| x.usizes()).collect::<Option<Vec<_>>>()),
            ) else {
                return bad_case();
            };
            if probes.iter().any(|p| p.len() != shape.len()) {
                return bad_case();
            }
            crate::with_d!(shape.len(), reverse_case(&shape, &names, &probes))
        }
        (5, 5) => {
            let (Some(rows), Some(cols), Some(r), Some(probes)) = (args[1].usize(), args[2].usize(), r4(&args[3]), pairs(&args[4])) else {
                return bad_case();
            };
            let mut m = iota_matrix(rows, cols);
            let mut out = vec![];
            for (row, col) in probes {
                let res = guarded(|| {
                    let mut v = MatrixRange::from(&mut m, (r[0], r[1]), (r[2], r[3]));
                    let size = (v.view_rows(), v.view_columns());
                    (size, mget(&mut v, row, col))
                });
                match res {
                    None => out.push(panicked()),
                    Some((_, Err(e))) => return e,
                    Some(((vr, vc), Ok(g))) => {
                        // g is (0 opt) or (2)
                        match g.list().map(|x| x.len()) {
                            Some(2) => out.push(ok(l(vec![z(vr), z(vc), g.list().unwrap()[1].clone()]))),
                            _ => out.push(panicked()),
                        }
                    }
                }
            }
            l(out)
        }
        (6, 7) => {
            let (Some(rows), Some(cols), Some(r), Some(rrev), Some(crev), Some(probes)) =
                (args[1].usize(), args[2].usize(), r4(&args[3]), args[4].bool(), args[5].bool(), pairs(&args[6]))
            else {
                return bad_case();
            };
            let mut m = iota_matrix(rows, cols);
            let mut out = vec![];
            for (row, col) in probes {
                let res = guarded(|| {
                    let range = MatrixRange::from(&mut m, (r[0], r[1]), (r[2], r[3]));
                    let mut v = MatrixReverse::from(range, Reverse { rows: rrev, columns: crev });
                    mget(&mut v, row, col)
                });
                match res {
                    None => out.push(panicked()),
                    Some(Err(e)) => return e,
                    Some(Ok(g)) => out.push(g),
                }
            }
            l(out)
        }
        (7, 6) => {
            let (Some(rows), Some(cols), Some(r), Some(n0), Some(n1)) =
                (args[1].usize(), args[2].usize(), r4(&args[3]), args[4].usize(), args[5].usize())
            else {
                return bad_case();
            };
            let m = iota_matrix(rows, cols);
            let res = guarded(|| {
                let range = MatrixRange::from(&m, (r[0], r[1]), (r[2], r[3]));
                match TensorRefMatrix::with_names(range, [dim(n0), dim(n1)]) {
                    Ok(t) => ok(shape_sx(&t.view_shape())),
                    Err(e) => err(shape_sx(&e.shape())),
                }
            });
            res.unwrap_or_else(panicked)
        }
        (8, 3) => {
            let (Some(rows), Some(cols)) = (args[1].usize(), args[2].usize()) else { return bad_case() };
            if rows == 0 || cols == 0 || rows * cols > 1 << 12 {
                return bad_case();
            }
            let m = iota_matrix(rows, cols);
            let v = MatrixView::from(m.clone());
            let _ = v;
            match guarded(|| m.try_into_scalar()) {
                None => panicked(),
                Some(Ok(x)) => ok(z(x)),
                Some(Err(_)) => err(nil()),
            }
        }
        (10, 4) => {
            use easy_ml::differentiation::{Record, RecordMatrix};
            use easy_ml::differentiation::iterators::InvalidRecordIteratorError as E;
            let (Some(rows), Some(cols), Some(n)) = (args[1].usize(), args[2].usize(), args[3].usize()) else { return bad_case() };
            if n > 1 << 12 {
                return bad_case();
            }
            let records = || (0..n).map(|i| Record::constant(i as f64));
            let enc = |r: Result<RecordMatrix<'static, f64, Matrix<(f64, usize)>>, E<'static, f64, 2>>| match r {
                Ok(m) => { use easy_ml::matrices::views::MatrixRef; l(vec![z(0), l(vec![z(m.view_rows()), z(m.view_columns())])]) }
                Err(E::Empty) => l(vec![z(1), l(vec![z(0)])]),
                Err(E::Shape { requested, length }) => {
                    let s = requested.shape();
                    l(vec![z(1), l(vec![z(1), z(s[0].1), z(s[1].1), z(length)])])
                }
                Err(E::InconsistentHistory(_)) => l(vec![z(1), l(vec![z(2)])]),
            };
            let one = match guarded(|| RecordMatrix::from_iter((rows, cols), records())) {
                None => return panicked(),
                Some(r) => enc(r),
            };
            let two = match guarded(|| RecordMatrix::from_iters::<_, 2>((rows, cols), records().map(|r| [r.clone(), r]))) {
                None => return panicked(),
                Some([a, b]) => (enc(a), enc(b)),
            };
            if two.0 != one || two.1 != one {
                return inconsistent(1630);
            }
            one
        }
        (11, 3) => {
            use easy_ml::differentiation::{Record, RecordTensor};
            use easy_ml::differentiation::iterators::InvalidRecordIteratorError as E;
            let (Some(shape), Some(n)) = (args[1].pairs_usize(), args[2].usize()) else { return bad_case() };
            if n > 1 << 12 {
                return bad_case();
            }
            fn go<const D: usize>(shape: &[(usize, usize)], n: usize) -> Sx {
                let shape: [(&'static str, usize); D] = shape_arr(shape);
                let records = (0..n).map(|i| Record::constant(i as f64));
                match guarded(|| RecordTensor::from_iter(shape, records)) {
                    None => panicked(),
                    Some(Ok(t)) => l(vec![z(0), shape_sx(&t.view_shape())]),
                    Some(Err(E::Empty)) => l(vec![z(1), l(vec![z(0)])]),
                    Some(Err(E::Shape { requested, length })) => l(vec![z(1), l(vec![z(1), shape_sx(&requested.shape()), z(length)])]),
                    Some(Err(E::InconsistentHistory(_))) => l(vec![z(1), l(vec![z(2)])]),
                }
            }
            crate::with_d!(shape.len(), go(&shape, n))
        }
        (9, 4) => {
            let (Some(rows), Some(cols), Some(probes)) = (args[1].usize(), args[2].usize(), pairs(&args[3])) else {
                return bad_case();
            };
            if rows == 0 || cols == 0 || rows * cols > 1 << 12 {
                return bad_case();
            }
            let mut m = iota_matrix(rows, cols);
            let mut out = vec![];
            for (row, col) in probes {
                // the Matrix itself
                let direct = match mget(&mut m, row, col) { Ok(g) => g, Err(e) => return e };
                // through MatrixView, an unreversed MatrixReverse and the tensor wrapper
                let mut view = MatrixView::from(&mut m);
                let r2 = guarded(|| view.try_get_reference(row, col).copied());
                let r3 = guarded(|| view.try_get_reference_mut(row, col).map(|x| *x));
                let mut rev = MatrixReverse::from(&mut m, Reverse { rows: false, columns: false });
                let via_rev = match mget(&mut rev, row, col) { Ok(g) => g, Err(e) => return e };
                let wrapped = TensorRefMatrix::from(&m).unwrap();
                let r4 = guarded(|| wrapped.get_reference([row, col]).copied());
                let as_sx = |r: Option<Option<i64>>| match r { None => panicked(), Some(v) => ok(opt(v.map(z))) };
                if as_sx(r2) != direct || as_sx(r3) != direct || via_rev != direct || as_sx(r4) != direct {
                    return inconsistent(1620);
                }
                out.push(direct);
            }
            l(out)
        }
        _ => bad_case(),
    }
}
